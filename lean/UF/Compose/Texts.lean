import UF.Compose.NetRules
import UF.Proofs.EngineDns
/-
  Composition: the reference answer depends only on the SET OF TEXTS of the accepted network rules — not on
  how the lines are distributed over lists, on list ids, order, multiplicities, noise lines or line ends.
-/
namespace UF.Compose
open UF UF.B UF.Storage

/-- `Match` never reads the list id. -/
theorem matches_setID (ext : Ext) (i : Int) (r : NetRule) (q : Request) :
    (setID i r).matches ext q = r.matches ext q := rfl

theorem specRules_net_parse {px : E.ParseExt} {lists : List RList} {r : NetRule}
    (h : r ∈ netRulesOf (specRules px lists)) : E.parseNetRule px r.text r.listID = .ok r := by
  rw [← storageNetRules_eq_spec] at h
  obtain ⟨⟨r', i⟩, hm, rfl⟩ := List.mem_map.1 h
  exact (storageNetRules_parse hm).1

/-- The texts the reference reports, for two storages whose accepted network rules carry the same texts. -/
theorem specMatchAll_texts_congr (px : E.ParseExt) (lists lists' : List RList) (q : Request)
    (h : ∀ t, t ∈ (netRulesOf (specRules px lists)).map (·.text) ↔ t ∈ (netRulesOf (specRules px lists')).map (·.text))
    (t : Bytes) :
    t ∈ (specMatchAll px.ext (netRulesOf (specRules px lists)) q).map (·.text) ↔
    t ∈ (specMatchAll px.ext (netRulesOf (specRules px lists')) q).map (·.text) := by
  have key : ∀ (A B : List RList),
      (∀ t, t ∈ (netRulesOf (specRules px A)).map (·.text) → t ∈ (netRulesOf (specRules px B)).map (·.text)) →
      t ∈ (specMatchAll px.ext (netRulesOf (specRules px A)) q).map (·.text) →
      t ∈ (specMatchAll px.ext (netRulesOf (specRules px B)) q).map (·.text) := by
    intro A B hAB ht
    obtain ⟨r, hr, rfl⟩ := List.mem_map.1 ht
    obtain ⟨hrA, hm⟩ := List.mem_filter.1 hr
    obtain ⟨r', hr', he⟩ := List.mem_map.1 (hAB r.text (List.mem_map.2 ⟨r, hrA, rfl⟩))
    have hs := parse_same_text (specRules_net_parse hrA) (specRules_net_parse hr') he.symm
    refine List.mem_map.2 ⟨r', List.mem_filter.2 ⟨hr', ?_⟩, he⟩
    rw [hs]
    exact hm
  exact ⟨key lists lists' (fun t => (h t).1), key lists' lists (fun t => (h t).2)⟩

end UF.Compose

import UF.Compose.Parser
import UF.Proofs.StorageMain
import UF.Proofs.StorageRef
/-
  Composition: the storage scan and retrieval of group D's model, run with the real parser model, but
  yielding the FULL rules (group D's `SRule` is the projection `toS`).

  * `scanRules` / `storageRules`: what `RuleStorageScanner` yields (rule object + packed index), from BYTES;
    `storageScan_real` shows its projection IS group D's `storageScan (realParser px)`.
  * `materialize`: the rule object of a retrieved `SRule` — group D's retrieval returns (kind, text, id);
    the Go code returns the object `NewRule` built from the trimmed line, i.e. `NewRule(text, id)`.
  * `retrieveFull`: `RuleStorage.RetrieveRule` (group D's, with its cache) + `materialize`.
-/
namespace UF.Compose
open UF UF.Storage

def isCos : Rule → Bool
  | .cos _ => true
  | _ => false

theorem isCos_kind (r : Rule) : (kindOf r == Kind.cosmetic) = isCos r := by
  cases r <;> rfl

/-- `RuleScanner.Scan` with the modelled parser, keeping the rule objects. -/
def scanRules (rx : E.RuleExt) (l : RList) : List (Rule × Nat) :=
  (scanLines l.content).filterMap fun (idx, line) =>
    match E.acceptedOf rx l.id line with
    | some r => if l.ignoreCosmetic && isCos r then none else some (r, idx)
    | none => none

/-- `RuleStorageScanner`: every rule of every list with its storage index. -/
def storageRulesX (rx : E.RuleExt) (lists : List RList) : List (Rule × BitVec 64) :=
  lists.flatMap fun l =>
    (scanRules rx l).map fun (r, idx) => (r, pack (BitVec.ofInt 32 l.id) (BitVec.ofNat 32 idx))

def storageRules (px : E.ParseExt) (lists : List RList) : List (Rule × BitVec 64) :=
  storageRulesX (realRx px) lists

theorem scanRules_mem {rx : E.RuleExt} {l : RList} {r : Rule} {idx : Nat} (h : (r, idx) ∈ scanRules rx l) :
    ∃ line, (idx, line) ∈ scanLines l.content ∧ E.newRule rx line l.id = .ok (some r) ∧
      (l.ignoreCosmetic && isCos r) = false := by
  unfold scanRules at h
  rw [List.mem_filterMap] at h
  obtain ⟨⟨i, line⟩, hm, hp⟩ := h
  simp only at hp
  unfold E.acceptedOf at hp
  split at hp
  · next r' hacc =>
    split at hacc
    · next r'' hn =>
      cases hacc
      split at hp
      · cases hp
      · next hc =>
        cases hp
        exact ⟨line, hm, hn, by simpa using hc⟩
    · cases hacc
  · cases hp

theorem mem_scanRules {rx : E.RuleExt} {l : RList} {r : Rule} {idx : Nat} {line : Bytes}
    (hm : (idx, line) ∈ scanLines l.content) (hn : E.newRule rx line l.id = .ok (some r))
    (hc : (l.ignoreCosmetic && isCos r) = false) : (r, idx) ∈ scanRules rx l := by
  unfold scanRules
  rw [List.mem_filterMap]
  refine ⟨(idx, line), hm, ?_⟩
  simp only [E.acceptedOf, hn, hc]
  rfl

/-- The projection of the full scan of one list is group D's scan with the projected parser. -/
theorem scanList_parserOf (rx : E.RuleExt) (hh : HostKeeps rx.newHostRule) (l : RList) :
    scanList (parserOf rx) l.id l.ignoreCosmetic l.content = (scanRules rx l).map fun p => (toS p.1, p.2) := by
  unfold scanList scanRules
  rw [List.map_filterMap]
  apply filterMap_congr_mem
  intro ⟨idx, line⟩ _
  simp only [parserOf, E.acceptedOf]
  cases hn : E.newRule rx line l.id with
  | error e => rfl
  | ok o =>
    cases o with
    | none => rfl
    | some r =>
      simp only [isCos_kind]
      have hid := (E.newRule_text hh hn).2
      cases hc : (l.ignoreCosmetic && isCos r)
      · simp [toS, hid]
      · simp

/-- Group D's storage scan, instantiated with the real parser, is the projection of the full scan. -/
theorem storageScan_parserOf (rx : E.RuleExt) (hh : HostKeeps rx.newHostRule) (lists : List RList) :
    storageScan (parserOf rx) lists = (storageRulesX rx lists).map fun p => (toS p.1, p.2) := by
  unfold storageScan storageRulesX
  rw [List.map_flatMap]
  congr 1
  funext l
  rw [scanList_parserOf rx hh l, List.map_map, List.map_map]
  apply List.map_congr_left
  intro ⟨r, idx⟩ hm
  obtain ⟨line, _, hn, _⟩ := scanRules_mem hm
  have hid := (E.newRule_text hh hn).2
  simp [toS, hid]

theorem storageScan_real (px : E.ParseExt) (lists : List RList) :
    storageScan (realParser px) lists = (storageRules px lists).map fun p => (toS p.1, p.2) :=
  storageScan_parserOf (realRx px) (hostRuleH_keeps px.ext) lists

theorem storageRulesX_mem {rx : E.RuleExt} {lists : List RList} {r : Rule} {k : BitVec 64}
    (h : (r, k) ∈ storageRulesX rx lists) :
    ∃ l ∈ lists, ∃ idx, (r, idx) ∈ scanRules rx l ∧ k = pack (BitVec.ofInt 32 l.id) (BitVec.ofNat 32 idx) := by
  unfold storageRulesX at h
  rw [List.mem_flatMap] at h
  obtain ⟨l, hl, hm⟩ := h
  rw [List.mem_map] at hm
  obtain ⟨⟨r', idx⟩, hm, he⟩ := hm
  simp only [Prod.mk.injEq] at he
  obtain ⟨rfl, rfl⟩ := he
  exact ⟨l, hl, idx, hm, rfl⟩

/-- Every yielded rule comes from a line of a list: `NewRule(line, id)` produced it. -/
theorem storageRules_line {px : E.ParseExt} {lists : List RList} {r : Rule} {k : BitVec 64}
    (h : (r, k) ∈ storageRules px lists) :
    ∃ l ∈ lists, ∃ idx line, (idx, line) ∈ scanLines l.content ∧
      E.newRule (realRx px) line l.id = .ok (some r) ∧ (l.ignoreCosmetic && isCos r) = false ∧
      k = pack (BitVec.ofInt 32 l.id) (BitVec.ofNat 32 idx) := by
  obtain ⟨l, hl, idx, hm, hk⟩ := storageRulesX_mem h
  obtain ⟨line, h1, h2, h3⟩ := scanRules_mem hm
  exact ⟨l, hl, idx, line, h1, h2, h3, hk⟩

/-! ### Retrieval of the rule object -/

/-- The rule object behind a retrieved `SRule`: `NewRule(text, listID)` (the text is the trimmed line the
    retriever handed to `NewRule`; `NewRule` trims again, which changes nothing). -/
def materialize (rx : E.RuleExt) (s : SRule) : Option Rule := E.acceptedOf rx s.listID s.text

theorem materialize_toS {px : E.ParseExt} {line : Bytes} {id : Int} {r : Rule}
    (h : E.newRule (realRx px) line id = .ok (some r)) : materialize (realRx px) (toS r) = some r := by
  obtain ⟨ht, hid⟩ := realRx_text h
  unfold materialize toS E.acceptedOf
  simp only [ht, hid, newRule_trim, h]

/-- `RuleStorage.RetrieveRule` returning the rule object (`none` = nil or an error). -/
def retrieveFull (io : IO) (px : E.ParseExt) (st : RuleStorage) (k : BitVec 64) : Option Rule × RuleStorage :=
  let res := retrieveRule io (realParser px) st k
  (match res.1 with
   | .rule s => materialize (realRx px) s
   | _ => none, res.2)

/-- The same without the cache: what the lists answer. -/
def lookupFull (io : IO) (px : E.ParseExt) (lists : List RList) (k : BitVec 64) : Option Rule :=
  match lookupRule io (realParser px) lists k with
  | .rule s => materialize (realRx px) s
  | _ => none

/-- The cache is invisible: in every state that is a cache of the lists, retrieval of ANY index (scanned or
    not) returns the object the lists give.  (A failed parse is `bad` uncached and `nilRule` cached; both
    are "no rule".) -/
theorem retrieveFull_eq_lookup (io : IO) (px : E.ParseExt) (st : RuleStorage)
    (hinv : CacheInv io (realParser px) st) (k : BitVec 64) :
    (retrieveFull io px st k).1 = lookupFull io px st.lists k := by
  obtain ⟨_, _, h3⟩ := retrieveRule_spec io (realParser px) st k hinv
  unfold retrieveFull lookupFull
  simp only
  rcases h3 with h3 | ⟨h3, h4⟩
  · rw [h3]
  · rw [h3, h4]

/-- States reachable from a new storage by any history of retrievals. -/
def reach (io : IO) (px : E.ParseExt) (st : RuleStorage) (history : List (BitVec 64)) : RuleStorage :=
  history.foldl (fun s j => (retrieveRule io (realParser px) s j).2) st

theorem reach_inv (io : IO) (px : E.ParseExt) (lists : List RList) (st : RuleStorage)
    (hnew : newRuleStorage lists = some st) (history : List (BitVec 64)) :
    CacheInv io (realParser px) (reach io px st history) ∧ (reach io px st history).lists = lists := by
  obtain ⟨hinv, hl⟩ := cacheInv_new io (realParser px) hnew
  have key : ∀ (hs : List (BitVec 64)) (s : RuleStorage), CacheInv io (realParser px) s → s.lists = lists →
      CacheInv io (realParser px) (reach io px s hs) ∧ (reach io px s hs).lists = lists := by
    intro hs
    induction hs with
    | nil => intro s h1 h2; exact ⟨h1, h2⟩
    | cons j js ih =>
      intro s h1 h2
      obtain ⟨g1, g2, _⟩ := retrieveRule_spec io (realParser px) s j h1
      exact ih _ g1 (g2.trans h2)
  exact key history st hinv hl

/-- Group B's storage index is a Go `int64`: group D's bit vector read as a signed number. -/
def idxOf (k : BitVec 64) : Int := k.toInt

theorem ofInt_idxOf (k : BitVec 64) : BitVec.ofInt 64 (idxOf k) = k := by
  unfold idxOf; exact BitVec.ofInt_toInt

theorem idxOf_inj {a b : BitVec 64} (h : idxOf a = idxOf b) : a = b := by
  rw [← ofInt_idxOf a, ← ofInt_idxOf b, h]

/-- `retrieve` of group B's engine model: `RetrieveRule(int64)` in storage state `st`. -/
def retrieveAt (io : IO) (px : E.ParseExt) (st : RuleStorage) (i : Int) : Option Rule :=
  (retrieveFull io px st (BitVec.ofInt 64 i)).1

/-- The rules of the storage with group B's indexes. -/
def storageRulesI (px : E.ParseExt) (lists : List RList) : List (Rule × Int) :=
  (storageRules px lists).map fun p => (p.1, idxOf p.2)

end UF.Compose

import UF.Model.Storage
import UF.Model.NewRule
import UF.Model.HostRule
import UF.Model.DnsRewriteParse
import UF.Proofs.TrimSpace
import UF.Proofs.TrimSpaceIdem
import UF.Proofs.ParseWF
import UF.Proofs.ParseTotal
/-
  Composition (integration group I1): the parser PARAMETER of group D's storage model
  (`Storage.Parser`, assumption `TrimsFirst`) instantiated with group E's model of `rules.NewRule`
  (`E.newRule`), whose own parameters are instantiated with
    * `trim := trimSpace`                (group D's model of `strings.TrimSpace`),
    * `newHostRule := hostRuleH ext`     (group H's model of `NewHostRule`, with `IsDomainName` = group E's),
    * `px.loadDNSRewrite`, `px.regexpShortcut`: kept as parameters inside `px : E.ParseExt` (every theorem
      is stated for ALL values of them); `modelPx ext` plugs in group H's `loadDNSRewrite`.

  Mismatch bridged here: group D's `ParseResult`/`SRule` carry only (kind, text, list id) of a rule, group
  E's parser returns the full `Rule`.  `toS` projects; `realParser` is the projection of `E.newRule`.
-/
namespace UF.Compose
open UF

/-- Dynamic type of a rule (group D's `Kind`). -/
def kindOf : Rule → Storage.Kind
  | .net _ => .network
  | .host _ => .host
  | .cos _ => .cosmetic

/-- What group D's storage model keeps of a rule. -/
def toS (r : Rule) : Storage.SRule := ⟨kindOf r, r.text, r.listID⟩

/-- `filterutil.IsDomainName` as a Bool function (group E's checked model never panics: `c12_total_isDomainName`). -/
def dnE (n : Bytes) : Bool :=
  match E.isDomainNameC n with
  | .ok b => b
  | .error _ => false

/-- Group H's `NewHostRule` in the shape of group E's parameter (`none` = error). -/
def hostRuleH (ext : Ext) (text : Bytes) (listID : Int) : Option HostRule :=
  match H.newHostRule ext dnE text listID with
  | .ok r => some r
  | .error _ => none

/-- The parameters of `E.newRule` with everything that is modelled plugged in. -/
def realRx (px : E.ParseExt) : E.RuleExt :=
  { px := px, trim := trimSpace, newHostRule := hostRuleH px.ext }

/-- `$dnsrewrite` through group H's model. -/
def modelPx (ext : Ext) (regexpShortcut : Bytes → Bytes) : E.ParseExt :=
  { ext := ext
    loadDNSRewrite := fun s => match H.loadDNSRewrite ext s with | .ok d => some d | .error _ => none
    regexpShortcut := regexpShortcut }

/-- Group D's parser parameter, instantiated: the projection of group E's `NewRule`. -/
def parserOf (rx : E.RuleExt) : Storage.Parser := fun line id =>
  match E.newRule rx line id with
  | .ok none => .nothing
  | .ok (some r) => .rule (kindOf r) r.text
  | .error _ => .error

/-- The storage parser of the composed model. -/
def realParser (px : E.ParseExt) : Storage.Parser := parserOf (realRx px)

/-- The assumption group E makes about `NewHostRule`. -/
def HostKeeps (f : Bytes → Int → Option HostRule) : Prop :=
  ∀ t i h, f t i = some h → h.text = t ∧ h.listID = i

/-- Group H's `NewHostRule` keeps text and list id. -/
theorem hostRuleH_keeps (ext : Ext) : HostKeeps (hostRuleH ext) := by
  intro t i h hh
  unfold hostRuleH at hh
  split at hh
  · next r hr =>
    cases hh
    unfold H.newHostRule at hr
    repeat' split at hr
    all_goals first | (cases hr; exact ⟨rfl, rfl⟩) | cases hr
  · cases hh

/-! ### `TrimSpace` facts group E assumed -/

theorem trimSpace_cr (l : Bytes) : trimSpace (l ++ [13]) = trimSpace l :=
  trimSpace_append_sp (by intro c hc; simp at hc; subst hc; decide) l

/-- `TrimsFirst` for every parser of the shape "group E's `NewRule` over group D's `TrimSpace`". -/
theorem parserOf_trimsFirst (rx : E.RuleExt) (ht : rx.trim = trimSpace) (hh : HostKeeps rx.newHostRule) :
    Storage.TrimsFirst (parserOf rx) where
  trim := by
    intro l id
    unfold parserOf
    rw [E.newRule_congr_trim rx (by intro l; rw [ht]; exact trimSpace_idem l) id
      (show rx.trim l = rx.trim (trimSpace l) by rw [ht]; exact (trimSpace_idem l).symm)]
  blank := by
    intro l id h
    have : E.newRule rx l id = .ok none := by
      unfold E.newRule
      simp only [ht, h]
      rfl
    unfold parserOf
    rw [this]
  text := by
    intro l id k t h
    unfold parserOf at h
    split at h
    · cases h
    · next r hr =>
      cases h
      rw [(E.newRule_text hh hr).1, ht]
    · cases h

theorem realParser_trimsFirst (px : E.ParseExt) : Storage.TrimsFirst (realParser px) :=
  parserOf_trimsFirst (realRx px) rfl (hostRuleH_keeps px.ext)

/-- A produced rule: text = trimmed line, list id = the list's. -/
theorem realRx_text {px : E.ParseExt} {line : Bytes} {id : Int} {r : Rule}
    (h : E.newRule (realRx px) line id = .ok (some r)) : r.text = trimSpace line ∧ r.listID = id :=
  E.newRule_text (rx := realRx px) (hostRuleH_keeps px.ext) h

/-- `NewRule` reads its line only through `TrimSpace`. -/
theorem newRule_trim (px : E.ParseExt) (line : Bytes) (id : Int) :
    E.newRule (realRx px) (trimSpace line) id = E.newRule (realRx px) line id :=
  E.newRule_congr_trim (realRx px) (fun l => trimSpace_idem l) id (trimSpace_idem line)

end UF.Compose

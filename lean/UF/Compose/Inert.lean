import UF.Compose.NetRules
import UF.Proofs.TrimSpace
import UF.Proofs.StorageRef
/-
  Helper lemmas for Props/C12Engine.lean (maintenance group K, review TOP 11): noise at the level of
  the BYTES of a filter list.

  `specRules px lists` (UF/Compose/NetRules.lean) is the reference the end-to-end theorems
  `c01_storage`, `c02_storage`, `c15_storage` compare the engines with: split every content at the
  newlines, run the complete `NewRule` model on every piece, keep what is accepted.  Here:

  * `splitLines_append_nl`:  `splitLines (x ++ LF :: y) = splitLines x ++ splitLines y`
    (a line boundary splits the list of pieces);
  * `specRulesOf_append_nl`, `specRulesOf_noise`: so a block of lines none of which yields a rule can be
    inserted at any line boundary (also before the first and after the last line) without changing
    `specRulesOf`;
  * `crlf` (every LF becomes CR LF) and `specRulesOf_crlf`: the pieces only gain a trailing CR, which
    `strings.TrimSpace` removes.
-/
namespace UF.Compose
open UF UF.Storage Bytes

/-- Prefix the first piece. -/
def consHead (p : Bytes) : List Bytes → List Bytes
  | [] => [p]
  | l :: ls => (p ++ l) :: ls

theorem splitLines_cons_ne (c : UInt8) (r : Bytes) (h : (c == 10) = false) :
    splitLines (c :: r) = consHead [c] (splitLines r) := by
  rw [splitLines]
  simp only [h, Bool.false_eq_true, if_false]
  cases splitLines r <;> rfl

theorem splitLines_cons_nl (r : Bytes) : splitLines (10 :: r) = [] :: splitLines r := by
  rw [splitLines]; simp

theorem consHead_append (p : Bytes) (L M : List Bytes) (h : L ≠ []) :
    consHead p (L ++ M) = consHead p L ++ M := by
  cases L with
  | nil => exact absurd rfl h
  | cons l ls => rfl

theorem consHead_consHead (p q : Bytes) (L : List Bytes) : consHead p (consHead q L) = consHead (p ++ q) L := by
  cases L with
  | nil => rfl
  | cons l ls => simp [consHead]

theorem consHead_nil_of_ne (L : List Bytes) (h : L ≠ []) : consHead [] L = L := by
  cases L with
  | nil => exact absurd rfl h
  | cons l ls => rfl

/-- A newline is a boundary of the list of pieces. -/
theorem splitLines_append_nl (x y : Bytes) : splitLines (x ++ 10 :: y) = splitLines x ++ splitLines y := by
  induction x with
  | nil => simp [splitLines_cons_nl, splitLines]
  | cons c r ih =>
    cases hc : c == 10 with
    | true =>
      have : c = 10 := by simpa using hc
      subst this
      simp only [List.cons_append, splitLines_cons_nl, ih]
    | false =>
      simp only [List.cons_append]
      rw [splitLines_cons_ne c _ hc, splitLines_cons_ne c r hc, ih,
        consHead_append _ _ _ (splitLines_ne_nil r)]

/-- LF → CR LF. -/
def crlf : Bytes → Bytes
  | [] => []
  | c :: r => if c == 10 then 13 :: 10 :: crlf r else c :: crlf r

theorem filterMap_consHead_crlf {β} (f : Bytes → Option β) (hf : ∀ l, f (l ++ [13]) = f l) (s : Bytes) :
    ∀ p, (consHead p (splitLines (crlf s))).filterMap f = (consHead p (splitLines s)).filterMap f := by
  induction s with
  | nil => intro p; rfl
  | cons c r ih =>
    intro p
    cases hc : c == 10 with
    | true =>
      have : c = 10 := by simpa using hc
      subst this
      have h13 : ((13 : UInt8) == 10) = false := by decide
      have e1 : splitLines (crlf (10 :: r)) = [13] :: splitLines (crlf r) := by
        simp only [crlf, beq_self_eq_true, if_true]
        rw [splitLines_cons_ne 13 _ h13, splitLines_cons_nl]
        rfl
      rw [e1, splitLines_cons_nl]
      simp only [consHead, List.filterMap_cons, List.append_nil, hf]
      have := ih []
      rw [consHead_nil_of_ne _ (splitLines_ne_nil _), consHead_nil_of_ne _ (splitLines_ne_nil _)] at this
      rw [this]
    | false =>
      have e1 : crlf (c :: r) = c :: crlf r := by simp [crlf, hc]
      rw [e1, splitLines_cons_ne c _ hc, splitLines_cons_ne c r hc, consHead_consHead, consHead_consHead]
      exact ih (p ++ [c])

/-- Switching to CRLF changes no piece beyond a trailing CR. -/
theorem filterMap_splitLines_crlf {β} (f : Bytes → Option β) (hf : ∀ l, f (l ++ [13]) = f l) (s : Bytes) :
    (splitLines (crlf s)).filterMap f = (splitLines s).filterMap f := by
  have := filterMap_consHead_crlf f hf s []
  rwa [consHead_nil_of_ne _ (splitLines_ne_nil _), consHead_nil_of_ne _ (splitLines_ne_nil _)] at this

/-! ### `specRulesOf` -/

theorem specRulesOf_append_nl (rx : E.RuleExt) (l : RList) (x y : Bytes) :
    specRulesOf rx { l with content := x ++ 10 :: y } =
      specRulesOf rx { l with content := x } ++ specRulesOf rx { l with content := y } := by
  unfold specRulesOf
  simp only [splitLines_append_nl, List.filterMap_append]

/-- A block of lines none of which yields a rule (blank, comment, rejected). -/
def NoiseBlock (rx : E.RuleExt) (id : Int) (n : Bytes) : Prop :=
  ∀ piece ∈ splitLines n, E.acceptedOf rx id piece = none

theorem specRulesOf_noise (rx : E.RuleExt) (l : RList) (n : Bytes) (h : NoiseBlock rx l.id n) :
    specRulesOf rx { l with content := n } = [] := by
  unfold specRulesOf
  rw [List.filterMap_eq_nil_iff]
  intro piece hp
  simp only [h piece hp]

/-- `acceptedOf` ignores a trailing CR (group D's `TrimSpace` removes it). -/
theorem acceptedOf_cr (px : E.ParseExt) (id : Int) (l : Bytes) :
    E.acceptedOf (realRx px) id (l ++ [13]) = E.acceptedOf (realRx px) id l := by
  have ht : trimSpace (l ++ [13]) = trimSpace l :=
    trimSpace_append_sp (t := [13]) (by intro c hc; simp at hc; subst hc; decide) l
  unfold E.acceptedOf E.newRule
  have : (realRx px).trim = trimSpace := rfl
  simp only [this, ht]

theorem specRulesOf_crlf (px : E.ParseExt) (l : RList) :
    specRulesOf (realRx px) { l with content := crlf l.content } = specRulesOf (realRx px) l := by
  unfold specRulesOf
  apply filterMap_splitLines_crlf
  intro piece
  simp only [acceptedOf_cr]

/-! ### `specRules`: one list replaced -/

theorem specRules_replace (px : E.ParseExt) (pre post : List RList) (l l' : RList)
    (h : specRulesOf (realRx px) l' = specRulesOf (realRx px) l) :
    specRules px (pre ++ l' :: post) = specRules px (pre ++ l :: post) := by
  unfold specRules
  simp only [List.flatMap_append, List.flatMap_cons, h]

theorem specRules_map_crlf (px : E.ParseExt) (lists : List RList) (sel : RList → Bool) :
    specRules px (lists.map fun l => if sel l then { l with content := crlf l.content } else l) =
      specRules px lists := by
  unfold specRules
  induction lists with
  | nil => rfl
  | cons l ls ih =>
    simp only [List.map_cons, List.flatMap_cons, ih]
    congr 1
    cases sel l with
    | true => simpa using specRulesOf_crlf px l
    | false => rfl

end UF.Compose

-- Property files of work group I3 (import UF.Props.Cxx lines go here).
import UF.Driver.Ops.GroupI3

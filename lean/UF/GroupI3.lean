-- Property files of work group I3 (top-level composition).
import UF.Props.C06Top

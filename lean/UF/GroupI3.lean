-- Property files of work group I3 (top-level composition: the public entry points from raw inputs).
import UF.Props.C06Top
import UF.Props.C16Top
import UF.Props.C02Top
import UF.Props.C17Top

/-
  Byte strings.  A Go `string` / `[]byte` is modelled as `List UInt8`.
  Only total, computable, structurally recursive functions live here so that the
  same definitions are used by the theorems and by the compiled driver.
-/
namespace UF

abbrev Bytes := List UInt8

/-- ASCII literal (each `Char` must be < 256; used with ASCII only). Reduces by `decide`/`rfl`. -/
def lit (s : String) : Bytes := s.toList.map (fun c => c.toNat.toUInt8)

/-- Byte of an ASCII character. -/
def ch (c : Char) : UInt8 := c.toNat.toUInt8

namespace Bytes

/-- `strings.HasPrefix s p`. -/
def hasPrefix : (s p : Bytes) → Bool
  | _, [] => true
  | [], _ :: _ => false
  | a :: s, b :: p => a == b && hasPrefix s p

/-- `strings.HasSuffix s p`. -/
def hasSuffix (s p : Bytes) : Bool := hasPrefix s.reverse p.reverse

/-- `strings.Index s sub` (first occurrence), `none` for -1. -/
def indexOf (s sub : Bytes) : Option Nat :=
  go s 0
where
  go : Bytes → Nat → Option Nat
    | [], i => if sub.isEmpty then some i else none
    | a :: t, i => if hasPrefix (a :: t) sub then some i else go t (i + 1)

/-- `strings.Contains s sub`. -/
def hasSub (s sub : Bytes) : Bool := (indexOf s sub).isSome

/-- `strings.IndexByte s c`. -/
def indexByte (s : Bytes) (c : UInt8) : Option Nat :=
  go s 0
where
  go : Bytes → Nat → Option Nat
    | [], _ => none
    | a :: t, i => if a == c then some i else go t (i + 1)

/-- `strings.LastIndexByte`. -/
def lastIndexByte (s : Bytes) (c : UInt8) : Option Nat :=
  go s 0 none
where
  go : Bytes → Nat → Option Nat → Option Nat
    | [], _, acc => acc
    | a :: t, i, acc => go t (i + 1) (if a == c then some i else acc)

/-- `strings.IndexAny s chars` for ASCII `chars`. -/
def indexAny (s chars : Bytes) : Option Nat :=
  go s 0
where
  go : Bytes → Nat → Option Nat
    | [], _ => none
    | a :: t, i => if List.elem a chars then some i else go t (i + 1)

def isUpper (c : UInt8) : Bool := 65 ≤ c && c ≤ 90
def isLower (c : UInt8) : Bool := 97 ≤ c && c ≤ 122
def isDigit (c : UInt8) : Bool := 48 ≤ c && c ≤ 57
def isAlpha (c : UInt8) : Bool := isUpper c || isLower c

def lowerByte (c : UInt8) : UInt8 := if isUpper c then c + 32 else c
def upperByte (c : UInt8) : UInt8 := if isLower c then c - 32 else c

/-- `strings.ToLower` on ASCII input (bytes ≥ 0x80 are left alone; callers mark such input out of domain). -/
def toLower (s : Bytes) : Bytes := s.map lowerByte
def toUpper (s : Bytes) : Bytes := s.map upperByte

def isAscii (s : Bytes) : Bool := s.all (· < 128)

/-- `strings.Split s sep` for a one-byte separator (always at least one part). -/
def splitByte (s : Bytes) (sep : UInt8) : List Bytes :=
  go s []
where
  go : Bytes → Bytes → List Bytes
    | [], cur => [cur.reverse]
    | a :: t, cur => if a == sep then cur.reverse :: go t [] else go t (a :: cur)

/-- Join with a separator. -/
def joinSep (parts : List Bytes) (sep : Bytes) : Bytes :=
  match parts with
  | [] => []
  | [p] => p
  | p :: ps => p ++ sep ++ joinSep ps sep

/-- `strings.ReplaceAll s old new` for non-empty `old` (left-to-right, non-overlapping). -/
def replaceAll (s old new : Bytes) : Bytes :=
  if old.isEmpty then s else go s 0
where
  /-- `skip` = number of bytes still to drop (the rest of an occurrence just replaced). -/
  go : Bytes → Nat → Bytes
    | [], _ => []
    | _ :: t, skip + 1 => go t skip
    | a :: t, 0 =>
      if hasPrefix (a :: t) old then new ++ go t (old.length - 1) else a :: go t 0

/-- Go slice `s[i:j]`; `none` models the run-time panic. -/
def slice? (s : Bytes) (i j : Nat) : Option Bytes :=
  if i ≤ j ∧ j ≤ s.length then some ((s.take j).drop i) else none

/-- Lexicographic comparison (`strings.Compare`): -1, 0, 1. -/
def cmp : Bytes → Bytes → Ordering
  | [], [] => .eq
  | [], _ :: _ => .lt
  | _ :: _, [] => .gt
  | a :: s, b :: t => if a < b then .lt else if b < a then .gt else cmp s t

def ltB (a b : Bytes) : Bool := cmp a b == .lt
def leB (a b : Bytes) : Bool := cmp a b != .gt

/-- Insertion sort by `le` (a model of *a* sort; the theorems only use "sorted permutation"). -/
def insertSorted (x : Bytes) : List Bytes → List Bytes
  | [] => [x]
  | y :: ys => if leB x y then x :: y :: ys else y :: insertSorted x ys

def sortB (l : List Bytes) : List Bytes := l.foldr insertSorted []

/-! ### Hex codec for the line protocol -/

def hexDigit (n : Nat) : Char :=
  if n < 10 then Char.ofNat (48 + n) else Char.ofNat (87 + n)

def toHex (s : Bytes) : String :=
  String.ofList (s.flatMap fun b => [hexDigit (b.toNat / 16), hexDigit (b.toNat % 16)])

def hexVal (c : Char) : Option Nat :=
  if '0' ≤ c ∧ c ≤ '9' then some (c.toNat - 48)
  else if 'a' ≤ c ∧ c ≤ 'f' then some (c.toNat - 87)
  else if 'A' ≤ c ∧ c ≤ 'F' then some (c.toNat - 55)
  else none

def ofHexChars : List Char → Option Bytes
  | [] => some []
  | [_] => none
  | a :: b :: t => do
    let x ← hexVal a
    let y ← hexVal b
    let r ← ofHexChars t
    pure ((x * 16 + y).toUInt8 :: r)

def ofHex (s : String) : Option Bytes := ofHexChars s.toList

end Bytes
end UF

import UF.Compose3.WebTop
import UF.Spec.CosmeticOption
import UF.Spec.Cosmetic
import UF.Proofs.Bits
import UF.Proofs.C16
import UF.Props.C16
import UF.Props.C15Compose
/-
  Integration (group I3), part 4: cosmetic option and cosmetic result at the top level.

  * `cosModsOf r`: the NAMED modifiers (the nine of the property) an exception rule carries, decoded from its
    option bits; `getCosmeticOption_eq_spec`: for EVERY exception rule record the option is the reference
    "all minus the union of what its named modifiers disable" — group A's `c16` needed the hypothesis
    `r.enabled = modsBits mods`; decoding the modifiers from the rule removes it.
  * `engineCosmeticResult`: `Engine.GetCosmeticResult(hostname, option)` = flag decoding (engine.go) +
    `CosmeticEngine.Match` of the engine built from the lists (group B over the storage scan, I1).
-/
namespace UF.Compose3
open UF UF.B UF.Storage UF.Compose

/-- The nine modifiers of the property. -/
def allCosMods : List CosMod :=
  [.elemhide, .generichide, .jsinject, .document, .urlblock, .genericblock, .content, .extension, .important]

/-- The named modifiers whose option bits the rule carries (`$document` = all five of its bits). -/
def cosModsOf (r : NetRule) : List CosMod := allCosMods.filter (fun m => r.isEnabled m.bits)

/-- `IsOptionEnabled` of a union of masks. -/
theorem isEnabled_or (e a b : Nat) :
    ((e &&& (a ||| b)) == (a ||| b)) = (((e &&& a) == a) && ((e &&& b) == b)) := by
  have bit : ∀ (x y : Nat), (x &&& y = y) ↔ ∀ i, y.testBit i = true → x.testBit i = true := by
    intro x y
    constructor
    · intro h i hi
      have := congrArg (fun n => n.testBit i) h
      simp only [Nat.testBit_and, hi, Bool.and_true] at this
      exact this
    · intro h
      apply Nat.eq_of_testBit_eq
      intro i
      rw [Nat.testBit_and]
      cases hy : y.testBit i
      · simp
      · simp [h i hy]
  have key : (e &&& (a ||| b) = a ||| b) ↔ (e &&& a = a ∧ e &&& b = b) := by
    rw [bit, bit, bit]
    constructor
    · intro h
      exact ⟨fun i hi => h i (by rw [Nat.testBit_or, hi]; rfl),
             fun i hi => h i (by rw [Nat.testBit_or, hi]; simp)⟩
    · rintro ⟨ha, hb⟩ i hi
      rw [Nat.testBit_or] at hi
      cases hai : a.testBit i
      · rw [hai] at hi; exact hb i (by simpa using hi)
      · exact ha i hai
  by_cases h : e &&& (a ||| b) = a ||| b
  · obtain ⟨h1, h2⟩ := key.1 h
    simp [h, h1, h2]
  · have : ¬ (e &&& a = a ∧ e &&& b = b) := fun hc => h (key.2 hc)
    have h' : ((e &&& (a ||| b)) == (a ||| b)) = false := by simpa using h
    rw [h']
    by_cases h1 : e &&& a = a
    · have h2 : ¬ e &&& b = b := fun hb => this ⟨h1, hb⟩
      simp [h2]
    · simp [h1]

/-- `$document` is enabled iff its five bits are. -/
theorem isEnabled_document (r : NetRule) :
    r.isEnabled CosMod.document.bits =
      (r.isEnabled Facts.OptionElemhide && r.isEnabled Facts.OptionJsinject && r.isEnabled Facts.OptionUrlblock &&
        r.isEnabled Facts.OptionContent && r.isEnabled Facts.OptionExtension) := by
  unfold NetRule.isEnabled CosMod.bits
  rw [isEnabled_or, isEnabled_or, isEnabled_or, isEnabled_or]

/-- The reference option of a list of modifiers, by Boolean flags of which modifiers are present
    (helper for the finite case split). -/
private theorem spec_of_flags (e g j u gb c x i : Bool) :
    specCosmeticOption true
        ([CosMod.elemhide, .generichide, .jsinject, .document, .urlblock, .genericblock, .content, .extension,
            .important].filter
          (fun m => match m with
            | .elemhide => e | .generichide => g | .jsinject => j
            | .document => e && j && u && c && x
            | .urlblock => u | .genericblock => gb | .content => c | .extension => x | .important => i)) =
      andNot cosAll ((if e then cosCSS ||| cosGenericCSS else 0) ||| (if g then cosGenericCSS else 0) |||
        (if j then cosJS else 0)) := by
  cases e <;> cases g <;> cases j <;> cases u <;> cases gb <;> cases c <;> cases x <;> cases i <;> decide

/-- C16 without a hypothesis on the option mask: for EVERY exception rule record, `GetCosmeticOption` is
    the reference applied to the named modifiers the rule carries. -/
theorem getCosmeticOption_eq_spec (r : NetRule) (hw : r.whitelist = true) :
    getCosmeticOption (some r) = specCosmeticOption true (cosModsOf r) := by
  rw [C16.c16_bits r hw]
  have h := spec_of_flags (r.isEnabled Facts.OptionElemhide) (r.isEnabled Facts.OptionGenerichide)
    (r.isEnabled Facts.OptionJsinject) (r.isEnabled Facts.OptionUrlblock) (r.isEnabled Facts.OptionGenericblock)
    (r.isEnabled Facts.OptionContent) (r.isEnabled Facts.OptionExtension) (r.isEnabled Facts.OptionImportant)
  rw [← h]
  congr 1
  unfold cosModsOf allCosMods
  apply List.filter_congr
  intro m _
  cases m <;> first | rfl | exact (isEnabled_document r).symm

/-- The reference option of a result: the basic rule's class and named modifiers. -/
def specOptionOf (basic : Option NetRule) : CosOpt :=
  match basic with
  | none => specCosmeticOption false []
  | some b => specCosmeticOption b.whitelist (cosModsOf b)

theorem getCosmeticOption_eq_specOptionOf (basic : Option NetRule) :
    getCosmeticOption basic = specOptionOf basic := by
  cases basic with
  | none => rfl
  | some b =>
    cases hw : b.whitelist with
    | true => simp only [specOptionOf, hw]; exact getCosmeticOption_eq_spec b hw
    | false => simp [specOptionOf, getCosmeticOption, specCosmeticOption, hw]

/-! ### `Engine.GetCosmeticResult` -/

/-- `Engine.GetCosmeticResult(hostname, option)`: the element-hiding selectors `(generic, specific)`. -/
def engineCosmeticResult (px : E.ParseExt) (lists : List RList) (hostname : Bytes) (option : CosOpt) :
    List Bytes × List Bytes :=
  let flags := decodeCosmeticFlags option
  (CosTable.build (storageCosRules px lists)).matchHost px.ext hostname flags.1 flags.2.1 flags.2.2

/-- The reference: applicable, non-excepted selectors of the cosmetic rules parsed line by line, generic ones
    only with both the CSS and the generic-CSS bit, specific ones with the CSS bit. -/
def specCosmeticResult (px : E.ParseExt) (lists : List RList) (hostname : Bytes) (option : CosOpt) :
    List Bytes × List Bytes :=
  let flags := decodeCosmeticFlags option
  specCosmetic px.ext (cosRulesOf (specRules px lists)) hostname flags.1 flags.2.1 flags.2.2

/-- Fewer option bits, fewer selectors (reference level). -/
theorem specCosmetic_mono (ext : Ext) (L : List CosRule) (host : Bytes) (c j g c' j' g' : Bool)
    (hc : c' = true → c = true) (hg : g' = true → g = true) :
    (∀ s, s ∈ (specCosmetic ext L host c' j' g').1 → s ∈ (specCosmetic ext L host c j g).1) ∧
    (∀ s, s ∈ (specCosmetic ext L host c' j' g').2 → s ∈ (specCosmetic ext L host c j g).2) := by
  unfold specCosmetic
  cases c' <;> cases g' <;> simp_all

/-- Bitwise inclusion of options gives implication of the decoded flags. -/
theorem decode_mono (o o' : CosOpt) (h : o' &&& o = o') :
    ((decodeCosmeticFlags o').1 = true → (decodeCosmeticFlags o).1 = true) ∧
    ((decodeCosmeticFlags o').2.1 = true → (decodeCosmeticFlags o).2.1 = true) ∧
    ((decodeCosmeticFlags o').2.2 = true → (decodeCosmeticFlags o).2.2 = true) := by
  have key : ∀ m : CosOpt, (o' &&& m == m) = true → (o &&& m == m) = true := by
    intro m hm
    have hm' : o' &&& m = m := by simpa using hm
    have : o &&& m = m := by
      rw [← hm', ← h]
      ext i
      simp only [BitVec.getElem_and]
      cases o'[i] <;> cases o[i] <;> cases m[i] <;> rfl
    simpa using this
  exact ⟨key cosCSS, key cosJS, key cosGenericCSS⟩

end UF.Compose3

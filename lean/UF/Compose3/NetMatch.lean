import UF.Compose3.WebTop
import UF.Compose3.CosText
/-
  Group P1 (second adversarial review, m1 / m2): helper lemmas for the top-level statements of C06 and C16.

  * `networkEngineMatch`: the model of `NetworkEngine.Match` (networkengine.go), the single-rule entry point.
  * the WINNER of `NewMatchingResult`: the basic rule is a web candidate no web candidate outranks, the document
    rule is an effective referrer-level exception no other one outranks; both transported from what `MatchAll`
    returns to the reference sets (`matchingLines`, `sourceMatchingLines`) — list ids are not read.
  * the list id does not decide whether a line is accepted as a network rule (`newRule_net_id`), so the
    accepted TEXTS depend on the set of lines only (`netTexts_of_lines`).
  * `joinLines` / `splitLines_joinLines`: contents built from LF-free lines.
-/
namespace UF.Compose3
open UF UF.B UF.Storage UF.Compose

/-! ### `NetworkEngine.Match` -/

/-- `NetworkEngine.Match(r)`: `MatchAll`, nothing for no rule, else `NewMatchingResult(rules, nil).GetBasicResult()`;
    the second result of the Go function is `isSome`. -/
def networkEngineMatch (io : IO) (px : E.ParseExt) (lists : List RList) (st : RuleStorage)
    (history : List (BitVec 64)) (r : Request) : Option NetRule :=
  let networkRules := netMatchAll io px lists st history r
  if networkRules.length == 0 then none
  else getBasicResult (newMatchingResult networkRules [])

theorem newMatchingResult_nil : newMatchingResult [] [] = {} := by decide

/-- The early `return nil, false` is what the general path gives for no rules. -/
theorem networkEngineMatch_eq (io : IO) (px : E.ParseExt) (lists : List RList) (st : RuleStorage)
    (history : List (BitVec 64)) (r : Request) :
    networkEngineMatch io px lists st history r =
      getBasicResult (newMatchingResult (netMatchAll io px lists st history r) []) := by
  unfold networkEngineMatch
  simp only
  split
  · next h =>
    have : netMatchAll io px lists st history r = [] := List.eq_nil_of_length_eq_zero (by simpa using h)
    rw [this, newMatchingResult_nil]
    rfl
  · rfl

/-! ### the winners of `NewMatchingResult` -/

/-- The candidates offered to the selection of the basic rule are the reference's web candidates. -/
theorem basicRule_eq_selectBest (rules src : List NetRule) :
    (newMatchingResult rules src).basicRule = selectBest (rules.filter (webCandidate rules src)) := by
  unfold newMatchingResult
  simp only [effective_eq]
  obtain ⟨_, hb, hg⟩ := sourceScan_eq (src.filter (effectiveIn src)) {}
  obtain ⟨hU, hG, _⟩ := src_flags src
  simp only [Bool.true_and] at hb hg
  rw [hU] at hb; rw [hG] at hg
  generalize (src.filter (effectiveIn src)).foldl sourceStep {} = s at hb hg
  obtain ⟨h1, _, _⟩ := ruleScan_eq s.basicAllowed s.genericAllowed (rules.filter (effectiveIn rules))
    { documentRule := s.documentRule, stealthRule := s.stealthRule }
  rw [h1]
  show selectBest _ = _
  rw [List.filter_filter]
  congr 1
  apply List.filter_congr
  intro r _
  unfold webCandidate loopCandidate isSpecial
  rw [hb, hg]
  cases effectiveIn rules r <;> cases r.isEnabled Facts.OptionCookie <;> cases r.isEnabled Facts.OptionReplace <;>
    cases r.isEnabled Facts.OptionCsp <;> cases r.isEnabled Facts.OptionStealth <;> cases r.whitelist <;>
    cases srcUrlblock src <;> cases srcGenericblock src <;> cases r.isGeneric <;> rfl

/-- A referrer-level exception that is in force. -/
def docCandidate (src : List NetRule) (r : NetRule) : Bool := effectiveIn src r && isDocumentWhitelistRule r

theorem documentRule_eq_selectBest (rules src : List NetRule) :
    (newMatchingResult rules src).documentRule = selectBest (src.filter (docCandidate src)) := by
  unfold newMatchingResult
  simp only [effective_eq]
  obtain ⟨hd, _, _⟩ := sourceScan_eq (src.filter (effectiveIn src)) {}
  generalize (src.filter (effectiveIn src)).foldl sourceStep {} = s at hd
  obtain ⟨_, h2, _⟩ := ruleScan_eq s.basicAllowed s.genericAllowed (rules.filter (effectiveIn rules))
    { documentRule := s.documentRule, stealthRule := s.stealthRule }
  rw [h2]
  show s.documentRule = _
  rw [hd, List.filter_filter]
  show selectBest _ = _
  congr 1
  apply List.filter_congr
  intro r _
  unfold docCandidate
  rw [Bool.and_comm]

/-- A selected rule is a candidate that no candidate outranks; nothing is selected iff there is no candidate. -/
def IsWinner (cand : NetRule → Bool) (L : List NetRule) (w : Option NetRule) : Prop :=
  match w with
  | none => ∀ c ∈ L, cand c = false
  | some b => b ∈ L ∧ cand b = true ∧ ∀ c ∈ L, cand c = true → isHigherPriority c b = false

theorem selectBest_isWinner (cand : NetRule → Bool) (L : List NetRule) :
    IsWinner cand L (selectBest (L.filter cand)) := by
  cases h : selectBest (L.filter cand) with
  | none =>
    have hnil := (selectBest_none _).1 h
    intro c hc
    cases hcc : cand c with
    | false => rfl
    | true =>
      have : c ∈ L.filter cand := List.mem_filter.2 ⟨hc, hcc⟩
      rw [hnil] at this; cases this
  | some b =>
    obtain ⟨hm, hmax⟩ := fold_max _ b h
    obtain ⟨h1, h2⟩ := List.mem_filter.1 hm
    exact ⟨h1, h2, fun c hc hcc => (higher_false_iff c b).2 (hmax c (List.mem_filter.2 ⟨hc, hcc⟩))⟩

theorem isHigher_agree {a a' b b' : NetRule} (ha : SameButID a a') (hb : SameButID b b') :
    isHigherPriority a b = isHigherPriority a' b' := by
  have h1 : isHigherPriority a b = isHigherPriority a' b :=
    congr_noID (fun x => isHigherPriority x b) (fun _ => rfl) ha
  have h2 : isHigherPriority a' b = isHigherPriority a' b' :=
    congr_noID (fun x => isHigherPriority a' x) (fun _ => rfl) hb
  rw [h1, h2]

/-- Winners transport along agreement up to list ids, provided the winner itself lies in the other list. -/
theorem isWinner_agree {cand cand' : NetRule → Bool} {L L' : List NetRule} (h : ListsAgree L L')
    (hc : ∀ b b', SameButID b b' → cand b = cand' b') {w : Option NetRule} (hw : IsWinner cand L w)
    (hmem : ∀ b, w = some b → b ∈ L') : IsWinner cand' L' w := by
  cases w with
  | none =>
    intro c' hc'
    obtain ⟨c, hcm, hs⟩ := h.2 c' hc'
    rw [← hc c c' hs]
    exact hw c hcm
  | some b =>
    obtain ⟨_, h2, h3⟩ := hw
    refine ⟨hmem b rfl, ?_, ?_⟩
    · have : SameButID b b := rfl
      rw [← hc b b this]; exact h2
    · intro c' hc' hcc'
      obtain ⟨c, hcm, hs⟩ := h.2 c' hc'
      have := h3 c hcm (by rw [hc c c' hs]; exact hcc')
      rw [← isHigher_agree hs (rfl : SameButID b b)]
      exact this

theorem docCandidate_agree {s s' : List NetRule} (hs : ListsAgree s s') {r r' : NetRule} (hr : SameButID r r') :
    docCandidate s r = docCandidate s' r' := by
  unfold docCandidate
  rw [effectiveIn_agree hs hr, congr_noID isDocumentWhitelistRule (fun _ => rfl) hr]

/-! ### the winners at the top level -/

/-- The basic rule of `Engine.MatchRequest` is THE WINNER among the reference's web candidates. -/
theorem engineMatch_basic_winner (io : IO) (px : E.ParseExt) (lists : List RList) (hok : StorageOK lists)
    (st : RuleStorage) (hnew : newRuleStorage lists = some st) (history history' : List (BitVec 64))
    (r : Request) :
    IsWinner (webCandidate (matchingLines px lists r) (sourceMatchingLines px lists r)) (matchingLines px lists r)
      (engineMatch io px lists st history history' r).basicRule := by
  have ha := netMatchAll_agree io px lists hok st hnew history r
  have hs := sourceRules_agree io px lists hok st hnew history' r
  apply isWinner_agree ha (fun b b' hb => webCandidate_agree ha hs hb)
  · unfold engineMatch
    simp only
    rw [basicRule_eq_selectBest]
    exact selectBest_isWinner _ _
  · intro b hb
    exact engineMatch_basic_mem io px lists hok st hnew history history' r b hb

theorem netMatchAll_mem_lines (io : IO) (px : E.ParseExt) (lists : List RList) (hok : StorageOK lists)
    (st : RuleStorage) (hnew : newRuleStorage lists = some st) (history : List (BitVec 64)) (q : Request)
    (b : NetRule) (hb : b ∈ netMatchAll io px lists st history q) : b ∈ matchingLines px lists q := by
  obtain ⟨h1, h2⟩ := netMatchAll_sub io px lists hok st hnew history q b hb
  exact List.mem_filter.2 ⟨h1, h2⟩

/-- The DOCUMENT rule of `Engine.MatchRequest` is the winner among the referrer-level exceptions in force
    among the source-matching lines (nothing without a source URL). -/
theorem engineMatch_document_winner (io : IO) (px : E.ParseExt) (lists : List RList) (hok : StorageOK lists)
    (st : RuleStorage) (hnew : newRuleStorage lists = some st) (history history' : List (BitVec 64))
    (r : Request) :
    IsWinner (docCandidate (sourceMatchingLines px lists r)) (sourceMatchingLines px lists r)
      (engineMatch io px lists st history history' r).documentRule := by
  have hs := sourceRules_agree io px lists hok st hnew history' r
  apply isWinner_agree hs (fun b b' hb => docCandidate_agree hs hb)
  · unfold engineMatch
    simp only
    rw [documentRule_eq_selectBest]
    exact selectBest_isWinner _ _
  · intro d hd
    unfold engineMatch at hd
    simp only at hd
    rw [documentRule_eq_selectBest] at hd
    have hm := (List.mem_filter.1 (fold_max _ d hd).1).1
    unfold sourceMatchingLines
    split
    · next hc =>
      rw [if_pos hc] at hm
      exact netMatchAll_mem_lines io px lists hok st hnew history' _ d hm
    · next hc =>
      rw [if_neg hc] at hm
      cases hm

/-! ### `NetworkEngine.Match`: no referrer, no `$replace` -/

theorem replaceRules_eq (rules src : List NetRule) :
    (newMatchingResult rules src).replaceRules =
      (rules.filter (effectiveIn rules)).filter
        (fun r => !r.isEnabled Facts.OptionCookie && r.isEnabled Facts.OptionReplace) := by
  unfold newMatchingResult
  simp only [effective_eq]
  generalize (src.filter (effectiveIn src)).foldl sourceStep {} = s
  obtain ⟨_, _, h3⟩ := ruleScan_eq s.basicAllowed s.genericAllowed (rules.filter (effectiveIn rules))
    { documentRule := s.documentRule, stealthRule := s.stealthRule }
  rw [h3]
  rfl

/-- Without source rules and without `$replace` rules `GetBasicResult` is the basic rule. -/
theorem getBasicResult_nosrc (rules : List NetRule) (hrep : ∀ r ∈ rules, r.isEnabled Facts.OptionReplace = false) :
    getBasicResult (newMatchingResult rules []) = (newMatchingResult rules []).basicRule := by
  unfold getBasicResult
  have h1 : (newMatchingResult rules []).replaceRules = [] := by
    rw [replaceRules_eq]
    apply List.filter_eq_nil_iff.2
    intro r hr
    rw [hrep r (List.mem_filter.1 hr).1]
    simp
  have h2 : (newMatchingResult rules []).documentRule = none := by
    rw [documentRule_eq_selectBest]; rfl
  rw [h1, h2]
  simp only [List.length_nil, bne_self_eq_false, Bool.false_eq_true, if_false]
  cases (newMatchingResult rules []).basicRule <;> rfl

/-- The rule `NetworkEngine.Match` returns is the winner among the web candidates of the matching lines (no
    referrer: nothing is suppressed). -/
theorem networkEngineMatch_winner (io : IO) (px : E.ParseExt) (lists : List RList) (hok : StorageOK lists)
    (st : RuleStorage) (hnew : newRuleStorage lists = some st) (history : List (BitVec 64)) (r : Request) :
    IsWinner (webCandidate (matchingLines px lists r) []) (matchingLines px lists r)
      (networkEngineMatch io px lists st history r) := by
  rw [networkEngineMatch_eq, getBasicResult_nosrc _ (netMatchAll_noReplace io px lists hok st hnew history r)]
  have ha := netMatchAll_agree io px lists hok st hnew history r
  apply isWinner_agree ha (fun b b' hb => webCandidate_agree ha (listsAgree_refl []) hb)
  · rw [basicRule_eq_selectBest]
    exact selectBest_isWinner _ _
  · intro b hb
    exact netMatchAll_mem_lines io px lists hok st hnew history r b (basicRule_mem _ _ b hb).1

theorem networkEngineMatch_class (io : IO) (px : E.ParseExt) (lists : List RList) (hok : StorageOK lists)
    (st : RuleStorage) (hnew : newRuleStorage lists = some st) (history : List (BitVec 64)) (r : Request) :
    classOf (networkEngineMatch io px lists st history r) = classWeb (matchingLines px lists r) [] := by
  rw [networkEngineMatch_eq]
  have h1 := webClass_eq (netMatchAll io px lists st history r) []
  rw [(trigger_false_of_no_replace _ (netMatchAll_noReplace io px lists hok st hnew history r)).1] at h1
  rw [h1]
  exact classWeb_agree (netMatchAll_agree io px lists hok st hnew history r) (listsAgree_refl [])

end UF.Compose3

import UF.Compose3.CosTop
import UF.Proofs.ParseBits
import UF.Proofs.ParseWF
import UF.Compose2.ParsePattern
/-
  Integration (group I3), part 6: the cosmetic option FROM THE TEXT of the winning exception rule.

  Group A's C16 speaks of a rule record whose option mask is `modsBits mods`; what a filter author writes is
  the TEXT `@@pattern$opt1,opt2,…`.  Here the option parser model of group E (`loadOption`, every case of the
  Go `switch`) is followed for the three bits `GetCosmeticOption` reads (elemhide = bit 4, generichide = bit 5,
  jsinject = bit 7) on EXCEPTION rules:

    bit 4 is set  iff  one of the comma-separated options is named `elemhide` or `document`,
    bit 5 is set  iff  … `generichide`,
    bit 7 is set  iff  … `jsinject` or `document`

  (no other option touches these bits: `~extension` XORs bit 10 only; on an exception rule none of the
  `setOptionEnabled` calls of `$document` fails), whatever else the rule carries (`$domain`, content types,
  `$important`, …) and in any order.  Hence `GetCosmeticOption` of a parsed exception rule is the reference
  `specCosmeticOption true` applied to the named modifiers WRITTEN in its text (`textCosMods`).
-/
namespace UF.Compose3
open UF UF.E Bytes

/-! ### what one option does to bits 4, 5, 7 -/

/-- The step keeps the exception flag and bits 4, 5, 7 of the enabled options. -/
structure Keeps (r r' : NetRule) : Prop where
  wl : r'.whitelist = r.whitelist
  b4 : r'.enabled.testBit 4 = r.enabled.testBit 4
  b5 : r'.enabled.testBit 5 = r.enabled.testBit 5
  b7 : r'.enabled.testBit 7 = r.enabled.testBit 7

abbrev NoCosBits (opt : Nat) : Prop := opt.testBit 4 = false ∧ opt.testBit 5 = false ∧ opt.testBit 7 = false

theorem Keeps.refl (r : NetRule) : Keeps r r := ⟨rfl, rfl, rfl, rfl⟩

theorem setOptionEnabled_keeps {r r' : NetRule} {opt : Nat} {en : Bool} (ho : NoCosBits opt)
    (h : setOptionEnabled r opt en = .ok r') : Keeps r r' := by
  unfold setOptionEnabled at h
  split at h
  · cases h
  · split at h
    · cases h
    · split at h <;> cases h
      · exact ⟨rfl, by simp [Nat.testBit_or, ho.1], by simp [Nat.testBit_or, ho.2.1],
          by simp [Nat.testBit_or, ho.2.2]⟩
      · exact ⟨rfl, rfl, rfl, rfl⟩

theorem setRequestType_keeps (r : NetRule) (ty : Nat) (p : Bool) : Keeps r (setRequestType r ty p) := by
  unfold setRequestType
  split <;> exact ⟨rfl, rfl, rfl, rfl⟩

theorem ite_ok_elim_c {α} {c : Prop} [Decidable c] {a b : PE α} {v : α} {P : Prop}
    (h : (if c then a else b) = .ok v) (h1 : c → a = .ok v → P) (h2 : ¬c → b = .ok v → P) : P := by
  split at h
  · next hc => exact h1 hc h
  · next hc => exact h2 hc h

/-- Every option other than `elemhide`, `generichide`, `jsinject`, `document` keeps bits 4, 5, 7. -/
theorem loadOption_other {px : ParseExt} {r r' : NetRule} {name value : Bytes}
    (n1 : name ≠ lit "elemhide") (n2 : name ≠ lit "generichide") (n3 : name ≠ lit "jsinject")
    (n4 : name ≠ lit "document")
    (h : loadOption px r name value = .ok r') : Keeps r r' := by
  unfold loadOption at h
  iterate 6 (refine ite_ok_elim h (setOptionEnabled_keeps (by decide)) ?_; clear h; intro h)
  -- dnstype
  refine ite_ok_elim h ?_ ?_ <;> clear h <;> intro h
  · obtain ⟨⟨p, rs⟩, hx, h⟩ := bind_ok_elim h
    cases pure_ok_elim h
    exact ⟨rfl, rfl, rfl, rfl⟩
  -- dnsrewrite
  refine ite_ok_elim h ?_ ?_ <;> clear h <;> intro h
  · split at h
    · cases pure_ok_elim h
      exact ⟨rfl, rfl, rfl, rfl⟩
    · cases h
  -- domain
  refine ite_ok_elim h ?_ ?_ <;> clear h <;> intro h
  · obtain ⟨⟨p, rs⟩, hx, h⟩ := bind_ok_elim h
    cases pure_ok_elim h
    exact ⟨rfl, rfl, rfl, rfl⟩
  -- denyallow
  refine ite_ok_elim h ?_ ?_ <;> clear h <;> intro h
  · obtain ⟨⟨p, rs⟩, hx, h⟩ := bind_ok_elim h
    refine ite_ok_elim h ?_ ?_ <;> clear h <;> intro h
    · cases h
    · cases pure_ok_elim h
      exact ⟨rfl, rfl, rfl, rfl⟩
  -- ctag
  refine ite_ok_elim h ?_ ?_ <;> clear h <;> intro h
  · obtain ⟨⟨p, rs⟩, hx, h⟩ := bind_ok_elim h
    cases pure_ok_elim h
    exact ⟨rfl, rfl, rfl, rfl⟩
  -- client
  refine ite_ok_elim h ?_ ?_ <;> clear h <;> intro h
  · obtain ⟨⟨p, rs⟩, hx, h⟩ := bind_ok_elim h
    cases pure_ok_elim h
    exact ⟨rfl, rfl, rfl, rfl⟩
  -- elemhide
  refine ite_ok_elim_c h (fun hc _ => absurd (by simpa using hc) n1) ?_; clear h; intro _ h
  -- generichide
  refine ite_ok_elim_c h (fun hc _ => absurd (by simpa using hc) n2) ?_; clear h; intro _ h
  -- genericblock
  refine ite_ok_elim h (setOptionEnabled_keeps (by decide)) ?_; clear h; intro h
  -- jsinject
  refine ite_ok_elim_c h (fun hc _ => absurd (by simpa using hc) n3) ?_; clear h; intro _ h
  -- urlblock, content, extension
  iterate 3 (refine ite_ok_elim h (setOptionEnabled_keeps (by decide)) ?_; clear h; intro h)
  -- ~extension
  refine ite_ok_elim h ?_ ?_ <;> clear h <;> intro h
  · cases pure_ok_elim h
    exact ⟨rfl,
      by show (r.enabled ^^^ Facts.OptionExtension).testBit 4 = _
         rw [Nat.testBit_xor, show Facts.OptionExtension.testBit 4 = false by decide, Bool.xor_false],
      by show (r.enabled ^^^ Facts.OptionExtension).testBit 5 = _
         rw [Nat.testBit_xor, show Facts.OptionExtension.testBit 5 = false by decide, Bool.xor_false],
      by show (r.enabled ^^^ Facts.OptionExtension).testBit 7 = _
         rw [Nat.testBit_xor, show Facts.OptionExtension.testBit 7 = false by decide, Bool.xor_false]⟩
  -- document
  refine ite_ok_elim_c h (fun hc _ => absurd (by simpa using hc) n4) ?_; clear h; intro _ h
  iterate 4 (refine ite_ok_elim h (setOptionEnabled_keeps (by decide)) ?_; clear h; intro h)
  -- content types
  split at h
  · cases pure_ok_elim h
    exact setRequestType_keeps _ _ _
  · refine ite_ok_elim h ?_ ?_ <;> clear h <;> intro h
    · split at h
      · cases pure_ok_elim h
        exact setRequestType_keeps _ _ _
      · cases h
    · cases h

/-- On an exception rule enabling an option that is not blacklist-only succeeds and ORs the bit. -/
theorem setOptionEnabled_wl {r : NetRule} {opt : Nat} (hw : r.whitelist = true)
    (hb : ((opt &&& Facts.OptionBlacklistOnly) == opt) = false) :
    setOptionEnabled r opt true = .ok { r with enabled := r.enabled ||| opt } := by
  unfold setOptionEnabled
  simp [hw, hb, pure, Except.pure]

theorem setIgnoringError_wl {r : NetRule} {opt : Nat} (hw : r.whitelist = true)
    (hb : ((opt &&& Facts.OptionBlacklistOnly) == opt) = false) :
    setIgnoringError r opt = { r with enabled := r.enabled ||| opt } := by
  unfold setIgnoringError
  rw [setOptionEnabled_wl hw hb]

theorem document_wl (r : NetRule) (hw : r.whitelist = true) :
    setIgnoringError (setIgnoringError (setIgnoringError (setIgnoringError r
        Facts.OptionJsinject) Facts.OptionUrlblock) Facts.OptionContent) Facts.OptionExtension =
    { r with enabled := r.enabled ||| Facts.OptionJsinject ||| Facts.OptionUrlblock ||| Facts.OptionContent |||
        Facts.OptionExtension } := by
  have e1 := setIgnoringError_wl (r := r) (opt := Facts.OptionJsinject) hw (by decide)
  rw [e1]
  have e2 := setIgnoringError_wl (r := { r with enabled := r.enabled ||| Facts.OptionJsinject })
    (opt := Facts.OptionUrlblock) hw (by decide)
  rw [e2]
  have e3 := setIgnoringError_wl (r := { r with enabled := r.enabled ||| Facts.OptionJsinject ||| Facts.OptionUrlblock })
    (opt := Facts.OptionContent) hw (by decide)
  rw [e3]
  have e4 := setIgnoringError_wl
    (r := { r with enabled := r.enabled ||| Facts.OptionJsinject ||| Facts.OptionUrlblock ||| Facts.OptionContent })
    (opt := Facts.OptionExtension) hw (by decide)
  rw [e4]

/-- Which option names set which of the three bits. -/
def setsE (n : Bytes) : Bool := n == lit "elemhide" || n == lit "document"
def setsG (n : Bytes) : Bool := n == lit "generichide"
def setsJ (n : Bytes) : Bool := n == lit "jsinject" || n == lit "document"

/-- The invariant of the option loop on an exception rule. -/
structure CosInv (e g j : Bool) (r : NetRule) : Prop where
  wl : r.whitelist = true
  b4 : r.enabled.testBit 4 = e
  b5 : r.enabled.testBit 5 = g
  b7 : r.enabled.testBit 7 = j

theorem CosInv.of_keeps {e g j : Bool} {r r' : NetRule} (hr : CosInv e g j r) (hk : Keeps r r') :
    CosInv e g j r' :=
  ⟨by rw [hk.wl]; exact hr.wl, by rw [hk.b4]; exact hr.b4, by rw [hk.b5]; exact hr.b5, by rw [hk.b7]; exact hr.b7⟩

theorem loadOption_elemhide (px : ParseExt) (r : NetRule) (value : Bytes) :
    loadOption px r (lit "elemhide") value = setOptionEnabled r Facts.OptionElemhide true := by
  unfold loadOption; rfl

theorem loadOption_generichide (px : ParseExt) (r : NetRule) (value : Bytes) :
    loadOption px r (lit "generichide") value = setOptionEnabled r Facts.OptionGenerichide true := by
  unfold loadOption; rfl

theorem loadOption_jsinject (px : ParseExt) (r : NetRule) (value : Bytes) :
    loadOption px r (lit "jsinject") value = setOptionEnabled r Facts.OptionJsinject true := by
  unfold loadOption; rfl

theorem loadOption_document (px : ParseExt) (r : NetRule) (value : Bytes) :
    loadOption px r (lit "document") value = (do
      let r ← setOptionEnabled r Facts.OptionElemhide true
      pure (setIgnoringError (setIgnoringError (setIgnoringError (setIgnoringError r
        Facts.OptionJsinject) Facts.OptionUrlblock) Facts.OptionContent) Facts.OptionExtension)) := by
  unfold loadOption; rfl

/-- One option on an exception rule. -/
theorem loadOption_cos {px : ParseExt} {r r' : NetRule} {name value : Bytes} {e g j : Bool}
    (hr : CosInv e g j r) (h : loadOption px r name value = .ok r') :
    CosInv (e || setsE name) (g || setsG name) (j || setsJ name) r' := by
  by_cases n1 : name = lit "elemhide"
  · subst n1
    rw [loadOption_elemhide, setOptionEnabled_wl hr.wl (by decide)] at h
    cases h
    exact ⟨hr.wl, by simp only [Nat.testBit_or, hr.b4]; cases e <;> decide,
      by simp only [Nat.testBit_or, hr.b5]; cases g <;> decide,
      by simp only [Nat.testBit_or, hr.b7]; cases j <;> decide⟩
  by_cases n2 : name = lit "generichide"
  · subst n2
    rw [loadOption_generichide, setOptionEnabled_wl hr.wl (by decide)] at h
    cases h
    exact ⟨hr.wl, by simp only [Nat.testBit_or, hr.b4]; cases e <;> decide,
      by simp only [Nat.testBit_or, hr.b5]; cases g <;> decide,
      by simp only [Nat.testBit_or, hr.b7]; cases j <;> decide⟩
  by_cases n3 : name = lit "jsinject"
  · subst n3
    rw [loadOption_jsinject, setOptionEnabled_wl hr.wl (by decide)] at h
    cases h
    exact ⟨hr.wl, by simp only [Nat.testBit_or, hr.b4]; cases e <;> decide,
      by simp only [Nat.testBit_or, hr.b5]; cases g <;> decide,
      by simp only [Nat.testBit_or, hr.b7]; cases j <;> decide⟩
  by_cases n4 : name = lit "document"
  · subst n4
    rw [loadOption_document, setOptionEnabled_wl hr.wl (by decide)] at h
    simp only [bind, Except.bind, pure, Except.pure] at h
    rw [document_wl ({ r with enabled := r.enabled ||| Facts.OptionElemhide }) hr.wl] at h
    cases h
    exact ⟨hr.wl, by simp only [Nat.testBit_or, hr.b4]; cases e <;> decide,
      by simp only [Nat.testBit_or, hr.b5]; cases g <;> decide,
      by simp only [Nat.testBit_or, hr.b7]; cases j <;> decide⟩
  have hk := loadOption_other n1 n2 n3 n4 h
  have e1 : setsE name = false := by simp [setsE, n1, n4]
  have e2 : setsG name = false := by simp [setsG, n2]
  have e3 : setsJ name = false := by simp [setsJ, n3, n4]
  rw [e1, e2, e3, Bool.or_false, Bool.or_false, Bool.or_false]
  exact hr.of_keeps hk

/-! ### the loop -/

/-- The name `loadOptions` hands to `loadOption` for one comma-separated piece: the text before the first
    `=` unless that `=` is the first byte. -/
def optName (o : Bytes) : Bytes :=
  match indexByte o (ch '=') with
  | some i => if i > 0 then o.take i else o
  | none => o

theorem sliceC_zero {s n : Bytes} {i : Nat} (h : sliceC s 0 i = .ok n) : n = s.take i := by
  unfold sliceC Bytes.slice? at h
  split at h
  · next r hr =>
    split at hr
    · cases hr; cases h; simp
    · cases hr
  · cases h

theorem loadOptionsStep_cos {px : ParseExt} {r r' : NetRule} {o : Bytes} {e g j : Bool}
    (hr : CosInv e g j r) (h : loadOptionsStep px r o = .ok r') :
    CosInv (e || setsE (optName o)) (g || setsG (optName o)) (j || setsJ (optName o)) r' := by
  unfold loadOptionsStep at h
  unfold optName
  split at h
  · next i hi =>
    rw [hi]
    simp only
    refine ite_ok_elim_c h ?_ ?_ <;> clear h <;> intro hc h
    · obtain ⟨name, hn, h⟩ := bind_ok_elim h
      obtain ⟨value, _, h⟩ := bind_ok_elim h
      rw [if_pos hc, ← sliceC_zero hn]
      exact loadOption_cos hr h
    · rw [if_neg hc]
      exact loadOption_cos hr h
  · next hi =>
    rw [hi]
    exact loadOption_cos hr h

theorem foldlM_cos {px : ParseExt} (parts : List Bytes) :
    ∀ (r r' : NetRule) (e g j : Bool), CosInv e g j r → parts.foldlM (loadOptionsStep px) r = .ok r' →
      CosInv (e || parts.any (fun o => setsE (optName o))) (g || parts.any (fun o => setsG (optName o)))
        (j || parts.any (fun o => setsJ (optName o))) r' := by
  induction parts with
  | nil =>
    intro r r' e g j hr h
    simp only [List.foldlM, pure, Except.pure] at h
    cases h
    simpa using hr
  | cons o rest ih =>
    intro r r' e g j hr h
    simp only [List.foldlM] at h
    obtain ⟨r1, h1, h2⟩ := bind_ok_elim h
    have := ih r1 r' _ _ _ (loadOptionsStep_cos hr h1) h2
    simpa [Bool.or_assoc] using this

/-- The option names of the options part of a rule text, as `loadOptions` sees them. -/
def optionNames (opts : Bytes) : List Bytes :=
  if opts.isEmpty then [] else
  match splitWithEscapeCharacter opts (ch ',') (ch '\\') false with
  | .ok parts => parts.map optName
  | .error _ => []

theorem loadOptions_cos {px : ParseExt} {r r' : NetRule} {opts : Bytes} {e g j : Bool}
    (hr : CosInv e g j r) (h : loadOptions px r opts = .ok r') :
    CosInv (e || (optionNames opts).any setsE) (g || (optionNames opts).any setsG)
      (j || (optionNames opts).any setsJ) r' := by
  unfold loadOptions at h
  unfold optionNames
  refine ite_ok_elim_c h ?_ ?_ <;> clear h <;> intro hc h
  · cases pure_ok_elim h
    rw [if_pos hc]
    simpa using hr
  · obtain ⟨parts, hp, h⟩ := bind_ok_elim h
    obtain ⟨r1, hf, h⟩ := bind_ok_elim h
    rw [if_neg hc, hp]
    simp only [List.any_map]
    have hr1 := foldlM_cos parts r r1 e g j hr hf
    refine ite_ok_elim h ?_ ?_ <;> clear h <;> intro h
    · cases pure_ok_elim h
      exact ⟨hr1.wl, hr1.b4, hr1.b5, hr1.b7⟩
    · cases pure_ok_elim h
      exact hr1

/-- The three bits of a parsed EXCEPTION rule, from its text. -/
theorem parseNetRule_cos_bits {px : ParseExt} {t : Bytes} {id : Int} {r : NetRule}
    (h : parseNetRule px t id = .ok r) (hw : r.whitelist = true) :
    ∃ pat opts, parseRuleText t = .ok (pat, opts, true) ∧
      r.isEnabled Facts.OptionElemhide = (optionNames opts).any setsE ∧
      r.isEnabled Facts.OptionGenerichide = (optionNames opts).any setsG ∧
      r.isEnabled Facts.OptionJsinject = (optionNames opts).any setsJ := by
  have hfull := h
  unfold parseNetRule at h
  obtain ⟨⟨pattern, options, whitelist⟩, hprt, h⟩ := bind_ok_elim h
  obtain ⟨r1, hl, h⟩ := bind_ok_elim h
  -- the tail keeps `enabled` and `whitelist`
  have tail : r.enabled = r1.enabled ∧ r.whitelist = r1.whitelist := by
    extract_lets jp at h
    have hjp : ∀ r2, jp r2 = .ok r → r.enabled = r2.enabled ∧ r.whitelist = r2.whitelist := by
      intro r2 h
      simp only [jp] at h
      refine ite_ok_elim h ?_ ?_ <;> clear h <;> intro h
      · cases h
      · obtain ⟨sc, _, h⟩ := bind_ok_elim h
        refine ite_ok_elim h ?_ ?_ <;> clear h <;> intro h
        · cases pure_ok_elim h; exact ⟨rfl, rfl⟩
        · cases pure_ok_elim h; exact ⟨rfl, rfl⟩
    refine ite_ok_elim h ?_ ?_ <;> clear h <;> intro h
    · obtain ⟨p, _, h⟩ := bind_ok_elim h
      obtain ⟨r2, hp, h⟩ := bind_ok_elim h
      cases pure_ok_elim hp
      have := hjp _ h
      exact this
    · obtain ⟨r2, hp, h⟩ := bind_ok_elim h
      cases pure_ok_elim hp
      exact hjp _ h
  -- the exception flag is the one `parseRuleText` found (group I2's `parseNetRule_pattern`)
  have hwl : whitelist = true := by
    obtain ⟨pat', opts', wl', hp', _, hwl', _⟩ := I2.parseNetRule_pattern hfull
    rw [hprt] at hp'
    cases hp'
    rw [← hwl']; exact hw
  subst hwl
  have h0 : CosInv false false false
      ({ text := t, whitelist := true, listID := id, pattern := pattern } : NetRule) :=
    ⟨rfl, by simp, by simp, by simp⟩
  have hr1 := loadOptions_cos h0 hl
  refine ⟨pattern, options, hprt, ?_, ?_, ?_⟩
  · have : r.isEnabled Facts.OptionElemhide = r.enabled.testBit 4 := and_two_pow_beq r.enabled 4
    rw [this, tail.1, hr1.b4, Bool.false_or]
  · have : r.isEnabled Facts.OptionGenerichide = r.enabled.testBit 5 := and_two_pow_beq r.enabled 5
    rw [this, tail.1, hr1.b5, Bool.false_or]
  · have : r.isEnabled Facts.OptionJsinject = r.enabled.testBit 7 := and_two_pow_beq r.enabled 7
    rw [this, tail.1, hr1.b7, Bool.false_or]

/-! ### the named modifiers written in the text, and the reference option -/

/-- The nine modifiers of the property, by the name written in a rule text. -/
def nameToMod (n : Bytes) : Option CosMod :=
  if n == lit "elemhide" then some .elemhide
  else if n == lit "generichide" then some .generichide
  else if n == lit "jsinject" then some .jsinject
  else if n == lit "document" then some .document
  else if n == lit "urlblock" then some .urlblock
  else if n == lit "genericblock" then some .genericblock
  else if n == lit "content" then some .content
  else if n == lit "extension" then some .extension
  else if n == lit "important" then some .important
  else none

/-- The named modifiers WRITTEN in the options part of a rule text, in order, with repetitions. -/
def textCosMods (opts : Bytes) : List CosMod := (optionNames opts).filterMap nameToMod

theorem ite_some_elim_c {α} {c : Prop} [Decidable c] {a b : Option α} {v : α} {P : Prop}
    (h : (if c then a else b) = some v) (h1 : c → a = some v → P) (h2 : ¬c → b = some v → P) : P := by
  split at h
  · next hc => exact h1 hc h
  · next hc => exact h2 hc h

theorem nameToMod_bits {n : Bytes} {m : CosMod} (h : nameToMod n = some m) :
    m.bits.testBit 4 = setsE n ∧ m.bits.testBit 5 = setsG n ∧ m.bits.testBit 7 = setsJ n := by
  unfold nameToMod at h
  iterate 9 (
    refine ite_some_elim_c h (fun hc e => by
      have hn := eq_of_beq hc
      subst hn
      cases e
      decide) ?_
    clear h; intro _ h)
  cases h

theorem nameToMod_none {n : Bytes} (h : nameToMod n = none) :
    setsE n = false ∧ setsG n = false ∧ setsJ n = false := by
  unfold nameToMod at h
  unfold setsE setsG setsJ
  split at h; · cases h
  split at h; · cases h
  split at h; · cases h
  split at h; · cases h
  simp_all

theorem step_names (m : CosMod) (se sg sj a b c : Bool) (h4 : m.bits.testBit 4 = se)
    (h5 : m.bits.testBit 5 = sg) (h7 : m.bits.testBit 7 = sj) :
    0 ||| m.disabled |||
      (((if a = true then cosCSS ||| cosGenericCSS else 0) ||| if b = true then cosGenericCSS else 0) |||
        if c = true then cosJS else 0) =
    (((if (se || a) = true then cosCSS ||| cosGenericCSS else 0) |||
        if (sg || b) = true then cosGenericCSS else 0) |||
      if (sj || c) = true then cosJS else 0) := by
  subst h4; subst h5; subst h7
  exact (c16_step m a b c).symm

/-- The union of what the named modifiers of a list of option names disable. -/
theorem disabled_of_names (names : List Bytes) :
    (names.filterMap nameToMod).foldl (fun acc m => acc ||| m.disabled) (0 : CosOpt) =
      (((if names.any setsE then cosCSS ||| cosGenericCSS else 0) |||
        if names.any setsG then cosGenericCSS else 0) |||
       if names.any setsJ then cosJS else 0) := by
  induction names with
  | nil => decide
  | cons n ns ih =>
    cases hm : nameToMod n with
    | none =>
      obtain ⟨e1, e2, e3⟩ := nameToMod_none hm
      simp only [List.filterMap_cons, hm, List.any_cons, e1, e2, e3, Bool.false_or]
      exact ih
    | some m =>
      obtain ⟨e1, e2, e3⟩ := nameToMod_bits hm
      simp only [List.filterMap_cons, hm, List.foldl_cons, List.any_cons]
      rw [bv_foldl_or, ih]
      exact step_names m _ _ _ _ _ _ e1 e2 e3

/-- C16 FROM THE TEXT: for every text `NewNetworkRule` accepts as an EXCEPTION rule, `GetCosmeticOption` is
    the reference applied to the named modifiers written in the text. -/
theorem getCosmeticOption_text {px : ParseExt} {t : Bytes} {id : Int} {r : NetRule}
    (h : parseNetRule px t id = .ok r) (hw : r.whitelist = true) :
    ∃ pat opts, parseRuleText t = .ok (pat, opts, true) ∧
      getCosmeticOption (some r) = specCosmeticOption true (textCosMods opts) := by
  obtain ⟨pat, opts, hp, h4, h5, h7⟩ := parseNetRule_cos_bits h hw
  refine ⟨pat, opts, hp, ?_⟩
  rw [C16.c16_bits r hw, h4, h5, h7]
  unfold specCosmeticOption textCosMods
  rw [if_pos rfl, disabled_of_names]

end UF.Compose3

import UF.Compose.Basic
import UF.Spec.Result
import UF.Proofs.Result
/-
  Integration (group I3), part 1: the reference verdict class of C06 (`classWeb`, `classDns`) depends on the
  rule lists only through their members UP TO THE LIST ID — not on order, not on multiplicities, not on which
  list a rule came from.

  Why this is needed: `NetworkEngine.MatchAll` returns the matching rules in TABLE order (shortcut table,
  domains table, sequential table, the latter keeping ONE rule per text), the reference of C01 filters the
  rules in STORAGE order.  C01 compares the two as sets of texts; two rules of a storage with the same text
  differ at most in the list id (`TextDet`).  Group C proved invariance under permutations (`c06_perm`);
  what was missing for the composition is invariance under duplicates and list ids.  `ListsAgree` (group
  I1, UF/Compose/Basic.lean) is exactly "same members up to list id".
-/
namespace UF.Compose3
open UF UF.B UF.Compose

theorem precedence_agree {l l' : List NetRule} (h : ListsAgree l l') (c c' : NetRule → Bool)
    (hc : ∀ b b', SameButID b b' → c b = c' b') : precedence c l = precedence c' l' := by
  unfold precedence
  rw [any_agree h (fun r => c r && (r.whitelist && r.important)) (fun r => c' r && (r.whitelist && r.important))
        (fun b b' hb => by
          rw [hc b b' hb, congr_noID (fun x => x.whitelist) (fun _ => rfl) hb,
            congr_noID (fun x => x.important) (fun _ => rfl) hb]),
      any_agree h (fun r => c r && (!r.whitelist && r.important)) (fun r => c' r && (!r.whitelist && r.important))
        (fun b b' hb => by
          rw [hc b b' hb, congr_noID (fun x => x.whitelist) (fun _ => rfl) hb,
            congr_noID (fun x => x.important) (fun _ => rfl) hb]),
      any_agree h (fun r => c r && r.whitelist) (fun r => c' r && r.whitelist)
        (fun b b' hb => by rw [hc b b' hb, congr_noID (fun x => x.whitelist) (fun _ => rfl) hb]),
      any_agree h (fun r => c r && !r.whitelist) (fun r => c' r && !r.whitelist)
        (fun b b' hb => by rw [hc b b' hb, congr_noID (fun x => x.whitelist) (fun _ => rfl) hb])]

theorem srcUrlblock_agree {s s' : List NetRule} (h : ListsAgree s s') : srcUrlblock s = srcUrlblock s' := by
  unfold srcUrlblock
  exact any_agree h _ _ (fun b b' hb => by
    rw [effectiveIn_agree h hb, congr_noID (fun x => x.whitelist) (fun _ => rfl) hb,
      congr_noID (fun x => x.isEnabled Facts.OptionUrlblock) (fun _ => rfl) hb])

theorem srcGenericblock_agree {s s' : List NetRule} (h : ListsAgree s s') :
    srcGenericblock s = srcGenericblock s' := by
  unfold srcGenericblock
  exact any_agree h _ _ (fun b b' hb => by
    rw [effectiveIn_agree h hb, congr_noID (fun x => x.whitelist) (fun _ => rfl) hb,
      congr_noID (fun x => x.isEnabled Facts.OptionGenericblock) (fun _ => rfl) hb])

theorem webCandidate_agree {l l' s s' : List NetRule} (h : ListsAgree l l') (hs : ListsAgree s s')
    {r r' : NetRule} (hr : SameButID r r') : webCandidate l s r = webCandidate l' s' r' := by
  unfold webCandidate
  rw [effectiveIn_agree h hr, srcUrlblock_agree hs, srcGenericblock_agree hs,
    congr_noID isSpecial (fun _ => rfl) hr, congr_noID (fun x => x.whitelist) (fun _ => rfl) hr,
    congr_noID (fun x => x.isGeneric) (fun _ => rfl) hr]

/-- The reference class of a web request reads the two rule lists only up to order, multiplicities and
    list ids. -/
theorem classWeb_agree {l l' s s' : List NetRule} (h : ListsAgree l l') (hs : ListsAgree s s') :
    classWeb l s = classWeb l' s' := by
  unfold classWeb
  rw [precedence_agree h (webCandidate l s) (webCandidate l' s') (fun b b' hb => webCandidate_agree h hs hb),
    srcUrlblock_agree hs, srcGenericblock_agree hs]

/-- The same for the reference class of a DNS request. -/
theorem classDns_agree {l l' : List NetRule} (h : ListsAgree l l') : classDns l = classDns l' := by
  unfold classDns
  apply precedence_agree h
  intro b b' hb
  unfold dnsCandidate
  rw [effectiveIn_agree h hb, congr_noID isSpecial (fun _ => rfl) hb]

theorem listsAgree_refl (l : List NetRule) : ListsAgree l l :=
  ⟨fun r hr => ⟨r, hr, rfl⟩, fun r hr => ⟨r, hr, rfl⟩⟩

/-- Same members (any order, any multiplicities) ⇒ agreement. -/
theorem listsAgree_of_mem {l l' : List NetRule} (h : ∀ r, r ∈ l ↔ r ∈ l') : ListsAgree l l' :=
  ⟨fun r hr => ⟨r, (h r).1 hr, rfl⟩, fun r hr => ⟨r, (h r).2 hr, rfl⟩⟩

/-- Duplicating rules does not change the class (what `c06_perm` does not cover). -/
theorem classWeb_dup (l s : List NetRule) : classWeb (l ++ l) (s ++ s) = classWeb l s :=
  classWeb_agree (listsAgree_of_mem (by simp)) (listsAgree_of_mem (by simp))

/-- The list id is not read. -/
theorem classWeb_listID (l s : List NetRule) (f g : NetRule → Int) :
    classWeb (l.map fun r => setID (f r) r) (s.map fun r => setID (g r) r) = classWeb l s := by
  have key : ∀ (l : List NetRule) (f : NetRule → Int), ListsAgree (l.map fun r => setID (f r) r) l := by
    intro l f
    constructor
    · intro r hr
      obtain ⟨x, hx, rfl⟩ := List.mem_map.1 hr
      exact ⟨x, hx, rfl⟩
    · intro r hr
      exact ⟨setID (f r) r, List.mem_map.2 ⟨r, hr, rfl⟩, rfl⟩
  exact classWeb_agree (key l f) (key s g)

end UF.Compose3

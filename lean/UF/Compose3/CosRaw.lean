import UF.Props.C16
import UF.Compose3.CosText
import UF.Compose3.NetMatch
/-
  Group P1 (second adversarial review, m2): which NAMED modifiers switch which cosmetic option off — the three
  bits of the reference option `specCosmeticOption true mods`, read off the list of modifiers.
-/
namespace UF.Compose3
open UF

theorem any_bit4 (mods : List CosMod) :
    mods.any (fun m => m.bits.testBit 4) = true ↔ (CosMod.elemhide ∈ mods ∨ CosMod.document ∈ mods) := by
  rw [List.any_eq_true]
  constructor
  · rintro ⟨m, hm, hb⟩
    cases m <;> first | exact .inl hm | exact .inr hm | (exact absurd hb (by decide))
  · rintro (h | h)
    · exact ⟨_, h, by decide⟩
    · exact ⟨_, h, by decide⟩

theorem any_bit5 (mods : List CosMod) :
    mods.any (fun m => m.bits.testBit 5) = true ↔ CosMod.generichide ∈ mods := by
  rw [List.any_eq_true]
  constructor
  · rintro ⟨m, hm, hb⟩
    cases m <;> first | exact hm | (exact absurd hb (by decide))
  · intro h
    exact ⟨_, h, by decide⟩

theorem any_bit7 (mods : List CosMod) :
    mods.any (fun m => m.bits.testBit 7) = true ↔ (CosMod.jsinject ∈ mods ∨ CosMod.document ∈ mods) := by
  rw [List.any_eq_true]
  constructor
  · rintro ⟨m, hm, hb⟩
    cases m <;> first | exact .inl hm | exact .inr hm | (exact absurd hb (by decide))
  · rintro (h | h)
    · exact ⟨_, h, by decide⟩
    · exact ⟨_, h, by decide⟩

/-- THE THREE BITS of the reference option of an exception with the named modifiers `mods`:
    CSS is off iff `elemhide` or `document` is among them, generic CSS iff `elemhide`, `document` or
    `generichide` is, JS iff `jsinject` or `document` is.  Nothing else switches anything off. -/
theorem specCosmeticOption_bits (mods : List CosMod) :
    ((specCosmeticOption true mods &&& cosCSS ≠ cosCSS) ↔ (CosMod.elemhide ∈ mods ∨ CosMod.document ∈ mods)) ∧
    ((specCosmeticOption true mods &&& cosGenericCSS ≠ cosGenericCSS) ↔
      (CosMod.elemhide ∈ mods ∨ CosMod.document ∈ mods ∨ CosMod.generichide ∈ mods)) ∧
    ((specCosmeticOption true mods &&& cosJS ≠ cosJS) ↔ (CosMod.jsinject ∈ mods ∨ CosMod.document ∈ mods)) := by
  let r : NetRule := { whitelist := true, enabled := modsBits mods }
  have hspec : getCosmeticOption (some r) = specCosmeticOption true mods := C16.c16 r mods rfl rfl
  have hflags := C16.c16_flags r rfl
  rw [hspec] at hflags
  have key : ∀ k, r.enabled.testBit k = mods.any (fun m => m.bits.testBit k) := by
    intro k
    show (modsBits mods).testBit k = _
    rw [modsBits, testBit_foldl_or]; simp
  have he : r.isEnabled Facts.OptionElemhide = mods.any (fun m => m.bits.testBit 4) := by
    rw [← key]; exact and_two_pow_beq r.enabled 4
  have hg : r.isEnabled Facts.OptionGenerichide = mods.any (fun m => m.bits.testBit 5) := by
    rw [← key]; exact and_two_pow_beq r.enabled 5
  have hj : r.isEnabled Facts.OptionJsinject = mods.any (fun m => m.bits.testBit 7) := by
    rw [← key]; exact and_two_pow_beq r.enabled 7
  rw [he, hg, hj] at hflags
  unfold decodeCosmeticFlags at hflags
  simp only [Prod.mk.injEq] at hflags
  obtain ⟨f1, f2, f3⟩ := hflags
  refine ⟨?_, ?_, ?_⟩
  · rw [← any_bit4]
    cases h : mods.any (fun m => m.bits.testBit 4) <;> rw [h] at f1 <;> simp at f1 <;> simp [f1]
  · rw [← or_assoc, ← any_bit4, ← any_bit5]
    cases h4 : mods.any (fun m => m.bits.testBit 4) <;> cases h5 : mods.any (fun m => m.bits.testBit 5) <;>
      rw [h4, h5] at f3 <;> simp at f3 <;> simp [f3]
  · rw [← any_bit7]
    cases h : mods.any (fun m => m.bits.testBit 7) <;> rw [h] at f2 <;> simp at f2 <;> simp [f2]

/-- The option of an exception rule text and its three bits, from the named modifiers written in the text. -/
theorem cosmeticOption_text_bits {px : E.ParseExt} {t : Bytes} {id : Int} {r : NetRule}
    (h : E.parseNetRule px t id = .ok r) (hw : r.whitelist = true) :
    ∃ pat opts, E.parseRuleText t = .ok (pat, opts, true) ∧
      getCosmeticOption (some r) = specCosmeticOption true (textCosMods opts) ∧
      ((getCosmeticOption (some r) &&& cosCSS ≠ cosCSS) ↔
        (CosMod.elemhide ∈ textCosMods opts ∨ CosMod.document ∈ textCosMods opts)) ∧
      ((getCosmeticOption (some r) &&& cosGenericCSS ≠ cosGenericCSS) ↔
        (CosMod.elemhide ∈ textCosMods opts ∨ CosMod.document ∈ textCosMods opts ∨
          CosMod.generichide ∈ textCosMods opts)) ∧
      ((getCosmeticOption (some r) &&& cosJS ≠ cosJS) ↔
        (CosMod.jsinject ∈ textCosMods opts ∨ CosMod.document ∈ textCosMods opts)) := by
  obtain ⟨pat, opts, hp, ho⟩ := getCosmeticOption_text h hw
  obtain ⟨b1, b2, b3⟩ := specCosmeticOption_bits (textCosMods opts)
  refine ⟨pat, opts, hp, ho, ?_, ?_, ?_⟩
  · rw [ho]; exact b1
  · rw [ho]; exact b2
  · rw [ho]; exact b3

/-- The cosmetic option decided by the WINNER `w` among the web candidates of `L` (rules parsed from their
    texts). -/
theorem cosmeticOption_of_winner (px : E.ParseExt) (L S : List NetRule) (w : Option NetRule)
    (hwin : IsWinner (webCandidate L S) L w)
    (hparse : ∀ b ∈ L, E.parseNetRule px b.text b.listID = .ok b) :
    (w = none ∧ (∀ c ∈ L, webCandidate L S c = false) ∧ getCosmeticOption w = cosAll) ∨
    (∃ b, w = some b ∧ b ∈ L ∧ webCandidate L S b = true ∧
      (∀ c ∈ L, webCandidate L S c = true → isHigherPriority c b = false) ∧
      ((b.whitelist = false ∧ getCosmeticOption w = cosAll) ∨
       (b.whitelist = true ∧
        ∃ pat opts, E.parseRuleText b.text = .ok (pat, opts, true) ∧
          getCosmeticOption w = specCosmeticOption true (textCosMods opts) ∧
          ((getCosmeticOption w &&& cosCSS ≠ cosCSS) ↔
            (CosMod.elemhide ∈ textCosMods opts ∨ CosMod.document ∈ textCosMods opts)) ∧
          ((getCosmeticOption w &&& cosGenericCSS ≠ cosGenericCSS) ↔
            (CosMod.elemhide ∈ textCosMods opts ∨ CosMod.document ∈ textCosMods opts ∨
              CosMod.generichide ∈ textCosMods opts)) ∧
          ((getCosmeticOption w &&& cosJS ≠ cosJS) ↔
            (CosMod.jsinject ∈ textCosMods opts ∨ CosMod.document ∈ textCosMods opts))))) := by
  cases w with
  | none => exact .inl ⟨rfl, hwin, rfl⟩
  | some b =>
    obtain ⟨w1, w2, w3⟩ := hwin
    refine .inr ⟨b, rfl, w1, w2, w3, ?_⟩
    cases hw : b.whitelist with
    | false => exact .inl ⟨rfl, C16.c16_nonexception (some b) (fun r hr => by cases hr; exact hw)⟩
    | true => exact .inr ⟨rfl, cosmeticOption_text_bits (hparse b w1) hw⟩

end UF.Compose3

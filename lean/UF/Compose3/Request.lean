import UF.Compose3.WebTop
import UF.Compose2.MatchFull
import UF.Props.C04Full
/-
  Integration (group I3), part 3: the fields of the requests `Engine.MatchRequest` works with (group H's
  `NewRequest`), in the form the matching references (group E's `Request.InDomain`, group I2's
  `c04_full_end_to_end`) need them; and `Match` of a parsed rule replaced by its declarative reference.
-/
namespace UF.Compose3
open UF UF.B UF.Storage UF.Compose UF.I2

/-- `NewRequest` in closed form. -/
theorem requestOf_closed (ext : Ext) (url src : Bytes) (t : Nat) :
    ∃ h sh e se,
      H.extractHostname (url.take Facts.maxURLLength) = .ok h ∧
      H.extractHostname (src.take Facts.maxURLLength) = .ok sh ∧
      H.effectiveTLDPlusOne ext h = .ok e ∧ H.effectiveTLDPlusOne ext sh = .ok se ∧
      requestOf ext url src t =
        { reqType := t,
          url := url.take Facts.maxURLLength, urlLower := Bytes.toLower (url.take Facts.maxURLLength),
          hostname := h,
          sourceURL := src.take Facts.maxURLLength, sourceHostname := sh,
          domain := (if !e.isEmpty then e else h),
          sourceDomain := (if !se.isEmpty then se else sh),
          thirdParty := !(if !se.isEmpty then se else sh).isEmpty &&
            (if !se.isEmpty then se else sh) != (if !e.isEmpty then e else h) } := by
  obtain ⟨h, sh, e, se, h1, h2, h3, h4, hq⟩ := H.newRequest_eq ext url src t
  have := requestOf_eq ext url src t
  rw [hq] at this
  exact ⟨h, sh, e, se, h1, h2, h3, h4, (Except.ok.inj this).symm⟩

/-- What `NewRequest` stores, for every input (no hypothesis on the URLs). -/
theorem requestOf_fields (ext : Ext) (url src : Bytes) (t : Nat) :
    (requestOf ext url src t).url = url.take Facts.maxURLLength ∧
    (requestOf ext url src t).urlLower = Bytes.toLower (url.take Facts.maxURLLength) ∧
    (requestOf ext url src t).sourceURL = src.take Facts.maxURLLength ∧
    (requestOf ext url src t).reqType = t ∧
    (requestOf ext url src t).isHostnameRequest = false ∧
    (requestOf ext url src t).sortedTags = [] ∧
    (requestOf ext url src t).dnsType = 0 ∧
    (requestOf ext url src t).clientName = [] ∧
    (requestOf ext url src t).clientIP = none ∧
    H.extractHostname (url.take Facts.maxURLLength) = .ok (requestOf ext url src t).hostname ∧
    H.extractHostname (src.take Facts.maxURLLength) = .ok (requestOf ext url src t).sourceHostname := by
  obtain ⟨h, sh, e, se, h1, h2, _, _, hq⟩ := requestOf_closed ext url src t
  rw [hq]
  exact ⟨rfl, rfl, rfl, rfl, rfl, rfl, rfl, rfl, rfl, h1, h2⟩

/-- The referrer request: URL = the (capped) source URL, hostname = the source hostname, no source of its
    own, type `document`. -/
theorem sourceRequestOf_fields (ext : Ext) (url src : Bytes) (t : Nat) :
    (sourceRequestOf ext (requestOf ext url src t)).url = (requestOf ext url src t).sourceURL ∧
    (sourceRequestOf ext (requestOf ext url src t)).hostname = (requestOf ext url src t).sourceHostname ∧
    (sourceRequestOf ext (requestOf ext url src t)).sourceURL = [] ∧
    (sourceRequestOf ext (requestOf ext url src t)).sourceHostname = [] ∧
    (sourceRequestOf ext (requestOf ext url src t)).reqType = Facts.TypeDocument ∧
    (sourceRequestOf ext (requestOf ext url src t)).thirdParty = false := by
  obtain ⟨_, _, f3, _, _, _, _, _, _, _, f11⟩ := requestOf_fields ext url src t
  unfold sourceRequestOf
  generalize (requestOf ext url src t).sourceHostname = SH at f11 ⊢
  rw [f3]
  obtain ⟨a, b, e, se, h1, h2, h3, h4, hq⟩ :=
    requestOf_closed ext (src.take Facts.maxURLLength) [] Facts.TypeDocument
  rw [List.take_take, Nat.min_self] at h1 hq
  rw [f11] at h1
  have ha : SH = a := Except.ok.inj h1
  have hb : b = [] := by
    have : H.extractHostname ([] : Bytes) = .ok [] := rfl
    rw [List.take_nil, this] at h2
    exact (Except.ok.inj h2).symm
  subst hb
  have hse : se = [] := by
    have : H.effectiveTLDPlusOne ext [] = .ok [] := by simp [H.effectiveTLDPlusOne]
    rw [this] at h4
    exact (Except.ok.inj h4).symm
  subst hse
  rw [hq, ha]
  exact ⟨rfl, rfl, rfl, rfl, rfl, rfl⟩

/-- The requests of `Engine.MatchRequest` are in the domain of C04 as soon as the type is ONE content
    type and neither hostname starts with a dot. -/
theorem requestOf_inDomain (ext : Ext) (url src : Bytes) (t : Nat) (ht : ∃ k, t = 2 ^ k)
    (hh : (requestOf ext url src t).hostname.head? ≠ some (ch '.'))
    (hs : (requestOf ext url src t).sourceHostname.head? ≠ some (ch '.')) :
    (requestOf ext url src t).InDomain ∧ (sourceRequestOf ext (requestOf ext url src t)).InDomain := by
  obtain ⟨_, _, _, f4, _, f6, _⟩ := requestOf_fields ext url src t
  obtain ⟨_, g2, _, g4, g5, _⟩ := sourceRequestOf_fields ext url src t
  constructor
  · exact ⟨by rw [f4]; exact ht, by rw [f6]; exact List.Pairwise.nil, hh, hs⟩
  · refine ⟨⟨0, by rw [g5]; rfl⟩, ?_, by rw [g2]; exact hs, by rw [g4]; simp⟩
    unfold sourceRequestOf
    rw [(requestOf_fields ext _ [] Facts.TypeDocument).2.2.2.2.2.1]
    exact List.Pairwise.nil

/-- A pattern oracle that IS the model. -/
theorem withModelPat_eq_self {ext : Ext} (h : ext.pat = modelPatD) : withModelPat ext = ext := by
  cases ext
  simp only at h
  subst h
  rfl

/-- `Match` of a rule of the lists on a request of `Engine.MatchRequest` is the full declarative reference
    (every modifier as a set-membership statement, the pattern as the documented mask language, no
    shortcut pre-check): C03 + C04 + C05 + C12 composed (group I2), applied to the rules of a storage. -/
theorem matches_eq_ref (px : E.ParseExt) (lists : List RList) (hpat : px.ext.pat = modelPatD)
    (q : Request) (hq : q.InDomain) (hlower : q.urlLower = Bytes.toLower q.url)
    (hhost : q.isHostnameRequest = false) (r : NetRule) (hr : r ∈ allNet px lists)
    (hd : MaskDomain r.pattern q.url) :
    r.matches px.ext q = specMatchNoShortcut px.ext r q := by
  have hd' : MaskDomain r.pattern (specTarget r q) := by
    have : specTarget r q = q.url := by unfold specTarget; simp [hhost]
    rw [this]; exact hd
  have := C04.c04_full_end_to_end px r.text r.listID r q (allNet_parse hr) hq hd' hlower
    (by intro h; rw [hhost] at h; cases h)
  rw [withModelPat_eq_self hpat] at this
  exact this

/-- The matching lines, with `Match` replaced by the reference. -/
theorem matchingLines_eq_ref (px : E.ParseExt) (lists : List RList) (hpat : px.ext.pat = modelPatD)
    (q : Request) (hq : q.InDomain) (hlower : q.urlLower = Bytes.toLower q.url)
    (hhost : q.isHostnameRequest = false)
    (hd : ∀ r ∈ allNet px lists, MaskDomain r.pattern q.url) :
    matchingLines px lists q = (allNet px lists).filter (fun r => specMatchNoShortcut px.ext r q) := by
  unfold matchingLines specMatchAll
  apply List.filter_congr
  intro r hr
  exact matches_eq_ref px lists hpat q hq hlower hhost r hr (hd r hr)

end UF.Compose3

import UF.Compose3.Agree
import UF.Props.C01Compose
import UF.Model.RequestNew
import UF.Model.CosmeticOption
import UF.Proofs.RequestLabels
import UF.Proofs.ParseBits
/-
  Integration (group I3), part 2: the model of `Engine.MatchRequest` (engine.go) taken from RAW inputs —
  the bytes of the filter lists, the URL string, the source URL string and the request type:

      request     := rules.NewRequest(url, sourceURL, type)                       (group H)
      rules       := networkEngine.MatchAll(request)                              (groups B + D + E: I1)
      sourceRules := MatchAll(NewRequest(request.SourceURL, "", TypeDocument))    if SourceURL != ""
      result      := rules.NewMatchingResult(rules, sourceRules)                  (group C)

  `px` bundles the external oracles (public suffix, netip, the pattern oracle — `withModelPat` in the
  driver —, the `$dnsrewrite` value parser, the regexp shortcut finder).  The two `MatchAll` calls run
  against the storage in two (arbitrary) reachable cache states `history`, `history'`: the first call
  fills the cache the second one reads.
-/
namespace UF.Compose3
open UF UF.B UF.Storage UF.Compose

/-- `rules.NewRequest` as a total function (`H.newRequest` never takes its error branch: `requestOf_eq`). -/
def requestOf (ext : Ext) (url sourceURL : Bytes) (reqType : Nat) : Request :=
  match H.newRequest ext url sourceURL reqType with
  | .ok q => q
  | .error _ => default

theorem requestOf_eq (ext : Ext) (url sourceURL : Bytes) (reqType : Nat) :
    H.newRequest ext url sourceURL reqType = .ok (requestOf ext url sourceURL reqType) := by
  obtain ⟨_, _, _, _, _, _, _, _, hq⟩ := H.newRequest_eq ext url sourceURL reqType
  unfold requestOf
  rw [hq]

/-- `NetworkEngine.MatchAll` of the engine built from the lists, with the storage in cache state
    `reach … history`. -/
def netMatchAll (io : IO) (px : E.ParseExt) (lists : List RList) (st : RuleStorage)
    (history : List (BitVec 64)) (q : Request) : List NetRule :=
  (Engine.build djb2 Facts.shortcutLength (storageNetRules px lists)).matchAll djb2 Facts.shortcutLength
    (retrieveNet (retrieveAt io px (reach io px st history))) px.ext q

/-- The request `Engine.MatchRequest` builds for the referrer. -/
def sourceRequestOf (ext : Ext) (r : Request) : Request := requestOf ext r.sourceURL [] Facts.TypeDocument

/-- `Engine.MatchRequest(r)` for an already built request. -/
def engineMatch (io : IO) (px : E.ParseExt) (lists : List RList) (st : RuleStorage)
    (history history' : List (BitVec 64)) (r : Request) : MatchingResult :=
  let networkRules := netMatchAll io px lists st history r
  let sourceRules :=
    if r.sourceURL != [] then netMatchAll io px lists st history' (sourceRequestOf px.ext r) else []
  newMatchingResult networkRules sourceRules

/-- `NewEngine(storage).MatchRequest(NewRequest(url, sourceURL, reqType))`, from raw inputs. -/
def engineMatchRequest (io : IO) (px : E.ParseExt) (lists : List RList) (st : RuleStorage)
    (history history' : List (BitVec 64)) (url sourceURL : Bytes) (reqType : Nat) : MatchingResult :=
  engineMatch io px lists st history history' (requestOf px.ext url sourceURL reqType)

/-! ### the reference: the lines that individually match -/

/-- The network rules, parsed line by line from the contents, that individually match `q` (C01's reference
    over C11/C12's line-by-line reading). -/
def matchingLines (px : E.ParseExt) (lists : List RList) (q : Request) : List NetRule :=
  specMatchAll px.ext (netRulesOf (specRules px lists)) q

/-- … for the referrer (nothing without a source URL). -/
def sourceMatchingLines (px : E.ParseExt) (lists : List RList) (r : Request) : List NetRule :=
  if r.sourceURL != [] then matchingLines px lists (sourceRequestOf px.ext r) else []

theorem mem_matchingLines {px : E.ParseExt} {lists : List RList} {q : Request} {r : NetRule} :
    r ∈ matchingLines px lists q ↔
      (∃ l ∈ lists, ∃ piece ∈ splitLines l.content, E.newRule (realRx px) piece l.id = .ok (some (.net r))) ∧
        r.matches px.ext q = true := by
  unfold matchingLines specMatchAll
  rw [List.mem_filter, mem_netRulesOf, mem_specRules]
  constructor
  · rintro ⟨⟨l, hl, piece, hp, hn, _⟩, hm⟩; exact ⟨⟨l, hl, piece, hp, hn⟩, hm⟩
  · rintro ⟨⟨l, hl, piece, hp, hn⟩, hm⟩; exact ⟨⟨l, hl, piece, hp, hn, by simp [isCos]⟩, hm⟩

/-! ### `MatchAll` agrees with the reference up to order, multiplicities and list ids -/

/-- All network rules of the storage (the set `S` in which the text determines the rule). -/
def allNet (px : E.ParseExt) (lists : List RList) : List NetRule := netRulesOf (specRules px lists)

theorem allNet_textDet (px : E.ParseExt) (lists : List RList) : TextDet (allNet px lists) := by
  unfold allNet; rw [← storageRulesI_fst]; exact storage_textDet px lists

theorem netMatchAll_sub (io : IO) (px : E.ParseExt) (lists : List RList) (hok : StorageOK lists)
    (st : RuleStorage) (hnew : newRuleStorage lists = some st) (history : List (BitVec 64)) (q : Request) :
    ∀ r ∈ netMatchAll io px lists st history q, r ∈ allNet px lists ∧ r.matches px.ext q = true := by
  intro r hr
  have := C01.c01_sound djb2 Facts.shortcutLength _ px.ext (storageNetRules px lists) q
    (C01.c01_storage_length px lists hok) (C01.c01_storage_retrieval io px lists hok st hnew history) r hr
  rw [storageNetRules_eq_spec] at this
  exact this

/-- A rule of the storage was parsed from its text (with its list id). -/
theorem allNet_parse {px : E.ParseExt} {lists : List RList} {r : NetRule} (h : r ∈ allNet px lists) :
    E.parseNetRule px r.text r.listID = .ok r := by
  unfold allNet at h
  rw [← storageNetRules_eq_spec] at h
  obtain ⟨⟨r', i⟩, hm, rfl⟩ := List.mem_map.1 h
  exact (storageNetRules_parse hm).1

/-- No rule of a storage carries `$replace` (unreachable from rule text on this tree). -/
theorem allNet_noReplace {px : E.ParseExt} {lists : List RList} {r : NetRule} (h : r ∈ allNet px lists) :
    r.isEnabled Facts.OptionReplace = false :=
  (E.parseNetRule_no_advanced (allNet_parse h) Facts.OptionReplace (Or.inr (Or.inl rfl))).1

/-- C01 from bytes, in the form the verdict needs: what `MatchAll` returns and the matching lines agree up
    to order, multiplicities and list ids. -/
theorem netMatchAll_agree (io : IO) (px : E.ParseExt) (lists : List RList) (hok : StorageOK lists)
    (st : RuleStorage) (hnew : newRuleStorage lists = some st) (history : List (BitVec 64)) (q : Request) :
    ListsAgree (netMatchAll io px lists st history q) (matchingLines px lists q) := by
  apply listsAgree_of_texts (allNet_textDet px lists)
  · intro r hr; exact (netMatchAll_sub io px lists hok st hnew history q r hr).1
  · intro r hr
    unfold matchingLines specMatchAll at hr
    exact (List.mem_filter.1 hr).1
  · intro t
    exact C01.c01_storage io px lists hok st hnew history q t

theorem sourceRules_agree (io : IO) (px : E.ParseExt) (lists : List RList) (hok : StorageOK lists)
    (st : RuleStorage) (hnew : newRuleStorage lists = some st) (history' : List (BitVec 64)) (r : Request) :
    ListsAgree (if r.sourceURL != [] then netMatchAll io px lists st history' (sourceRequestOf px.ext r) else [])
      (sourceMatchingLines px lists r) := by
  unfold sourceMatchingLines
  split
  · exact netMatchAll_agree io px lists hok st hnew history' _
  · exact listsAgree_refl []

/-- The rules `NewMatchingResult` receives carry no `$replace` bit. -/
theorem netMatchAll_noReplace (io : IO) (px : E.ParseExt) (lists : List RList) (hok : StorageOK lists)
    (st : RuleStorage) (hnew : newRuleStorage lists = some st) (history : List (BitVec 64)) (q : Request) :
    ∀ r ∈ netMatchAll io px lists st history q, r.isEnabled Facts.OptionReplace = false :=
  fun r hr => allNet_noReplace (netMatchAll_sub io px lists hok st hnew history q r hr).1

/-- The verdict class of `Engine.MatchRequest` on a built request. -/
theorem engineMatch_class (io : IO) (px : E.ParseExt) (lists : List RList) (hok : StorageOK lists)
    (st : RuleStorage) (hnew : newRuleStorage lists = some st) (history history' : List (BitVec 64))
    (r : Request) :
    classOf (getBasicResult (engineMatch io px lists st history history' r)) =
      classWeb (matchingLines px lists r) (sourceMatchingLines px lists r) := by
  unfold engineMatch
  simp only
  have h1 := webClass_eq (netMatchAll io px lists st history r)
    (if r.sourceURL != [] then netMatchAll io px lists st history' (sourceRequestOf px.ext r) else [])
  rw [(trigger_false_of_no_replace _ (netMatchAll_noReplace io px lists hok st hnew history r)).1] at h1
  rw [h1]
  exact classWeb_agree (netMatchAll_agree io px lists hok st hnew history r)
    (sourceRules_agree io px lists hok st hnew history' r)

/-! ### the winner -/

/-- The basic rule and the document rule of the result are rules of the lists that match the request /
    the referrer request (C01 soundness + C06: the selected rule is one of the candidates). -/
theorem engineMatch_basic_mem (io : IO) (px : E.ParseExt) (lists : List RList) (hok : StorageOK lists)
    (st : RuleStorage) (hnew : newRuleStorage lists = some st) (history history' : List (BitVec 64))
    (r : Request) (b : NetRule) (h : (engineMatch io px lists st history history' r).basicRule = some b) :
    b ∈ matchingLines px lists r := by
  unfold engineMatch at h
  simp only at h
  have hb := (basicRule_mem _ _ b h).1
  obtain ⟨h1, h2⟩ := netMatchAll_sub io px lists hok st hnew history r b hb
  exact List.mem_filter.2 ⟨h1, h2⟩

end UF.Compose3

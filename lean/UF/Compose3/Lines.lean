import UF.Compose3.WebTop
import UF.Compose3.CosText
import UF.Compose.Inert
/-
  Group P1 (review 2, m1): the accepted network-rule TEXTS of a storage depend only on the SET OF LINES of its
  lists — not on the order of the lines, not on how they are distributed over lists, not on the list ids, not on
  the `ignoreCosmetic` flags or the backing.

  The list id is stored in the parsed rule and read by nothing in `NewRule` (`newRule_net_id`), so a line is
  accepted as a network rule under one id iff it is under any other, with the same text.
-/
namespace UF.Compose3
open UF UF.B UF.Storage UF.Compose UF.E Bytes

/-- Whether the hosts syntax accepts a line does not depend on the list id. -/
theorem hostRuleH_none_id (ext : Ext) (text : Bytes) (i j : Int) (h : hostRuleH ext text i = none) :
    hostRuleH ext text j = none := by
  unfold hostRuleH H.newHostRule at h ⊢
  cases hs : H.stripHostComment text with
  | error e => rfl
  | ok ruleText =>
    rw [hs] at h
    simp only at h ⊢
    cases hsp : H.splitNextByWhitespace ruleText with
    | error e => rfl
    | ok p =>
      obtain ⟨first, rest⟩ := p
      rw [hsp] at h
      simp only at h ⊢
      by_cases hr : (rest.length == 0) = true
      · simp only [hr, if_true] at h ⊢
        by_cases hd : (!dnE first) = true
        · simp only [hd, if_true]
        · simp only [hd, Bool.false_eq_true, if_false] at h
          cases h
      · simp only [hr, Bool.false_eq_true, if_false] at h ⊢
        cases hpa : ext.parseAddr first with
        | none => rfl
        | some a =>
          rw [hpa] at h
          simp only at h ⊢
          cases hn : H.hostNamesLoop rest.length rest [] with
          | error e => rfl
          | ok names => rw [hn] at h; cases h

/-- A line accepted as a network rule under the list id `i` is accepted under any id `j`, as the same rule up
    to the id (for any parameters whose hosts-syntax test does not read the id). -/
theorem newRule_net_id' {rx : RuleExt} {piece : Bytes} {i j : Int} {r : NetRule}
    (hhost : ∀ t, rx.newHostRule t i = none → rx.newHostRule t j = none)
    (h : newRule rx piece i = .ok (some (.net r))) :
    newRule rx piece j = .ok (some (.net (setID j r))) := by
  unfold newRule at h ⊢
  refine ite_ok_elim_c h ?_ ?_ <;> clear h <;> intro he h
  · cases pure_ok_elim h
  · obtain ⟨isc, hisc, h⟩ := bind_ok_elim h
    refine ite_ok_elim_c h ?_ ?_ <;> clear h <;> intro hc h
    · cases pure_ok_elim h
    · obtain ⟨mk, hmk, h⟩ := bind_ok_elim h
      cases mk with
      | some m =>
        simp only at h
        obtain ⟨c, _, h⟩ := bind_ok_elim h
        cases pure_ok_elim h
      | none =>
        simp only at h
        cases hh : rx.newHostRule (rx.trim piece) i with
        | some hr =>
          rw [hh] at h
          cases pure_ok_elim h
        | none =>
          rw [hh] at h
          simp only at h
          obtain ⟨n, hn, h⟩ := bind_ok_elim h
          cases pure_ok_elim h
          have hj := hhost _ hh
          have hp : parseNetRule rx.px (rx.trim piece) j = .ok (setID j r) := by
            rw [parseNetRule_setID rx.px (rx.trim piece) j i, hn]; rfl
          simp only [he, if_false, hisc, bind, Except.bind, hc, hmk, hj, hp, pure, Except.pure]

theorem newRule_net_id {px : ParseExt} {piece : Bytes} {i j : Int} {r : NetRule}
    (h : newRule (realRx px) piece i = .ok (some (.net r))) :
    newRule (realRx px) piece j = .ok (some (.net (setID j r))) :=
  newRule_net_id' (fun t ht => hostRuleH_none_id px.ext t i j ht) h

/-- The text of an accepted network rule does not depend on the list id either. -/
theorem setID_text (j : Int) (r : NetRule) : (setID j r).text = r.text := rfl

/-- All lines of a storage. -/
def allLines (lists : List RList) : List Bytes := lists.flatMap (fun l => splitLines l.content)

theorem mem_allLines {lists : List RList} {p : Bytes} :
    p ∈ allLines lists ↔ ∃ l ∈ lists, p ∈ splitLines l.content := by
  unfold allLines
  simp only [List.mem_flatMap]

/-- Storages with the same SET of lines (non-empty ones) have the same set of accepted network-rule texts. -/
theorem netTexts_of_lines (px : ParseExt) (lists lists' : List RList)
    (hsub : ∀ p, p ∈ allLines lists → p ∈ allLines lists') :
    ∀ t, t ∈ (netRulesOf (specRules px lists)).map (·.text) → t ∈ (netRulesOf (specRules px lists')).map (·.text) := by
  intro t ht
  obtain ⟨r, hr, rfl⟩ := List.mem_map.1 ht
  rw [mem_netRulesOf, mem_specRules] at hr
  obtain ⟨l, hl, piece, hp, hn, _⟩ := hr
  obtain ⟨l', hl', hp'⟩ := mem_allLines.1 (hsub piece (mem_allLines.2 ⟨l, hl, hp⟩))
  refine List.mem_map.2 ⟨setID l'.id r, ?_, rfl⟩
  rw [mem_netRulesOf, mem_specRules]
  exact ⟨l', hl', piece, hp', newRule_net_id hn, by simp [isCos]⟩

/-! ### contents built from lines -/

/-- The content whose lines are `ls` (joined with LF). -/
def joinLines (ls : List Bytes) : Bytes := joinSep ls [10]

theorem splitLines_joinLines (ls : List Bytes) (hne : ls ≠ []) (hfree : ∀ l ∈ ls, (10 : UInt8) ∉ l) :
    splitLines (joinLines ls) = ls := by
  induction ls with
  | nil => exact absurd rfl hne
  | cons l rest ih =>
    cases rest with
    | nil =>
      show splitLines (joinSep [l] [10]) = [l]
      have : joinSep [l] [10] = l := by simp [joinSep]
      rw [this]
      exact splitLines_of_not_mem (hfree l List.mem_cons_self)
    | cons m ms =>
      have : joinLines (l :: m :: ms) = l ++ 10 :: joinLines (m :: ms) := by
        unfold joinLines
        simp [joinSep]
      rw [this, splitLines_append_nl, splitLines_of_not_mem (hfree l List.mem_cons_self),
        ih (by simp) (fun x hx => hfree x (List.mem_cons_of_mem _ hx))]
      rfl

end UF.Compose3

import UF.Compose3.Agree
import UF.Compose3.WebTop
import UF.Model.Pool
import UF.Model.DnsRewrite
import UF.Spec.DnsRewrite
import UF.Proofs.DnsRewrite
import UF.Proofs.ProgBasic
import UF.Props.C02Compose
import UF.Props.C17
/-
  Integration (group I3), part 5: the model of `DNSEngine.MatchRequest(dReq)` + `DNSResult.DNSRewrites()`
  taken from RAW inputs — the bytes of the lists and the fields of `urlfilter.DNSRequest`:

      r   := getRequestFromPool(dReq)  = refill of a pooled request (group F: `fillFromPool`) through
             rules.FillRequestForHostname (group H; its `effectiveTLDPlusOne`)
      res := network rules: MatchAll(r) of the host-level rules; GetDNSBasicRule (group C);
             else the hosts table                                              (group B, from bytes: I1)
      res.DNSRewrites()                                                        (group C: `dnsRewrites`)

  Mismatch bridged here: group F's `fillRequestForHostname` takes `effectiveTLDPlusOne` as a plain function
  parameter `etld1 : Bytes → Bytes`, group H's model returns `Except HErr Bytes` (checked index expressions,
  proved total).  `etld1Of ext` is group H's function with the (impossible) error branch mapped to "";
  `fill_bridge` shows the two models of `FillRequestForHostname` are then the same function.
-/
namespace UF.Compose3
open UF UF.B UF.Storage UF.Compose

/-- Group H's `effectiveTLDPlusOne` as the parameter of group F's model. -/
def etld1Of (ext : Ext) (h : Bytes) : Bytes :=
  match H.effectiveTLDPlusOne ext h with
  | .ok e => e
  | .error _ => []

/-- The two models of `rules.FillRequestForHostname` (group F's in UF/Model/Pool.lean, group H's in
    UF/Model/RequestNew.lean) agree on every request and hostname. -/
theorem fill_bridge (ext : Ext) (r : Request) (hostname : Bytes) :
    H.fillRequestForHostname ext r hostname = .ok (UF.fillRequestForHostname (etld1Of ext) r hostname) := by
  obtain ⟨e, he, hf⟩ := H.fill_hostname ext r hostname
  rw [hf]
  unfold UF.fillRequestForHostname etld1Of
  simp only [he]
  cases e with
  | nil => rfl
  | cons c t => rfl

/-- `DNSEngine.getRequestFromPool(dReq)` applied to the pooled value `old`. -/
def dnsRequestOf (ext : Ext) (old : Request) (d : DReq) : Request := fillFromPool (etld1Of ext) old d

/-- The request in closed form: nothing of the pooled value is left. -/
theorem dnsRequestOf_closed (ext : Ext) (old : Request) (d : DReq) :
    dnsRequestOf ext old d =
      { url := lit "http://" ++ d.hostname, urlLower := lit "http://" ++ d.hostname, hostname := d.hostname,
        domain := if etld1Of ext d.hostname != [] then etld1Of ext d.hostname else d.hostname,
        sourceURL := [], sourceHostname := [], sourceDomain := [],
        sortedTags := d.sortedTags, reqType := Facts.TypeDocument, dnsType := d.dnsType,
        thirdParty := false, isHostnameRequest := true, clientName := d.clientName, clientIP := d.clientIP } := by
  unfold dnsRequestOf fillFromPool UF.fillRequestForHostname
  simp only
  split <;> rfl

/-- `DNSEngine.MatchRequest(dReq)` of the engine built from the lists, storage in cache state
    `reach … history`, pooled request `old`. -/
def dnsEngineMatchRequest (io : IO) (px : E.ParseExt) (lists : List RList) (st : RuleStorage)
    (history : List (BitVec 64)) (old : Request) (d : DReq) : DnsResult :=
  (DnsEngine.build djb2 Facts.shortcutLength (storageRulesI px lists)).matchRequest djb2 Facts.shortcutLength
    (retrieveAt io px (reach io px st history)) px.ext getDNSBasicRule (dnsRequestOf px.ext old d)

/-- `res.DNSRewrites()` (`none` = nil-pointer panic, excluded by C09). -/
def dnsEffectiveRewrites (res : DnsResult) : Option (List NetRule) := dnsRewrites res.networkRules

/-- The reference answer: `specDns` over the rules parsed line by line, for the request described by the
    DNS request fields alone. -/
def specDnsTop (px : E.ParseExt) (lists : List RList) (d : DReq) : DnsResult :=
  specDns px.ext getDNSBasicRule (specRules px lists) (dnsRequestOf px.ext default d)

/-- The DNS-applicable network rules of the lists that match the hostname request. -/
def dnsMatchingLines (px : E.ParseExt) (lists : List RList) (d : DReq) : List NetRule :=
  (netRulesOf (specRules px lists)).filter fun r =>
    dnsApplicable r && r.matches px.ext (dnsRequestOf px.ext default d)

theorem specDnsTop_networkRules (px : E.ParseExt) (lists : List RList) (d : DReq) (hd : d.hostname ≠ []) :
    (specDnsTop px lists d).networkRules = dnsMatchingLines px lists d := by
  unfold specDnsTop specDns dnsMatchingLines
  have hq : (dnsRequestOf px.ext default d).hostname.isEmpty = false := by
    rw [dnsRequestOf_closed]
    cases h : d.hostname with
    | nil => exact absurd h hd
    | cons => rfl
  simp only [hq, Bool.false_eq_true, if_false]
  split <;> rfl

/-! ### filters respect agreement up to list ids -/

theorem filter_agree {l l' : List NetRule} (h : ListsAgree l l') (p p' : NetRule → Bool)
    (hp : ∀ r r', SameButID r r' → p r = p' r') : ListsAgree (l.filter p) (l'.filter p') := by
  constructor
  · intro r hr
    obtain ⟨hm, hpr⟩ := List.mem_filter.1 hr
    obtain ⟨r', hr', hs⟩ := h.1 r hm
    exact ⟨r', List.mem_filter.2 ⟨hr', by rw [← hp r r' hs]; exact hpr⟩, hs⟩
  · intro r' hr'
    obtain ⟨hm, hpr⟩ := List.mem_filter.1 hr'
    obtain ⟨r, hr, hs⟩ := h.2 r' hm
    exact ⟨r, List.mem_filter.2 ⟨hr, by rw [hp r r' hs]; exact hpr⟩, hs⟩

theorem negatesBadfilter_congr {b b' r r' : NetRule} (hb : SameButID b b') (hr : SameButID r r') :
    negatesBadfilter b r = negatesBadfilter b' r' := by
  have h1 : negatesBadfilter b r = negatesBadfilter b' r :=
    congr_noID (fun x => negatesBadfilter x r) (fun _ => rfl) hb
  have h2 : negatesBadfilter b' r = negatesBadfilter b' r' :=
    congr_noID (fun x => negatesBadfilter b' x) (fun _ => rfl) hr
  rw [h1, h2]

theorem disables_congr {e e' r r' : NetRule} (he : SameButID e e') (hr : SameButID r r') :
    disables e r = disables e' r' := by
  have h1 : disables e r = disables e' r := congr_noID (fun x => disables x r) (fun _ => rfl) he
  have h2 : disables e' r = disables e' r' := congr_noID (fun x => disables e' x) (fun _ => rfl) hr
  rw [h1, h2]

theorem specRemoveBad_agree {l l' : List NetRule} (h : ListsAgree l l') :
    ListsAgree (specRemoveBad l) (specRemoveBad l') := by
  unfold specRemoveBad
  apply filter_agree h
  intro r r' hr
  rw [congr_noID (fun x => x.badfilter) (fun _ => rfl) hr,
    any_agree h (fun b => b.badfilter && negatesBadfilter b r) (fun b => b.badfilter && negatesBadfilter b r')
      (fun b b' hb => by
        rw [congr_noID (fun x => x.badfilter) (fun _ => rfl) hb, negatesBadfilter_congr hb hr])]

/-- The effective rewrites (reference of C09) of two lists of matched rules that agree up to order,
    multiplicities and list ids agree in the same sense. -/
theorem specRewrites_agree {l l' : List NetRule} (h : ListsAgree l l') :
    ListsAgree (specRewrites (dnsRewritesAll l)) (specRewrites (dnsRewritesAll l')) := by
  rw [dnsRewritesAll_eq, dnsRewritesAll_eq]
  have h1 : ListsAgree (l.filter (·.rewrite.isSome)) (l'.filter (·.rewrite.isSome)) :=
    filter_agree h _ _ (fun r r' hr => congr_noID (fun x => x.rewrite.isSome) (fun _ => rfl) hr)
  have h2 := specRemoveBad_agree h1
  unfold specRewrites specRewritesCore
  apply filter_agree h2
  intro r r' hr
  rw [congr_noID (fun x => x.whitelist) (fun _ => rfl) hr,
    any_agree h2 (fun e => e.whitelist && disables e r) (fun e => e.whitelist && disables e r')
      (fun e e' he => by rw [congr_noID (fun x => x.whitelist) (fun _ => rfl) he, disables_congr he hr])]

theorem texts_of_agree {l l' : List NetRule} (h : ListsAgree l l') (t : Bytes) :
    t ∈ l.map (·.text) ↔ t ∈ l'.map (·.text) := by
  constructor
  · intro ht
    obtain ⟨r, hr, rfl⟩ := List.mem_map.1 ht
    obtain ⟨r', hr', hs⟩ := h.1 r hr
    exact List.mem_map.2 ⟨r', hr', (congr_noID (fun x => x.text) (fun _ => rfl) hs).symm⟩
  · intro ht
    obtain ⟨r', hr', rfl⟩ := List.mem_map.1 ht
    obtain ⟨r, hr, hs⟩ := h.2 r' hr'
    exact List.mem_map.2 ⟨r, hr, congr_noID (fun x => x.text) (fun _ => rfl) hs⟩

/-! ### the network rules of the answer -/

/-- The network rules `MatchRequest` reports are host-level rules of the storage. -/
theorem dnsEngine_networkRules_sub (io : IO) (px : E.ParseExt) (lists : List RList) (hok : StorageOK lists)
    (st : RuleStorage) (hnew : newRuleStorage lists = some st) (history : List (BitVec 64)) (q : Request) :
    ∀ r ∈ ((DnsEngine.build djb2 Facts.shortcutLength (storageRulesI px lists)).matchRequest djb2
        Facts.shortcutLength (retrieveAt io px (reach io px st history)) px.ext getDNSBasicRule q).networkRules,
      r ∈ allNet px lists := by
  intro r hr
  obtain ⟨h1, h2, _, _⟩ := C02.c02_storage_hyps io px lists hok st hnew history
  have hret : RetrievalOK (retrieveNet (retrieveAt io px (reach io px st history)))
      (hostLevelNet (storageRulesI px lists)) := by
    intro p hp
    have := h2 _ ((mem_hostLevelNet _ p.1 p.2).1 hp).1
    simp only at this
    simp [retrieveNet, this]
  have hlen : (hostLevelNet (storageRulesI px lists)).length < maxInt32 :=
    Nat.lt_of_le_of_lt (hostLevelNet_length _) h1
  unfold DnsEngine.matchRequest at hr
  split at hr
  · cases hr
  · rw [dns_build_net] at hr
    have hmem : r ∈ (Engine.build djb2 Facts.shortcutLength (hostLevelNet (storageRulesI px lists))).matchAll djb2
        Facts.shortcutLength (retrieveNet (retrieveAt io px (reach io px st history))) px.ext q := by
      simp only at hr
      split at hr
      · exact hr
      · split at hr <;> exact hr
    have := (C01.c01_sound djb2 Facts.shortcutLength _ px.ext _ q hlen hret r hmem).1
    obtain ⟨⟨r', i⟩, hp, rfl⟩ := List.mem_map.1 this
    have hin := ((mem_hostLevelNet _ r' i).1 hp).1
    unfold allNet
    rw [← storageRulesI_fst, mem_netRulesOf]
    exact List.mem_map.2 ⟨_, hin, rfl⟩

/-- Host rules are looked up only when `GetDNSBasicRule` found nothing. -/
theorem matchRequest_hosts_only (hf : HashFns) (k : Nat) (retrieve : Idx → Option Rule) (ext : Ext)
    (basic : List NetRule → Option NetRule) (e : DnsEngine) (q : Request)
    (h : (e.matchRequest hf k retrieve ext basic q).networkRule ≠ none) :
    (e.matchRequest hf k retrieve ext basic q).v4 = [] ∧ (e.matchRequest hf k retrieve ext basic q).v6 = [] ∧
    (e.matchRequest hf k retrieve ext basic q).matched = true := by
  unfold DnsEngine.matchRequest at h ⊢
  by_cases hq : q.hostname.isEmpty = true
  · rw [if_pos hq] at h; exact absurd rfl h
  · rw [if_neg hq] at h ⊢
    simp only at h ⊢
    cases hb : basic (e.net.matchAll hf k (retrieveNet retrieve) ext q) with
    | some r => exact ⟨rfl, rfl, rfl⟩
    | none =>
      rw [hb] at h
      simp only at h
      split at h <;> exact absurd rfl h

end UF.Compose3

-- Property files of work group D (import UF.Props.Cxx lines go here).
import UF.Driver.Ops.GroupD
import UF.Props.C11
import UF.Props.C20

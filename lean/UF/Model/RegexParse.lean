import UF.Model.Regex
import UF.Model.RegexQuirk
/-
  `parseRE : Bytes → Option Re` – a model of `regexp/syntax.Parse(·, syntax.Perl)` for the subset

    literals, `\`-escapes of punctuation, `\d \D \w \W \s \S`, `\b \B \A \z`, `\a \f \n \r \t \v`, `\xHH`,
    `.`, classes `[…]`/`[^…]` with ranges and the escapes above, groups `(…)` and `(?:…)`,
    a leading `(?i)`, `|`, `* + ?` and `{m} {m,} {m,n}` (with an optional non-greedy `?`), `^ $`.

  `none` = syntax error OR outside the subset (the driver answers `ood`; whenever the real parser
  reports an error the model must answer `none`, which the `re` correspondence family checks).

  `parseCore` yields the TEXTBOOK tree of the text.  Go does not always compile the textbook reading
  (REVIEW2 F3): `parser.factor` merges the leading one-rune literals of adjacent alternation branches
  with an equality that ignores the fold-case flag (`A.|[aA]` is compiled as `A(?:.|(?:))`).  `parseRE`
  therefore answers with GO's tree: under a leading `(?i)` all flags are set and nothing diverges
  (`foldCase`); a case-sensitive text goes through `goTree` (UF/Model/RegexQuirk.lean), which is the
  identity unless the expression contains a source of case-folded literals (`Re.hazard`: a class `[xX]`,
  an alternation `x|X`), replays Go's factoring otherwise, and answers `none` (outside the domain) for such
  an expression when its text has a non-capturing group `(?:` or a non-greedy counted repetition `}?`.

  The parser is a LEFT FOLD over the bytes (`List.foldlM step`) with an explicit stack of open
  groups, as Go's own parser is – not recursive descent – so that
      `run s (a ++ b) = (run s a).bind (run · b)`                      (`run_append`)
  holds by `List.foldlM_append`.  Constructs that need look-ahead in Go (`(?`, `{m,n}`, `[^`, `a-]`)
  are handled by a small `Mode` that remembers what has been read; a `{` that turns out not to start
  a repetition is flushed as the literal characters it is.
-/
namespace UF.Re

/-- An open group: finished alternation branches and the atoms of the current branch (both reversed). -/
structure Frame where
  cap : Bool
  alts : List Re
  cur : List Re
  deriving DecidableEq, Repr, Inhabited

abbrev Ranges := List (UInt8 × UInt8)

/-- Position inside a character class. -/
inductive CMode where
  /-- expecting an item or `]` (`first`: a `]` here is a literal) -/
  | item (first : Bool)
  /-- read a single character `lo`; a `-` may follow (`raw`: it was an unescaped `[`) -/
  | pend (lo : UInt8) (raw : Bool)
  /-- read `lo-` -/
  | dash (lo : UInt8)
  /-- read `\` where an item starts -/
  | esc
  /-- read `\x` (and maybe one digit) where an item starts -/
  | escX (d : Option UInt8)
  /-- read `lo-\` -/
  | dashEsc (lo : UInt8)
  /-- read `lo-\x` (and maybe one digit) -/
  | dashEscX (lo : UInt8) (d : Option UInt8)
  deriving DecidableEq, Repr, Inhabited

inductive Mode where
  /-- between atoms -/
  | norm
  /-- read `\` -/
  | esc
  /-- read `\x` (and maybe one digit) -/
  | hex (d : Option UInt8)
  /-- read `(` -/
  | paren
  /-- read `(?` -/
  | parenQ
  /-- read `{` and the digits `ds` (reversed) -/
  | repMin (ds : Bytes)
  /-- read `{mn,` and the digits `ds` (both reversed) -/
  | repMax (mn ds : Bytes)
  /-- read `[` -/
  | clsOpen
  /-- inside a class: negated?, ranges so far (reversed), position -/
  | cls (neg : Bool) (rs : Ranges) (c : CMode)
  deriving DecidableEq, Repr, Inhabited

structure PState where
  /-- enclosing open groups, innermost first -/
  stack : List Frame
  /-- the group being read -/
  top : Frame
  mode : Mode
  /-- 0: the last token was not a repetition; 1: it was (`?` now means non-greedy);
      2: repetition followed by `?` (any further repetition operator is an error) -/
  rep : Nat
  deriving DecidableEq, Repr, Inhabited

def initState : PState := { stack := [], top := ⟨false, [], []⟩, mode := .norm, rep := 0 }

/-! ### Tables -/

def perlClass (c : UInt8) : Option Ranges :=
  if c == 100 then some [(48, 57)]                                         -- \d
  else if c == 68 then some [(0, 47), (58, 255)]                           -- \D
  else if c == 119 then some [(48, 57), (65, 90), (95, 95), (97, 122)]     -- \w
  else if c == 87 then some [(0, 47), (58, 64), (91, 94), (96, 96), (123, 255)]  -- \W
  else if c == 115 then some [(9, 10), (12, 13), (32, 32)]                 -- \s
  else if c == 83 then some [(0, 8), (11, 11), (14, 31), (33, 255)]        -- \S
  else none

def isAlnum (c : UInt8) : Bool := Bytes.isAlpha c || Bytes.isDigit c

/-- `parseEscape` for a single character (not `x`, not octal): C escapes and escaped punctuation. -/
def charEscape (c : UInt8) : Option UInt8 :=
  if c == 97 then some 7          -- \a
  else if c == 102 then some 12   -- \f
  else if c == 110 then some 10   -- \n
  else if c == 114 then some 13   -- \r
  else if c == 116 then some 9    -- \t
  else if c == 118 then some 11   -- \v
  else if c < 128 && !isAlnum c then some c
  else none

def hexVal (c : UInt8) : Option UInt8 :=
  if 48 ≤ c && c ≤ 57 then some (c - 48)
  else if 97 ≤ c && c ≤ 102 then some (c - 87)
  else if 65 ≤ c && c ≤ 70 then some (c - 55)
  else none

/-- value of `\xHH`; bytes ≥ 0x80 are outside the modelled (ASCII) domain -/
def hexByte (d v : UInt8) : Option UInt8 :=
  if d < 8 then some (d * 16 + v) else none

def decVal (ds : Bytes) : Nat := ds.foldl (fun n d => n * 10 + (d.toNat - 48)) 0

/-! ### Building blocks -/

def pushAtom (s : PState) (a : Re) : PState :=
  { s with top := { s.top with cur := a :: s.top.cur }, mode := .norm, rep := 0 }

def pushFrame (s : PState) (cap : Bool) : PState :=
  { s with stack := s.top :: s.stack, top := ⟨cap, [], []⟩, mode := .norm, rep := 0 }

/-- Apply a repetition operator to the last atom (`parser.repeat`). -/
def applyRep (s : PState) (mk : Re → Re) : Option PState :=
  if s.rep != 0 then none else
  match s.top.cur with
  | [] => none
  | a :: rest => some { s with top := { s.top with cur := mk a :: rest }, mode := .norm, rep := 1 }

/-- The expression of a finished group. -/
def closeFrame (f : Frame) : Re := mkAlt ((mkCat f.cur.reverse :: f.alts).reverse)

def pushLits (s : PState) (bs : Bytes) : PState := bs.foldl (fun s b => pushAtom s (.lit [b] false)) s

/-- A token in `norm` mode. -/
def stepNorm (s : PState) (c : UInt8) : Option PState :=
  if c == 92 then some { s with mode := .esc }                 -- \
  else if c == 40 then some { s with mode := .paren }          -- (
  else if c == 41 then                                         -- )
    match s.stack with
    | [] => none
    | f :: st =>
      let e := closeFrame s.top
      some (pushAtom { s with stack := st, top := f } (if s.top.cap then .grp e else e))
  else if c == 124 then                                        -- |
    some { s with top := { s.top with alts := mkCat s.top.cur.reverse :: s.top.alts, cur := [] },
                  mode := .norm, rep := 0 }
  else if c == 91 then some { s with mode := .clsOpen }        -- [
  else if c == 42 then applyRep s .star                        -- *
  else if c == 43 then applyRep s .plus                        -- +
  else if c == 63 then                                         -- ?
    if s.rep == 1 then some { s with rep := 2 } else applyRep s .quest
  else if c == 123 then some { s with mode := .repMin [] }     -- {
  else if c == 94 then some (pushAtom s .bol)                  -- ^
  else if c == 36 then some (pushAtom s .eol)                  -- $
  else if c == 46 then some (pushAtom s .any)                  -- .
  else if c ≥ 128 then none
  else some (pushAtom s (.lit [c] false))

/-- The character after `\` outside a class. -/
def stepEsc (s : PState) (c : UInt8) : Option PState :=
  match perlClass c with
  | some rs => some (pushAtom s (.cls false rs false))
  | none =>
    if c == 98 then some (pushAtom s .wordB)           -- \b
    else if c == 66 then some (pushAtom s .nwordB)     -- \B
    else if c == 65 then some (pushAtom s .bol)        -- \A
    else if c == 122 then some (pushAtom s .eol)       -- \z
    else if c == 120 then some { s with mode := .hex none }   -- \x
    else (charEscape c).map fun b => pushAtom s (.lit [b] false)

/-- `{…` did not turn out to be a repetition: the characters read are literals. -/
def flushRep (s : PState) : PState :=
  match s.mode with
  | .repMin ds => pushLits s (123 :: ds.reverse)
  | .repMax mn ds => pushLits s (123 :: mn.reverse ++ 44 :: ds.reverse)
  | _ => s

def leadingZero (ds : Bytes) : Bool := ds == [48]

def finishRep (s : PState) (m : Nat) (mx : Option Nat) : Option PState :=
  let bad := match mx with
    | none => decide (m > 1000)
    | some n => decide (m > 1000) || decide (n > 1000) || decide (n < m)
  if bad then none else applyRep s (fun a => .rep a m mx)

/-! ### Classes -/

inductive ClsOut where
  | more (rs : Ranges) (c : CMode)
  | done (rs : Ranges)

def clsItem (rs : Ranges) (first : Bool) (c : UInt8) : Option ClsOut :=
  if c == 93 && !first then some (.done rs)                 -- ]
  else if c == 92 then some (.more rs .esc)                 -- \
  else if c ≥ 128 then none
  else some (.more rs (.pend c (c == 91)))

def clsHi (rs : Ranges) (lo hi : UInt8) : Option ClsOut :=
  if hi < lo then none else some (.more ((lo, hi) :: rs) (.item false))

def clsStep (rs : Ranges) : CMode → UInt8 → Option ClsOut
  | .item first, c => clsItem rs first c
  | .pend lo raw, c =>
    if raw && c == 58 then none                              -- `[:` POSIX class: outside the subset
    else if c == 45 then some (.more rs (.dash lo))          -- -
    else clsItem ((lo, lo) :: rs) false c
  | .dash lo, c =>
    if c == 93 then some (.done ((45, 45) :: (lo, lo) :: rs))     -- `lo-]`
    else if c == 92 then some (.more rs (.dashEsc lo))
    else if c ≥ 128 then none
    else clsHi rs lo c
  | .esc, c =>
    match perlClass c with
    | some cr => some (.more (cr.reverse ++ rs) (.item false))
    | none =>
      if c == 120 then some (.more rs (.escX none))
      else (charEscape c).map fun b => .more rs (.pend b false)
  | .escX none, c => (hexVal c).map fun d => .more rs (.escX (some d))
  | .escX (some d), c => (hexVal c).bind fun v => (hexByte d v).map fun b => .more rs (.pend b false)
  | .dashEsc lo, c =>
    if c == 120 then some (.more rs (.dashEscX lo none))
    else (charEscape c).bind fun b => clsHi rs lo b
  | .dashEscX lo none, c => (hexVal c).map fun d => .more rs (.dashEscX lo (some d))
  | .dashEscX lo (some d), c => (hexVal c).bind fun v => (hexByte d v).bind fun b => clsHi rs lo b

def stepCls (s : PState) (neg : Bool) (rs : Ranges) (cm : CMode) (c : UInt8) : Option PState :=
  match clsStep rs cm c with
  | none => none
  | some (.more rs' cm') => some { s with mode := .cls neg rs' cm' }
  | some (.done rs') => some (pushAtom s (.cls neg rs'.reverse false))

/-! ### The fold -/

def isDigit (c : UInt8) : Bool := 48 ≤ c && c ≤ 57

def step (s : PState) (c : UInt8) : Option PState :=
  match s.mode with
  | .norm => stepNorm s c
  | .esc => stepEsc s c
  | .hex none => (hexVal c).map fun d => { s with mode := .hex (some d) }
  | .hex (some d) => (hexVal c).bind fun v => (hexByte d v).map fun b => pushAtom s (.lit [b] false)
  | .paren =>
    if c == 63 then some { s with mode := .parenQ }          -- (?
    else stepNorm (pushFrame s true) c
  | .parenQ =>
    if c == 58 then some (pushFrame s false)                 -- (?:
    else none
  | .repMin ds =>
    if isDigit c && !leadingZero ds then some { s with mode := .repMin (c :: ds) }
    else if c == 44 && !ds.isEmpty then some { s with mode := .repMax ds [] }      -- ,
    else if c == 125 && !ds.isEmpty then                                            -- }
      finishRep s (decVal ds.reverse) (some (decVal ds.reverse))
    else stepNorm (flushRep s) c
  | .repMax mn ds =>
    if isDigit c && !leadingZero ds then some { s with mode := .repMax mn (c :: ds) }
    else if c == 125 then
      finishRep s (decVal mn.reverse) (if ds.isEmpty then none else some (decVal ds.reverse))
    else stepNorm (flushRep s) c
  | .clsOpen =>
    if c == 94 then some { s with mode := .cls true [] (.item true) }     -- [^
    else stepCls s false [] (.item true) c
  | .cls neg rs cm => stepCls s neg rs cm c

def run (s : PState) (bs : Bytes) : Option PState := bs.foldlM step s

/-- End of input. -/
def finish (s : PState) : Option Re :=
  let s' := match s.mode with
    | .norm => some s
    | .repMin _ | .repMax _ _ => some (flushRep s)
    | _ => none
  s'.bind fun s =>
    match s.stack with
    | [] => let e := closeFrame s.top; if e.repOK then some e else none
    | _ :: _ => none

/-- The pattern without flag prefix. -/
def parseCore (p : Bytes) : Option Re := (run initState p).bind finish

def ciPrefix : Bytes := [40, 63, 105, 41]   -- "(?i)"

def ncgText : Bytes := [40, 63, 58]        -- "(?:"
def lazyRepText : Bytes := [125, 63]       -- "}?"

/-- Go's tree of a case-sensitive expression with the text `p` and the textbook tree `r` (group P3,
    UF/Model/RegexQuirk.lean).  Without a source of case-folded literals (`hazard`) it IS the textbook
    tree.  Otherwise `parser.factor` may merge a case-sensitive literal with a case-folded one
    (`Regexp.Equal` ignores the flag): `quirkTree` replays it — unless the text has a non-capturing
    group or a non-greedy counted repetition, whose effect on the grouping the tree `r` does not
    determine (`none`: outside the modelled domain). -/
def goTree (p : Bytes) (r : Re) : Option Re :=
  if !r.hazard then some r
  else if Bytes.hasSub p ncgText || Bytes.hasSub p lazyRepText then none
  else quirkTree r

/-- `syntax.Parse(p, syntax.Perl)` for the subset; a leading `(?i)` folds the whole expression (every
    literal then carries the fold flag and Go's simplifications preserve the language); a
    case-sensitive expression goes through `goTree`. -/
def parseRE (p : Bytes) : Option Re :=
  if Bytes.hasPrefix p ciPrefix then (parseCore (p.drop 4)).map foldCase else (parseCore p).bind (goTree p)

/-- Group G's key lemma: parsing a concatenation = parsing the first part, then the second from the
    state reached. -/
theorem run_append (s : PState) (a b : Bytes) : run s (a ++ b) = (run s a).bind (fun s' => run s' b) := by
  simp [run, List.foldlM_append]

theorem run_nil (s : PState) : run s [] = some s := rfl

theorem run_cons (s : PState) (c : UInt8) (bs : Bytes) : run s (c :: bs) = (step s c).bind (fun s' => run s' bs) := by
  simp [run, List.foldlM_cons]

theorem parseRE_ci (p : Bytes) : parseRE (ciPrefix ++ p) = (parseCore p).map foldCase := by
  simp [parseRE, ciPrefix, Bytes.hasPrefix]

end UF.Re

namespace UF

/-- `isRegexPattern` (rules/network.go): `/…/`. -/
def isRegexPattern (p : Bytes) : Bool :=
  decide (p.length > 1) && p.head? == some 47 && p.getLast? == some 47

/-- The text `preparePattern` compiles for a regex rule: the inside of `/…/`, with `(?i)` unless `$match-case`. -/
def regexRuleText (pattern : Bytes) (matchCase : Bool) : Bytes :=
  let inner := (pattern.drop 1).dropLast
  if matchCase then inner else Re.ciPrefix ++ inner

/-- Model of `preparePattern` + `MatchString` for a rule pattern that is a `/regex/` (candidate for `Ext.pat`).
    `none`: not a regex pattern, non-ASCII target, or an expression outside the modelled subset
    (which includes the invalid ones, for which Go answers `false`, and — group P3 — `$match-case`
    expressions with a source of case-folded literals AND a `(?:` / `}?` in the text). Mask patterns: see
    group G.  For `$match-case` rules the expression searched is GO's tree (`goTree`), e.g.
    `/A.|[aA]/$match-case` does not accept `a`. -/
def regexPat (pattern : Bytes) (matchCase : Bool) (target : Bytes) : Option Bool :=
  if !isRegexPattern pattern || !Bytes.isAscii target then none
  else (Re.parseRE (regexRuleText pattern matchCase)).map fun r => Re.searchFast r target

end UF

import UF.Model.Prog
/-
  The granularity and ownership ASSUMPTIONS of the Prog machine (Model/Prog.lean), written as data that
  the facts extracted with go/types from every package of the module (`Facts.p4Sections`,
  `Facts.p4Accesses`, `Facts.p4Writers`, harness/facts_p4.go) are compared with in
  Props/C14Sections.lean.  (Work group P4, item F6 of notes/REVIEW2.md.)

  `actionTable` (Model/Prog.lean) lists ROWS (method, field, r/w, lock): a de-duplicated set, which cannot
  say that two accesses lie in ONE critical section.  The atomic steps of `stepG` assume more:

  * `.get`  : ONE lookup of `s.cache` (under the read or the write side of `cacheMu`);
  * `.put`  : `cacheLookup s.cache idx` AND, on a miss, `cacheInsert` in ONE step -- check-then-act under
              the write side of `cacheMu` (the repair of D15; `put` preserving `CacheInv` and the object
              identity that `ruleIn` relies on need it);
  * `.read` : `Seek` + `readLine` of `FileRuleList.RetrieveRule` in ONE step under the list's exclusive
              mutex (`c14_granularity_matters` is the counterexample for two steps);
  * `.prep` : `preparePattern` reads the cell (`regex`, `invalid`) AND sets it in ONE step under the rule's
              mutex (`CellInv`, `CellsLe`: a set cell never changes);
  * `.rx`   : the one deliberate unlocked read of `regex`;
  * everything else a query touches (`Env`: tables, storage directory, rule objects) is never written.
-/
namespace UF.Prog

/-- Lock tokens under which a WRITE of a guarded field -- or any use of the stateful objects `File` (file
    position) and `buffer` (its content) -- is properly locked: the exclusive side of the mutex that guards
    it, held in the function itself or (`/caller`) at every call site of an unexported helper. -/
def exclusiveToks (field : String) : List String :=
  if field == "RuleStorage.cache" then ["Lock(RuleStorage.cacheMu)", "Lock(RuleStorage.cacheMu)/caller"]
  else if field == "FileRuleList.File" || field == "FileRuleList.buffer" then
    ["Lock(FileRuleList.Mutex)", "Lock(FileRuleList.Mutex)/caller",
     "Lock(FileRuleList.RWMutex)", "Lock(FileRuleList.RWMutex)/caller"]   -- the WRITE side of an embedded RWMutex is as good
  else if field == "NetworkRule.regex" || field == "NetworkRule.invalid" then
    ["Lock(NetworkRule.Mutex)", "Lock(NetworkRule.Mutex)/caller",
     "Lock(NetworkRule.RWMutex)", "Lock(NetworkRule.RWMutex)/caller"]
  else []

/-- Further tokens under which a READ is properly locked: the read side of the cache's RWMutex.  (Not for
    `File`/`buffer`: "reading" them moves the file position and overwrites the buffer -- seeded change C14-1.) -/
def sharedToks (field : String) : List String :=
  if field == "RuleStorage.cache" then ["RLock(RuleStorage.cacheMu)", "RLock(RuleStorage.cacheMu)/caller"]
  else []

def accessLocked (field rw : String) (locks : List String) : Bool :=
  locks.any (fun l => (exclusiveToks field).contains l || (rw == "r" && (sharedToks field).contains l))

/-- The accesses to guarded state that are deliberately NOT under a lock: (function, field, r/w).
    * `FileRuleList.Close`      the fault action of C19 (event `close` of schedules and histories)
    * `FileRuleList.NewScanner` engine construction
    * `NewFileRuleList`         the constructor stores the opened file in the object it is about to return
    * `RuleStorage.GetCacheSize` diagnostic, not a query action
    * `NetworkRule.matchPattern` the action `.rx` (reads `regex` after its own `preparePattern` returned 1) -/
def unlockedActions : List (String × String × String) := [
  ("filterlist.FileRuleList.Close", "FileRuleList.File", "r"),
  ("filterlist.FileRuleList.NewScanner", "FileRuleList.File", "r"),
  ("filterlist.NewFileRuleList", "FileRuleList.File", "w"),
  ("filterlist.RuleStorage.GetCacheSize", "RuleStorage.cache", "r"),
  ("rules.NetworkRule.matchPattern", "NetworkRule.regex", "r")
]

/-- A critical section as extracted: (function, lock token, ordered accesses (field, r/w)). -/
abbrev LockSection := String × String × List (String × String)

/-- The fields a section reads before its first write (its CHECK). -/
def checksOf : List (String × String) → List String
  | [] => []
  | (f, rw) :: rest => if rw == "w" then [] else f :: checksOf rest

/-- The fields a section writes (its ACT). -/
def writesOf (acc : List (String × String)) : List String :=
  (acc.filter (fun a => a.2 == "w")).map (·.1)

/-- What the model's atomic step inspects before it writes `field`, in the same step:
    `.put` looks `idx` up in the cache before inserting; `.prep` reads the cell -- both fields -- before setting it. -/
def checkSet (field : String) : List String :=
  if field == "RuleStorage.cache" then ["RuleStorage.cache"]
  else if field == "NetworkRule.regex" || field == "NetworkRule.invalid" then
    ["NetworkRule.regex", "NetworkRule.invalid"]
  else []

/-- A section agrees with the model: every access in it is properly locked by the section's own lock, and
    every field it writes was checked (read) earlier IN THE SAME SECTION, before the first write. -/
def sectionOK (s : LockSection) : Bool :=
  s.2.2.all (fun a => accessLocked a.1 a.2 [s.2.1]) &&
    (writesOf s.2.2).all (fun f => (checkSet f).all (fun c => (checksOf s.2.2).contains c))

/-- The critical sections the atomic actions stand for: (action, admissible lock tokens, check, act). -/
def modelSections : List (String × List String × List String × List String) := [
  ("get", ["RLock(RuleStorage.cacheMu)", "Lock(RuleStorage.cacheMu)"], ["RuleStorage.cache"], []),
  ("put", ["Lock(RuleStorage.cacheMu)"], ["RuleStorage.cache"], ["RuleStorage.cache"]),
  ("read", ["Lock(FileRuleList.Mutex)", "Lock(FileRuleList.RWMutex)"], ["FileRuleList.File", "FileRuleList.buffer"], []),
  ("prep", ["Lock(NetworkRule.Mutex)", "Lock(NetworkRule.RWMutex)"], ["NetworkRule.regex", "NetworkRule.invalid"],
    ["NetworkRule.regex", "NetworkRule.invalid"])
]

def hasSection (secs : List LockSection) (m : String × List String × List String × List String) : Bool :=
  secs.any (fun s => m.2.1.contains s.2.1 && m.2.2.1.all (fun c => (checksOf s.2.2).contains c) &&
    m.2.2.2.all (fun f => (writesOf s.2.2).contains f))

/-- Does the section use the file of a file list (position or buffer)? -/
def touchesFile (s : LockSection) : Bool :=
  s.2.2.any (fun a => a.1 == "FileRuleList.File" || a.1 == "FileRuleList.buffer")

/-! ### Bridge to the vocabulary of `actionTable` (Model/Prog.lean)

  `actionTable` writes fields without their struct (`cache`) and locks as the old receiver-only extractor printed
  them (`Lock(cacheMu)`, `Lock(recv)` for the embedded mutex of the receiver).  The typed tables say
  `RuleStorage.cache`, `Lock(RuleStorage.cacheMu)`, `Lock(FileRuleList.Mutex)`; a `/caller` suffix means the lock is
  held at every call site of the helper the access sits in. -/

def shortField (field : String) : String :=
  if field == "RuleStorage.cache" then "cache"
  else if field == "FileRuleList.File" then "File"
  else if field == "FileRuleList.buffer" then "buffer"
  else if field == "NetworkRule.regex" then "regex"
  else if field == "NetworkRule.invalid" then "invalid"
  else "?"

def shortLock (tok : String) : String :=
  if tok == "Lock(RuleStorage.cacheMu)" || tok == "Lock(RuleStorage.cacheMu)/caller" then "Lock(cacheMu)"
  else if tok == "RLock(RuleStorage.cacheMu)" || tok == "RLock(RuleStorage.cacheMu)/caller" then "RLock(cacheMu)"
  else if tok == "Lock(FileRuleList.Mutex)" || tok == "Lock(FileRuleList.Mutex)/caller" ||
      tok == "Lock(FileRuleList.RWMutex)" || tok == "Lock(FileRuleList.RWMutex)/caller" ||
      tok == "Lock(NetworkRule.Mutex)" || tok == "Lock(NetworkRule.Mutex)/caller" ||
      tok == "Lock(NetworkRule.RWMutex)" || tok == "Lock(NetworkRule.RWMutex)/caller" then "Lock(recv)"
  else "?"

/-- The lock of an extracted section serves for a row of the action table: the same lock, or the write side where
    the row asks for the read side of the same RWMutex (a `get` under `cacheMu.Lock()` is still one atomic lookup). -/
def lockServes (tok rowLock : String) : Bool :=
  shortLock tok == rowLock || (rowLock == "RLock(cacheMu)" && shortLock tok == "Lock(cacheMu)")

/-- The struct types whose fields (other than the guarded ones) are never written once the object has been
    constructed: group J's `frozenTypes` plus the rule objects (the model's `R`: `truth idx` is a VALUE, `pre`,
    `compile`, `accepts` are functions of it), their parts, and the rule lists. -/
def frozenTypesAll : List String :=
  frozenTypes ++ ["NetworkRule", "HostRule", "CosmeticRule", "DNSRewrite", "DNSMX", "DNSSRV", "DNSSVCB", "clients",
    "FileRuleList", "StringRuleList"]

/-- …of which these must have a constructor-only writer (non-vacuity of the writer scan). -/
def ctorWrittenTypesAll : List String :=
  frozenTypes ++ ["NetworkRule", "HostRule", "CosmeticRule", "DNSRewrite", "clients", "FileRuleList"]

/-- The guarded fields the extractor must have found in the source. -/
def guardedFields : List String :=
  ["FileRuleList.File", "FileRuleList.buffer", "NetworkRule.invalid", "NetworkRule.regex", "RuleStorage.cache"]

/-- The packages the scan must have covered (name:directory). -/
def scannedPackages : List String :=
  ["urlfilter:", "filterlist:filterlist", "filterutil:filterutil", "lookup:lookup", "proxy:proxy", "rules:rules"]

end UF.Prog

import UF.Basic.Bytes
/-
  Regex core: a model of Go `regexp` (RE2) for the subset used by urlfilter, on ASCII byte subjects.

  * `Re`     – the AST (mirrors the node kinds of `regexp/syntax.Regexp` that the subset can produce);
  * `St`     – a cursor into the subject: the bytes before the cursor (reversed) and the bytes after it,
               so that `^ $ \b \B` are assertions on the state;
  * `Den`    – the declarative semantics: `Den r s t` = "r can move the cursor from s to t";
  * `Re.m`   – a structurally recursive continuation-passing backtracking matcher (star through a
               length-fuelled loop); `UF/Proofs/Regex.lean` proves `m_iff : r.m s k ↔ ∃ t, Den r s t ∧ k t`;
  * `search` – unanchored `MatchString`: try every start position.

  Case-insensitive matching `(?i)` is a flag on literals and classes (`Re.foldCase` sets it everywhere).
  The semantics below is the textbook one for the TREE; which tree Go compiles for a TEXT is the
  parser's business (UF/Model/RegexParse.lean, and UF/Model/RegexQuirk.lean for the one place where Go's
  tree does not have the language of the text it was given).
  Validated against the real engine by the `re` / `c05.tree` op families (harness/op_re.go, op_c05.go).
-/
namespace UF

/-- Cursor state: `pre` is the consumed prefix REVERSED, `post` the rest of the subject. -/
structure St where
  pre : Bytes
  post : Bytes
  deriving DecidableEq, Repr, Inhabited

inductive Re where
  /-- matches the empty string (`OpEmptyMatch`) -/
  | empty
  /-- literal string (`OpLiteral`), `fold` = the `FoldCase` flag -/
  | lit (bs : Bytes) (fold : Bool)
  /-- `.` : any byte except `\n` (`OpAnyCharNotNL`) -/
  | any
  /-- any byte (`OpAnyChar`) -/
  | anyNL
  /-- character class: union of inclusive ranges, possibly negated; `fold` closes it under ASCII case
      before negation (as `(?i)[…]` does). `cls false [] false` matches nothing (`OpNoMatch`). -/
  | cls (neg : Bool) (rs : List (UInt8 × UInt8)) (fold : Bool)
  /-- `^` / `\A` without the multi-line flag (`OpBeginText`) -/
  | bol
  /-- `$` / `\z` without the multi-line flag (`OpEndText`) -/
  | eol
  /-- `\b` -/
  | wordB
  /-- `\B` -/
  | nwordB
  | cat (a b : Re)
  | alt (a b : Re)
  | star (a : Re)
  | plus (a : Re)
  | quest (a : Re)
  /-- `a{m,}` (`mx = none`) or `a{m,n}` (`mx = some n`) -/
  | rep (a : Re) (m : Nat) (mx : Option Nat)
  /-- capture group (transparent for matching) -/
  | grp (a : Re)
  deriving DecidableEq, Repr, Inhabited

namespace Re

def isWord (b : UInt8) : Bool := Bytes.isAlpha b || Bytes.isDigit b || b == 95

def isWordOpt : Option UInt8 → Bool
  | none => false
  | some b => isWord b

/-- Is the cursor at an ASCII word boundary? -/
def atWordB (s : St) : Bool := isWordOpt s.pre.head? != isWordOpt s.post.head?

/-- Literal byte comparison, with ASCII case folding when `fold`. -/
def byteEq (fold : Bool) (b c : UInt8) : Bool :=
  b == c || (fold && Bytes.lowerByte b == Bytes.lowerByte c)

def inRanges (b : UInt8) (rs : List (UInt8 × UInt8)) : Bool := rs.any fun r => r.1 ≤ b && b ≤ r.2

def clsMatch (neg : Bool) (rs : List (UInt8 × UInt8)) (fold : Bool) (b : UInt8) : Bool :=
  (inRanges b rs || (fold && (inRanges (Bytes.lowerByte b) rs || inRanges (Bytes.upperByte b) rs))) != neg

/-- Consume the literal `bs` at the cursor. -/
def litStep (fold : Bool) : Bytes → St → Option St
  | [], s => some s
  | c :: cs, s =>
    match s.post with
    | [] => none
    | b :: post => if byteEq fold b c then litStep fold cs ⟨b :: s.pre, post⟩ else none

/-- Consume one byte satisfying `p`. -/
def single (p : UInt8 → Bool) (s : St) (k : St → Bool) : Bool :=
  match s.post with
  | [] => false
  | b :: post => p b && k ⟨b :: s.pre, post⟩

end Re

open Re in
/-- Declarative semantics: `Den r s t` – the expression can move the cursor from `s` to `t`. -/
inductive Den : Re → St → St → Prop
  | empty {s} : Den .empty s s
  | lit {bs fold s t} : litStep fold bs s = some t → Den (.lit bs fold) s t
  | any {pre b post} : (b != 10) = true → Den .any ⟨pre, b :: post⟩ ⟨b :: pre, post⟩
  | anyNL {pre b post} : Den .anyNL ⟨pre, b :: post⟩ ⟨b :: pre, post⟩
  | cls {neg rs fold pre b post} : clsMatch neg rs fold b = true →
      Den (.cls neg rs fold) ⟨pre, b :: post⟩ ⟨b :: pre, post⟩
  | bol {s} : s.pre = [] → Den .bol s s
  | eol {s} : s.post = [] → Den .eol s s
  | wordB {s} : atWordB s = true → Den .wordB s s
  | nwordB {s} : atWordB s = false → Den .nwordB s s
  | cat {a b s t u} : Den a s t → Den b t u → Den (.cat a b) s u
  | altL {a b s t} : Den a s t → Den (.alt a b) s t
  | altR {a b s t} : Den b s t → Den (.alt a b) s t
  | star0 {a s} : Den (.star a) s s
  | starS {a s t u} : Den a s t → Den (.star a) t u → Den (.star a) s u
  | plus {a s t u} : Den a s t → Den (.star a) t u → Den (.plus a) s u
  | quest0 {a s} : Den (.quest a) s s
  | quest1 {a s t} : Den a s t → Den (.quest a) s t
  | repU0 {a s t} : Den (.star a) s t → Den (.rep a 0 none) s t
  | repUS {a m s t u} : Den a s t → Den (.rep a m none) t u → Den (.rep a (m + 1) none) s u
  | repB0 {a n s} : Den (.rep a 0 (some n)) s s
  | repBO {a n s t u} : Den a s t → Den (.rep a 0 (some n)) t u → Den (.rep a 0 (some (n + 1))) s u
  | repBS {a m n s t u} : Den a s t → Den (.rep a m (some n)) t u → Den (.rep a (m + 1) (some (n + 1))) s u
  | grp {a s t} : Den a s t → Den (.grp a) s t

namespace Re

/-- `a*` with fuel: an iteration must make progress (a zero-progress iteration returns the same state,
    see `Den.noprog`), so `fuel = length of the rest` suffices. -/
def starLoop (f : St → (St → Bool) → Bool) : Nat → St → (St → Bool) → Bool
  | 0, s, k => k s
  | n + 1, s, k => k s || f s (fun t => decide (t.post.length < s.post.length) && starLoop f n t k)

/-- exactly `n` iterations -/
def iterN (f : St → (St → Bool) → Bool) : Nat → St → (St → Bool) → Bool
  | 0, s, k => k s
  | n + 1, s, k => f s (fun t => iterN f n t k)

/-- between `m` and `n` iterations -/
def iterB (f : St → (St → Bool) → Bool) : Nat → Nat → St → (St → Bool) → Bool
  | 0, 0, s, k => k s
  | 0, n + 1, s, k => k s || f s (fun t => iterB f 0 n t k)
  | m + 1, n + 1, s, k => f s (fun t => iterB f m n t k)
  | _ + 1, 0, _, _ => false

/-- The matcher: `r.m s k` = "r can move the cursor from `s` to some `t` accepted by `k`". -/
def m : Re → St → (St → Bool) → Bool
  | .empty, s, k => k s
  | .lit bs fold, s, k =>
    match litStep fold bs s with
    | some t => k t
    | none => false
  | .any, s, k => single (fun b => b != 10) s k
  | .anyNL, s, k => single (fun _ => true) s k
  | .cls neg rs fold, s, k => single (clsMatch neg rs fold) s k
  | .bol, s, k => s.pre.isEmpty && k s
  | .eol, s, k => s.post.isEmpty && k s
  | .wordB, s, k => atWordB s && k s
  | .nwordB, s, k => !atWordB s && k s
  | .cat a b, s, k => a.m s (fun t => b.m t k)
  | .alt a b, s, k => a.m s k || b.m s k
  | .star a, s, k => starLoop a.m s.post.length s k
  | .plus a, s, k => a.m s (fun t => starLoop a.m t.post.length t k)
  | .quest a, s, k => k s || a.m s k
  | .rep a m none, s, k => iterN a.m m s (fun t => starLoop a.m t.post.length t k)
  | .rep a m (some n), s, k => iterB a.m m n s k
  | .grp a, s, k => a.m s k

/-- Try the match at the cursor and at every later position. -/
def searchFrom (r : Re) : Bytes → Bytes → Bool
  | pre, [] => r.m ⟨pre, []⟩ (fun _ => true)
  | pre, b :: post => r.m ⟨pre, b :: post⟩ (fun _ => true) || searchFrom r (b :: pre) post

/-- Unanchored `regexp.MatchString`. -/
def search (r : Re) (u : Bytes) : Bool := searchFrom r [] u

/-! ### A polynomial matcher: sets of cursor states

  `Re.m` backtracks and is exponential on expressions like `(.+|x)+y`.  The driver therefore evaluates
  `searchFast`, which pushes a SET of cursor states through the expression (`adv`), with `*` as a
  closure iteration; `UF/Proofs/RegexFast.lean` proves `mem_adv : t ∈ r.adv S ↔ ∃ s ∈ S, Den r s t` and
  `searchFast_eq : searchFast r u = search r u`. -/

def addSt (t : St) (acc : List St) : List St := if acc.contains t then acc else t :: acc

/-- union without new duplicates -/
def unionSt (a b : List St) : List St := a.foldl (fun acc t => addSt t acc) b

def stepSingle (p : UInt8 → Bool) (s : St) : Option St :=
  match s.post with
  | [] => none
  | b :: post => if p b then some ⟨b :: s.pre, post⟩ else none

def maxPost (S : List St) : Nat := S.foldl (fun m s => max m s.post.length) 0

/-- closure of `S` under `f`; stops as soon as a round adds nothing. -/
def starAdv (f : List St → List St) : Nat → List St → List St
  | 0, S => S
  | n + 1, S => if (f S).all (fun t => S.contains t) then S else starAdv f n (unionSt (f S) S)

def iterAdv (f : List St → List St) : Nat → List St → List St
  | 0, S => S
  | n + 1, S => iterAdv f n (f S)

def iterBAdv (f : List St → List St) : Nat → Nat → List St → List St
  | 0, 0, S => S
  | 0, n + 1, S => unionSt S (iterBAdv f 0 n (f S))
  | m + 1, n + 1, S => iterBAdv f m n (f S)
  | _ + 1, 0, _ => []

/-- All states reachable from a state of `S` through `r`. -/
def adv : Re → List St → List St
  | .empty, S => S
  | .lit bs fold, S => S.filterMap (litStep fold bs)
  | .any, S => S.filterMap (stepSingle fun b => b != 10)
  | .anyNL, S => S.filterMap (stepSingle fun _ => true)
  | .cls neg rs fold, S => S.filterMap (stepSingle (clsMatch neg rs fold))
  | .bol, S => S.filter fun s => s.pre.isEmpty
  | .eol, S => S.filter fun s => s.post.isEmpty
  | .wordB, S => S.filter atWordB
  | .nwordB, S => S.filter fun s => !atWordB s
  | .cat a b, S => b.adv (a.adv S)
  | .alt a b, S => unionSt (a.adv S) (b.adv S)
  | .star a, S => starAdv a.adv (maxPost S) S
  | .plus a, S => let S' := a.adv S; starAdv a.adv (maxPost S') S'
  | .quest a, S => unionSt S (a.adv S)
  | .rep a m none, S => let S' := iterAdv a.adv m S; starAdv a.adv (maxPost S') S'
  | .rep a m (some n), S => iterBAdv a.adv m n S
  | .grp a, S => a.adv S

def allStatesFrom : Bytes → Bytes → List St
  | pre, [] => [⟨pre, []⟩]
  | pre, b :: post => ⟨pre, b :: post⟩ :: allStatesFrom (b :: pre) post

/-- `search`, computed in polynomial time. -/
def searchFast (r : Re) (u : Bytes) : Bool := !(r.adv (allStatesFrom [] u)).isEmpty

/-- `(?i)`: set the fold flag on every literal and class. -/
def foldCase : Re → Re
  | .lit bs _ => .lit bs true
  | .cls neg rs _ => .cls neg rs true
  | .cat a b => .cat a.foldCase b.foldCase
  | .alt a b => .alt a.foldCase b.foldCase
  | .star a => .star a.foldCase
  | .plus a => .plus a.foldCase
  | .quest a => .quest a.foldCase
  | .rep a m mx => .rep a.foldCase m mx
  | .grp a => .grp a.foldCase
  | r => r

/-- Right-nested concatenation of a list of atoms (`[]` ↦ `empty`, `[a]` ↦ `a`). -/
def mkCat : List Re → Re
  | [] => .empty
  | [a] => a
  | a :: rest => .cat a (mkCat rest)

/-- Right-nested alternation of a non-empty list of branches (`[]` ↦ no match). -/
def mkAlt : List Re → Re
  | [] => .cls false [] false
  | [a] => a
  | a :: rest => .alt a (mkAlt rest)

/-- Go `repeatIsValid(re, n)`: nested counted repetitions may not exceed `n` copies in total. -/
def repValid : Re → Nat → Bool
  | .cat a b, n | .alt a b, n => a.repValid n && b.repValid n
  | .star a, n | .plus a, n | .quest a, n | .grp a, n => a.repValid n
  | .rep a m mx, n =>
    let c := match mx with | none => m | some x => x
    if mx == some 0 then true
    else if c > n then false
    else a.repValid (if c > 0 then n / c else n)
  | _, _ => true

/-- The check `parser.repeat` performs for every `{…}` node with `min ≥ 2 ∨ max ≥ 2`. -/
def repOK : Re → Bool
  | .cat a b | .alt a b => a.repOK && b.repOK
  | .star a | .plus a | .quest a | .grp a => a.repOK
  | .rep a m mx =>
    a.repOK && (if m ≥ 2 || (match mx with | some x => decide (x ≥ 2) | none => false)
                then (Re.rep a m mx).repValid 1000 else true)
  | _ => true

end Re
end UF

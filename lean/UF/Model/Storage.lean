import UF.Model.TrimSpace
import UF.Gen.Facts
/-
  Model of package filterlist (C11): the byte-offset bookkeeping of `RuleScanner.readNextLine`,
  `RuleScanner.Scan`, `StringRuleList.RetrieveRule`, `FileRuleList.RetrieveRule` + `readLine`
  (over an arbitrary chunking of the file reads), `ruleListIdxToStorageIdx` /
  `storageIdxToRuleListIdx` on bit vectors, `NewRuleStorage`, `RuleStorage.RetrieveRule` with its
  cache, `RuleStorageScanner`.

  The rule parser `rules.NewRule` is a PARAMETER (`Parser`); the single assumption the theorems
  need about it is `TrimsFirst` (NewRule starts with `line = strings.TrimSpace(line)`; an empty
  trimmed line gives `(nil, nil)`; the text of a produced rule is the trimmed line).
-/
namespace UF.Storage

/-- Dynamic type of a `rules.Rule`. -/
inductive Kind where
  | network | host | cosmetic
  deriving DecidableEq, Repr, Inhabited

/-- Outcome of `rules.NewRule(line, listID)`:
    `nothing` = `(nil, nil)` (blank line or comment); `rule` = `(r, nil)`; `error` = `(r, err)` with
    `err != nil` (on this tree `r` is then a typed nil pointer inside a non-nil interface). -/
inductive ParseResult where
  | nothing
  | rule (kind : Kind) (text : Bytes)
  | error
  deriving DecidableEq, Repr, Inhabited

/-- `rules.NewRule` as a parameter: line, list id ↦ outcome. -/
abbrev Parser := Bytes → Int → ParseResult

/-- What the theorems assume about `rules.NewRule` (group E proves it for the modelled parser):
    the line is trimmed first. -/
structure TrimsFirst (parse : Parser) : Prop where
  trim : ∀ l id, parse l id = parse (trimSpace l) id
  blank : ∀ l id, trimSpace l = [] → parse l id = .nothing
  text : ∀ l id k t, parse l id = .rule k t → t = trimSpace l

/-- A materialised rule as far as C11 observes it: kind, text, list id. -/
structure SRule where
  kind : Kind
  text : Bytes
  listID : Int
  deriving DecidableEq, Repr, Inhabited

/-! ### `RuleScanner` -/

/-- `bufio.Reader.ReadBytes('\n')` on the unread input: everything up to AND INCLUDING the first
    newline, or all of it when there is none. -/
def takeLine : Bytes → Bytes
  | [] => []
  | c :: r => if c == 10 then [c] else c :: takeLine r

/-- The input left after `ReadBytes('\n')`. -/
def dropLine : Bytes → Bytes
  | [] => []
  | c :: r => if c == 10 then r else dropLine r

theorem dropLine_length_le (s : Bytes) : (dropLine s).length ≤ s.length := by
  induction s with
  | nil => simp [dropLine]
  | cons c r ih => simp only [dropLine]; split <;> simp <;> omega

/-- Repeated `readNextLine`: `currentPos` starts at `pos`; each line is returned with the position
    of its first byte, and `currentPos += len(bytes)`.  A read of zero bytes is EOF. -/
def scanLinesFrom (pos : Nat) (s : Bytes) : List (Nat × Bytes) :=
  match s with
  | [] => []
  | c :: r =>
    let line := takeLine (c :: r)
    (pos, line) :: scanLinesFrom (pos + line.length) (dropLine (c :: r))
termination_by s.length
decreasing_by
  simp only [dropLine]
  split
  · simp
  · have := dropLine_length_le r; simp; omega

def scanLines (content : Bytes) : List (Nat × Bytes) := scanLinesFrom 0 content

/-- `RuleScanner.Scan` until it returns false: lines for which `NewRule` gives a rule without an
    error and that `isIgnored` does not drop, each with `currentRuleIndex`. -/
def scanList (parse : Parser) (id : Int) (ignoreCosmetic : Bool) (content : Bytes) : List (SRule × Nat) :=
  (scanLines content).filterMap fun (idx, line) =>
    match parse line id with
    | .rule k t => if ignoreCosmetic && k == .cosmetic then none else some (⟨k, t, id⟩, idx)
    | _ => none

/-! ### Retrieval from a list -/

/-- Result of a `RetrieveRule` call `(r, err)`.
    `panic`: a run-time panic (checked slices); `err`: `(nil, err)`; `nothing`: `(nil, nil)`;
    `bad`: `(typed nil, err)` -- what `NewRule` returns for an invalid rule; `nilRule`:
    `(typed nil, nil)` -- only ever served from the storage cache, see `retrieveRule`;
    `rule r`: `(r, nil)`. -/
inductive Retrieved where
  | panic | err | nothing | bad | nilRule
  | rule (r : SRule)
  deriving DecidableEq, Repr, Inhabited

def ofParse (id : Int) : ParseResult → Retrieved
  | .nothing => .nothing
  | .rule k t => .rule ⟨k, t, id⟩
  | .error => .bad

/-- `strings.IndexByte(s, '\n')`-delimited prefix: the bytes before the first newline (all of `s`
    if there is none). -/
def untilNL : Bytes → Bytes
  | [] => []
  | c :: r => if c == 10 then [] else c :: untilNL r

/-- `StringRuleList.RetrieveRule(ruleIdx)`; the two slice expressions are checked. -/
def retrieveString (parse : Parser) (id : Int) (content : Bytes) (ruleIdx : Int) : Retrieved :=
  if ruleIdx < 0 || ruleIdx ≥ content.length then .err else
  let i := ruleIdx.toNat
  match Bytes.slice? content i content.length with           -- l.RulesText[ruleIdx:]
  | none => .panic
  | some rest =>
    let endOfLine := match Bytes.indexByte rest 10 with
      | none => content.length
      | some k => k + i
    match Bytes.slice? content i endOfLine with               -- l.RulesText[ruleIdx:endOfLine]
    | none => .panic
    | some raw =>
      let line := trimSpace raw
      if line.isEmpty then .err else ofParse id (parse line id)

/-- One `os.File.Read` into the 4 KiB buffer: the operating system may return any number of bytes
    between 1 and the buffer size (and at most what is left); 0 only at EOF.  `chunk k` is what
    the k-th read would like to return. -/
def readSize (bufSize : Nat) (chunk : Nat → Nat) (k : Nat) (left : Nat) : Nat :=
  min (min (max (chunk k) 1) (max bufSize 1)) left

/-- `readLine(r, b)`: block reads until a block contains a newline; `rest` is the file content
    from the seek position, `k` counts the reads, `fuel` bounds the loop (each read with `n > 0`
    consumes at least one byte). -/
def readLineGo (bufSize : Nat) (chunk : Nat → Nat) : (fuel : Nat) → (k : Nat) → (rest : Bytes) → (line : Bytes) → Bytes
  | 0, _, _, line => line
  | fuel + 1, k, rest, line =>
    let n := readSize bufSize chunk k rest.length
    if n > 0 then
      let b := rest.take n
      match Bytes.indexByte b 10 with
      | none => readLineGo bufSize chunk fuel (k + 1) (rest.drop n) (line ++ b)
      | some idx => line ++ b.take idx
    else line

def readLine (bufSize : Nat) (chunk : Nat → Nat) (rest : Bytes) : Bytes :=
  readLineGo bufSize chunk (rest.length + 1) 0 rest []

/-- `FileRuleList.RetrieveRule(ruleIdx)` on a readable file: seek (a position beyond the end is
    not an error; reads there return EOF), `readLine`, trim, parse. -/
def retrieveFile (bufSize : Nat) (chunk : Nat → Nat) (parse : Parser) (id : Int) (content : Bytes)
    (ruleIdx : Int) : Retrieved :=
  if ruleIdx < 0 then .err else
  let line := trimSpace (readLine bufSize chunk (content.drop ruleIdx.toNat))
  if line.isEmpty then .err else ofParse id (parse line id)

/-! ### Storage index -/

/-- `ruleListIdxToStorageIdx`: `int64(listID)<<32 | int64(ruleIdx)&0xFFFFFFFF`
    (`<<` and `&` bind tighter than `|` in Go). -/
def pack (listID ruleIdx : BitVec 32) : BitVec 64 :=
  ((listID.signExtend 64) <<< 32) ||| ((ruleIdx.signExtend 64) &&& 0xFFFFFFFF#64)

/-- `storageIdxToRuleListIdx`: `int32(storageIdx >> 32)`, `int32(storageIdx)`. -/
def unpack (s : BitVec 64) : BitVec 32 × BitVec 32 :=
  ((s.sshiftRight 32).setWidth 32, s.setWidth 32)

/-! ### `RuleStorage` -/

/-- A rule list: `StringRuleList` (`file = false`) or `FileRuleList` over a file with the same
    content (`file = true`). -/
structure RList where
  id : Int
  ignoreCosmetic : Bool
  content : Bytes
  file : Bool
  deriving Repr, Inhabited

/-- The environment of file reads: buffer size (generated fact) and the chunking. -/
structure IO where
  bufSize : Nat
  chunk : Nat → Nat

def RList.retrieve (io : IO) (parse : Parser) (l : RList) (ruleIdx : Int) : Retrieved :=
  if l.file then retrieveFile io.bufSize io.chunk parse l.id l.content ruleIdx
  else retrieveString parse l.id l.content ruleIdx

/-- `listsMap` lookup. -/
def findList (lists : List RList) (id : Int) : Option RList := lists.find? (·.id == id)

/-- Duplicate-id check of `NewRuleStorage` (the first list whose id was seen before). -/
def hasDupIds : List RList → List Int → Bool
  | [], _ => false
  | l :: ls, seen => seen.contains l.id || hasDupIds ls (l.id :: seen)

/-- Cache value: a rule or the typed nil pointer of a failed parse. -/
abbrev Cache := List (BitVec 64 × Option SRule)

structure RuleStorage where
  lists : List RList
  cache : Cache
  deriving Inhabited

/-- `NewRuleStorage`: `none` is the duplicate-id error. -/
def newRuleStorage (lists : List RList) : Option RuleStorage :=
  if hasDupIds lists [] then none else some ⟨lists, []⟩

/-- `RuleStorageScanner`: the scanners of the lists one after the other; `Rule()` packs
    `int32(f.GetFilterListID())` and `int32(idx)`. -/
def storageScan (parse : Parser) (lists : List RList) : List (SRule × BitVec 64) :=
  lists.flatMap fun l =>
    (scanList parse l.id l.ignoreCosmetic l.content).map fun (r, idx) =>
      (r, pack (BitVec.ofInt 32 r.listID) (BitVec.ofNat 32 idx))

/-- `RuleStorage.RetrieveRule(storageIdx)`: cache probe; unpack; `listsMap[int(listID)]`;
    `list.RetrieveRule(int(ruleIdx))`; `if r != nil { cache[storageIdx] = r }` -- note that the
    interface value is non-nil for a failed parse as well (typed nil), and is then served from the
    cache with a nil error. -/
def retrieveRule (io : IO) (parse : Parser) (st : RuleStorage) (storageIdx : BitVec 64) : Retrieved × RuleStorage :=
  match st.cache.lookup storageIdx with
  | some (some r) => (.rule r, st)
  | some none => (.nilRule, st)
  | none =>
    let (listID, ruleIdx) := unpack storageIdx
    match findList st.lists listID.toInt with
    | none => (.err, st)
    | some l =>
      let res := l.retrieve io parse ruleIdx.toInt
      match res with
      | .rule r => (res, { st with cache := (storageIdx, some r) :: st.cache })
      | .bad => (res, { st with cache := (storageIdx, none) :: st.cache })
      | _ => (res, st)

end UF.Storage

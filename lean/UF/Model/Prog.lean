import UF.Model.Pool
/-
  Prog: an abstract but executable state machine for queries against the shared state of an engine
  (C13, C14, C19).

  Shared state  = rule cache (`RuleStorage.cache`), closed lists (fault state), lazy-compile flags
                  (`NetworkRule.regex/invalid`), pooled requests (`DNSEngine.pool`).
  A query       = `poolGet` + refill (DNS engine only), then a loop over the candidate indices the
                  immutable lookup tables give for the request; each candidate goes through
                  `RuleStorage.RetrieveRule` exactly as written in filterlist/storage.go:

                      cacheGet idx            (under cacheMu.RLock)
                      on a miss: listRead idx (seek + read + parse under the list mutex; fails when closed)
                      on success: cachePut    (under cacheMu.Lock)
                      nil rules are skipped   (lookup/*.go, dnsengine.go)
                      compile + re-Match      (preparePattern under the rule mutex; Match)

                  and finally `poolPut`.  One action = one critical section; that granularity is the
                  ASSUMPTION compared with the lock facts extracted from the code (Props/C14.lean).
  `truth`       = the content-determined retrieval function (C11): what reading index `idx` of the
                  unmodified lists yields.
  Everything is parametric in the rule type `R`, `truth`, the candidate function and `matches`.
-/
namespace UF.Prog

abbrev Idx := Int
abbrev ListId := Int

/-- The immutable part of an engine. -/
structure Env (R : Type) where
  /-- what the lists hold at a storage index (content-determined, C11) -/
  truth : Idx → Option R
  /-- the list a storage index belongs to -/
  listOf : Idx → ListId
  /-- identity of the rule object for the lazy-compile flag -/
  ruleId : R → Nat
  /-- `effectiveTLDPlusOne` -/
  etld1 : Bytes → Bytes
  /-- candidate indices the lookup tables yield for a request (tables are immutable after construction) -/
  cands : Request → List Idx
  /-- `rule.Match(request)`; does not read the compile flag: the compiled pattern is a function of the rule -/
  mtch : R → Request → Bool
  /-- rules held in memory by the sequential-scan table (never retrieved through the storage) -/
  resident : List R

/-- Shared mutable state. -/
structure State (R : Type) where
  cache : List (Idx × R) := []
  closed : List ListId := []
  compiled : List Nat := []
  pool : List Request := []

/-- A query: through the DNS engine's request pool, or with a caller-owned request. -/
inductive Query where
  | dns (d : DReq)
  | web (r : Request)
  deriving DecidableEq, Repr, Inhabited

/-- The request a query is about (what a fresh engine would build). -/
def Env.reqOf {R} (env : Env R) : Query → Request
  | .dns d => fillFromPool env.etld1 default d
  | .web r => r

/-- Program counter of a query in progress. -/
inductive PC (R : Type) where
  | start
  | get (idx : Idx)
  | read (idx : Idx)
  | put (idx : Idx) (r : R)
  | comp (r : R)
  | fin
  | done

/-- A thread = a query in progress. -/
structure Thread (R : Type) where
  q : Query
  pc : PC R := .start
  req : Request := default
  todo : List Idx := []
  acc : List R := []

def Thread.init {R} (q : Query) : Thread R := { q := q }

/-- Move on to the next candidate (or to the final `poolPut`). -/
def Thread.advance {R} (t : Thread R) : Thread R :=
  match t.todo with
  | [] => { t with pc := .fin }
  | i :: rest => { t with pc := .get i, todo := rest }

def cacheLookup {R} (c : List (Idx × R)) (idx : Idx) : Option R :=
  match c.find? (fun e => e.1 == idx) with
  | some e => some e.2
  | none => none

/-- `s.cache[idx] = r` (a map: an existing entry is replaced). -/
def cacheInsert {R} (c : List (Idx × R)) (idx : Idx) (r : R) : List (Idx × R) :=
  (idx, r) :: c.filter (fun e => e.1 != idx)

/-- One atomic action of thread `t` on the shared state `s`. -/
def step {R} (env : Env R) (s : State R) (t : Thread R) : State R × Thread R :=
  match t.pc with
  | .start =>
    match t.q with
    | .dns d =>
      -- poolGet (a new zero Request when the pool is empty), then the refill
      let old := s.pool.headD default
      let req := fillFromPool env.etld1 old d
      ({ s with pool := s.pool.tail }, ({ t with req := req, todo := env.cands req, acc := [] } : Thread R).advance)
    | .web r =>
      (s, ({ t with req := r, todo := env.cands r, acc := [] } : Thread R).advance)
  | .get idx =>
    match cacheLookup s.cache idx with
    | some r => (s, { t with pc := .comp r })
    | none => (s, { t with pc := .read idx })
  | .read idx =>
    if s.closed.contains (env.listOf idx) then (s, t.advance)   -- retrieval error: nil rule, skipped
    else match env.truth idx with
      | some r => (s, { t with pc := .put idx r })
      | none => (s, t.advance)
  | .put idx r =>
    -- (since the repair of D15) another thread may have stored the rule meanwhile: keep that object
    match cacheLookup s.cache idx with
    | some r' => (s, { t with pc := .comp r' })
    | none => ({ s with cache := cacheInsert s.cache idx r }, { t with pc := .comp r })
  | .comp r =>
    let s' := if s.compiled.contains (env.ruleId r) then s else { s with compiled := env.ruleId r :: s.compiled }
    let t' := if env.mtch r t.req then { t with acc := t.acc ++ [r] } else t
    (s', t'.advance)
  | .fin =>
    match t.q with
    | .dns _ => ({ s with pool := t.req :: s.pool }, { t with pc := .done })
    | .web _ => (s, { t with pc := .done })
  | .done => (s, t)

def PC.isDone {R} : PC R → Bool
  | .done => true
  | _ => false

/-- The answer of a finished query: the re-Matched retrieved rules, then the matching in-memory rules. -/
def Thread.answer {R} (env : Env R) (t : Thread R) : List R :=
  t.acc ++ env.resident.filter (fun r => env.mtch r t.req)

/-- The answer computed directly from `truth`, with no cache, pool or flags. -/
def pureStorage {R} (env : Env R) (req : Request) (idxs : List Idx) : List R :=
  (idxs.filterMap env.truth).filter (fun r => env.mtch r req)

def pureAnswer {R} (env : Env R) (q : Query) : List R :=
  let req := env.reqOf q
  pureStorage env req (env.cands req) ++ env.resident.filter (fun r => env.mtch r req)

/-- Upper bound on the number of actions a thread still needs. -/
def Thread.fuel {R} (t : Thread R) : Nat :=
  match t.pc with
  | .start => 0   -- unknown before the candidates are computed; see `runQuery`
  | .get _ => 4 * t.todo.length + 5
  | .read _ => 4 * t.todo.length + 4
  | .put _ _ => 4 * t.todo.length + 3
  | .comp _ => 4 * t.todo.length + 2
  | .fin => 1
  | .done => 0

/-- Run one thread alone for `n` actions. -/
def runThread {R} (env : Env R) : Nat → State R → Thread R → State R × Thread R
  | 0, s, t => (s, t)
  | n + 1, s, t =>
    let (s', t') := step env s t
    runThread env n s' t'

/-- Sequential execution of one query: the first action computes the candidates, then as many
    actions as the bound `Thread.fuel` says. -/
def runQuery {R} (env : Env R) (s : State R) (q : Query) : State R × Thread R :=
  let (s1, t1) := step env s (Thread.init q)
  runThread env t1.fuel s1 t1

/-- A history event: a query, or the fault `close listId`. -/
inductive HEv where
  | query (q : Query)
  | close (l : ListId)
  deriving Repr, Inhabited

/-- Sequential execution of a history; returns the final state and the answers in order. -/
def runHistory {R} (env : Env R) : State R → List HEv → State R × List (List R)
  | s, [] => (s, [])
  | s, .query q :: rest =>
    let (s', t) := runQuery env s q
    let (s'', as) := runHistory env s' rest
    (s'', t.answer env :: as)
  | s, .close l :: rest => runHistory env { s with closed := l :: s.closed } rest

/-! ### Concurrency: schedules -/

/-- A schedule event: thread `tid` performs its next atomic action, or a list is closed. -/
inductive Ev where
  | run (tid : Nat)
  | close (l : ListId)
  deriving Repr, Inhabited

structure Config (R : Type) where
  state : State R
  threads : List (Thread R)

def Config.exec {R} (env : Env R) (c : Config R) : Ev → Config R
  | .run tid =>
    match c.threads[tid]? with
    | none => c
    | some t =>
      let (s', t') := step env c.state t
      { state := s', threads := c.threads.set tid t' }
  | .close l => { c with state := { c.state with closed := l :: c.state.closed } }

def Config.run {R} (env : Env R) (c : Config R) (sched : List Ev) : Config R :=
  sched.foldl (Config.exec env) c

/-! ### The action table (the granularity ASSUMPTION, compared with the extracted lock facts)

  Each row: a Go method, a guarded field it touches through its receiver, read/write, and the lock it
  holds at that access (`Facts.lockTable` is recomputed from the source on every run and must be equal).

  * `cacheGet`  = `RuleStorage.RetrieveRule` reading `cache` under `cacheMu.RLock`
  * `cachePut`  = `RuleStorage.RetrieveRule` writing `cache` under `cacheMu.Lock`
  * `listRead`  = `FileRuleList.RetrieveRule`: `File` (Seek + Read) and `buffer` under the list's own mutex
  * `compile`   = `NetworkRule.preparePattern`: `regex`/`invalid` read and written under the rule's own mutex
  * `NetworkRule.matchPattern` reads `regex` with no lock AFTER its own call of `preparePattern` returned
    (unlock/lock of the same mutex orders it after the only write; `regex` is never written again) --
    part of the model's `comp` action
  * not query actions: `RuleStorage.GetCacheSize` (diagnostic, unlocked), `FileRuleList.NewScanner`
    (engine construction), `FileRuleList.Close` (the fault action of C19; not concurrent with queries
    in the model's histories)
-/
def actionTable : List (String × String × String × String) := [
  ("FileRuleList.Close", "File", "r", "none"),
  ("FileRuleList.NewScanner", "File", "r", "none"),
  ("FileRuleList.RetrieveRule", "File", "r", "Lock(recv)"),
  ("FileRuleList.RetrieveRule", "buffer", "r", "Lock(recv)"),
  ("NetworkRule.matchPattern", "regex", "r", "none"),
  ("NetworkRule.preparePattern", "invalid", "r", "Lock(recv)"),
  ("NetworkRule.preparePattern", "invalid", "w", "Lock(recv)"),
  ("NetworkRule.preparePattern", "regex", "r", "Lock(recv)"),
  ("NetworkRule.preparePattern", "regex", "w", "Lock(recv)"),
  ("RuleStorage.GetCacheSize", "cache", "r", "none"),
  ("RuleStorage.RetrieveRule", "cache", "r", "Lock(cacheMu)"),
  ("RuleStorage.RetrieveRule", "cache", "r", "RLock(cacheMu)"),
  ("RuleStorage.RetrieveRule", "cache", "w", "Lock(cacheMu)")
]

/-! ### The variant WITHOUT the list mutex (non-vacuity of the granularity assumption)

  `FileRuleList.RetrieveRule` is `Seek(idx)` then `readLine` on ONE shared file position.  With the
  mutex removed these are two actions and another thread's `Seek` may come in between. -/

structure FState (R : Type) where
  pos : Idx := 0                      -- the file position shared by all readers

inductive FPC (R : Type) where
  | seek (idx : Idx)
  | read
  | done (r : Option R)
  deriving DecidableEq

/-- One action of the unlocked reader. -/
def fstep {R} (truth : Idx → Option R) (s : FState R) : FPC R → FState R × FPC R
  | .seek idx => ({ s with pos := idx }, .read)
  | .read => (s, .done (truth s.pos))
  | .done r => (s, .done r)

def frun {R} (truth : Idx → Option R) (s : FState R) (ts : List (FPC R)) (sched : List Nat) :
    FState R × List (FPC R) :=
  sched.foldl (fun (c : FState R × List (FPC R)) tid =>
    match c.2[tid]? with
    | none => c
    | some t => let (s', t') := fstep truth c.1 t; (s', c.2.set tid t')) (s, ts)

end UF.Prog

import UF.Model.Pool
/-
  Prog: an executable state machine for queries against the shared state of an engine
  (C13, C14, C19).  Second version (integration group J): the machine now has

    * an explicit FAILURE outcome `PC.crash`, reached when a nil pointer is dereferenced: the result of
      a failed retrieval used without the nil check of the lookup table, or `f.regex.MatchString` on a
      rule whose `regex` is nil;
    * the nil checks of `ShortcutsTable.MatchAll`, `DomainsTable.MatchAll` and
      `DNSEngine.matchLookupTable` as explicit branches (`stepG nc`: `nc src = false` is the code with
      the nil check of table `src` REMOVED);
    * the lazy-compile state of `NetworkRule.preparePattern` as a per-object cell
      ∈ {uncompiled, compiled re, invalid} that `Match` READS: the first use writes it under the rule
      mutex (`PC.prep`, one atomic action), `matchPattern` then reads `f.regex` OUTSIDE the lock
      (`PC.rx`, a second action);
    * the `ruleIn` de-duplication of `ShortcutsTable.MatchAll`, the in-memory sequential-scan table as
      explicit actions (its rules are compiled lazily like all others), and the two stages of
      `DNSEngine.MatchRequest` (network tables; then, if `GetDNSBasicRule` finds nothing, the hosts table).

  Shared state  = rule cache (`RuleStorage.cache`), closed lists (fault state), lazy-compile cells
                  (`NetworkRule.regex/invalid`, one per rule OBJECT), pooled requests (`DNSEngine.pool`).
  A query       = `poolGet` + refill (DNS engine only), then a loop over the candidate indexes the
                  immutable lookup tables give for the request; each candidate goes through
                  `RuleStorage.RetrieveRule` exactly as written in filterlist/storage.go:

                      get     cacheGet idx            (under cacheMu.RLock)
                      read    on a miss: listRead idx (seek + read + parse under the list mutex; fails when closed)
                      put     on success: cachePut    (under cacheMu.Lock; keeps the object already there, D15)
                      use     back in the table: the pointer `RetrieveNetworkRule`/`RetrieveHostRule`
                              returned (nil on error, nil when the type assertion fails): nil check,
                              `ruleIn` (shortcuts table), the nine stateless checks of `Match`
                      prep    `preparePattern` under the rule mutex: reads and (first use) writes the cell
                      rx      `f.regex.MatchString(...)`: reads the cell WITHOUT the lock

                  then the rules of the sequential table (`seq k`, `prep`, `rx`), then `mid`
                  (`GetDNSBasicRule` decides whether the hosts table is consulted) and `fin` (`poolPut`).
                  One action = at most one critical section; that granularity is the ASSUMPTION compared
                  with the lock facts extracted from the code (Props/C14.lean).
  Object identity: one rule object per storage index (the cache keeps the first object, D15) and one per
                  entry of the sequential table; `ruleIn` (pointer equality) is equality of storage indexes.
  `truth`       = the content-determined retrieval function (C11): what reading index `idx` of the
                  unmodified lists yields.
  Everything is parametric in the rule type `R`, the compiled-expression type `Re`, `truth`, the
  candidate functions and the parts of `Match`; `UF/Compose4/EnvOfEngine.lean` instantiates them with
  the engine models.
-/
namespace UF.Prog

abbrev Idx := Int
abbrev ListId := Int

/-- What `preparePattern` computes on a rule that has no `regex` yet: the pattern is "match anything"
    (returns 0, stores nothing), compiles (stores `regex`, returns 1), or `regexp.Compile` fails (stores
    `invalid = true`, returns -1). -/
inductive Comp (Re : Type) where
  | any
  | re (x : Re)
  | bad
  deriving DecidableEq, Repr

/-- The lazy-compile state of one rule object: the fields `regex` and `invalid`. -/
inductive Cell (Re : Type) where
  | uncompiled
  | compiled (x : Re)
  | invalid
  deriving DecidableEq, Repr

instance {Re} : Inhabited (Cell Re) := ⟨.uncompiled⟩

/-- The cell `preparePattern` leaves behind. -/
def Comp.cell {Re} : Comp Re → Cell Re
  | .any => .uncompiled
  | .re x => .compiled x
  | .bad => .invalid

/-- The three tables that hold storage indexes. -/
inductive Src where
  | sc | dom | host
  deriving DecidableEq, Repr

/-- One unit of work of a query: a storage index found in a table, or entry `k` of the sequential table. -/
inductive Item where
  | st (src : Src) (idx : Idx)
  | seq (k : Nat)
  deriving DecidableEq, Repr

def Item.isHost : Item → Bool
  | .st .host _ => true
  | _ => false

/-- A rule object (owner of a lazy-compile cell): the cached object of a storage index, or entry `k` of
    the sequential table. -/
inductive Obj where
  | st (idx : Idx)
  | seq (k : Nat)
  deriving DecidableEq, Repr

def Item.obj : Item → Obj
  | .st _ idx => .st idx
  | .seq k => .seq k

/-- The immutable part of an engine. -/
structure Env (R Re : Type) where
  /-- what the lists hold at a storage index (content-determined, C11) -/
  truth : Idx → Option R
  /-- the list a storage index belongs to -/
  listOf : Idx → ListId
  /-- `effectiveTLDPlusOne` -/
  etld1 : Bytes → Bytes
  /-- candidate indexes of the network tables for a request, in visiting order: `true` = shortcuts table
      (one entry per URL window and bucket element), `false` = domains table (tables are immutable
      after construction) -/
  cands : Request → List (Bool × Idx)
  /-- the bucket of the DNS engine's hosts table for the request's hostname -/
  hcands : Request → List Idx
  /-- `GetDNSBasicRule(res.NetworkRules) != nil` -/
  basic : List R → Bool
  /-- the type assertion of `RetrieveNetworkRule` (`sc`, `dom`) / `RetrieveHostRule` (`host`) -/
  wants : Src → R → Bool
  /-- the stateless part of `rule.Match(request)`: the nine checks before `matchPattern`
      (for a host rule: all of `HostRule.Match`) -/
  pre : R → Request → Bool
  /-- `patternToRegexp` + `regexp.Compile`: a function of the rule -/
  compile : R → Comp Re
  /-- `regex.MatchString(hostname or URL)` -/
  accepts : Re → R → Request → Bool
  /-- rules held in memory by the sequential-scan table (never retrieved through the storage) -/
  resident : List R

/-- Shared mutable state. -/
structure State (R Re : Type) where
  cache : List (Idx × R) := []
  closed : List ListId := []
  cells : Obj → Cell Re := fun _ => .uncompiled
  pool : List Request := []

/-- A query: through the DNS engine (request pool, two stages), or `NetworkEngine.MatchAll` with a
    caller-owned request. -/
inductive Query where
  | dns (d : DReq)
  | web (r : Request)
  deriving DecidableEq, Repr, Inhabited

/-- `if dReq.Hostname == "" { return res, false }`: nothing is touched. -/
def Query.trivial : Query → Bool
  | .dns d => d.hostname.isEmpty
  | .web _ => false

/-- The request a query is about (what a fresh engine would build). -/
def Env.reqOf {R Re} (env : Env R Re) : Query → Request
  | .dns d => fillFromPool env.etld1 default d
  | .web r => r

/-- Program counter of a query in progress. -/
inductive PC (R : Type) where
  | start
  | get (src : Src) (idx : Idx)
  | read (src : Src) (idx : Idx)
  | put (src : Src) (idx : Idx) (r : R)
  | use (src : Src) (idx : Idx) (o : Option R)
  | seq (k : Nat)
  | prep (it : Item) (r : R)
  | rx (it : Item) (r : R)
  | mid
  | fin
  | done
  | crash

/-- A thread = a query in progress.  `acc` = the result slices (`result` of the table in progress and
    everything appended before), each rule with the item it came from; `stage` = the hosts-table stage. -/
structure Thread (R : Type) where
  q : Query
  pc : PC R := .start
  req : Request := default
  todo : List Item := []
  acc : List (Item × R) := []
  stage : Bool := false

def Thread.init {R} (q : Query) : Thread R := { q := q }

/-- Work list of the first stage: shortcuts-table candidates, domains-table candidates, the
    sequential table (`NetworkEngine.MatchAll` concatenates the three answers in this order). -/
def Env.items1 {R Re} (env : Env R Re) (req : Request) : List Item :=
  (env.cands req).map (fun c => Item.st (if c.1 then .sc else .dom) c.2) ++
    (List.range env.resident.length).map Item.seq

/-- Work list of the second stage, given the network rules found (`MatchRequest` only). -/
def Env.items2 {R Re} (env : Env R Re) (q : Query) (req : Request) (nrs : List R) : List Item :=
  match q with
  | .web _ => []
  | .dns _ => if env.basic nrs then [] else (env.hcands req).map (Item.st .host)

/-- `res.NetworkRules` / the answer of `MatchAll`. -/
def nets {R} (acc : List (Item × R)) : List R := (acc.filter (fun e => !e.1.isHost)).map (·.2)

/-- The host rules found (`HostRulesV4` and `HostRulesV6` together, in table order). -/
def hosts {R} (acc : List (Item × R)) : List R := (acc.filter (fun e => e.1.isHost)).map (·.2)

/-- Move on to the next item (or to `mid` / `fin`). -/
def Thread.advance {R} (t : Thread R) : Thread R :=
  match t.todo with
  | [] => if t.stage then { t with pc := .fin } else { t with pc := .mid }
  | .st src idx :: rest => { t with pc := .get src idx, todo := rest }
  | .seq k :: rest => { t with pc := .seq k, todo := rest }

def cacheLookup {R} (c : List (Idx × R)) (idx : Idx) : Option R :=
  match c.find? (fun e => e.1 == idx) with
  | some e => some e.2
  | none => none

/-- `s.cache[idx] = r` (a map: an existing entry is replaced). -/
def cacheInsert {R} (c : List (Idx × R)) (idx : Idx) (r : R) : List (Idx × R) :=
  (idx, r) :: c.filter (fun e => e.1 != idx)

/-- `ruleIn(rule, result)` of the shortcuts table: pointer equality = same storage index. -/
def ruleIn {R} (idx : Idx) (acc : List (Item × R)) : Bool := acc.any (fun e => e.1 == Item.st .sc idx)

/-- `f.regex = x` / `f.invalid = true` on one object. -/
def cellSet {Re} (cells : Obj → Cell Re) (ob : Obj) (c : Cell Re) : Obj → Cell Re :=
  fun o => if o = ob then c else cells o

/-- One atomic action of thread `t` on the shared state `s`.  `nc src = true`: the table `src` tests the
    retrieved pointer against nil before using it (the code); `false`: that test removed. -/
def stepG {R Re} (nc : Src → Bool) (env : Env R Re) (s : State R Re) (t : Thread R) : State R Re × Thread R :=
  match t.pc with
  | .start =>
    match t.q with
    | .dns d =>
      if d.hostname.isEmpty then (s, { t with pc := .done, todo := [], acc := [], stage := false })
      else
        -- poolGet (a new zero Request when the pool is empty), then the refill
        let old := s.pool.headD default
        let req := fillFromPool env.etld1 old d
        ({ s with pool := s.pool.tail },
          ({ t with req := req, todo := env.items1 req, acc := [], stage := false } : Thread R).advance)
    | .web r =>
      (s, ({ t with req := r, todo := env.items1 r, acc := [], stage := false } : Thread R).advance)
  | .get src idx =>
    match cacheLookup s.cache idx with
    | some r => (s, { t with pc := .use src idx ((some r).filter (env.wants src)) })
    | none => (s, { t with pc := .read src idx })
  | .read src idx =>
    -- retrieval error: `RetrieveNetworkRule`/`RetrieveHostRule` log it and return nil
    if s.closed.contains (env.listOf idx) then (s, { t with pc := .use src idx none })
    else match env.truth idx with
      | some r => (s, { t with pc := .put src idx r })
      | none => (s, { t with pc := .use src idx none })
  | .put src idx r =>
    -- (since the repair of D15) another thread may have stored the rule meanwhile: keep that object
    match cacheLookup s.cache idx with
    | some r' => (s, { t with pc := .use src idx ((some r').filter (env.wants src)) })
    | none => ({ s with cache := cacheInsert s.cache idx r },
               { t with pc := .use src idx ((some r).filter (env.wants src)) })
  | .use src idx o =>
    match o with
    | none =>
      -- `rule == nil ||` (shortcuts), `rule != nil &&` (domains, hosts table); without the test the
      -- next thing the code does is `rule.Match(...)` on the nil pointer
      if nc src then (s, t.advance) else (s, { t with pc := .crash })
    | some r =>
      if src == .sc && ruleIn idx t.acc then (s, t.advance)
      else if src == .host then
        -- `HostRule.Match`: no pattern, no lazy state
        (s, (if env.pre r t.req then { t with acc := t.acc ++ [(Item.st src idx, r)] } else t).advance)
      else if env.pre r t.req then (s, { t with pc := .prep (.st src idx) r })
      else (s, t.advance)
  | .seq k =>
    match env.resident[k]? with
    | none => (s, t.advance)
    | some r => if env.pre r t.req then (s, { t with pc := .prep (.seq k) r }) else (s, t.advance)
  | .prep it r =>
    -- `preparePattern`, under the rule mutex
    match s.cells it.obj with
    | .compiled _ => (s, { t with pc := .rx it r })                    -- `f.regex != nil`: 1
    | .invalid => (s, t.advance)                                        -- `f.invalid`: -1
    | .uncompiled =>
      match env.compile r with
      | .any => (s, ({ t with acc := t.acc ++ [(it, r)] } : Thread R).advance)       -- 0: matches
      | .re x => ({ s with cells := cellSet s.cells it.obj (.compiled x) }, { t with pc := .rx it r })
      | .bad => ({ s with cells := cellSet s.cells it.obj .invalid }, t.advance)
  | .rx it r =>
    -- `f.regex.MatchString(...)`: reads `f.regex` with no lock; a nil `regex` is a nil dereference
    match s.cells it.obj with
    | .compiled x =>
      (s, (if env.accepts x r t.req then { t with acc := t.acc ++ [(it, r)] } else t).advance)
    | _ => (s, { t with pc := .crash })
  | .mid =>
    -- `GetDNSBasicRule(res.NetworkRules)`; then the hosts table, or return
    (s, ({ t with todo := env.items2 t.q t.req (nets t.acc), stage := true } : Thread R).advance)
  | .fin =>
    match t.q with
    | .dns _ => ({ s with pool := t.req :: s.pool }, { t with pc := .done })
    | .web _ => (s, { t with pc := .done })
  | .done => (s, t)
  | .crash => (s, t)

/-- The code as it is: every table tests for nil. -/
def step {R Re} (env : Env R Re) (s : State R Re) (t : Thread R) : State R Re × Thread R :=
  stepG (fun _ => true) env s t

/-- The code with the nil check of table `src` removed (non-vacuity of `c19_nopanic`). -/
def stepNoNilCheck {R Re} (src : Src) (env : Env R Re) (s : State R Re) (t : Thread R) : State R Re × Thread R :=
  stepG (fun x => x != src) env s t

def PC.isDone {R} : PC R → Bool
  | .done => true
  | _ => false

def PC.isCrash {R} : PC R → Bool
  | .crash => true
  | _ => false

/-- The answer of a finished query: the network rules (`MatchAll` / `res.NetworkRules`) and the host rules. -/
def Thread.answer {R} (t : Thread R) : List R × List R := (nets t.acc, hosts t.acc)

/-! ### The stateless reference: the same pipeline with no cache, pool, cells or faults -/

/-- `preparePattern` + `MatchString` on a fresh rule object. -/
def Env.patOK {R Re} (env : Env R Re) (r : R) (req : Request) : Bool :=
  match env.compile r with
  | .any => true
  | .re x => env.accepts x r req
  | .bad => false

/-- `rule.Match(request)` on a fresh rule object. -/
def Env.mtch {R Re} (env : Env R Re) (r : R) (req : Request) : Bool := env.pre r req && env.patOK r req

/-- `Match` as the table `src` calls it. -/
def Env.verdict {R Re} (env : Env R Re) (src : Src) (r : R) (req : Request) : Bool :=
  if src == .host then env.pre r req else env.mtch r req

/-- What a table does with the pointer it got for a storage index. -/
def useStep {R Re} (env : Env R Re) (req : Request) (acc : List (Item × R)) (src : Src) (idx : Idx)
    (o : Option R) : List (Item × R) :=
  match o with
  | none => acc
  | some r =>
    if src == .sc && ruleIn idx acc then acc
    else if env.verdict src r req then acc ++ [(Item.st src idx, r)] else acc

def seqStep {R Re} (env : Env R Re) (req : Request) (acc : List (Item × R)) (k : Nat) : List (Item × R) :=
  match env.resident[k]? with
  | none => acc
  | some r => if env.mtch r req then acc ++ [(Item.seq k, r)] else acc

def pureStep {R Re} (env : Env R Re) (req : Request) (acc : List (Item × R)) : Item → List (Item × R)
  | .st src idx => useStep env req acc src idx ((env.truth idx).filter (env.wants src))
  | .seq k => seqStep env req acc k

def pureFold {R Re} (env : Env R Re) (req : Request) (acc : List (Item × R)) (items : List Item) :
    List (Item × R) :=
  items.foldl (pureStep env req) acc

/-- The first stage computed directly from `truth`. -/
def pure1 {R Re} (env : Env R Re) (req : Request) : List (Item × R) := pureFold env req [] (env.items1 req)

/-- Both stages. -/
def pure2 {R Re} (env : Env R Re) (q : Query) (req : Request) : List (Item × R) :=
  pureFold env req (pure1 env req) (env.items2 q req (nets (pure1 env req)))

/-- The answer computed directly from `truth`, with no cache, pool, cells or faults. -/
def pureAnswer {R Re} (env : Env R Re) (q : Query) : List R × List R :=
  if q.trivial then ([], [])
  else (nets (pure2 env q (env.reqOf q)), hosts (pure2 env q (env.reqOf q)))

/-- What the hosts table holds for the request (whether or not the fault-free run consults it). -/
def pureHosts {R Re} (env : Env R Re) (req : Request) : List R :=
  hosts (pureFold env req [] ((env.hcands req).map (Item.st .host)))

/-! ### Running -/

/-- Upper bound on the number of actions a started thread still needs. -/
def Thread.fuel {R Re} (env : Env R Re) (t : Thread R) : Nat :=
  let tail := if t.stage then 1 else 6 * (env.hcands t.req).length + 3
  match t.pc with
  | .start => 0
  | .get _ _ => 6 + 6 * t.todo.length + tail
  | .read _ _ => 5 + 6 * t.todo.length + tail
  | .put _ _ _ => 4 + 6 * t.todo.length + tail
  | .use _ _ _ => 3 + 6 * t.todo.length + tail
  | .seq _ => 3 + 6 * t.todo.length + tail
  | .prep _ _ => 2 + 6 * t.todo.length + tail
  | .rx _ _ => 1 + 6 * t.todo.length + tail
  | .mid => 6 * (env.hcands t.req).length + 2
  | .fin => 1
  | .done => 0
  | .crash => 0

/-- Run one thread alone for `n` actions. -/
def runThread {R Re} (env : Env R Re) : Nat → State R Re → Thread R → State R Re × Thread R
  | 0, s, t => (s, t)
  | n + 1, s, t =>
    let (s', t') := step env s t
    runThread env n s' t'

/-- Sequential execution of one query: the first action computes the work list, then as many
    actions as the bound `Thread.fuel` says. -/
def runQuery {R Re} (env : Env R Re) (s : State R Re) (q : Query) : State R Re × Thread R :=
  let (s1, t1) := step env s (Thread.init q)
  runThread env (t1.fuel env) s1 t1

/-- A history event: a query, or the fault `close listId`. -/
inductive HEv where
  | query (q : Query)
  | close (l : ListId)
  deriving Repr, Inhabited

/-- Sequential execution of a history; returns the final state and the finished threads in order. -/
def runHistoryT {R Re} (env : Env R Re) : State R Re → List HEv → State R Re × List (Thread R)
  | s, [] => (s, [])
  | s, .query q :: rest =>
    let (s', t) := runQuery env s q
    let (s'', ts) := runHistoryT env s' rest
    (s'', t :: ts)
  | s, .close l :: rest => runHistoryT env { s with closed := l :: s.closed } rest

/-- Sequential execution of a history; returns the final state and the answers in order. -/
def runHistory {R Re} (env : Env R Re) (s : State R Re) (h : List HEv) : State R Re × List (List R × List R) :=
  ((runHistoryT env s h).1, (runHistoryT env s h).2.map Thread.answer)

/-! ### Concurrency: schedules -/

/-- A schedule event: thread `tid` performs its next atomic action, or a list is closed. -/
inductive Ev where
  | run (tid : Nat)
  | close (l : ListId)
  deriving Repr, Inhabited

structure Config (R Re : Type) where
  state : State R Re
  threads : List (Thread R)

def Config.execG {R Re} (stp : State R Re → Thread R → State R Re × Thread R) (c : Config R Re) :
    Ev → Config R Re
  | .run tid =>
    match c.threads[tid]? with
    | none => c
    | some t =>
      let (s', t') := stp c.state t
      { state := s', threads := c.threads.set tid t' }
  | .close l => { c with state := { c.state with closed := l :: c.state.closed } }

def Config.exec {R Re} (env : Env R Re) (c : Config R Re) : Ev → Config R Re := c.execG (step env)

def Config.run {R Re} (env : Env R Re) (c : Config R Re) (sched : List Ev) : Config R Re :=
  sched.foldl (Config.exec env) c

/-- Schedules of a variant machine (used only for the non-vacuity examples). -/
def Config.runG {R Re} (stp : State R Re → Thread R → State R Re × Thread R) (c : Config R Re)
    (sched : List Ev) : Config R Re :=
  sched.foldl (Config.execG stp) c

/-! ### The action table (the granularity ASSUMPTION, compared with the extracted lock facts)

  Each row: a Go method, a guarded field it touches through its receiver, read/write, and the lock it
  holds at that access (compared on every run with the typed tables `Facts.p4Accesses` / `Facts.p4Sections`
  recomputed from the source: Props/C14.lean, Props/C14Sections.lean, vocabulary bridge in Model/LockSections.lean).

  * `get`   = `RuleStorage.RetrieveRule` reading `cache` under `cacheMu.RLock`
  * `put`   = `RuleStorage.RetrieveRule` reading and writing `cache` under `cacheMu.Lock`
  * `read`  = `FileRuleList.RetrieveRule`: `File` (Seek + Read) and `buffer` under the list's own mutex
  * `prep`  = `NetworkRule.preparePattern`: `regex`/`invalid` read and written under the rule's own mutex
  * `rx`    = `NetworkRule.matchPattern` reads `regex` with no lock AFTER its own call of `preparePattern`
              returned 1: a separate action of the model; that it never finds `regex == nil` is the
              invariant `Good.rx_cell` (the cell of an object never changes once it is set)
  * not query actions: `RuleStorage.GetCacheSize` (diagnostic, unlocked), `FileRuleList.NewScanner`
    (engine construction), `FileRuleList.Close` (the fault action of C19: the event `close` of schedules
    and histories, which may come between any two actions)
-/
def actionTable : List (String × String × String × String) := [
  ("FileRuleList.Close", "File", "r", "none"),
  ("FileRuleList.NewScanner", "File", "r", "none"),
  ("FileRuleList.RetrieveRule", "File", "r", "Lock(recv)"),
  ("FileRuleList.RetrieveRule", "buffer", "r", "Lock(recv)"),
  ("NetworkRule.matchPattern", "regex", "r", "none"),
  ("NetworkRule.preparePattern", "invalid", "r", "Lock(recv)"),
  ("NetworkRule.preparePattern", "invalid", "w", "Lock(recv)"),
  ("NetworkRule.preparePattern", "regex", "r", "Lock(recv)"),
  ("NetworkRule.preparePattern", "regex", "w", "Lock(recv)"),
  ("RuleStorage.GetCacheSize", "cache", "r", "none"),
  ("RuleStorage.RetrieveRule", "cache", "r", "Lock(cacheMu)"),
  ("RuleStorage.RetrieveRule", "cache", "r", "RLock(cacheMu)"),
  ("RuleStorage.RetrieveRule", "cache", "w", "Lock(cacheMu)")
]

/-! ### What the model treats as immutable after construction (compared with `Facts.fieldWriters`)

  `Env` is a parameter of `step`, never changed by it: the three lookup tables and the sequential table
  (`cands`, `resident`), the hosts table of the DNS engine (`hcands`), the directory of lists of the storage
  (`truth`, `listOf`), the pointer to the request pool (the pool's CONTENT is the state `pool`), the engines'
  pointers to each other.  `frozenTypes` are the Go struct types these live in; the obligations of
  Props/C14.lean say that no function on a query path writes a field of them and that every writer is a
  constructor or only ever called (inside the module) from constructors.  `RuleStorage.cache` is the
  exception (state `cache`, lock table above). -/
def frozenTypes : List String :=
  ["CosmeticEngine", "DNSEngine", "DomainsTable", "Engine", "NetworkEngine", "RuleStorage", "SeqScanTable",
   "ShortcutsTable", "cosmeticLookupTable"]

/-- Writers outside construction the model knows about: none. -/
def postConstructionWriters : List (String × String) := []

/-! ### The variant WITHOUT the list mutex (non-vacuity of the granularity assumption)

  `FileRuleList.RetrieveRule` is `Seek(idx)` then `readLine` on ONE shared file position.  With the
  mutex removed these are two actions and another thread's `Seek` may come in between. -/

structure FState (R : Type) where
  pos : Idx := 0                      -- the file position shared by all readers

inductive FPC (R : Type) where
  | seek (idx : Idx)
  | read
  | done (r : Option R)
  deriving DecidableEq

/-- One action of the unlocked reader. -/
def fstep {R} (truth : Idx → Option R) (s : FState R) : FPC R → FState R × FPC R
  | .seek idx => ({ s with pos := idx }, .read)
  | .read => (s, .done (truth s.pos))
  | .done r => (s, .done r)

def frun {R} (truth : Idx → Option R) (s : FState R) (ts : List (FPC R)) (sched : List Nat) :
    FState R × List (FPC R) :=
  sched.foldl (fun (c : FState R × List (FPC R)) tid =>
    match c.2[tid]? with
    | none => c
    | some t => let (s', t') := fstep truth c.1 t; (s', c.2.set tid t')) (s, ts)

end UF.Prog

import UF.Model.HErr
import UF.Model.Rule
import UF.Gen.Facts
/-
  Model of rules/host.go (`splitNextByWhitespace`, `NewHostRule`, `HostRule.Match`) and of the
  tests `NewRule` (rules/rule.go) applies before it tries the hosts syntax: `isComment` and
  `isCosmetic` = `findCosmeticRuleMarker ≠ -1` (rules/cosmetic.go, with the preceding-blank
  exemption for space OR tab -- the code after the D11 repair 4d469a1 -- and the
  `inHostsComment` exemption of the D16 repair d2e67f2).

  `filterutil.IsDomainName` is the model of work group E (`UF/Model/DomainName.lean`); here it is a
  parameter `dn : Bytes → Bool`.  `netip.ParseAddr` is `ext.parseAddr`.

  The index loops of `splitNextByWhitespace` are kept as index computations (`scanWhile`) followed
  by CHECKED slices, so that "never panics" is a theorem.
-/
namespace UF.H
open Bytes

def isBlank (c : UInt8) : Bool := c == ch ' ' || c == ch '\t'

/-- The loop `for ; i < len(s); i++ { if !p(s[i]) { break } }`: the final value of `i`. -/
def scanWhile (p : UInt8 → Bool) (s : Bytes) (i : Nat) : Nat :=
  i + ((s.drop i).takeWhile p).length

/-- `splitNextByWhitespace`: returns (first element, new value of `*ps`). -/
def splitNextByWhitespace (s : Bytes) : Except HErr (Bytes × Bytes) :=
  let b := scanWhile isBlank s 0                    -- trim space
  let e := scanWhile (fun c => !isBlank c) s b      -- find space or tab
  match sliceE s b e with                           -- r := s[begin:i]
  | .error err => .error err
  | .ok r =>
    let i := scanWhile isBlank s e                  -- trim space
    match sliceE s i s.length with                  -- *ps = s[i:]
    | .error err => .error err
    | .ok rest => .ok (r, rest)

/-- `for len(ruleText) != 0 { host := splitNextByWhitespace(&ruleText); append }`.
    Every iteration on a non-empty string consumes at least one byte, so `fuel = length` always
    suffices (theorem `hostNamesLoop_fuel`); running out of fuel is reported as `panic` only to keep
    the function total. -/
def hostNamesLoop : (fuel : Nat) → Bytes → List Bytes → Except HErr (List Bytes)
  | 0, rest, acc => if rest.length == 0 then .ok acc.reverse else .error .panic
  | fuel + 1, rest, acc =>
    if rest.length == 0 then .ok acc.reverse else
    match splitNextByWhitespace rest with
    | .error err => .error err
    | .ok (host, rest') => hostNamesLoop fuel rest' (host :: acc)

/-- `netip.IPv4Unspecified()`. -/
def addrV4Unspecified : Addr := { is4 := true, val := 0 }

/-- The comment strip of `NewHostRule`: cut AT the first '#' when its index is > 0. -/
def stripHostComment (text : Bytes) : Except HErr Bytes :=
  match indexByte text (ch '#') with
  | some i => if i > 0 then sliceE text 0 i else .ok text      -- ruleText[:commentIndex]
  | none => .ok text

/-- `NewHostRule`. -/
def newHostRule (ext : Ext) (dn : Bytes → Bool) (text : Bytes) (listID : Int) : Except HErr HostRule :=
  match stripHostComment text with
  | .error err => .error err
  | .ok ruleText =>
    match splitNextByWhitespace ruleText with
    | .error err => .error err
    | .ok (first, rest) =>
      if rest.length == 0 then
        if !dn first then .error .reject
        else .ok { text := text, listID := listID, hostnames := [first], ip := addrV4Unspecified }
      else
        match ext.parseAddr first with
        | none => .error .reject
        | some a =>
          match hostNamesLoop rest.length rest [] with
          | .error err => .error err
          | .ok names => .ok { text := text, listID := listID, hostnames := names, ip := a }

/-- The comment strip of the PINNED tree (defect D11): `ruleText[0 : commentIndex-1]` also drops the
    byte before the '#'.  Kept only as the negation witness of Props/C18. -/
def stripHostCommentOld (text : Bytes) : Except HErr Bytes :=
  match indexByte text (ch '#') with
  | some i => if i > 0 then sliceE text 0 (i - 1) else .ok text
  | none => .ok text

/-- `NewHostRule` of the pinned tree (the stripped text contains no '#', so the current parser
    applied to it does what the old one did after its strip). -/
def newHostRuleOld (ext : Ext) (dn : Bytes → Bool) (text : Bytes) (listID : Int) : Except HErr HostRule :=
  match stripHostCommentOld text with
  | .error err => .error err
  | .ok body =>
    match newHostRule ext dn body listID with
    | .error err => .error err
    | .ok r => .ok { r with text := text }

/-- `HostRule.Match` (the single-name fast path, then the loop). -/
def hostRuleMatches (r : HostRule) (hostname : Bytes) : Bool :=
  (r.hostnames.length == 1 && r.hostnames.head? == some hostname) ||
  r.hostnames.any (fun h => h == hostname)

/-! ### The tests of `NewRule` before the hosts syntax is tried -/

/-- `startsAtIndexWith str startIndex substr`. -/
def startsAtIndexWith (str : Bytes) (startIndex : Nat) (substr : Bytes) : Bool :=
  if str.length - startIndex < substr.length then false
  else hasPrefix (str.drop startIndex) substr

/-- `isComment`. -/
def isCommentLine (line : Bytes) : Bool :=
  match line with
  | [] => false
  | c :: rest =>
    if c == ch '!' then true
    else if c == ch '#' then
      if rest.isEmpty then true
      else !(Facts.H.cosmeticMarkers.any fun m => startsAtIndexWith line 0 m)
    else false

/-- `inHostsComment ruleText idx` (rules/cosmetic.go, repair of D16, commit d2e67f2):
    `commentIdx := strings.IndexByte(ruleText, '#'); return commentIdx > 0 && commentIdx < idx`
    (`-1` = not found fails the first test). -/
def inHostsComment (ruleText : Bytes) (idx : Nat) : Bool :=
  match indexByte ruleText (ch '#') with
  | some c => decide (c > 0) && decide (c < idx)
  | none => false

/-- `findCosmeticRuleMarker`: `(index, marker)` or `none` for -1.  The outer loop runs over the
    marker first characters, the inner one over the markers, both in their run-time order.  A first
    occurrence is skipped when a blank precedes it (D11) or when it lies after the first '#' of the
    line (`inHostsComment`, D16). -/
def findCosmeticRuleMarkerWith (firstChars : List UInt8) (markers : List Bytes) (ruleText : Bytes) :
    Option (Nat × Bytes) :=
  match firstChars with
  | [] => none
  | fc :: more =>
    match indexByte ruleText fc with
    | none => findCosmeticRuleMarkerWith more markers ruleText
    | some startIndex =>
      if startIndex > 0 &&
          (ruleText[startIndex - 1]? == some (ch ' ') || ruleText[startIndex - 1]? == some (ch '\t')) then
        findCosmeticRuleMarkerWith more markers ruleText
      else if inHostsComment ruleText startIndex then
        findCosmeticRuleMarkerWith more markers ruleText
      else
        match markers.find? (fun m => startsAtIndexWith ruleText startIndex m) with
        | some m => some (startIndex, m)
        | none => findCosmeticRuleMarkerWith more markers ruleText

def findCosmeticRuleMarker (ruleText : Bytes) : Option (Nat × Bytes) :=
  findCosmeticRuleMarkerWith Facts.H.cosmeticMarkerFirstChars Facts.H.cosmeticMarkers ruleText

/-- The marker search BEFORE the repair of D16 (no `inHostsComment` test): a `$$` / `$@$` anywhere
    after the comment sign made a hosts line "cosmetic".  Kept only as the negation witness of
    Props/C18. -/
def findCosmeticRuleMarkerWithOld (firstChars : List UInt8) (markers : List Bytes) (ruleText : Bytes) :
    Option (Nat × Bytes) :=
  match firstChars with
  | [] => none
  | fc :: more =>
    match indexByte ruleText fc with
    | none => findCosmeticRuleMarkerWithOld more markers ruleText
    | some startIndex =>
      if startIndex > 0 &&
          (ruleText[startIndex - 1]? == some (ch ' ') || ruleText[startIndex - 1]? == some (ch '\t')) then
        findCosmeticRuleMarkerWithOld more markers ruleText
      else
        match markers.find? (fun m => startsAtIndexWith ruleText startIndex m) with
        | some m => some (startIndex, m)
        | none => findCosmeticRuleMarkerWithOld more markers ruleText

def findCosmeticRuleMarkerOld (ruleText : Bytes) : Option (Nat × Bytes) :=
  findCosmeticRuleMarkerWithOld Facts.H.cosmeticMarkerFirstChars Facts.H.cosmeticMarkers ruleText

/-- `isCosmetic`. -/
def isCosmeticLine (line : Bytes) : Bool := (findCosmeticRuleMarker line).isSome

/-- What `NewRule` does with an (already trimmed) line, as far as the hosts syntax is concerned. -/
inductive RuleKind where
  | skipped                 -- empty line or comment: `nil, nil`
  | cosmetic                -- handed to `NewCosmeticRule`
  | host (r : HostRule)     -- accepted by `NewHostRule`
  | network                 -- handed to `NewNetworkRule`
  | crash                   -- a panic in `NewHostRule` (excluded by `c18_total`)
  deriving DecidableEq, Repr

def newRuleKind (ext : Ext) (dn : Bytes → Bool) (line : Bytes) (listID : Int) : RuleKind :=
  if line.isEmpty || isCommentLine line then .skipped
  else if isCosmeticLine line then .cosmetic
  else
    match newHostRule ext dn line listID with
    | .ok r => .host r
    | .error .reject => .network
    | .error .panic => .crash

end UF.H

import UF.Basic.Bytes
import UF.Gen.Facts
import UF.Spec.Mask
import UF.Model.RegexParse
/-
  C03 — model of the TEXT rewriting that turns a basic (mask) pattern into regular-expression
  source text:  rules/regex.go `patternToRegexp`, `specialCharReplacer`;  rules/network.go
  `isRegexPattern`, the `/*` → `^` rewrite of `NewNetworkRule`, `preparePattern`.

  The model follows the Go statements one by one.  Every Go slice expression is a CHECKED slice
  (`sliceZ?`, on top of `Bytes.slice?`, with Go's signed `int` indices so that `len(regex)-1` can be
  -1): `none` = run-time panic.  All constants and the escape table come from `UF.Facts`
  (regenerated from /repo on every run).
-/
namespace UF.Mask
open UF

/-- Go `s[i:j]` with `int` indices: panics (none) on a negative index, `i > j` or `j > len(s)`. -/
def sliceZ? (s : Bytes) (i j : Int) : Option Bytes :=
  if 0 ≤ i ∧ 0 ≤ j then Bytes.slice? s i.toNat j.toNat else none

/-- Go `len(s)` as an `int`. -/
def lenZ (s : Bytes) : Int := (s.length : Int)

/-- One byte through `specialCharReplacer` (table from the generated facts). -/
def escByte (b : UInt8) : Bytes := (Facts.escapeTable.lookup b).getD [b]

/-- `specialCharReplacer.Replace(s)`: every `old` string of the replacer is a single byte, hence
    `strings.Replacer` works byte by byte (generic/byte replacer; checked by op `c03.p2r`). -/
def escapeSpecial (s : Bytes) : Bytes := s.flatMap escByte

/-- `"\\" + MaskPipe`. -/
def escapedPipe : Bytes := 92 :: Facts.MaskPipe

/-- rules/network.go `isRegexPattern`. -/
def isRegexPattern (p : Bytes) : Bool :=
  decide (p.length > 1) && p.head? == some 47 && p.getLast? == some 47

/-- The patterns for which `patternToRegexp` returns `RegexAnyCharacter` at once. -/
def isAnyPattern (p : Bytes) : Bool :=
  p == Facts.MaskStartURL || p == Facts.MaskPipe || p == Facts.MaskAnyCharacter || p == []

/-- The statement "escape `|` but avoid escaping it in the special places":
    `regex[:k] + ReplaceAll(regex[k:len(regex)-1], "|", "\\|") + regex[len(regex)-1:]`. -/
def escapeInnerPipes (regex : Bytes) (k : Nat) : Option Bytes := do
  let a ← sliceZ? regex 0 k
  let b ← sliceZ? regex k (lenZ regex - 1)
  let c ← sliceZ? regex (lenZ regex - 1) (lenZ regex)
  pure (a ++ Bytes.replaceAll b Facts.MaskPipe escapedPipe ++ c)

/-- "Replace start URL and pipes". -/
def replaceStart (regex : Bytes) : Option Bytes :=
  if Bytes.hasPrefix regex Facts.MaskStartURL then
    (sliceZ? regex Facts.MaskStartURL.length (lenZ regex)).map (Facts.RegexStartURL ++ ·)
  else if Bytes.hasPrefix regex Facts.MaskPipe then
    (sliceZ? regex Facts.MaskPipe.length (lenZ regex)).map (Facts.RegexStartString ++ ·)
  else some regex

/-- The trailing pipe. -/
def replaceEnd (regex : Bytes) : Option Bytes :=
  if Bytes.hasSuffix regex Facts.MaskPipe then
    (sliceZ? regex 0 (lenZ regex - 1)).map (· ++ Facts.RegexEndString)
  else some regex

/-- Steps after the pipe escaping: `*`, `^`, start and end markers. -/
def expandMasks (regex : Bytes) : Option Bytes :=
  let regex := Bytes.replaceAll regex Facts.MaskAnyCharacter Facts.RegexAnyCharacter
  let regex := Bytes.replaceAll regex Facts.MaskSeparator Facts.RegexSeparator
  (replaceStart regex).bind replaceEnd

/-- "Now escape `|` characters but avoid escaping them in the special places" (D2 repaired: the
    second branch is guarded by `len(regex) > len(MaskPipe)`). -/
def escapePipes (regex : Bytes) : Option Bytes :=
  if Bytes.hasPrefix regex Facts.MaskStartURL then escapeInnerPipes regex Facts.MaskStartURL.length
  else if regex.length > Facts.MaskPipe.length then escapeInnerPipes regex Facts.MaskPipe.length
  else some regex

/-- The shape before commit 88e6866 (defect D2): an unconditional `else`. -/
def escapePipesOld (regex : Bytes) : Option Bytes :=
  if Bytes.hasPrefix regex Facts.MaskStartURL then escapeInnerPipes regex Facts.MaskStartURL.length
  else escapeInnerPipes regex Facts.MaskPipe.length

/-- rules/regex.go `patternToRegexp` (current tree, D2 repaired).  `none` = Go panics. -/
def patternToRegexpText (p : Bytes) : Option Bytes :=
  if isAnyPattern p then some Facts.RegexAnyCharacter
  else if isRegexPattern p then sliceZ? p 1 (lenZ p - 1)
  else (escapePipes (escapeSpecial p)).bind expandMasks

/-- `patternToRegexp` of the pinned tree before the D2 repair.  Kept only for the negation witness. -/
def patternToRegexpTextOld (p : Bytes) : Option Bytes :=
  if isAnyPattern p then some Facts.RegexAnyCharacter
  else if isRegexPattern p then sliceZ? p 1 (lenZ p - 1)
  else (escapePipesOld (escapeSpecial p)).bind expandMasks

/-- rules/network.go `NewNetworkRule`: `example.org/*` → `example.org^` (checked slice). -/
def rewriteSlashStar (p : Bytes) : Option Bytes :=
  if Bytes.hasSuffix p (lit "/*") then
    (sliceZ? p 0 (lenZ p - 2)).map (· ++ lit "^")
  else some p

/-- Result of `preparePattern` on a fresh rule. -/
inductive Prepared where
  /-- status 0: the pattern matches everything, no regexp is compiled. -/
  | any
  /-- the text handed to `regexp.Compile` (status 1 if it compiles, -1 otherwise). -/
  | text (t : Bytes)
  /-- Go panics. -/
  | panic
  deriving Repr, DecidableEq

/-- rules/network.go `preparePattern`, up to the call of `regexp.Compile`, for the pattern stored
    in the rule (i.e. after `rewriteSlashStar`). -/
def preparePatternText (pattern : Bytes) (matchCase : Bool) : Prepared :=
  match patternToRegexpText pattern with
  | none => .panic
  | some t =>
    if t == Facts.RegexAnyCharacter then .any
    else if matchCase then .text t
    else .text (lit "(?i)" ++ t)

/-! ### Closed form of the text (proved equal to the step-by-step model in `UF/Proofs/MaskText.lean`) -/

open UF.MaskSpec in
/-- Text of the start marker. -/
def startText : Start → Bytes
  | .none => []
  | .pipe => Facts.RegexStartString
  | .dbl => Facts.RegexStartURL

/-- Text of the end marker. -/
def endText (e : Bool) : Bytes := if e then Facts.RegexEndString else []

/-- Text of one body byte: `*`, `^`, an inner (literal) pipe, a byte of the escape table, any other byte. -/
def emitByte (b : UInt8) : Bytes :=
  if b == 42 then Facts.RegexAnyCharacter
  else if b == 94 then Facts.RegexSeparator
  else if b == 124 then escapedPipe
  else escByte b

/-- start text ++ one piece of text per body byte ++ end text. -/
def maskText (p : Bytes) : Bytes :=
  let (s, b, e) := UF.MaskSpec.splitMask p
  startText s ++ b.flatMap emitByte ++ endText e

/-! ### The expression a mask pattern stands for, and the compiled matcher -/

open UF.MaskSpec UF.Re in
/-- `([^ a-zA-Z0-9.%_-]|$)` -/
def sepAst : Re :=
  .grp (.alt (.cls true [(32, 32), (97, 122), (65, 90), (48, 57), (46, 46), (37, 37), (95, 95), (45, 45)] false) .eol)

/-- One literal character. -/
def litAtom (c : UInt8) : Re := .lit [c] false

/-- `[a-z0-9-_.]` -/
def hostCls : Re := .cls false [(97, 122), (48, 57), (45, 45), (95, 95), (46, 46)] false

/-- `^(http|https|ws|wss)://([a-z0-9-_.]+\.)?` as a list of atoms. -/
def startUrlAtoms : List Re :=
  [ .bol,
    .grp (.alt (Re.mkCat ((lit "http").map litAtom)) (.alt (Re.mkCat ((lit "https").map litAtom))
      (.alt (Re.mkCat ((lit "ws").map litAtom)) (Re.mkCat ((lit "wss").map litAtom))))),
    litAtom 58, litAtom 47, litAtom 47,
    .quest (.grp (.cat (.plus hostCls) (litAtom 46))) ]

open UF.MaskSpec in
def startAtoms : Start → List Re
  | .none => []
  | .pipe => [.bol]
  | .dbl => startUrlAtoms

open UF.MaskSpec in
def tokAtom : Tok → Re
  | .lit c => litAtom c
  | .star => .star .any
  | .sep => sepAst

def endAtoms (e : Bool) : List Re := if e then [.eol] else []

open UF.MaskSpec in
def maskAtoms (p : MaskPat) : List Re := startAtoms p.start ++ p.body.map tokAtom ++ endAtoms p.endPipe

open UF.MaskSpec in
/-- The regular expression a mask pattern stands for (`mc` = `$match-case`). -/
def maskAst (p : MaskPat) (mc : Bool) : Re :=
  if mc then Re.mkCat (maskAtoms p) else (Re.mkCat (maskAtoms p)).foldCase

/-- What `matchPattern` answers for a rule whose stored pattern is `pattern`:
    status 0 ⇒ true, compile error (status -1) ⇒ false, otherwise unanchored `MatchString`. -/
def compiledAccepts (pattern : Bytes) (mc : Bool) (u : Bytes) : Bool :=
  match preparePatternText pattern mc with
  | .any => true
  | .text t =>
    match Re.parseRE t with
    | some r => r.search u
    | none => false
  | .panic => false

end UF.Mask

import UF.Model.Rule
/-
  Model of `NetworkRule.Match` (rules/network.go) and its helpers
  (rules/helpers.go `isDomainOrSubdomainOfAny`, rules/clients.go `containsAny`),
  in the shape of the implementation.
-/
namespace UF
open Bytes

/-- One element of the loop of `isDomainOrSubdomainOfAny` (after the D3 repair). -/
def domainEntryMatches (ext : Ext) (domain d : Bytes) : Bool :=
  if hasSuffix d (lit ".*") then
    let withoutWildcard := d.take (d.length - 1)
    if hasPrefix domain withoutWildcard ||
        (decide ((indexOf domain withoutWildcard).getD 0 > 0 ∧ (indexOf domain withoutWildcard).isSome) &&
         decide ((indexOf domain (ch '.' :: withoutWildcard)).getD 0 > 0 ∧
            (indexOf domain (ch '.' :: withoutWildcard)).isSome)) then
      let (tld, icann) := ext.psl domain
      let name := withoutWildcard ++ tld
      !tld.isEmpty && icann && (domain == name || hasSuffix domain (ch '.' :: name))
    else false
  else
    domain == d || (hasSuffix domain d && hasSuffix domain (ch '.' :: d))

def isDomainOrSubdomainOfAny (ext : Ext) (domain : Bytes) (domains : List Bytes) : Bool :=
  domains.any (domainEntryMatches ext domain)

/-- `filterutil.IsProbablyIP`: every rune an address rune and length ≥ 2.
    (For non-ASCII input `range s` yields runes ≥ 0x80 or U+FFFD, none of which is an address rune.) -/
def isAddrByte (c : UInt8) : Bool :=
  c == ch '.' || c == ch ':' || isDigit c || (65 ≤ c && c ≤ 70) || (97 ≤ c && c ≤ 102) ||
  c == ch '[' || c == ch ']'

def isProbablyIP (s : Bytes) : Bool := s.all isAddrByte && decide (s.length ≥ 2)

def matchShortcut (r : NetRule) (q : Request) : Bool := hasSub q.urlLower r.shortcut

def matchRequestType (r : NetRule) (t : Nat) : Bool :=
  !(r.permTypes != 0 && (r.permTypes &&& t) != t) &&
  !(r.restrTypes != 0 && (r.restrTypes &&& t) == t)

def matchRequestDomain (ext : Ext) (r : NetRule) (domain : Bytes) (hostnameRequest : Bool) : Bool :=
  if r.denyallow.isEmpty then true
  else if hostnameRequest && isProbablyIP domain && (ext.parseAddr domain).isSome then false
  else !isDomainOrSubdomainOfAny ext domain r.denyallow

def matchSourceDomain (ext : Ext) (r : NetRule) (domain : Bytes) : Bool :=
  if r.permDomains.isEmpty && r.restrDomains.isEmpty then true
  else if !r.restrDomains.isEmpty && isDomainOrSubdomainOfAny ext domain r.restrDomains then false
  else if !r.permDomains.isEmpty && !isDomainOrSubdomainOfAny ext domain r.permDomains then false
  else true

def matchDNSType (r : NetRule) (t : Nat) : Bool :=
  if r.permDns.isEmpty && r.restrDns.isEmpty then true
  else if r.restrDns.contains t then false
  else if !r.permDns.isEmpty then r.permDns.contains t
  else true

/-- `matchClientTagsSpecific`: the two-index merge over two sorted slices
    (fuel = total length; each step advances one index). -/
def mergeCommon : (a b : List Bytes) → (fuel : Nat) → Bool
  | _, _, 0 => false
  | [], _, _ => false
  | _, [], _ => false
  | x :: a, y :: b, fuel + 1 =>
    match cmp x y with
    | .eq => true
    | .lt => mergeCommon a (y :: b) fuel
    | .gt => mergeCommon (x :: a) b fuel

def matchClientTagsSpecific (ruleTags clientTags : List Bytes) : Bool :=
  mergeCommon ruleTags clientTags (ruleTags.length + clientTags.length)

def matchClientTags (r : NetRule) (tags : List Bytes) : Bool :=
  if r.restrTags.isEmpty && r.permTags.isEmpty then true
  else if matchClientTagsSpecific r.restrTags tags then false
  else if !r.permTags.isEmpty then matchClientTagsSpecific r.permTags tags
  else true

/-- `slices.BinarySearch` on a sorted list of byte strings: found? (fuel-bounded halving). -/
def bsearch (xs : Array Bytes) (x : Bytes) : Bool :=
  go 0 xs.size (xs.size + 1)
where
  go (lo hi : Nat) : Nat → Bool
    | 0 => false
    | fuel + 1 =>
      if lo < hi then
        let mid := (lo + hi) / 2
        match cmp (xs.getD mid []) x with
        | .lt => go (mid + 1) hi fuel
        | _ => go lo mid fuel
      else decide (lo < xs.size) && (xs.getD lo [] == x)

def Clients.containsAny (c : Option Clients) (host : Bytes) (ip : Option Addr) : Bool :=
  match c with
  | none => false
  | some c =>
    if !host.isEmpty && bsearch c.hosts.toArray host then true
    else match ip with
      | none => false
      | some a => c.nets.any (·.containsAddr a)

def matchClient (r : NetRule) (host : Bytes) (ip : Option Addr) : Bool :=
  let restLen := Clients.len r.restrClients
  let permLen := Clients.len r.permClients
  if restLen == 0 && permLen == 0 then true
  else if Clients.containsAny r.restrClients host ip then false
  else if permLen != 0 then Clients.containsAny r.permClients host ip
  else true

/-- `shouldMatchHostname`. -/
def shouldMatchHostname (r : NetRule) (q : Request) : Bool :=
  if !q.isHostnameRequest then false
  else if hasPrefix r.pattern (lit "||") || hasPrefix r.pattern (lit "http://") ||
      hasPrefix r.pattern (lit "https://") || hasPrefix r.pattern (lit "://") then false
  else if decide (r.pattern.length > 3) && r.pattern.head? == some (ch '/') &&
      r.pattern.getLast? == some (ch '.') then
    -- "/hostname." : every inner character is allowed ⇒ false, else true
    !((r.pattern.drop 1).dropLast.all fun c => isAlpha c || isDigit c || c == ch '.' || c == ch '-')
  else true

def matchPattern (ext : Ext) (r : NetRule) (q : Request) : Bool :=
  ext.pat r.pattern (r.isEnabled Facts.OptionMatchCase)
    (if shouldMatchHostname r q then q.hostname else q.url)

/-- `NetworkRule.Match`: the conjunction of the ten checks, in the order of the Go `switch`. -/
def NetRule.matches (ext : Ext) (r : NetRule) (q : Request) : Bool :=
  matchShortcut r q &&
  !(r.isEnabled Facts.OptionThirdParty && !q.thirdParty) &&
  !(r.isDisabled Facts.OptionThirdParty && q.thirdParty) &&
  matchRequestType r q.reqType &&
  matchRequestDomain ext r q.hostname q.isHostnameRequest &&
  matchSourceDomain ext r q.sourceHostname &&
  matchDNSType r q.dnsType &&
  matchClientTags r q.sortedTags &&
  matchClient r q.clientName q.clientIP &&
  matchPattern ext r q

end UF

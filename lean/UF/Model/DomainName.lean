import UF.Model.Parse
/-
  Model of `filterutil.IsDomainName` (filterutil/util.go) AS THE STATE MACHINE the Go code is:
  one step per byte over the variables `st`, `nLabel`, `prevChar`, `charOnly`, `xn`
  (`nLevel` is written but never read, so it is not modelled).
-/
namespace UF.E
open Bytes

structure DNState where
  st : Nat := 0
  nLabel : Nat := 0
  prevChar : UInt8 := 0
  charOnly : Bool := true
  xn : Nat := 0
  deriving DecidableEq, Repr, Inhabited

/-- Result of one loop iteration: go on, `return false`, or a run-time panic (the index
    expression `"xn--"[xn]`). -/
inductive DNStep where
  | cont (s : DNState)
  | reject
  | panic
  deriving DecidableEq, Repr, Inhabited

def dnStep (s : DNState) (c : UInt8) : DNStep :=
  if s.st == 0 || s.st == 1 then
    -- case 0 / case 1: first character of a label
    if !isAlpha c then
      if !isDigit c then .reject
      else .cont { s with charOnly := false, st := 2, nLabel := 1 }
    else if c == ch 'x' || c == ch 'X' then
      .cont { s with xn := 1, st := 2, nLabel := 1 }
    else .cont { s with st := 2, nLabel := 1 }
  else if s.st == 2 then
    if c == ch '.' then
      if s.prevChar == ch '-' then .reject
      else .cont { s with st := 0, charOnly := true, xn := 0 }
    else if s.nLabel == 63 then .reject
    else
      let bad := !isAlpha c && !(isDigit c || c == ch '-')
      if bad then .reject else
      let charOnly := if !isAlpha c then false else s.charOnly
      if s.xn > 0 then
        if s.xn < 4 then
          match (lit "xn--")[s.xn]? with
          | none => .panic
          | some b =>
            .cont { s with charOnly := charOnly, xn := if c == b then s.xn + 1 else 0,
                           prevChar := c, nLabel := s.nLabel + 1 }
        else .cont { s with charOnly := charOnly, xn := s.xn + 1, prevChar := c, nLabel := s.nLabel + 1 }
      else .cont { s with charOnly := charOnly, prevChar := c, nLabel := s.nLabel + 1 }
  else .cont s  -- no other state exists (the Go `switch` has no default)

/-- The `for _, c := range []byte(name)` loop. -/
def dnRun : DNState → Bytes → PE (Option DNState)
  | s, [] => pure (some s)
  | s, c :: t =>
    match dnStep s c with
    | .cont s' => dnRun s' t
    | .reject => pure none
    | .panic => throw .panic

/-- `filterutil.IsDomainName` with the index expression checked. -/
def isDomainNameC (name : Bytes) : PE Bool :=
  if name.length > 253 then pure false else do
    match ← dnRun {} name with
    | none => pure false
    | some s => pure !(s.st != 2 || s.nLabel == 1 || (!s.charOnly && s.xn < 8))

end UF.E

import UF.Basic.Bytes
import UF.Gen.Facts
/-
  Records mirroring the Go structures `rules.NetworkRule`, `rules.Request`,
  `rules.HostRule`, `rules.CosmeticRule`, `rules.DNSRewrite`, `netip.Addr/Prefix`,
  and the bundle of external functions (`Ext`) the model is parametric in.
-/
namespace UF

/-- A valid `netip.Addr` (the zero Addr is `Option.none`). `val` is the 32- or 128-bit number. -/
structure Addr where
  is4 : Bool
  val : Nat
  zone : Bytes := []
  deriving DecidableEq, Repr, Inhabited

def Addr.bitLen (a : Addr) : Nat := if a.is4 then 32 else 128

/-- A valid, masked `netip.Prefix`. -/
structure Prefix where
  addr : Addr
  bits : Nat
  deriving DecidableEq, Repr, Inhabited

/-- `netip.Prefix.Contains` for valid prefixes: a zoned address is never contained and the
    families must agree (an IPv4-mapped IPv6 address is not in an IPv4 prefix). -/
def Prefix.containsAddr (p : Prefix) (ip : Addr) : Bool :=
  ip.zone.isEmpty && ip.is4 == p.addr.is4 &&
    (ip.val >>> (ip.bitLen - p.bits)) == (p.addr.val >>> (ip.bitLen - p.bits))

/-- The `*clients` structure (a nil pointer is `Option.none`). -/
structure Clients where
  hosts : List Bytes
  nets : List Prefix
  deriving DecidableEq, Repr, Inhabited

def Clients.len : Option Clients → Nat
  | none => 0
  | some c => c.hosts.length + c.nets.length

/-- Dynamic value of a `$dnsrewrite` (Go `RRValue = any`). -/
inductive RRVal where
  | none
  | addr (a : Addr)
  | str (s : Bytes)
  | mx (pref : Nat) (exch : Bytes)
  | srv (prio weight port : Nat) (target : Bytes)
  | svcb (prio : Nat) (target : Bytes) (params : Option (List (Bytes × Bytes)))
  deriving DecidableEq, Repr, Inhabited

structure DnsRewrite where
  rcode : Nat := 0
  rrType : Nat := 0
  newCNAME : Bytes := []
  value : RRVal := .none
  deriving DecidableEq, Repr, Inhabited

structure NetRule where
  text : Bytes := []
  listID : Int := 0
  whitelist : Bool := false
  pattern : Bytes := []
  shortcut : Bytes := []
  permDomains : List Bytes := []
  restrDomains : List Bytes := []
  denyallow : List Bytes := []
  permDns : List Nat := []
  restrDns : List Nat := []
  permTags : List Bytes := []
  restrTags : List Bytes := []
  permClients : Option Clients := none
  restrClients : Option Clients := none
  enabled : Nat := 0
  disabled : Nat := 0
  permTypes : Nat := 0
  restrTypes : Nat := 0
  rewrite : Option DnsRewrite := none
  deriving DecidableEq, Repr, Inhabited

/-- `IsOptionEnabled`: `(enabledOptions & option) == option`. -/
def NetRule.isEnabled (r : NetRule) (opt : Nat) : Bool := (r.enabled &&& opt) == opt
/-- `IsOptionDisabled`. -/
def NetRule.isDisabled (r : NetRule) (opt : Nat) : Bool := (r.disabled &&& opt) == opt
def NetRule.isGeneric (r : NetRule) : Bool := r.permDomains.isEmpty
def NetRule.important (r : NetRule) : Bool := r.isEnabled Facts.OptionImportant
def NetRule.badfilter (r : NetRule) : Bool := r.isEnabled Facts.OptionBadfilter

structure Request where
  url : Bytes := []
  urlLower : Bytes := []
  hostname : Bytes := []
  domain : Bytes := []
  sourceURL : Bytes := []
  sourceHostname : Bytes := []
  sourceDomain : Bytes := []
  sortedTags : List Bytes := []
  reqType : Nat := 0
  dnsType : Nat := 0
  thirdParty : Bool := false
  isHostnameRequest : Bool := false
  clientName : Bytes := []
  clientIP : Option Addr := none
  deriving DecidableEq, Repr, Inhabited

structure HostRule where
  text : Bytes := []
  listID : Int := 0
  hostnames : List Bytes := []
  ip : Addr := { is4 := true, val := 0 }
  deriving DecidableEq, Repr, Inhabited

structure CosRule where
  text : Bytes := []
  listID : Int := 0
  content : Bytes := []
  permDomains : List Bytes := []
  restrDomains : List Bytes := []
  whitelist : Bool := false
  deriving DecidableEq, Repr, Inhabited

inductive Rule where
  | net (r : NetRule)
  | host (r : HostRule)
  | cos (r : CosRule)
  deriving DecidableEq, Repr, Inhabited

def Rule.text : Rule → Bytes
  | .net r => r.text | .host r => r.text | .cos r => r.text
def Rule.listID : Rule → Int
  | .net r => r.listID | .host r => r.listID | .cos r => r.listID

/-- External functions the model is parametric in (oracles; see DESIGN.md §3). -/
structure Ext where
  /-- `publicsuffix.PublicSuffix`: the suffix and whether it is ICANN-managed. -/
  psl : Bytes → Bytes × Bool
  /-- `netip.ParseAddr` (`none` = error). -/
  parseAddr : Bytes → Option Addr
  /-- `netip.ParsePrefix` followed by `Masked()`. -/
  parsePrefix : Bytes → Option Prefix
  /-- Does the compiled pattern (with `(?i)` unless `matchCase`) accept the target?
      Instantiated by the regex model (`UF.Model.Regex`) or, in correspondence runs that do not
      study patterns, by the answers of the real engine. -/
  pat : (pattern : Bytes) → (matchCase : Bool) → (target : Bytes) → Bool

end UF

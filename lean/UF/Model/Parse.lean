import UF.Model.Rule
/-
  Model of the text-level part of `rules.NewNetworkRule` (rules/network.go, rules/helpers.go):
  `parseRuleText`, `splitWithEscapeCharacter`, `findShortcut`, in the shape of the Go code.
  Every Go slice / index expression is a CHECKED operation here (`sliceC`, `idxC`): a run-time panic
  of the Go code is the value `.error .panic`, so "never crashes" is a theorem (Props/C12.lean).
-/
namespace UF.E
open Bytes

/-- How a modelled function can fail: a run-time panic (slice/index out of range) or an ordinary
    returned `error`. -/
inductive PErr where
  | panic
  | err
  deriving DecidableEq, Repr, Inhabited

abbrev PE := Except PErr

/-- Go `s[i:j]`. -/
def sliceC (s : Bytes) (i j : Nat) : PE Bytes :=
  match Bytes.slice? s i j with
  | some r => pure r
  | none => throw .panic

/-- Go `s[i]`. -/
def idxC (s : Bytes) (i : Nat) : PE UInt8 :=
  match s[i]? with
  | some c => pure c
  | none => throw .panic

/-- `.error .panic`-freeness. -/
def PE.noPanic {α} (x : PE α) : Prop := x ≠ .error .panic

/-! ### splitWithEscapeCharacter -/

/-- The loop `for i := 0; i < len(str); i++ { c := str[i]; … }` (byte-wise since the D13 repair;
    before it ranged by rune and dropped continuation bytes) with the builder `sb`, the flag `escaped` and
    the parts so far.  `fuel` bounds the number of iterations; `str.length` suffices and extra fuel
    changes nothing (theorems `splitEscLoop_fuel`, `splitEscLoop_len_suffices` in Proofs/ParseTotal.lean). -/
def splitEscLoop (str : Bytes) (sep esc : UInt8) (preserveAll : Bool) :
    (fuel : Nat) → (i : Nat) → (sb : Bytes) → (escaped : Bool) → (parts : List Bytes) →
    PE (Bytes × List Bytes)
  | 0, _, sb, _, parts => pure (sb, parts)
  | fuel + 1, i, sb, escaped, parts =>
    if i ≥ str.length then pure (sb, parts) else do
      let c ← idxC str i
      let next := i + 1
      if c == esc then
        splitEscLoop str sep esc preserveAll fuel next sb true parts
      else if c == sep then
        if escaped then
          splitEscLoop str sep esc preserveAll fuel next (sb ++ [c]) false parts
        else if preserveAll || sb.length > 0 then
          splitEscLoop str sep esc preserveAll fuel next [] escaped (parts ++ [sb])
        else
          splitEscLoop str sep esc preserveAll fuel next sb escaped parts
      else
        let sb := if escaped then sb ++ [esc] else sb
        splitEscLoop str sep esc preserveAll fuel next (sb ++ [c]) false parts

/-- `splitWithEscapeCharacter`. -/
def splitWithEscapeCharacter (str : Bytes) (sep esc : UInt8) (preserveAll : Bool) : PE (List Bytes) :=
  if str.isEmpty then pure [] else do
    let (sb, parts) ← splitEscLoop str sep esc preserveAll str.length 0 [] false []
    if preserveAll || sb.length > 0 then pure (parts ++ [sb]) else pure parts

/-! ### parseRuleText -/

/-- The backwards loop `for idx := len-2; idx >= 0; idx--` looking for the options delimiter;
    the argument is `idx + 1`. Returns (pattern, options). -/
def parseSplitLoop (t : Bytes) : (idx1 : Nat) → (hasEscaped : Bool) → PE (Bytes × Bytes)
  | 0, _ => pure (t, [])
  | idx + 1, hasEscaped => do
    let c ← idxC t idx
    if c != ch '$' then parseSplitLoop t idx hasEscaped
    else do
      let escapedHere ←
        if !hasEscaped && idx > 0 then do
          let p ← idxC t (idx - 1)
          pure (p == ch '\\')
        else pure false
      if escapedHere then parseSplitLoop t idx true
      else do
        let pat ← sliceC t 0 idx
        let opts ← sliceC t (idx + 1) t.length
        pure (pat, if hasEscaped then replaceAll opts (lit "\\$") (lit "$") else opts)

/-- `parseRuleText`: (pattern, options, whitelist). -/
def parseRuleText (ruleText : Bytes) : PE (Bytes × Bytes × Bool) :=
  if ruleText.isEmpty || ruleText == lit "@@" then throw .err else do
    let (whitelist, t) ←
      if hasPrefix ruleText (lit "@@") then do
        let t ← sliceC ruleText 2 ruleText.length
        pure (true, t)
      else pure (false, ruleText)
    -- Avoid parsing options inside of a regex rule.
    if hasPrefix t (lit "/") && hasSuffix t (lit "/") && !hasSub t (lit "replace=") then
      pure (t, [], whitelist)
    else do
      let (pat, opts) ← parseSplitLoop t (t.length - 1) false
      pure (pat, opts, whitelist)

/-! ### findShortcut -/

/-- The loop of `findShortcut` (`fuel` bounds the iterations; `pattern.length + 1` suffices). -/
def findShortcutLoop : (fuel : Nat) → (pattern shortcut : Bytes) → PE Bytes
  | 0, _, shortcut => pure shortcut
  | fuel + 1, pattern, shortcut =>
    if pattern.isEmpty then pure shortcut else
    match indexAny pattern (lit "*^|") with
    | none => if pattern.length > shortcut.length then pure pattern else pure shortcut
    | some i => do
      let shortcut ← if i > shortcut.length then sliceC pattern 0 i else pure shortcut
      let pattern ← sliceC pattern (i + 1) pattern.length
      findShortcutLoop fuel pattern shortcut

def findShortcut (pattern : Bytes) : PE Bytes := findShortcutLoop (pattern.length + 1) pattern []

/-- `isRegexPattern`. -/
def isRegexPattern (p : Bytes) : Bool :=
  decide (p.length > 1) && p.head? == some (ch '/') && p.getLast? == some (ch '/')

end UF.E

import UF.Model.Result
/-
  Model of dnsrewrite.go: `DNSRewritesAll`, `matchException`, `removeMatchingException`,
  `DNSRewrites`, in the repaired shape (commits 0d7ffab: collect the exceptions, then apply each;
  values compared with `reflect.DeepEqual`; 500f7e2: `$badfilter` applied first).
  A nil-pointer dereference of `nr.DNSRewrite` / `exc.DNSRewrite` is modelled as `none`, so that
  "DNSRewrites does not crash" is a theorem (`c09` has `some …` on its right-hand side).

  `dnsRewritesOld` keeps the pinned tree's in-place index loop (defect D8) with fuel and the
  pointer comparison of structured values; it is used only by the negation examples of
  `UF/Props/C09.lean`.
-/
namespace UF

/-- `DNSRewritesAll`: the network rules with `DNSRewrite != nil`, in order. -/
def dnsRewritesAll (networkRules : List NetRule) : List NetRule :=
  networkRules.foldl (fun nrules nr => if nr.rewrite.isSome then nrules ++ [nr] else nrules) []

/-- `rules.DNSRewrite{}`. -/
def emptyRewrite : DnsRewrite := {}

/-- `matchException(nr, exc, excImportant)`; `none` = nil-pointer dereference. -/
def matchException (nr exc : NetRule) (excImportant : Bool) : Option Bool :=
  if !excImportant && nr.important then some false
  else
    match nr.rewrite, exc.rewrite with
    | some nrdnsr, some excdnsr =>
      if excdnsr.newCNAME != [] then some (nrdnsr.newCNAME == excdnsr.newCNAME)
      else if nrdnsr.rcode == excdnsr.rcode then
        if excdnsr.rcode != 0 then some true
        else if nrdnsr.rrType == excdnsr.rrType && nrdnsr.value == excdnsr.value then some true
        else some false
      else some false
    | _, _ => none

/-- `slices.DeleteFunc` with a predicate that may panic. -/
def deleteFunc? {α} (del : α → Option Bool) : List α → Option (List α)
  | [] => some []
  | x :: xs =>
    match del x with
    | none => none
    | some d =>
      match deleteFunc? del xs with
      | none => none
      | some rest => some (if d then rest else x :: rest)

/-- `removeMatchingException(nrules, exc)`. -/
def removeMatchingException (nrules : List NetRule) (exc : NetRule) : Option (List NetRule) :=
  match exc.rewrite with
  | none => some nrules
  | some excdnsr =>
    let excImportant := exc.important
    if excdnsr == emptyRewrite then
      if excImportant then some []
      else deleteFunc? (fun nr => some (!nr.important)) nrules
    else deleteFunc? (fun nr => matchException nr exc excImportant) nrules

/-- The partition loop of `DNSRewrites`. -/
def splitExceptions (all : List NetRule) : List NetRule × List NetRule :=
  all.foldl (fun (acc : List NetRule × List NetRule) nr =>
    if nr.whitelist then (acc.1 ++ [nr], acc.2) else (acc.1, acc.2 ++ [nr])) ([], [])

/-- `(*DNSResult).DNSRewrites` on `res.NetworkRules` (`none` = panic). -/
def dnsRewrites (networkRules : List NetRule) : Option (List NetRule) :=
  let (exceptions, nrules) := splitExceptions (removeBadfilterRules (dnsRewritesAll networkRules))
  exceptions.foldlM (fun nrules exc => removeMatchingException nrules exc) nrules

/-! ### the pinned tree (D8) -/

/-- `nrdnsr.Value == excdnsr.Value` on `any`: structured values (`*DNSMX`, `*DNSSRV`, `*DNSSVCB`)
    are pointers, and two parsed rules never share one. -/
def valuePtrEq : RRVal → RRVal → Bool
  | .none, .none => true
  | .addr a, .addr b => a == b
  | .str a, .str b => a == b
  | _, _ => false

def matchExceptionOld (nr exc : NetRule) (excImportant : Bool) : Option Bool :=
  if !excImportant && nr.important then some false
  else
    match nr.rewrite, exc.rewrite with
    | some nrdnsr, some excdnsr =>
      if excdnsr.newCNAME != [] then some (nrdnsr.newCNAME == excdnsr.newCNAME)
      else if nrdnsr.rcode == excdnsr.rcode then
        if excdnsr.rcode != 0 then some true
        else if nrdnsr.rrType == excdnsr.rrType && valuePtrEq nrdnsr.value excdnsr.value then some true
        else some false
      else some false
    | _, _ => none

def removeMatchingExceptionOld (nrules : List NetRule) (exc : NetRule) : Option (List NetRule) :=
  match exc.rewrite with
  | none => some nrules
  | some excdnsr =>
    let excImportant := exc.important
    if excdnsr == emptyRewrite then
      if excImportant then some []
      else deleteFunc? (fun nr => some (!nr.important)) nrules
    else deleteFunc? (fun nr => matchExceptionOld nr exc excImportant) nrules

/-- `for i := 0; i < len(nrules); i++ { nr := nrules[i]; if nr.Whitelist { nrules = Delete(nrules, i, i+1);
    nrules = removeMatchingException(nrules, nr) } }` — note that `i` is incremented after a deletion. -/
def dnsRewritesOldLoop : Nat → Nat → List NetRule → Option (List NetRule)
  | 0, _, nrules => some nrules
  | fuel + 1, i, nrules =>
    match nrules[i]? with
    | none => some nrules
    | some nr =>
      if nr.whitelist then
        match removeMatchingExceptionOld (nrules.eraseIdx i) nr with
        | none => none
        | some nrules' => dnsRewritesOldLoop fuel (i + 1) nrules'
      else dnsRewritesOldLoop fuel (i + 1) nrules

def dnsRewritesOld (networkRules : List NetRule) : Option (List NetRule) :=
  let all := dnsRewritesAll networkRules
  dnsRewritesOldLoop (all.length + 1) 0 all

end UF

import UF.Model.Lookup
/-
  Model of `networkengine.go`: three tables, `AddRule` = first table that accepts,
  `MatchAll` = concatenation of the three answers.
-/
namespace UF.B
open UF UF.Bytes

structure Engine where
  sc : ShortcutsTable := {}
  dom : DomainsTable := {}
  seq : List NetRule := []

/-- `NetworkEngine.AddRule`. -/
def Engine.addRule (hf : HashFns) (k : Nat) (e : Engine) (r : NetRule) (idx : Idx) : Engine :=
  match e.sc.tryAdd hf k r idx with
  | some sc => { e with sc := sc }
  | none =>
    match e.dom.tryAdd hf r idx with
    | some dom => { e with dom := dom }
    | none => if containsRule e.seq r then e else { e with seq := e.seq ++ [r] }

/-- `NewNetworkEngine`: the network rules of the storage, in storage order, with their indexes. -/
def Engine.build (hf : HashFns) (k : Nat) (L : List (NetRule × Idx)) : Engine :=
  L.foldl (fun e p => e.addRule hf k p.1 p.2) {}

/-- `NetworkEngine.MatchAll`, generic in the match predicate. -/
def Engine.matchAllG (hf : HashFns) (k : Nat) (retrieve : Idx → Option NetRule) (m : NetRule → Bool)
    (url srcHost : Bytes) (e : Engine) : List NetRule :=
  (e.sc.matchAllG hf k retrieve m url).map (·.2) ++
  e.dom.matchAllG hf retrieve m srcHost ++
  e.seq.filter m

/-- `NetworkEngine.MatchAll`. -/
def Engine.matchAll (hf : HashFns) (k : Nat) (retrieve : Idx → Option NetRule) (ext : Ext)
    (e : Engine) (q : Request) : List NetRule :=
  e.matchAllG hf k retrieve (fun r => r.matches ext q) q.urlLower q.sourceHostname

end UF.B

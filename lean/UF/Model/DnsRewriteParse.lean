import UF.Model.HErr
import UF.Model.Rule
import UF.Model.Match
import UF.Gen.Facts
/-
  Model of `loadDNSRewrite` (rules/dnsrewrite.go) and `strToRRType` (rules/rule.go), in the
  shape of the Go code: the `SplitN(s, ";", 3)` dispatch, the shorthand form (empty / keyword /
  IP / host name), `validateHost`, the normal form with the rcode and type tables of miekg/dns
  (generated facts), the handler map and its nine handlers.

  Go expressions that can panic (`p[0]`, `p[1:]`, `valStr[l-1]`, `valStr[:l-1]`, `fields[i]`,
  `kv[i]`, `parts[i]`) are modelled by checked operations returning `HErr.panic`.

  Byte-level exactness.  `allUppercaseASCII`, `IsProbablyIP` and `validateHost` range over RUNES;
  every byte ≥ 0x80 decodes to a rune ≥ 0x80 or to U+FFFD, none of which passes the ASCII tests, so
  the byte-wise tests below are exact for ALL byte strings.  `strings.ToUpper` / `EqualFold` on the
  rcode and type fields are modelled on ASCII only (`ı`, `ſ`, `K` fold to ASCII letters); the
  driver answers `ood` when one of these two fields contains a byte ≥ 0x80.
-/
namespace UF.H
open Bytes

/-- `strings.SplitN s sep n` for a one-byte separator (`n = 0` gives nil). -/
def splitNByte (s : Bytes) (sep : UInt8) : Nat → List Bytes
  | 0 => []
  | 1 => [s]
  | n + 2 =>
    match indexByte s sep with
    | none => [s]
    | some i => s.take i :: splitNByte (s.drop (i + 1)) sep (n + 1)

/-- Lookup in a generated table (a Go map probed by key). -/
def lookupTbl (tbl : List (Bytes × Nat)) (k : Bytes) : Option Nat :=
  match tbl.find? (fun e => e.1 == k) with
  | some e => some e.2
  | none => none

/-- `allUppercaseASCII`. -/
def allUppercaseASCII (s : Bytes) : Bool := !s.isEmpty && s.all isUpper

/-- `isValidHostFirstRune` (on a byte). -/
def isValidHostFirst (c : UInt8) : Bool := isLower c || isUpper c || isDigit c
/-- `isValidHostRune` (on a byte). -/
def isValidHostByte (c : UInt8) : Bool := c == ch '-' || isValidHostFirst c

/-- Body of the loop of `validateHost` for one part. -/
def validatePart (p : Bytes) : Except HErr Unit :=
  if p.length == 0 then .error .reject else
  match idxE p 0 with                      -- p[0]
  | .error e => .error e
  | .ok r =>
    if !isValidHostFirst r then .error .reject else
    match sliceE p 1 p.length with         -- p[1:]
    | .error e => .error e
    | .ok rest => if rest.all isValidHostByte then .ok () else .error .reject

def validateParts : List Bytes → Except HErr Unit
  | [] => .ok ()
  | p :: ps =>
    match validatePart p with
    | .error e => .error e
    | .ok () => validateParts ps

/-- `validateHost`: total length 1..63, parts split on '.', first char alnum, rest alnum or '-'. -/
def validateHost (host : Bytes) : Except HErr Unit :=
  if host.length == 0 || host.length > 63 then .error .reject
  else validateParts (splitByte host (ch '.'))

/-- `strconv.ParseUint(x, 10, 16)`: non-empty, decimal digits only (no sign, no underscore),
    value ≤ 65535 (leading zeros allowed). -/
def decVal (x : Bytes) : Nat := x.foldl (fun acc c => acc * 10 + (c.toNat - 48)) 0

def parseUint16 (x : Bytes) : Option Nat :=
  if x.isEmpty || !x.all isDigit then none
  else if decVal x ≤ 65535 then some (decVal x) else none

/-- `dns.Fqdn s` at its only call site (the `else` branch of the PTR handler), where `s` is
    empty or does not end with '.': the first test of `dns.IsFqdn`
    (`s == "" || s[len(s)-1] != '.'` ⇒ not fully qualified) decides, so the result is `s + "."`.
    (The escape counting of `IsFqdn` for names that do end with a dot is never reached.) -/
def dnsFqdnNoDot (s : Bytes) : Bytes := s ++ [ch '.']

/-! ### Handlers (`dnsRewriteRRHandlers`) -/

abbrev RRHandler := Ext → (rcode rr : Nat) → (valStr : Bytes) → Except HErr DnsRewrite

/-- The A (`want4 = true`, test `!ip.Is4()`) and AAAA (`want4 = false`, test `!ip.Is6()`;
    for a valid address `Is6 = ¬Is4`, IPv4-mapped IPv6 addresses included) handlers. -/
def ipHandler (want4 : Bool) : RRHandler := fun ext rcode rr v =>
  if !isProbablyIP v then .error .reject else
  match ext.parseAddr v with
  | none => .error .reject
  | some a =>
    if a.is4 != want4 then .error .reject
    else .ok { rcode := rcode, rrType := rr, value := .addr a }

def cnameHandler : RRHandler := fun _ _ _ v =>
  match validateHost v with
  | .error e => .error e
  | .ok () => .ok { newCNAME := v }

def ptrHandler : RRHandler := fun _ rcode rr v =>
  let l := v.length
  let split : Except HErr (Bytes × Bytes) :=     -- (fqdn, valStr)
    if l > 0 then
      match idxE v (l - 1) with                  -- valStr[l-1]
      | .error e => .error e
      | .ok c =>
        if c == ch '.' then
          match sliceE v 0 (l - 1) with          -- valStr[:l-1]
          | .error e => .error e
          | .ok v' => .ok (v, v')
        else .ok (dnsFqdnNoDot v, v)
    else .ok (dnsFqdnNoDot v, v)
  match split with
  | .error e => .error e
  | .ok (fqdn, v') =>
    match validateHost v' with
    | .error e => .error e
    | .ok () => .ok { rcode := rcode, rrType := rr, value := .str fqdn }

def strHandler : RRHandler := fun _ rcode rr v =>
  .ok { rcode := rcode, rrType := rr, value := .str v }

def mxHandler : RRHandler := fun _ rcode rr v =>
  let parts := splitNByte v (ch ' ') 2
  if parts.length != 2 then .error .reject else
  match idxE parts 0, idxE parts 1 with
  | .ok p0, .ok exch =>
    match parseUint16 p0 with
    | none => .error .reject
    | some pref =>
      match validateHost exch with
      | .error e => .error e
      | .ok () => .ok { rcode := rcode, rrType := rr, value := .mx pref exch }
  | _, _ => .error .panic

/-- The target test shared by SRV and SVCB: `"."` is allowed, otherwise `validateHost`. -/
def validateTarget (t : Bytes) : Except HErr Unit :=
  if t == [ch '.'] then .ok () else validateHost t

def srvHandler : RRHandler := fun _ rcode rr v =>
  let fields := splitByte v (ch ' ')
  if fields.length < 4 then .error .reject else
  match idxE fields 0, idxE fields 1, idxE fields 2, idxE fields 3 with
  | .ok f0, .ok f1, .ok f2, .ok target =>
    match parseUint16 f0 with
    | none => .error .reject
    | some prio =>
      match parseUint16 f1 with
      | none => .error .reject
      | some weight =>
        match parseUint16 f2 with
        | none => .error .reject
        | some port =>
          match validateTarget target with
          | .error e => .error e
          | .ok () => .ok { rcode := rcode, rrType := rr, value := .srv prio weight port target }
  | _, _, _, _ => .error .panic

/-- Map insertion `params[k] = v` on an association list kept sorted by key (the wire form
    of a Go map: keys sorted, last write wins). -/
def paramsInsert (k v : Bytes) : List (Bytes × Bytes) → List (Bytes × Bytes)
  | [] => [(k, v)]
  | (k', v') :: rest =>
    match cmp k k' with
    | .lt => (k, v) :: (k', v') :: rest
    | .eq => (k, v) :: rest
    | .gt => (k', v') :: paramsInsert k v rest

/-- The parameter loop of the SVCB handler over `fields[2:]`. -/
def svcbParams : List Bytes → List (Bytes × Bytes) → Except HErr (List (Bytes × Bytes))
  | [], acc => .ok acc
  | pair :: rest, acc =>
    let kv := splitByte pair (ch '=')
    if kv.length != 2 then .error .reject else
    match idxE kv 0, idxE kv 1 with
    | .ok k, .ok v => svcbParams rest (paramsInsert k v acc)
    | _, _ => .error .panic

def svcbHandler : RRHandler := fun _ rcode rr v =>
  if !(rr == Facts.H.DnsTypeHTTPS || rr == Facts.H.DnsTypeSVCB) then .error .reject else
  let fields := splitByte v (ch ' ')
  if fields.length < 2 then .error .reject else
  match idxE fields 0, idxE fields 1 with
  | .ok f0, .ok target =>
    match parseUint16 f0 with
    | none => .error .reject
    | some prio =>
      match validateTarget target with
      | .error e => .error e
      | .ok () =>
        if fields.length == 2 then
          .ok { rcode := rcode, rrType := rr, value := .svcb prio target none }
        else
          match svcbParams (fields.drop 2) [] with     -- fields[2:], len(fields) ≥ 2 here
          | .error e => .error e
          | .ok params => .ok { rcode := rcode, rrType := rr, value := .svcb prio target (some params) }
  | _, _ => .error .panic

/-- The handler map, probed by key. -/
def handlerOf (rr : Nat) : Option RRHandler :=
  if rr == Facts.H.DnsTypeA then some (ipHandler true)
  else if rr == Facts.H.DnsTypeAAAA then some (ipHandler false)
  else if rr == Facts.H.DnsTypeCNAME then some cnameHandler
  else if rr == Facts.H.DnsTypeMX then some mxHandler
  else if rr == Facts.H.DnsTypePTR then some ptrHandler
  else if rr == Facts.H.DnsTypeTXT then some strHandler
  else if rr == Facts.H.DnsTypeHTTPS then some svcbHandler
  else if rr == Facts.H.DnsTypeSVCB then some svcbHandler
  else if rr == Facts.H.DnsTypeSRV then some srvHandler
  else none

/-- `strToRRType` (ASCII `EqualFold` / `ToUpper`). -/
def strToRRType (s : Bytes) : Option Nat :=
  if toLower s == lit "none" || toLower s == lit "reserved" then none
  else lookupTbl Facts.H.dnsTypeTable (toUpper s)

/-- `loadDNSRewriteShort`. -/
def loadDNSRewriteShort (ext : Ext) (s : Bytes) : Except HErr DnsRewrite :=
  if s.isEmpty then .ok {} else
  if allUppercaseASCII s then
    if Facts.H.dnsRewriteKeywords.contains s then
      .ok { rcode := (lookupTbl Facts.H.dnsRcodeTable s).getD 0 }   -- `dns.StringToRcode[s]`
    else .error .reject
  else
    match (if isProbablyIP s then ext.parseAddr s else none) with
    | some a =>
      .ok { rcode := Facts.H.RcodeSuccess,
            rrType := if a.is4 then Facts.H.DnsTypeA else Facts.H.DnsTypeAAAA,
            value := .addr a }
    | none =>
      match validateHost s with
      | .error e => .error e
      | .ok () => .ok { newCNAME := s }

/-- `loadDNSRewriteNormal`. -/
def loadDNSRewriteNormal (ext : Ext) (rcodeStr rrStr valStr : Bytes) : Except HErr DnsRewrite :=
  match lookupTbl Facts.H.dnsRcodeTable (toUpper rcodeStr) with
  | none => .error .reject
  | some rcode =>
    if rcode != Facts.H.RcodeSuccess || (rrStr.isEmpty && valStr.isEmpty) then .ok { rcode := rcode }
    else
      match strToRRType rrStr with
      | none => .error .reject
      | some rr =>
        match handlerOf rr with
        | none => .ok { rcode := rcode, rrType := rr }
        | some h => h ext rcode rr valStr

/-- `loadDNSRewrite`. -/
def loadDNSRewrite (ext : Ext) (s : Bytes) : Except HErr DnsRewrite :=
  let parts := splitNByte s (ch ';') 3
  match parts.length with
  | 1 => loadDNSRewriteShort ext s
  | 2 => .error .reject
  | 3 =>
    match idxE parts 0, idxE parts 1, idxE parts 2 with
    | .ok p0, .ok p1, .ok p2 => loadDNSRewriteNormal ext p0 p1 p2
    | _, _, _ => .error .panic
  | _ => .error .reject

/-- Domain on which the ASCII model of `ToUpper`/`EqualFold` is exact: the rcode and type
    fields of the normal form are ASCII. -/
def dnsRewriteInDomain (s : Bytes) : Bool :=
  match splitNByte s (ch ';') 3 with
  | [p0, p1, _] => isAscii p0 && isAscii p1
  | _ => true

end UF.H

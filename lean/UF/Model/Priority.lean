import UF.Model.Rule
/-
  Model of `NetworkRule.IsHigherPriority` (rules/network.go) in its repaired shape (commit a041957):
  the class tests, `$redirect` and generic/specific are tested in BOTH directions, and the modifier
  counts of both operands include `$client` and `$denyallow`.

  `isHigherPriorityOld` keeps the shape of the pinned tree (defect D6) and is used only by the
  negation examples in `UF/Props/C07.lean`.
-/
namespace UF

/-- Auxiliary bit counter with explicit fuel (structural, so that it reduces in the kernel). -/
def popAux : Nat → Nat → Nat
  | 0, _ => 0
  | f + 1, n => n % 2 + popAux f (n / 2)

/-- `bits.OnesCount64` (`NetworkRuleOption.Count`, `RequestType.Count`): the number of set bits.
    The fuel `log2 n + 1` is the number of binary digits of `n`. -/
def popCount (n : Nat) : Nat := popAux (n.log2 + 1) n

/-- The `count` / `rCount` computation of `IsHigherPriority` (the repaired code computes the same
    expression for both operands). -/
def modifierCount (r : NetRule) : Nat :=
  popCount r.enabled + popCount r.disabled + popCount r.permTypes + popCount r.restrTypes
  + (if r.permDomains.length != 0 || r.restrDomains.length != 0 then 1 else 0)
  + (if r.permDns.length != 0 || r.restrDns.length != 0 then 1 else 0)
  + (if r.permTags.length != 0 || r.restrTags.length != 0 then 1 else 0)
  + (if Clients.len r.permClients != 0 || Clients.len r.restrClients != 0 then 1 else 0)
  + (if r.denyallow.length != 0 then 1 else 0)

/-- The right-hand count of the pinned tree: `$client` and `$denyallow` were not counted for `r`. -/
def modifierCountOldRight (r : NetRule) : Nat :=
  popCount r.enabled + popCount r.disabled + popCount r.permTypes + popCount r.restrTypes
  + (if r.permDomains.length != 0 || r.restrDomains.length != 0 then 1 else 0)
  + (if r.permDns.length != 0 || r.restrDns.length != 0 then 1 else 0)
  + (if r.permTags.length != 0 || r.restrTags.length != 0 then 1 else 0)

def NetRule.redirect (r : NetRule) : Bool := r.isEnabled Facts.OptionRedirect

/-- `f.IsHigherPriority(r)`, statement by statement. -/
def isHigherPriority (f r : NetRule) : Bool :=
  let important := f.important
  let rImportant := r.important
  if (f.whitelist && important) && !(r.whitelist && rImportant) then true
  else if (r.whitelist && rImportant) && !(f.whitelist && important) then false
  else if important && !rImportant then true
  else if rImportant && !important then false
  else if f.whitelist && !r.whitelist then true
  else if r.whitelist && !f.whitelist then false
  else
    let redirect := f.redirect
    let rRedirect := r.redirect
    if redirect && !rRedirect then true
    else if rRedirect && !redirect then false
    else
      let generic := f.isGeneric
      let rGeneric := r.isGeneric
      if !generic && rGeneric then true
      else if generic && !rGeneric then false
      else decide (modifierCount f > modifierCount r)

/-- The pinned tree (D6): `$redirect` and generic/specific tested in one direction only, one-sided
    counts. -/
def isHigherPriorityOld (f r : NetRule) : Bool :=
  let important := f.important
  let rImportant := r.important
  if (f.whitelist && important) && !(r.whitelist && rImportant) then true
  else if (r.whitelist && rImportant) && !(f.whitelist && important) then false
  else if important && !rImportant then true
  else if rImportant && !important then false
  else if f.whitelist && !r.whitelist then true
  else if r.whitelist && !f.whitelist then false
  else if f.redirect && !r.redirect then true
  else if !f.isGeneric && r.isGeneric then true
  else decide (modifierCount f > modifierCountOldRight r)

/-- The replace-if-higher step of the selection loops (rules/match.go:93,133,159):
    `if best == nil || rule.IsHigherPriority(best) { best = rule }`. -/
def selectStep (best : Option NetRule) (rule : NetRule) : Option NetRule :=
  match best with
  | none => some rule
  | some b => if isHigherPriority rule b then some rule else some b

/-- The left-to-right selection scan over a candidate list. -/
def selectBest (rs : List NetRule) : Option NetRule := rs.foldl selectStep none

end UF

import UF.Model.Priority
/-
  Model of rules/match.go: `removeBadfilterRules`, `removeDNSRewriteRules`, `NewMatchingResult`,
  `GetBasicResult`, `GetDNSBasicRule`, and of `NetworkRule.negatesBadfilter` /
  `isDocumentWhitelistRule` (rules/network.go), in the repaired shapes (commits 3e20bcb, 2a4efdd).
  The `…Old` definitions keep the shapes of the pinned tree (defects D5, D7) and are used only by
  the negation examples in `UF/Props/C06.lean` and `UF/Props/C08.lean`.
-/
namespace UF

/-! ### $badfilter -/

/-- `f.negatesBadfilter(r)`: the `switch` lists the conditions under which the answer is `false`,
    in this order (all of them are pure, the order is kept for readability only).
    `slices.Equal` on string / uint16 slices is list equality; `reflect.DeepEqual` on the two
    `*DNSRewrite` is structural equality of `Option DnsRewrite` (nil = `none`; a nil `Params` map and an
    empty one differ, as in `RRVal.svcb`); `clients.Equal` is equality of `Option Clients`. -/
def negatesBadfilter (f r : NetRule) : Bool :=
  if !f.isEnabled Facts.OptionBadfilter
      || f.whitelist != r.whitelist
      || f.pattern != r.pattern
      || f.permTypes != r.permTypes
      || f.restrTypes != r.restrTypes
      || (f.enabled ^^^ Facts.OptionBadfilter) != r.enabled
      || f.disabled != r.disabled
      || f.permDomains != r.permDomains
      || f.restrDomains != r.restrDomains
      || f.denyallow != r.denyallow
      || f.permDns != r.permDns
      || f.restrDns != r.restrDns
      || f.rewrite != r.rewrite
      || f.permTags != r.permTags
      || f.restrTags != r.restrTags
      || f.permClients != r.permClients
      || f.restrClients != r.restrClients
  then false else true

/-- The pinned tree (D7): `$denyallow`, `$dnstype` and `$dnsrewrite` were not compared. -/
def negatesBadfilterOld (f r : NetRule) : Bool :=
  if !f.isEnabled Facts.OptionBadfilter
      || f.whitelist != r.whitelist
      || f.pattern != r.pattern
      || f.permTypes != r.permTypes
      || f.restrTypes != r.restrTypes
      || (f.enabled ^^^ Facts.OptionBadfilter) != r.enabled
      || f.disabled != r.disabled
      || f.permDomains != r.permDomains
      || f.restrDomains != r.restrDomains
      || f.permTags != r.permTags
      || f.restrTags != r.restrTags
      || f.permClients != r.permClients
      || f.restrClients != r.restrClients
  then false else true

/-- First loop of `removeBadfilterRules`: collect the badfilter rules in order. -/
def collectBadfilter (rules : List NetRule) : List NetRule :=
  rules.foldl (fun acc r => if r.isEnabled Facts.OptionBadfilter then acc ++ [r] else acc) []

/-- `removeBadfilterRules` (repaired): one pass over the rules; a rule is dropped if it is a
    badfilter rule or some collected badfilter rule negates it (inner loop with `break` = `any`). -/
def removeBadfilterRules (rules : List NetRule) : List NetRule :=
  let badfilterRules := collectBadfilter rules
  if badfilterRules.length > 0 then
    rules.foldl (fun filtered rule =>
      if rule.isEnabled Facts.OptionBadfilter then filtered
      else
        let negated := badfilterRules.any (fun b => negatesBadfilter b rule)
        if !negated then filtered ++ [rule] else filtered) []
  else rules

/-- The pinned tree (D7): the badfilter rules were the OUTER loop, so every survivor was appended
    once per badfilter rule and a rule negated by one of them was re-added by the others. -/
def removeBadfilterRulesOld (rules : List NetRule) : List NetRule :=
  let badfilterRules := collectBadfilter rules
  if badfilterRules.length > 0 then
    badfilterRules.foldl (fun filtered b =>
      rules.foldl (fun filtered rule =>
        if !negatesBadfilterOld b rule && !rule.isEnabled Facts.OptionBadfilter then filtered ++ [rule]
        else filtered) filtered) []
  else rules

/-! ### $dnsrewrite rules are not basic rules -/

/-- `removeDNSRewriteRules`: the first loop looks for the first rule with a `DNSRewrite`
    (`findIdx?`); if there is none the original slice is returned, otherwise `rules[:i:i]` followed by
    the later rules without a rewrite (the capacity-limited reslice makes `append` copy, so the
    argument is not modified). -/
def removeDNSRewriteRules (rules : List NetRule) : List NetRule :=
  match rules.findIdx? (fun r => r.rewrite.isSome) with
  | none => rules
  | some i => rules.take i ++ (rules.drop i).foldl (fun filtered r =>
      if r.rewrite.isNone then filtered ++ [r] else filtered) []

/-! ### NewMatchingResult -/

/-- `isDocumentWhitelistRule`. -/
def isDocumentWhitelistRule (f : NetRule) : Bool :=
  f.whitelist && (f.isEnabled Facts.OptionUrlblock || f.isEnabled Facts.OptionGenericblock)

structure MatchingResult where
  basicRule : Option NetRule := none
  documentRule : Option NetRule := none
  stealthRule : Option NetRule := none
  cspRules : List NetRule := []
  cookieRules : List NetRule := []
  replaceRules : List NetRule := []
  deriving DecidableEq, Repr, Inhabited

/-- State of the first loop of `NewMatchingResult` (over the source rules). -/
structure SourceScan where
  documentRule : Option NetRule := none
  stealthRule : Option NetRule := none
  genericAllowed : Bool := true
  basicAllowed : Bool := true
  deriving DecidableEq, Repr, Inhabited

/-- One iteration of the first loop (repaired: the two flags come from EVERY document exception). -/
def sourceStep (s : SourceScan) (rule : NetRule) : SourceScan :=
  let s :=
    if isDocumentWhitelistRule rule then
      { s with
        documentRule := selectStep s.documentRule rule,
        basicAllowed := if rule.isEnabled Facts.OptionUrlblock then false else s.basicAllowed,
        genericAllowed := if rule.isEnabled Facts.OptionGenericblock then false else s.genericAllowed }
    else s
  if rule.isEnabled Facts.OptionStealth then { s with stealthRule := some rule } else s

/-- One iteration of the second loop: the `switch`. -/
def ruleStep (basicAllowed genericAllowed : Bool) (res : MatchingResult) (rule : NetRule) : MatchingResult :=
  if rule.isEnabled Facts.OptionCookie then { res with cookieRules := res.cookieRules ++ [rule] }
  else if rule.isEnabled Facts.OptionReplace then { res with replaceRules := res.replaceRules ++ [rule] }
  else if rule.isEnabled Facts.OptionCsp then { res with cspRules := res.cspRules ++ [rule] }
  else if rule.isEnabled Facts.OptionStealth then { res with stealthRule := some rule }
  else if !rule.whitelist && (!basicAllowed || (!genericAllowed && rule.isGeneric)) then res  -- `continue`
  else { res with basicRule := selectStep res.basicRule rule }

/-- `NewMatchingResult(rules, sourceRules)`. -/
def newMatchingResult (rules sourceRules : List NetRule) : MatchingResult :=
  let rules := removeDNSRewriteRules (removeBadfilterRules rules)
  let sourceRules := removeDNSRewriteRules (removeBadfilterRules sourceRules)
  let s := sourceRules.foldl sourceStep {}
  rules.foldl (ruleStep s.basicAllowed s.genericAllowed)
    { documentRule := s.documentRule, stealthRule := s.stealthRule }

/-- The pinned tree (D5): the flags were read off the single selected document rule. -/
def newMatchingResultOld (rules sourceRules : List NetRule) : MatchingResult :=
  let rules := removeDNSRewriteRules (removeBadfilterRules rules)
  let sourceRules := removeDNSRewriteRules (removeBadfilterRules sourceRules)
  let s := sourceRules.foldl (fun (s : SourceScan) rule =>
    let s := if isDocumentWhitelistRule rule then { s with documentRule := selectStep s.documentRule rule } else s
    if rule.isEnabled Facts.OptionStealth then { s with stealthRule := some rule } else s) {}
  let (basicAllowed, genericAllowed) :=
    match s.documentRule with
    | none => (true, true)
    | some d =>
      if d.isEnabled Facts.OptionUrlblock then (false, true)
      else if d.isEnabled Facts.OptionGenericblock then (true, false)
      else (true, true)
  rules.foldl (ruleStep basicAllowed genericAllowed)
    { documentRule := s.documentRule, stealthRule := s.stealthRule }

/-- `GetBasicResult`: `$replace` rules present ⇒ nil; no basic rule ⇒ the document rule. -/
def getBasicResult (m : MatchingResult) : Option NetRule :=
  if m.replaceRules.length != 0 then none
  else
    match m.basicRule with
    | none => m.documentRule
    | some b => some b

/-- The loop of `GetDNSBasicRule` (with its early `return nil`). -/
def dnsBasicLoop : List NetRule → Option NetRule → Option NetRule
  | [], basicRule => basicRule
  | rule :: rest, basicRule =>
    if rule.isEnabled Facts.OptionReplace then none
    else if rule.isEnabled Facts.OptionCookie || rule.isEnabled Facts.OptionCsp || rule.isEnabled Facts.OptionStealth then
      dnsBasicLoop rest basicRule
    else dnsBasicLoop rest (selectStep basicRule rule)

/-- `GetDNSBasicRule(rules)`. -/
def getDNSBasicRule (rules : List NetRule) : Option NetRule :=
  dnsBasicLoop (removeDNSRewriteRules (removeBadfilterRules rules)) none

/-- The verdict class of a basic result. -/
inductive VClass where
  | block | allow | none
  deriving DecidableEq, Repr, Inhabited

def VClass.toString : VClass → String
  | .block => "block" | .allow => "allow" | .none => "none"

def classOf : Option NetRule → VClass
  | none => .none
  | some r => if r.whitelist then .allow else .block

end UF

import UF.Model.Priority
/-
  Model of rules/match.go: `removeBadfilterRules`, `removeDNSRewriteRules`, `NewMatchingResult`,
  `GetBasicResult`, `GetDNSBasicRule`, and of `NetworkRule.negatesBadfilter` /
  `isDocumentWhitelistRule` (rules/network.go), in the repaired shapes (commits 3e20bcb, 2a4efdd).
  The `…Old` definitions keep the shapes of the pinned tree (defects D5, D7) and are used only by
  the negation examples in `UF/Props/C06.lean` and `UF/Props/C08.lean`.
-/
namespace UF

/-! ### $badfilter -/

/-- `f.negatesBadfilter(r)`: the `switch` lists the conditions under which the answer is `false`,
    in this order (all of them are pure, the order is kept for readability only).
    `slices.Equal` on string / uint16 slices is list equality; `reflect.DeepEqual` on the two
    `*DNSRewrite` is structural equality of `Option DnsRewrite` (nil = `none`; a nil `Params` map and an
    empty one differ, as in `RRVal.svcb`); `clients.Equal` is equality of `Option Clients`. -/
def negatesBadfilter (f r : NetRule) : Bool :=
  if !f.isEnabled Facts.OptionBadfilter
      || f.whitelist != r.whitelist
      || f.pattern != r.pattern
      || f.permTypes != r.permTypes
      || f.restrTypes != r.restrTypes
      || (f.enabled ^^^ Facts.OptionBadfilter) != r.enabled
      || f.disabled != r.disabled
      || f.permDomains != r.permDomains
      || f.restrDomains != r.restrDomains
      || f.denyallow != r.denyallow
      || f.permDns != r.permDns
      || f.restrDns != r.restrDns
      || f.rewrite != r.rewrite
      || f.permTags != r.permTags
      || f.restrTags != r.restrTags
      || f.permClients != r.permClients
      || f.restrClients != r.restrClients
  then false else true

/-- The pinned tree (D7): `$denyallow`, `$dnstype` and `$dnsrewrite` were not compared. -/
def negatesBadfilterOld (f r : NetRule) : Bool :=
  if !f.isEnabled Facts.OptionBadfilter
      || f.whitelist != r.whitelist
      || f.pattern != r.pattern
      || f.permTypes != r.permTypes
      || f.restrTypes != r.restrTypes
      || (f.enabled ^^^ Facts.OptionBadfilter) != r.enabled
      || f.disabled != r.disabled
      || f.permDomains != r.permDomains
      || f.restrDomains != r.restrDomains
      || f.permTags != r.permTags
      || f.restrTags != r.restrTags
      || f.permClients != r.permClients
      || f.restrClients != r.restrClients
  then false else true

/-- First loop of `removeBadfilterRules`: collect the badfilter rules in order. -/
def collectBadfilter (rules : List NetRule) : List NetRule :=
  rules.foldl (fun acc r => if r.isEnabled Facts.OptionBadfilter then acc ++ [r] else acc) []

/-- `removeBadfilterRules` (repaired): one pass over the rules; a rule is dropped if it is a
    badfilter rule or some collected badfilter rule negates it (inner loop with `break` = `any`). -/
def removeBadfilterRules (rules : List NetRule) : List NetRule :=
  let badfilterRules := collectBadfilter rules
  if badfilterRules.length > 0 then
    rules.foldl (fun filtered rule =>
      if rule.isEnabled Facts.OptionBadfilter then filtered
      else
        let negated := badfilterRules.any (fun b => negatesBadfilter b rule)
        if !negated then filtered ++ [rule] else filtered) []
  else rules

/-- The pinned tree (D7): the badfilter rules were the OUTER loop, so every survivor was appended
    once per badfilter rule and a rule negated by one of them was re-added by the others. -/
def removeBadfilterRulesOld (rules : List NetRule) : List NetRule :=
  let badfilterRules := collectBadfilter rules
  if badfilterRules.length > 0 then
    badfilterRules.foldl (fun filtered b =>
      rules.foldl (fun filtered rule =>
        if !negatesBadfilterOld b rule && !rule.isEnabled Facts.OptionBadfilter then filtered ++ [rule]
        else filtered) filtered) []
  else rules

end UF

import UF.Model.Match
/-
  Model of `rules/cosmetic.go` (`CosmeticRule.Match`) and `cosmeticengine.go` after the D9 repair:
  the lookup probes the hostname and every dot-suffix of it, rules with a wildcard-TLD domain live
  in a separate list, every candidate is re-`Match`ed and de-duplicated.
  Rule identity (Go pointer equality in `slices.Contains(found, rule)`) is the position of the
  rule in the scanned list.
-/
namespace UF.B
open UF UF.Bytes

/-- `CosmeticRule.Match`. -/
def cosMatches (ext : Ext) (r : CosRule) (host : Bytes) : Bool :=
  if r.permDomains.isEmpty && r.restrDomains.isEmpty then true
  else if decide (r.restrDomains.length > 0) && isDomainOrSubdomainOfAny ext host r.restrDomains then false
  else if decide (r.permDomains.length > 0) && !isDomainOrSubdomainOfAny ext host r.permDomains then false
  else true

def cosIsGeneric (r : CosRule) : Bool := r.permDomains.isEmpty

/-- Go `map[string][]*CosmeticRule`, newest binding first. -/
abbrev SMap (α : Type) := List (Bytes × α)

def sget {α} (d : α) : SMap α → Bytes → α
  | [], _ => d
  | (k', v) :: t, k => if k = k' then v else sget d t k

def sset {α} (m : SMap α) (k : Bytes) (v : α) : SMap α := (k, v) :: m

structure CosTable where
  byHostname : SMap (List (Nat × CosRule)) := []
  whitelist : SMap (List CosRule) := []
  generic : List CosRule := []
  wildcard : List (Nat × CosRule) := []

/-- `cosmeticLookupTable.addRule`; `n` is the identity of the rule object. -/
def CosTable.addRule (t : CosTable) (n : Nat) (r : CosRule) : CosTable :=
  if r.whitelist then { t with whitelist := sset t.whitelist r.content (sget [] t.whitelist r.content ++ [r]) }
  else if cosIsGeneric r then { t with generic := t.generic ++ [r] }
  else if r.permDomains.any (fun d => hasSuffix d (lit ".*")) then { t with wildcard := t.wildcard ++ [(n, r)] }
  else { t with byHostname := r.permDomains.foldl (fun m d => sset m d (sget [] m d ++ [(n, r)])) t.byHostname }

/-- `NewCosmeticEngine`: all (element-hiding) cosmetic rules in storage order. -/
def CosTable.build (L : List CosRule) : CosTable :=
  L.zipIdx.foldl (fun t p => t.addRule p.2 p.1) {}

/-- `isWhitelisted`. -/
def CosTable.isWhitelisted (ext : Ext) (t : CosTable) (host : Bytes) (r : CosRule) : Bool :=
  (sget [] t.whitelist r.content).any (fun e => cosMatches ext e host)

/-- The closure `add` of `findByHostname`. -/
def CosTable.addFound (ext : Ext) (t : CosTable) (host : Bytes)
    (found cands : List (Nat × CosRule)) : List (Nat × CosRule) :=
  cands.foldl (fun found c =>
    if found.any (·.1 == c.1) || !cosMatches ext c.2 host || t.isWhitelisted ext host c.2 then found
    else found ++ [c]) found

/-- The suffixes visited after the first probe: what `strings.Cut(domain, ".")` leaves, until it is empty. -/
def probesAux : Bytes → List Bytes
  | [] => []
  | c :: t => if c == ch '.' then (if t.isEmpty then [] else t :: probesAux t) else probesAux t

/-- `for domain := hostname; domain != ""; { …; _, domain, _ = strings.Cut(domain, ".") }`. -/
def probes (host : Bytes) : List Bytes := if host.isEmpty then [] else host :: probesAux host

/-- `findByHostname`. -/
def CosTable.findByHostname (ext : Ext) (t : CosTable) (host : Bytes) : List (Nat × CosRule) :=
  t.addFound ext host
    ((probes host).foldl (fun found d => t.addFound ext host found (sget [] t.byHostname d)) [])
    t.wildcard

/-- `CosmeticEngine.Match` restricted to the element-hiding result: `(Generic, Specific)`.
    (`includeJS` is not read by the Go function; extended-CSS and other rule types are rejected by
    `NewCosmeticRule` on this tree.) -/
def CosTable.matchHost (ext : Ext) (t : CosTable) (host : Bytes)
    (includeCSS _includeJS includeGenericCSS : Bool) : List Bytes × List Bytes :=
  if includeCSS then
    let gen := if includeGenericCSS then
        t.generic.filter (fun r => !t.isWhitelisted ext host r && cosMatches ext r host) else []
    let all := gen ++ (t.findByHostname ext host).map (·.2)
    ((all.filter (fun r => cosIsGeneric r)).map (·.content), (all.filter (fun r => !cosIsGeneric r)).map (·.content))
  else ([], [])

end UF.B

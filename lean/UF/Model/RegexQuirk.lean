import UF.Model.Regex
/-
  Group P3 (REVIEW2 F3): a model of the one place where Go's `regexp/syntax` (go1.23) does NOT compile
  the textbook semantics of the expression it is given.

  THE QUIRK.  `parser.factor` (parse.go) simplifies every alternation in four rounds.  Round 2 factors a
  common leading sub-expression out of a run of ADJACENT alternatives when `first.Equal(ifirst)` and
  `first` is a one-rune literal, a character class, or a fixed repeat `{n}` of one; the prefix kept is
  the node of the FIRST alternative of the run.  `Regexp.Equal` (regexp.go) compares the RUNES of two
  literals and not their `FoldCase` flag.  `parser.push` rewrites a class of the two cases of a letter
  (`[aA]`; not k, s, whose fold orbits have a third member) into the one-rune literal `A` WITH the flag,
  so that in a case-sensitive context

      A.|[aA]      is compiled as   A(?:.|(?:))         ("a" is NOT matched; the language shrinks)
      [aA]b|A.     is compiled as   (?i:A)(?:b|.)       ("ax" IS matched; the language grows)

  EXACT CHARACTERISATION.  Go's tree differs from the textbook reading of the text iff, for some
  alternation list as `factor` sees it — i.e. after (1) the hoisting of nested non-capturing alternations
  (`collapse`), (2) the merging of adjacent one-character alternatives into a class (`swapVerticalBar`),
  (3) round 1, which extracts common leading literal STRINGS of alternatives with EQUAL flags, and
  recursively for the alternation of the suffixes that rounds 1 and 2 build — a run of adjacent members
  has leading one-rune literals (or fixed repeats `{n}` of one, same `n`, same greediness) with the same
  rune `X` and different fold flags.  Every member of the run then gets the flag of the first.  In ASCII
  `X` is an upper-case letter other than K and S; the case-sensitive literal comes from `X`, `[X]`, `\x58`;
  the folded one from `[xX]` (any spelling of that class), `(?i:x)`, or a non-capturing `(?:x|X)`.
  Lower-case `x` is never affected (`(?i:x)` stores the rune `X`).  Everything else `factor` does
  preserves the language; with a leading `(?i)` every literal has the flag and nothing diverges.
  Round 1 matters: `Ab|Ac|[aA]d` is `A[b-d]` (the string prefix `A` of the first two joins the run),
  but `Ab|[aA]d` is untouched (the leading literal `Ab` has two runes).  So does grouping:
  `X(?:A.)|[xX]y` is `X(?:A.|y)`, `XA.|[xX]y` is untouched.

  THE MODEL.  `simFrame` replays what the parser does with one alternation (one frame: the top level
  or the inside of a capture group) — `maybeConcat` (adjacent literals with the same flag are one
  string), the merge of adjacent one-character branches in `swapVerticalBar`, the four rounds of
  `factor` with the recursion on the factored suffixes — on a copy `G` of Go's node type in which every
  literal rune remembers the LEAVES of the written expression merged into it.  The result is read
  back as a table `leaf ↦ final fold flag`, and `applyFlags` rewrites the flags of the leaves of the
  textbook tree accordingly (a class `[aA]` that ended in a case-sensitive literal becomes the literal
  `A`).  The rewritten tree has the shape of the written one (`FoldRel`, UF/Compose2) and the language
  of Go's tree.  The same replay yields the literals `requiredRegexpLiterals` collects (`quirkReq`).

  DOMAIN.  Expressions without non-capturing groups `(?:…)` and without non-greedy counted
  repetitions `{n}?` (the textbook tree does not determine Go's grouping for them: `X(?:A.)` and `XA.`
  are the same tree; `Equal` compares greediness, which the tree does not record; `(?i:…)` is outside the
  parser's subset anyway).  `goTree` (UF/Model/RegexParse.lean) answers `none` for them when — and only
  when — the expression contains a source of case-folded literals (`hazard`).
  Validated against the real engine by the families `re.quirk` / `i2.quirk` (harness/op_quirk.go), the
  quirk shapes mixed into `re`, `i2.pat`, `i2.match`, `i2.textmatch`, `i2.reshortcut`, and an exhaustive
  run (every alternation of two branches of ≤ 3 atoms / three branches of ≤ 2 atoms over
  `A a [aA] . b B [bB]`, and of two branches of ≤ 2 atoms over these and `[A] A{2} [aA]{2} (A) A*`, inside
  `^(…)$`, against every subject of ≤ 3 letters over `aAbB`: 31.4 M lines, no disagreement).
-/
namespace UF.Re

/-- The bytes a class matches, case-sensitively (ascending). -/
def clsBytes (neg : Bool) (rs : List (UInt8 × UInt8)) : List Nat :=
  (List.range 256).filter fun n => clsMatch neg rs false n.toUInt8

/-- `parser.push`: a class of one character is the literal; a class `{X, x}` of the two cases of a
    letter (other than `k`, `s`, whose fold orbits are longer) is the case-folded literal `X`. -/
def clsLit? (neg : Bool) (rs : List (UInt8 × UInt8)) : Option (UInt8 × Bool) :=
  match clsBytes neg rs with
  | [c] => some (c.toUInt8, false)
  | [a, b] =>
    if 65 ≤ a && a ≤ 90 && b == a + 32 && a != 75 && a != 83 then some (a.toUInt8, true) else none
  | _ => none

/-- Number of literal / class leaves (they are numbered left to right). -/
def leafCount : Re → Nat
  | .lit _ _ => 1
  | .cls _ _ _ => 1
  | .cat a b => a.leafCount + b.leafCount
  | .alt a b => a.leafCount + b.leafCount
  | .star a => a.leafCount
  | .plus a => a.leafCount
  | .quest a => a.leafCount
  | .rep a _ _ => a.leafCount
  | .grp a => a.leafCount
  | _ => 0

/-- leaf number ↦ the fold flag of the literal the leaf ended in -/
abbrev FlagMap := List (Nat × Bool)

/-- Rewrite one leaf. A leaf without an entry, or whose entry is its own flag, is unchanged. -/
def fixLeaf (m : FlagMap) (id : Nat) : Re → Re
  | .lit bs f =>
    match m.lookup id with
    | some fl => .lit bs fl
    | none => .lit bs f
  | .cls neg rs f =>
    match m.lookup id, clsLit? neg rs with
    | some fl, some (c, f0) => if fl == f0 then .cls neg rs f else .lit [c] fl
    | _, _ => .cls neg rs f
  | r => r

/-- Rewrite the leaves of `r` (numbered from `off`) as the table says. -/
def applyFlags (m : FlagMap) : Re → Nat → Re
  | .lit bs f, off => fixLeaf m off (.lit bs f)
  | .cls neg rs f, off => fixLeaf m off (.cls neg rs f)
  | .cat a b, off => .cat (applyFlags m a off) (applyFlags m b (off + a.leafCount))
  | .alt a b, off => .alt (applyFlags m a off) (applyFlags m b (off + a.leafCount))
  | .star a, off => .star (applyFlags m a off)
  | .plus a, off => .plus (applyFlags m a off)
  | .quest a, off => .quest (applyFlags m a off)
  | .rep a mn mx, off => .rep (applyFlags m a off) mn mx
  | .grp a, off => .grp (applyFlags m a off)
  | r, _ => r

/-! ### Where case-folded literals can come from -/

/-- A class leaf that `parser.push` turns into a case-folded literal. -/
def hasTwoCase : Re → Bool
  | .cls neg rs f => !f && (match clsLit? neg rs with | some (_, true) => true | _ => false)
  | .cat a b => a.hasTwoCase || b.hasTwoCase
  | .alt a b => a.hasTwoCase || b.hasTwoCase
  | .star a => a.hasTwoCase
  | .plus a => a.hasTwoCase
  | .quest a => a.hasTwoCase
  | .rep a _ _ => a.hasTwoCase
  | .grp a => a.hasTwoCase
  | _ => false

/-- The characters of a one-character leaf. -/
def leafSet? : Re → Option (List Nat)
  | .lit [c] false => some [c.toNat]
  | .cls neg rs false => some (clsBytes neg rs)
  | _ => none

/-- The right spine of an alternation. -/
def branchesOf : Re → List Re
  | .alt a b => a :: branchesOf b
  | r => [r]

def unionSets (a b : List Nat) : List Nat := (List.range 256).filter fun n => a.contains n || b.contains n

def isTwoCaseSet : List Nat → Bool
  | [a, b] => 65 ≤ a && a ≤ 90 && b == a + 32 && a != 75 && a != 83
  | _ => false

/-- An alternation all of whose branches are single characters / classes that together are the two
    cases of a letter: `alternate()` leaves ONE class, which `push` turns into a case-folded literal. -/
def caseAltAt (r : Re) : Bool :=
  match (branchesOf r).mapM leafSet? with
  | some sets => isTwoCaseSet (sets.foldl unionSets [])
  | none => false

def hasCaseAlt : Re → Bool
  | .alt a b => caseAltAt (.alt a b) || a.hasCaseAlt || b.hasCaseAlt
  | .cat a b => a.hasCaseAlt || b.hasCaseAlt
  | .star a => a.hasCaseAlt
  | .plus a => a.hasCaseAlt
  | .quest a => a.hasCaseAlt
  | .rep a _ _ => a.hasCaseAlt
  | .grp a => a.hasCaseAlt
  | _ => false

/-- Can Go's tree of the (case-sensitive) expression contain a case-folded literal at all?  If not,
    every literal has the same flag, `Equal` is equality, and `factor` preserves the language. -/
def hazard (r : Re) : Bool := r.hasTwoCase || r.hasCaseAlt

namespace Q

/-- A rune of a literal together with the leaves merged into it. -/
abbrev QChar := UInt8 × List Nat

/-- The part of `syntax.Regexp` the simulation needs. `opq req`: a node `factor` never looks into
    (assertions, `* + ?`, open repeats, capture groups) together with the literals
    `appendRequiredLiterals` (rules/network.go) collects from it; `rep`: `OpRepeat` with `Min = Max`. -/
inductive G where
  | lit (cs : List QChar) (fold : Bool)
  | cls (set : List Nat)
  | any
  | anyNL
  | empty
  | opq (req : List Bytes)
  | rep (n : Nat) (sub : G)
  | cat (subs : List G)
  | alt (subs : List G)
  deriving Inhabited

/-- `isCharClass` -/
def isCC : G → Bool
  | .lit [_] _ => true
  | .cls _ => true
  | .any => true
  | .anyNL => true
  | _ => false

def isEmptyG : G → Bool
  | .empty => true
  | _ => false

/-- `maybeConcat`: adjacent literals with the same fold flag are one literal. -/
def mergeLits : List G → List G
  | .lit a fa :: rest =>
    match mergeLits rest with
    | .lit b fb :: rest' => if fa == fb then .lit (a ++ b) fa :: rest' else .lit a fa :: .lit b fb :: rest'
    | rest' => .lit a fa :: rest'
  | x :: rest => x :: mergeLits rest
  | [] => []

/-- `concat()`: the node of a branch. -/
def branchNode : List G → G
  | [] => .empty
  | [x] => x
  | l => .cat l

def allButNL : List Nat := (List.range 256).filter (· != 10)

/-- The characters of an `isCharClass` node. -/
def setOf : G → List Nat
  | .lit [(c, _)] f =>
    if f then unionSets [(Bytes.upperByte c).toNat] [(Bytes.lowerByte c).toNat] else [c.toNat]
  | .cls s => s
  | .any => allButNL
  | .anyNL => List.range 256
  | _ => []

/-- `cleanAlt` -/
def normCls (s : List Nat) : G :=
  if s.length == 256 then .anyNL else if s == allButNL then .any else .cls s

def cleanAlt : G → G
  | .cls s => normCls s
  | g => g

/-- `mergeCharClass`: the same literal twice stays that literal; anything else is the union. -/
def mergeCC (a b : G) : G :=
  match a, b with
  | .lit [(c, i)] f, .lit [(d, j)] g =>
    if c == d && f == g then .lit [(c, i ++ j)] f else normCls (unionSets (setOf a) (setOf b))
  | _, _ => normCls (unionSets (setOf a) (setOf b))

/-- `swapVerticalBar`: a finished branch that is one character is merged into the branch before it
    if that is one too. -/
def prepass : List G → List G → List G
  | acc, [] => acc.reverse
  | [], b :: rest => prepass [cleanAlt b] rest
  | a :: acc, b :: rest =>
    if isCC a && isCC b then prepass (mergeCC a b :: acc) rest else prepass (cleanAlt b :: a :: acc) rest

/-- `leadingString` -/
def leadingString : G → List QChar × Bool
  | .cat (.lit cs f :: _) => (cs, f)
  | .lit cs f => (cs, f)
  | _ => ([], false)

def dropLit (n : Nat) : G → G
  | .lit cs f => if (cs.drop n).isEmpty then .empty else .lit (cs.drop n) f
  | g => g

/-- `removeLeadingString` -/
def removeLeadingString (n : Nat) : G → G
  | .cat (s :: rest) =>
    match dropLit n s with
    | .empty =>
      match rest with
      | [] => .empty
      | [x] => x
      | _ => .cat rest
    | s' => .cat (s' :: rest)
  | g => dropLit n g

/-- `leadingRegexp` -/
def leadingRegexp : G → Option G
  | .empty => none
  | .cat (.empty :: _) => none
  | .cat (s :: _) => some s
  | g => some g

/-- `removeLeadingRegexp` -/
def removeLeadingRegexp : G → G
  | .cat (_ :: rest) =>
    match rest with
    | [] => .empty
    | [x] => x
    | _ => .cat rest
  | _ => .empty

/-- The common prefix of two rune strings; the leaves of both are kept. -/
def commonPrefixQ : List QChar → List QChar → List QChar
  | (a, i) :: s, (b, j) :: t => if a == b then (a, i ++ j) :: commonPrefixQ s t else []
  | _, _ => []

/-- `Regexp.Equal` on one-character nodes: the runes of two literals are compared, NOT their flags. -/
def ccEqual : G → G → Bool
  | .lit [(c, _)] _, .lit [(d, _)] _ => c == d
  | .cls a, .cls b => a == b
  | .any, .any => true
  | .anyNL, .anyNL => true
  | _, _ => false

/-- The condition of round 2: `first.Equal(ifirst)` and `first` is a character class or a fixed
    repeat of one. -/
def r2Equal : G → G → Bool
  | .rep n a, .rep m b => n == m && isCC a && ccEqual a b
  | a, b => isCC a && ccEqual a b

/-- The prefix node of a round-2 run is the node of the FIRST member (its flag survives); the leaves
    of the others now live in it. -/
def absorb : G → G → G
  | .lit [(c, i)] f, .lit [(_, j)] _ => .lit [(c, i ++ j)] f
  | .rep n a, .rep _ b => .rep n (absorb a b)
  | a, _ => a

def flattenAlts : List G → List G
  | .alt l :: rest => l ++ flattenAlts rest
  | g :: rest => g :: flattenAlts rest
  | [] => []

/-- A finished run of round 1. -/
def close1 (rec : List G → G) (str : List QChar) (fold : Bool) : List G → List G
  | [] => []
  | [m] => [m]
  | ms => [.cat [.lit str fold, rec (ms.map (removeLeadingString str.length))]]

/-- Round 1: runs of adjacent members whose leading literals (same flag) share a non-empty prefix. -/
def round1 (rec : List G → G) : List QChar → Bool → List G → List G → List G
  | str, fold, members, [] => close1 rec str fold members
  | str, fold, members, g :: rest =>
    if (leadingString g).2 == fold && !(commonPrefixQ str (leadingString g).1).isEmpty then
      round1 rec (commonPrefixQ str (leadingString g).1) fold (members ++ [g]) rest
    else close1 rec str fold members ++ round1 rec (leadingString g).1 (leadingString g).2 [g] rest

/-- A finished run of round 2. -/
def close2 (rec : List G → G) (first : Option G) : List G → List G
  | [] => []
  | [m] => [m]
  | ms =>
    match first with
    | some f => [.cat [f, rec (ms.map removeLeadingRegexp)]]
    | none => ms

/-- Round 2: runs of adjacent members with `Equal` leading one-character expressions. -/
def round2 (rec : List G → G) : Option G → List G → List G → List G
  | first, members, [] => close2 rec first members
  | first, members, g :: rest =>
    match first, leadingRegexp g with
    | some f, some i =>
      if r2Equal f i then round2 rec (some (absorb f i)) (members ++ [g]) rest
      else close2 rec first members ++ round2 rec (some i) [g] rest
    | _, i => close2 rec first members ++ round2 rec i [g] rest

/-- Round 3: runs of one-character nodes become one class. -/
def round3 : List G → List G
  | [] => []
  | a :: rest =>
    match round3 rest with
    | b :: r' => if isCC a && isCC b then mergeCC a b :: r' else a :: b :: r'
    | [] => [a]

/-- Round 4: runs of empty matches become one. -/
def round4 : List G → List G
  | [] => []
  | a :: rest =>
    match round4 rest with
    | b :: r' => if isEmptyG a && isEmptyG b then b :: r' else a :: b :: r'
    | [] => [a]

/-- `parser.factor` -/
def factorWith (rec : List G → G) (subs : List G) : List G :=
  if subs.length < 2 then subs
  else round4 (round3 (round2 rec none [] (round1 rec [] false [] subs)))

/-- `collapse(subs, OpAlternate)` -/
def collapseAlt : Nat → List G → G
  | 0, subs => .alt subs
  | fuel + 1, subs =>
    match subs with
    | [x] => x
    | _ =>
      match factorWith (collapseAlt fuel) (flattenAlts subs) with
      | [x] => x
      | out => .alt out

/-- The table of the literals of the final tree. -/
def readFlags : Nat → G → FlagMap
  | 0, _ => []
  | fuel + 1, g =>
    match g with
    | .lit cs f => cs.flatMap fun c => c.2.map fun id => (id, f)
    | .rep _ s => readFlags fuel s
    | .cat l => l.flatMap (readFlags fuel)
    | .alt l => l.flatMap (readFlags fuel)
    | _ => []

/-- A one-character leaf as Go's parser pushes it. -/
def leafG (id : Nat) : Re → Option G
  | .lit [c] false => some (.lit [(c, [id])] false)
  | .cls neg rs false =>
    match clsLit? neg rs with
    | some (c, f) => some (.lit [(c, [id])] f)
    | none => some (.cls (clsBytes neg rs))
  | .any => some .any
  | .anyNL => some .anyNL
  | _ => none

/-- `appendRequiredLiterals` (rules/network.go) on the simulated tree. -/
def reqG : Nat → G → List Bytes
  | 0, _ => []
  | fuel + 1, g =>
    match g with
    | .lit cs _ => [Bytes.toLower (cs.map (·.1))]
    | .opq req => req
    | .rep n s => if n > 0 then reqG fuel s else []
    | .cat l => l.flatMap (reqG fuel)
    | _ => []

/-- `parser.push` of the result of `alternate()`: a class of one character, or of the two cases of a
    letter, becomes a literal. -/
def pushG : G → G
  | .cls s =>
    match s with
    | [c] => .lit [(c.toUInt8, [])] false
    | [a, b] => if isTwoCaseSet [a, b] then .lit [(a.toUInt8, [])] true else .cls s
    | _ => .cls s
  | g => g

/-- The atoms of a branch (`mkCat`): the right spine of the concatenation. -/
def atomsOf : Re → List Re
  | .cat a b => a :: atomsOf b
  | .empty => []
  | r => [r]

/-- Pair every expression of the list with the number of its first leaf. -/
def withOffsets : List Re → Nat → List (Re × Nat)
  | [], _ => []
  | a :: rest, off => (a, off) :: withOffsets rest (off + a.leafCount)

def size : Re → Nat
  | .cat a b => size a + size b + 1
  | .alt a b => size a + size b + 1
  | .star a => size a + 1
  | .plus a => size a + 1
  | .quest a => size a + 1
  | .rep a _ _ => size a + 1
  | .grp a => size a + 1
  | _ => 1

def mapMOpt {α β : Type} (f : α → Option β) : List α → Option (List β)
  | [] => some []
  | a :: rest =>
    match f a, mapMOpt f rest with
    | some b, some bs => some (b :: bs)
    | _, _ => none

/-- The result of simulating a frame: the flags of its literals and what it requires. -/
abbrev FrameOut := FlagMap × List Bytes

/-- An atom of a concatenation as Go's parser pushes it (`id`: the number of its first leaf), with
    the flag table of the capture groups inside it.  `frame` simulates a capture group.
    `none`: a concatenation / alternation / empty match in atom position — a non-capturing group. -/
def atomSim (frame : Re → Nat → Option FrameOut) (fuelG : Nat) (id : Nat) : Re → Option (G × FlagMap)
  | .cat _ _ => none
  | .alt _ _ => none
  | .empty => none
  | .grp x => (frame x id).map fun (m, req) => (.opq req, m)
  | .plus x => (atomSim frame fuelG id x).map fun (g, m) => (.opq (reqG fuelG g), m)
  | .star x => (atomSim frame fuelG id x).map fun (_, m) => (.opq [], m)
  | .quest x => (atomSim frame fuelG id x).map fun (_, m) => (.opq [], m)
  | .rep x mn mx =>
    match leafG id x with
    | some g => if mx == some mn && isCC g then some (.rep mn g, []) else some (.opq (if mn > 0 then reqG fuelG g else []), [])
    | none => (atomSim frame fuelG id x).map fun (g, m) => (.opq (if mn > 0 then reqG fuelG g else []), m)
  | a =>
    match leafG id a with
    | some g => some (g, [])
    | none => some (.opq [], [])

/-- One frame (the top level, or the inside of a capture group) and, recursively, the frames inside
    it.  `none`: the tree shows a non-capturing group. -/
def simFrame : Nat → Re → Nat → Option FrameOut
  | 0, _, _ => none
  | fuel + 1, r, off =>
    let fuelG := 4 * size r + 16
    let branches := (withOffsets (branchesOf r) off).map fun (b, o) => withOffsets (atomsOf b) o
    match mapMOpt (fun atoms => mapMOpt (fun (a, o) => atomSim (simFrame fuel) fuelG o a) atoms) branches with
    | none => none
    | some sims =>
      let nodes := sims.map fun atoms => branchNode (mergeLits (atoms.map (·.1)))
      let top := collapseAlt fuelG (prepass [] nodes)
      let inner := (sims.map fun atoms => (atoms.map (·.2)).flatten).flatten
      some (readFlags fuelG top ++ inner, reqG fuelG (pushG top))

end Q

/-- Go's tree of the case-sensitive expression `r`, in the shape of `r`. -/
def quirkTree (r : Re) : Option Re :=
  (Q.simFrame (Q.size r + 1) r 0).map fun out => applyFlags out.1 r 0

/-- The literals `requiredRegexpLiterals` collects from Go's tree of the case-sensitive expression
    `r` (`none`: the tree shows a non-capturing group). -/
def quirkReq (r : Re) : Option (List Bytes) :=
  (Q.simFrame (Q.size r + 1) r 0).map fun out => out.2

end UF.Re

import UF.Model.Hash
import UF.Model.Rule
import UF.Model.Match
/-
  Model of `lookup/shortcutstable.go`, `lookup/domainstable.go`, `lookup/seqscantable.go`.
  Go maps `map[uint32][]int64` are association lists read through `hget` (absent key = empty slice:
  every stored slice is non-empty, so `!ok → continue` and iterating an empty slice coincide).
  Rules are retrieved from the storage through an abstract `retrieve : Idx → Option NetRule`
  (`RetrieveNetworkRule`, `none` = nil); pointer equality of retrieved rules (`ruleIn`) is equality
  of storage indexes, because the storage caches by index.
  `matchAllG` functions are generic in the match predicate `m` (instantiated with
  `fun r => r.matches ext q`), the lower-cased URL and the source hostname.
-/
namespace UF.B
open UF UF.Bytes

/-- Storage index (Go `int64`). -/
abbrev Idx := Int

/-- A Go `map[uint32]α` (newest binding first; `hget` returns the newest). -/
abbrev HMap (α : Type) := List (UInt32 × α)

/-- `m[k]` with the zero value `d` for an absent key. -/
def hget {α} (d : α) : HMap α → UInt32 → α
  | [], _ => d
  | (k', v) :: t, k => if k = k' then v else hget d t k

/-- Map update `m[k] = v`. -/
def hset {α} (m : HMap α) (k : UInt32) (v : α) : HMap α := (k, v) :: m

/-- `m[k] = append(m[k], idx)`. -/
def pushIdx (m : HMap (List Idx)) (k : UInt32) (idx : Idx) : HMap (List Idx) :=
  hset m k (hget [] m k ++ [idx])

/-- The slices `s[i:i+k]` for `i := 0; i <= len(s)-k; i++` (signed arithmetic: no iteration when
    `len(s) < k`). -/
def windows (k : Nat) (s : Bytes) : List Bytes :=
  (List.range (s.length + 1 - k)).map fun i => (s.drop i).take k

/-- `isAnyURLShortcut`. -/
def isAnyURLShortcut (sc : Bytes) : Bool :=
  let n := sc.length
  (decide (n < (lit "ws://").length + 1) && hasPrefix sc (lit "ws:")) ||
  (decide (n < (lit "wss://").length + 1) && hasPrefix sc (lit "wss:")) ||
  (decide (n < (lit "|wss://").length + 1) && hasPrefix sc (lit "|ws")) ||
  (decide (n < (lit "https://").length + 1) && hasPrefix sc (lit "http")) ||
  (decide (n < (lit "|https://").length + 1) && hasPrefix sc (lit "|http"))

/-- `getRuleShortcuts`. -/
def ruleShortcuts (k : Nat) (r : NetRule) : List Bytes :=
  if r.shortcut.length < k then []
  else if isAnyURLShortcut r.shortcut then []
  else windows k r.shortcut

structure ShortcutsTable where
  lookup : HMap (List Idx) := []
  hist : HMap Nat := []

/-- `math.MaxInt32`. -/
def maxInt32 : Nat := 2147483647

/-- The selection loop of `ShortcutsTable.TryAdd`: `(shortcutHash, minCount)` after the loop
    (first strictly smaller count wins, i.e. the FIRST least-used window). -/
def pickShortcut (h : Bytes → UInt32) (hist : HMap Nat) (scs : List Bytes) : UInt32 × Nat :=
  scs.foldl (fun acc sc => if hget 0 hist (h sc) < acc.2 then (h sc, hget 0 hist (h sc)) else acc) (0, maxInt32)

/-- `ShortcutsTable.TryAdd` (`none` = returns false). -/
def ShortcutsTable.tryAdd (hf : HashFns) (k : Nat) (t : ShortcutsTable) (r : NetRule) (idx : Idx) :
    Option ShortcutsTable :=
  let scs := ruleShortcuts k r
  if scs.isEmpty then none
  else
    let p := pickShortcut hf.h t.hist scs
    some { hist := hset t.hist p.1 (p.2 + 1), lookup := pushIdx t.lookup p.1 idx }

/-- `ruleIn` (pointer equality = same storage index). -/
def ruleIn (idx : Idx) (res : List (Idx × NetRule)) : Bool := res.any (·.1 == idx)

/-- Body of the inner loop of `ShortcutsTable.MatchAll`. -/
def scStep (retrieve : Idx → Option NetRule) (m : NetRule → Bool)
    (res : List (Idx × NetRule)) (idx : Idx) : List (Idx × NetRule) :=
  match retrieve idx with
  | none => res
  | some r => if ruleIn idx res || !m r then res else res ++ [(idx, r)]

/-- `ShortcutsTable.MatchAll`: every window `0 ≤ i ≤ len-k` of the lower-cased URL. -/
def ShortcutsTable.matchAllG (hf : HashFns) (k : Nat) (retrieve : Idx → Option NetRule)
    (m : NetRule → Bool) (url : Bytes) (t : ShortcutsTable) : List (Idx × NetRule) :=
  (List.range (url.length + 1 - k)).foldl
    (fun res i => (hget [] t.lookup (hf.hb url i (i + k))).foldl (scStep retrieve m) res) []

structure DomainsTable where
  lookup : HMap (List Idx) := []

/-- `DomainsTable.TryAdd` (after the D1 repair: a rule with a wildcard-TLD domain is refused). -/
def DomainsTable.tryAdd (hf : HashFns) (t : DomainsTable) (r : NetRule) (idx : Idx) :
    Option DomainsTable :=
  if r.permDomains.isEmpty then none
  else if r.permDomains.any (fun d => hasSuffix d (lit ".*")) then none
  else some ⟨r.permDomains.foldl (fun lk d => pushIdx lk (hf.h d) idx) t.lookup⟩

/-- `DomainsTable.TryAdd` BEFORE the D1 repair (kept only for the negation witness in Props/C01):
    a wildcard-TLD domain is filed under its literal text. -/
def DomainsTable.tryAddOld (hf : HashFns) (t : DomainsTable) (r : NetRule) (idx : Idx) :
    Option DomainsTable :=
  if r.permDomains.isEmpty then none
  else some ⟨r.permDomains.foldl (fun lk d => pushIdx lk (hf.h d) idx) t.lookup⟩

/-- One step of the loop of `getSubdomains` (Go walks `parts` from the last to the first). -/
def subdomainStep (p : Bytes) (acc : Bytes × List Bytes) : Bytes × List Bytes :=
  let d := if acc.1.isEmpty then p else p ++ ch '.' :: acc.1
  (d, acc.2 ++ [d])

/-- `getSubdomains`. -/
def getSubdomains (host : Bytes) : List Bytes :=
  ((splitByte host (ch '.')).foldr subdomainStep ([], [])).2

/-- Retrieval + re-`Match` of one index (`rule != nil && rule.Match(r)`). -/
def retrieveMatching (retrieve : Idx → Option NetRule) (m : NetRule → Bool) (idx : Idx) : Option NetRule :=
  match retrieve idx with
  | some r => if m r then some r else none
  | none => none

/-- `DomainsTable.MatchAll`. -/
def DomainsTable.matchAllG (hf : HashFns) (retrieve : Idx → Option NetRule) (m : NetRule → Bool)
    (srcHost : Bytes) (t : DomainsTable) : List NetRule :=
  if srcHost.isEmpty then []
  else (getSubdomains srcHost).flatMap fun d => (hget [] t.lookup (hf.h d)).filterMap (retrieveMatching retrieve m)

/-- `containsRule` of the sequential table: same rule text. -/
def containsRule (rs : List NetRule) (r : NetRule) : Bool := rs.any (·.text == r.text)

end UF.B

import UF.Model.DomainName
import UF.Model.Match
/-
  Model of the modifier parsers (rules/rule.go `loadDomains`, `loadDNSTypes`, `strToRRType`,
  `loadCTags`, `loadClients`; rules/clients.go `add`, `finalize`) and of
  `NetworkRule.loadOptions` / `loadOption` / `setOptionEnabled` and `NewNetworkRule`
  (rules/network.go), in the shape of the Go code, slices and indexes checked.

  External functions are parameters: `ext.parseAddr`, `ext.parsePrefix` (net/netip), the
  `$dnsrewrite` value parser (`loadDNSRewrite`, modelled by group H) and `findRegexpShortcut`
  (group A).
-/
namespace UF.E
open Bytes

/-! ### loadDomains -/

/-- The loop body of `loadDomains` for one element of `strings.Split(domains, sep)`. -/
def loadDomainsStep (acc : List Bytes × List Bytes) (d : Bytes) : PE (List Bytes × List Bytes) := do
  let (restricted, d) ←
    if hasPrefix d (lit "~") then do
      let d' ← sliceC d 1 d.length
      pure (true, d')
    else pure (false, d)
  let isName ← isDomainNameC d
  if !isName && !hasSuffix d (lit ".*") then throw .err
  else if restricted then pure (acc.1, acc.2 ++ [d])
  else pure (acc.1 ++ [d], acc.2)

/-- `loadDomains domains sep` (a one-byte separator: `|` for network rules, `,` for cosmetic rules):
    (permitted, restricted). -/
def loadDomains (domains : Bytes) (sep : UInt8) : PE (List Bytes × List Bytes) :=
  if domains.isEmpty then throw .err
  else (splitByte domains sep).foldlM loadDomainsStep ([], [])

/-! ### loadDNSTypes -/

/-- What `strings.ToUpper` does as far as a lookup in a table with ASCII keys can see: ASCII letters
    are upper-cased and the only two non-ASCII runes whose upper case is ASCII are mapped
    (U+017F `ſ` ↦ `S`, U+0131 `ı` ↦ `I`); every other non-ASCII byte stays non-ASCII.  The same
    key decides `strings.EqualFold(s, "none")` / `(s, "reserved")`. -/
def upperKey : Bytes → Bytes
  | 0xC5 :: 0xBF :: t => ch 'S' :: upperKey t
  | 0xC4 :: 0xB1 :: t => ch 'I' :: upperKey t
  | c :: t => upperByte c :: upperKey t
  | [] => []

def lookupNat (tbl : List (Bytes × Nat)) (k : Bytes) : Option Nat :=
  match tbl.find? (fun e => e.1 == k) with
  | some e => some e.2
  | none => none

/-- `strToRRType`. -/
def strToRRType (s : Bytes) : PE Nat :=
  let k := upperKey s
  if k == lit "NONE" || k == lit "RESERVED" then throw .err
  else match lookupNat Facts.dnsStringToType k with
    | some t => pure t
    | none => throw .err

def loadDNSTypesStep (acc : List Nat × List Nat) (rrStr : Bytes) : PE (List Nat × List Nat) :=
  if rrStr.length == 0 then throw .err else do
    let c0 ← idxC rrStr 0
    let restricted := c0 == ch '~'
    let rrStr ← if restricted then sliceC rrStr 1 rrStr.length else pure rrStr
    let rr ← strToRRType rrStr
    if restricted then pure (acc.1, acc.2 ++ [rr]) else pure (acc.1 ++ [rr], acc.2)

/-- `loadDNSTypes`: (permitted, restricted). -/
def loadDNSTypes (types : Bytes) : PE (List Nat × List Nat) :=
  if types.isEmpty then throw .err
  else (splitByte types (ch '|')).foldlM loadDNSTypesStep ([], [])

/-! ### loadCTags -/

/-- `isValidCTag` (a rune ≥ 0x80 is never valid, so the byte-wise test is exact). -/
def isValidCTag (s : Bytes) : Bool := s.all fun c => isLower c || isDigit c || c == ch '_'

def loadCTagsStep (acc : List Bytes × List Bytes) (d : Bytes) : PE (List Bytes × List Bytes) := do
  let (restricted, d) ←
    if hasPrefix d (lit "~") then do
      let d' ← sliceC d 1 d.length
      pure (true, d')
    else pure (false, d)
  if !isValidCTag d then throw .err
  else if restricted then pure (acc.1, acc.2 ++ [d])
  else pure (acc.1 ++ [d], acc.2)

/-- `loadCTags value "|"`: (permitted, restricted), both sorted (`slices.Sort`). -/
def loadCTags (value : Bytes) : PE (List Bytes × List Bytes) :=
  if value.isEmpty then throw .err else do
    let (p, r) ← (splitByte value (ch '|')).foldlM loadCTagsStep ([], [])
    pure (sortB p, sortB r)

/-! ### loadClients -/

/-- `comparePrefix a b ≤ 0`: IPv4 first, shorter prefixes first, then by address. -/
def prefixLe (a b : Prefix) : Bool :=
  if a.addr.is4 != b.addr.is4 then a.addr.is4
  else if a.bits < b.bits then true
  else if a.bits > b.bits then false
  else a.addr.val ≤ b.addr.val

def insertPrefix (x : Prefix) : List Prefix → List Prefix
  | [] => [x]
  | y :: ys => if prefixLe x y then x :: y :: ys else y :: insertPrefix x ys

/-- `slices.SortFunc(nets, comparePrefix)` (two prefixes that compare equal are identical, so
    every sorting algorithm gives this list). -/
def sortPrefixes (l : List Prefix) : List Prefix := l.foldr insertPrefix []

/-- `clients.add`. -/
def Clients.add (ext : Ext) (c : Clients) (client : Bytes) : Clients :=
  if isProbablyIP client then
    match ext.parseAddr client with
    | some ip => { c with nets := c.nets ++ [{ addr := ip, bits := ip.bitLen }] }
    | none => { c with hosts := c.hosts ++ [client] }
  else if hasSub client (lit "/") then
    match ext.parsePrefix client with
    | some p => { c with nets := c.nets ++ [p] }
    | none => { c with hosts := c.hosts ++ [client] }
  else { c with hosts := c.hosts ++ [client] }

/-- `clients.finalize` (nil-safe). -/
def Clients.finalize : Option Clients → Option Clients
  | none => none
  | some c => some { hosts := sortB c.hosts, nets := sortPrefixes c.nets }

def addClient (ext : Ext) (c : Option Clients) (client : Bytes) : Option Clients :=
  some (Clients.add ext (c.getD { hosts := [], nets := [] }) client)

def loadClientsStep (ext : Ext) (acc : Option Clients × Option Clients) (s : Bytes) :
    PE (Option Clients × Option Clients) := do
  -- 1. restricted or permitted
  let (restricted, client) ←
    if hasPrefix s (lit "~") then do
      let c ← sliceC s 1 s.length
      pure (true, c)
    else pure (false, s)
  -- 2. quoted?
  let quoteChar : UInt8 ←
    if client.length ≥ 2 then do
      let c0 ← idxC client 0
      let cl ← idxC client (client.length - 1)
      pure (if (c0 == ch '\'' || c0 == ch '"') && c0 == cl then c0 else 0)
    else pure 0
  -- 3. remove quotes
  let client ← if quoteChar > 0 then sliceC client 1 (client.length - 1) else pure client
  -- 4. unescape commas and quotes
  let client := replaceAll client (lit "\\,") (lit ",")
  let client := if quoteChar > 0 then replaceAll client [ch '\\', quoteChar] [quoteChar] else client
  if client.isEmpty then throw .err
  else if restricted then pure (acc.1, addClient ext acc.2 client)
  else pure (addClient ext acc.1 client, acc.2)

/-- `loadClients value '|'`: (permitted, restricted), finalized. -/
def loadClients (ext : Ext) (value : Bytes) : PE (Option Clients × Option Clients) :=
  if value.isEmpty then throw .err else do
    let list ← splitWithEscapeCharacter value (ch '|') (ch '\\') false
    let (p, r) ← list.foldlM (loadClientsStep ext) (none, none)
    pure (Clients.finalize p, Clients.finalize r)

/-! ### options -/

/-- The parameters of the network-rule parser that are modelled elsewhere. -/
structure ParseExt where
  ext : Ext
  /-- `loadDNSRewrite` (group H): `none` = error. -/
  loadDNSRewrite : Bytes → Option DnsRewrite
  /-- `findRegexpShortcut` (group A) on a `/regex/` pattern. -/
  regexpShortcut : Bytes → Bytes

/-- `setOptionEnabled`. -/
def setOptionEnabled (r : NetRule) (opt : Nat) (enabled : Bool) : PE NetRule :=
  if r.whitelist && (opt &&& Facts.OptionBlacklistOnly) == opt then throw .err
  else if !r.whitelist && (opt &&& Facts.OptionWhitelistOnly) == opt then throw .err
  else if enabled then pure { r with enabled := r.enabled ||| opt }
  else pure { r with disabled := r.disabled ||| opt }

/-- `setRequestType`. -/
def setRequestType (r : NetRule) (t : Nat) (permitted : Bool) : NetRule :=
  if permitted then { r with permTypes := r.permTypes ||| t }
  else { r with restrTypes := r.restrTypes ||| t }

/-- The content-type modifier names. -/
def contentTypeOf (name : Bytes) : Option Nat :=
  if name == lit "script" then some Facts.TypeScript
  else if name == lit "stylesheet" then some Facts.TypeStylesheet
  else if name == lit "subdocument" then some Facts.TypeSubdocument
  else if name == lit "object" then some Facts.TypeObject
  else if name == lit "image" then some Facts.TypeImage
  else if name == lit "xmlhttprequest" then some Facts.TypeXmlhttprequest
  else if name == lit "media" then some Facts.TypeMedia
  else if name == lit "font" then some Facts.TypeFont
  else if name == lit "websocket" then some Facts.TypeWebsocket
  else if name == lit "ping" then some Facts.TypePing
  else if name == lit "other" then some Facts.TypeOther
  else none

/-- `$document`: the error of the first call is returned, the other four are ignored. -/
def setIgnoringError (r : NetRule) (opt : Nat) : NetRule :=
  match setOptionEnabled r opt true with
  | .ok r' => r'
  | .error _ => r

/-- `loadOption` (every case of the Go `switch`). -/
def loadOption (px : ParseExt) (r : NetRule) (name value : Bytes) : PE NetRule :=
  if name == lit "third-party" || name == lit "~first-party" then setOptionEnabled r Facts.OptionThirdParty true
  else if name == lit "~third-party" || name == lit "first-party" then setOptionEnabled r Facts.OptionThirdParty false
  else if name == lit "match-case" then setOptionEnabled r Facts.OptionMatchCase true
  else if name == lit "~match-case" then setOptionEnabled r Facts.OptionMatchCase false
  else if name == lit "important" then setOptionEnabled r Facts.OptionImportant true
  else if name == lit "badfilter" then setOptionEnabled r Facts.OptionBadfilter true
  else if name == lit "dnstype" then do
    let (p, rs) ← loadDNSTypes value
    pure { r with permDns := p, restrDns := rs }
  else if name == lit "dnsrewrite" then
    match px.loadDNSRewrite value with
    | some rw => pure { r with rewrite := some rw }
    | none => throw .err
  else if name == lit "domain" then do
    let (p, rs) ← loadDomains value (ch '|')
    pure { r with permDomains := p, restrDomains := rs }
  else if name == lit "denyallow" then do
    let (p, rs) ← loadDomains value (ch '|')
    if rs.length > 0 || p.length == 0 then throw .err
    else pure { r with denyallow := p }
  else if name == lit "ctag" then do
    let (p, rs) ← loadCTags value
    pure { r with permTags := p, restrTags := rs }
  else if name == lit "client" then do
    let (p, rs) ← loadClients px.ext value
    pure { r with permClients := p, restrClients := rs }
  else if name == lit "elemhide" then setOptionEnabled r Facts.OptionElemhide true
  else if name == lit "generichide" then setOptionEnabled r Facts.OptionGenerichide true
  else if name == lit "genericblock" then setOptionEnabled r Facts.OptionGenericblock true
  else if name == lit "jsinject" then setOptionEnabled r Facts.OptionJsinject true
  else if name == lit "urlblock" then setOptionEnabled r Facts.OptionUrlblock true
  else if name == lit "content" then setOptionEnabled r Facts.OptionContent true
  else if name == lit "extension" then setOptionEnabled r Facts.OptionExtension true
  else if name == lit "~extension" then pure { r with enabled := r.enabled ^^^ Facts.OptionExtension }
  else if name == lit "document" then do
    let r ← setOptionEnabled r Facts.OptionElemhide true
    pure (setIgnoringError (setIgnoringError (setIgnoringError (setIgnoringError r
      Facts.OptionJsinject) Facts.OptionUrlblock) Facts.OptionContent) Facts.OptionExtension)
  else if name == lit "stealth" then setOptionEnabled r Facts.OptionStealth true
  else if name == lit "popup" then setOptionEnabled r Facts.OptionPopup true
  else if name == lit "empty" then setOptionEnabled r Facts.OptionEmpty true
  else if name == lit "mp4" then setOptionEnabled r Facts.OptionMp4 true
  else
    -- content types: `name` or `~name`
    match contentTypeOf name with
    | some t => pure (setRequestType r t true)
    | none =>
      if hasPrefix name (lit "~") then
        match contentTypeOf (name.drop 1) with
        | some t => pure (setRequestType r t false)
        | none => throw .err
      else throw .err

/-- One element of the loop of `loadOptions`. -/
def loadOptionsStep (px : ParseExt) (r : NetRule) (o : Bytes) : PE NetRule :=
  match indexByte o (ch '=') with
  | some eqIdx =>
    if eqIdx > 0 then do
      let name ← sliceC o 0 eqIdx
      let value ← sliceC o (eqIdx + 1) o.length
      loadOption px r name value
    else loadOption px r o []
  | none => loadOption px r o []

/-- The options after which `permittedRequestTypes` is overridden with `TypeDocument`. -/
def documentOnlyOptions : List Nat :=
  [Facts.OptionJsinject, Facts.OptionElemhide, Facts.OptionContent, Facts.OptionUrlblock,
   Facts.OptionGenericblock, Facts.OptionGenerichide, Facts.OptionExtension, Facts.OptionPopup]

/-- `loadOptions`. -/
def loadOptions (px : ParseExt) (r : NetRule) (options : Bytes) : PE NetRule :=
  if options.isEmpty then pure r else do
    let parts ← splitWithEscapeCharacter options (ch ',') (ch '\\') false
    let r ← parts.foldlM (loadOptionsStep px) r
    if documentOnlyOptions.any (fun o => r.isEnabled o) then pure { r with permTypes := Facts.TypeDocument }
    else pure r

/-- `loadShortcut`: the candidate (before lower-casing). -/
def shortcutCandidate (px : ParseExt) (pattern : Bytes) : PE Bytes :=
  if isRegexPattern pattern then pure (px.regexpShortcut pattern) else findShortcut pattern

/-- `NewNetworkRule`. -/
def parseNetRule (px : ParseExt) (ruleText : Bytes) (listID : Int) : PE NetRule := do
  let (pattern, options, whitelist) ← parseRuleText ruleText
  let r : NetRule := { text := ruleText, whitelist := whitelist, listID := listID, pattern := pattern }
  let r ← loadOptions px r options
  -- example.org/* -> example.org^
  let r ←
    if hasSuffix r.pattern (lit "/*") then do
      let p ← sliceC r.pattern 0 (r.pattern.length - 2)
      pure { r with pattern := p ++ lit "^" }
    else pure r
  -- validate rule (NB: on the pattern as returned by parseRuleText)
  if (pattern == lit "||" || pattern == lit "|" || pattern == lit "*" || pattern.isEmpty ||
        pattern.length < 3) &&
      r.permDomains.isEmpty && r.restrDomains.isEmpty &&
      Clients.len r.permClients == 0 && Clients.len r.restrClients == 0 &&
      r.permTags.isEmpty && r.restrTags.isEmpty && r.permDns.isEmpty && r.restrDns.isEmpty &&
      r.denyallow.isEmpty then throw .err
  else do
    let sc ← shortcutCandidate px r.pattern
    if sc.length > 1 then pure { r with shortcut := toLower sc } else pure r

end UF.E

import UF.Model.ParseOptions
/-
  Model of `rules.NewRule` (rules/rule.go) and of what it dispatches to:
  `isComment`, `findCosmeticRuleMarker` / `startsAtIndexWith` / `NewCosmeticRule`
  (rules/cosmetic.go), then `NewHostRule` (group H: a parameter) and `NewNetworkRule`.
  `strings.TrimSpace` is group D's: a parameter `trim`.

  Also: checked-slice variants of `isDomainOrSubdomainOfAny` (rules/helpers.go) and
  `shouldMatchHostname` (rules/network.go) — the functions of UF/Model/Match.lean written with the
  Go slice / index expressions as checked operations, so that their crash-freedom is a theorem.
-/
namespace UF.E
open Bytes

/-! ### cosmetic markers -/

/-- The loop of `startsAtIndexWith`: `for i := 0; i < len(substr); i++ { if str[startIndex+i] != substr[i] … }`. -/
def startsAtLoop (str : Bytes) (startIndex : Nat) (substr : Bytes) : (fuel : Nat) → (i : Nat) → PE Bool
  | 0, _ => pure true
  | fuel + 1, i =>
    if i < substr.length then do
      let a ← idxC str (startIndex + i)
      let b ← idxC substr i
      if a != b then pure false else startsAtLoop str startIndex substr fuel (i + 1)
    else pure true

/-- `startsAtIndexWith str startIndex substr` (`startIndex ≤ len(str)` at every call site; the Go
    guard is `len(str)-startIndex < len(substr)` on ints). -/
def startsAtIndexWith (str : Bytes) (startIndex : Nat) (substr : Bytes) : PE Bool :=
  if (str.length : Int) - startIndex < substr.length then pure false
  else startsAtLoop str startIndex substr substr.length 0

/-- The inner `for _, marker := range cosmeticRulesMarkers`. -/
def firstMarkerAt (text : Bytes) (startIndex : Nat) : List Bytes → PE (Option Bytes)
  | [] => pure none
  | m :: ms => do
    if ← startsAtIndexWith text startIndex m then pure (some m) else firstMarkerAt text startIndex ms

/-- `inHostsComment ruleText idx` (repair of D16, /repo d2e67f2): `strings.IndexByte` only, no
    index expression that could panic. -/
def inHostsComment (text : Bytes) (idx : Nat) : Bool :=
  match indexByte text (ch '#') with
  | some commentIdx => decide (commentIdx > 0) && decide (commentIdx < idx)
  | none => false

/-- `findCosmeticRuleMarker` over given first characters and markers (run-time order):
    `none` is the Go result `-1, ""`. -/
def findMarkerLoop (markers : List Bytes) (text : Bytes) : (firstChars : Bytes) → PE (Option (Nat × Bytes))
  | [] => pure none
  | fc :: rest =>
    match indexByte text fc with
    | none => findMarkerLoop markers text rest
    | some startIndex => do
      -- false positives in hosts files: `0.0.0.0 example.org  ## comment`
      let skip ←
        if startIndex > 0 then do
          let p ← idxC text (startIndex - 1)
          pure (p == ch ' ' || p == ch '\t')
        else pure false
      if skip then findMarkerLoop markers text rest
      -- a marker inside a hosts-file comment: `0.0.0.0 example.org # costs $$5`
      else if inHostsComment text startIndex then findMarkerLoop markers text rest
      else
        match ← firstMarkerAt text startIndex markers with
        | some m => pure (some (startIndex, m))
        | none => findMarkerLoop markers text rest

def findCosmeticRuleMarker (text : Bytes) : PE (Option (Nat × Bytes)) :=
  findMarkerLoop Facts.cosmeticMarkers text Facts.cosmeticFirstChars

/-- `isComment`. -/
def isComment (line : Bytes) : PE Bool :=
  if line.length == 0 then pure false else do
    let c0 ← idxC line 0
    if c0 == ch '!' then pure true
    else if c0 == ch '#' then
      if line.length == 1 then pure true
      else do
        -- not a cosmetic rule?
        match ← firstMarkerAt line 0 Facts.cosmeticMarkers with
        | some _ => pure false
        | none => pure true
    else pure false

/-- `NewCosmeticRule` (`trim` = `strings.TrimSpace`). -/
def newCosmeticRule (trim : Bytes → Bytes) (ruleText : Bytes) (listID : Int) : PE CosRule := do
  match ← findCosmeticRuleMarker ruleText with
  | none => throw .err
  | some (index, m) =>
    let (permitted, restricted) ←
      if index > 0 then do
        let domains ← sliceC ruleText 0 index
        match loadDomains domains (ch ',') with
        | .ok pr => pure pr
        | .error .panic => throw .panic
        | .error .err => throw .err
      else pure ([], [])
    let rest ← sliceC ruleText (index + m.length) ruleText.length
    let content := trim rest
    if content.isEmpty then throw .err
    else if m == lit "##" then
      pure { text := ruleText, listID := listID, content := content, permDomains := permitted,
             restrDomains := restricted, whitelist := false }
    else if m == lit "#@#" then
      if permitted.isEmpty then throw .err
      else pure { text := ruleText, listID := listID, content := content, permDomains := permitted,
                  restrDomains := restricted, whitelist := true }
    else throw .err  -- ErrUnsupportedRule

/-- The parameters of `NewRule` modelled elsewhere. -/
structure RuleExt where
  px : ParseExt
  /-- `strings.TrimSpace` (group D). -/
  trim : Bytes → Bytes
  /-- `NewHostRule` (group H): `none` = error. -/
  newHostRule : Bytes → Int → Option HostRule

/-- `NewRule`: `.ok none` = the line is blank or a comment. -/
def newRule (rx : RuleExt) (line : Bytes) (listID : Int) : PE (Option Rule) := do
  let line := rx.trim line
  if line.isEmpty then pure none
  else if ← isComment line then pure none
  else
    match ← findCosmeticRuleMarker line with
    | some _ => do
      let c ← newCosmeticRule rx.trim line listID
      pure (some (.cos c))
    | none =>
      match rx.newHostRule line listID with
      | some h => pure (some (.host h))
      | none => do
        let r ← parseNetRule rx.px line listID
        pure (some (.net r))

/-! ### The scan of a list, abstractly: the accepted rules in order.
    (`RuleScanner.Scan` skips lines for which `NewRule` returns nil or an error.) -/

def acceptedOf (rx : RuleExt) (listID : Int) (line : Bytes) : Option Rule :=
  match newRule rx line listID with
  | .ok (some r) => some r
  | _ => none

/-- The sequence of accepted rules of a list given as lines. -/
def scanAccepted (rx : RuleExt) (listID : Int) (lines : List Bytes) : List Rule :=
  lines.filterMap (acceptedOf rx listID)

/-! ### Checked variants of two matching helpers -/

/-- One element of the loop of `isDomainOrSubdomainOfAny` with `d[0 : len(d)-1]` checked. -/
def domainEntryMatchesC (ext : Ext) (domain d : Bytes) : PE Bool :=
  if hasSuffix d (lit ".*") then do
    if (d.length : Int) - 1 < 0 then throw .panic
    let withoutWildcard ← sliceC d 0 (d.length - 1)
    if hasPrefix domain withoutWildcard ||
        (decide ((indexOf domain withoutWildcard).getD 0 > 0 ∧ (indexOf domain withoutWildcard).isSome) &&
         decide ((indexOf domain (ch '.' :: withoutWildcard)).getD 0 > 0 ∧
            (indexOf domain (ch '.' :: withoutWildcard)).isSome)) then
      let (tld, icann) := ext.psl domain
      let name := withoutWildcard ++ tld
      pure (!tld.isEmpty && icann && (domain == name || hasSuffix domain (ch '.' :: name)))
    else pure false
  else
    pure (domain == d || (hasSuffix domain d && hasSuffix domain (ch '.' :: d)))

def isDomainOrSubdomainOfAnyC (ext : Ext) (domain : Bytes) : List Bytes → PE Bool
  | [] => pure false
  | d :: ds => do
    if ← domainEntryMatchesC ext domain d then pure true else isDomainOrSubdomainOfAnyC ext domain ds

/-- The loop `for i := 1; i < len(pattern)-1; i++ { ch := pattern[i] … }` of `shouldMatchHostname`:
    `true` = some character is not allowed. -/
def hostCharsLoop (pattern : Bytes) : (fuel : Nat) → (i : Nat) → PE Bool
  | 0, _ => pure false
  | fuel + 1, i =>
    if i + 1 < pattern.length then do
      let c ← idxC pattern i
      if !(isLower c || isUpper c || isDigit c || c == ch '.' || c == ch '-') then pure true
      else hostCharsLoop pattern fuel (i + 1)
    else pure false

/-- `shouldMatchHostname` with `pattern[0]`, `pattern[len-1]`, `pattern[i]` checked. -/
def shouldMatchHostnameC (r : NetRule) (q : Request) : PE Bool :=
  if !q.isHostnameRequest then pure false
  else if hasPrefix r.pattern (lit "||") || hasPrefix r.pattern (lit "http://") ||
      hasPrefix r.pattern (lit "https://") || hasPrefix r.pattern (lit "://") then pure false
  else if r.pattern.length > 3 then do
    let c0 ← idxC r.pattern 0
    if c0 == ch '/' then do
      let cl ← idxC r.pattern (r.pattern.length - 1)
      if cl == ch '.' then hostCharsLoop r.pattern r.pattern.length 1
      else pure true
    else pure true
  else pure true

end UF.E

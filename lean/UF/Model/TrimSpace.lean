import UF.Basic.Bytes
/-
  Model of Go's `strings.TrimSpace` on byte strings (C11/C12: rule text is defined by it).

  Go (strings.TrimSpace):
    * loop 1 drops ASCII blanks (`\t \n \v \f \r` and space) from the left; when it meets a byte
      >= 0x80 it falls back to `TrimFunc(s[start:], unicode.IsSpace)`;
    * loop 2 drops ASCII blanks from the right; when it meets a byte >= 0x80 it falls back to
      `TrimRightFunc(s[start:stop], unicode.IsSpace)`.
  `unicode.IsSpace` beyond ASCII is U+0085, U+00A0 (Latin-1) and the White_Space table: U+1680,
  U+2000..U+200A, U+2028, U+2029, U+202F, U+205F, U+3000.  `TrimLeftFunc` decodes forwards with
  `utf8.DecodeRuneInString`, `TrimRightFunc` backwards with `utf8.DecodeLastRuneInString`; an
  invalid sequence decodes to U+FFFD of width 1, which is not a space.  Because UTF-8 is decoded
  deterministically from the first byte and every space code point has exactly one (shortest)
  encoding, "the next/last rune is a space" is the same as "the bytes start/end with one of the
  byte sequences below" -- this is what `uni2`/`uni3` say.  The model is validated against the real
  `strings.TrimSpace` on random byte strings by the op `c11.trim`.
-/
namespace UF

/-- `asciiSpace[c] == 1`. -/
def asciiSp (c : UInt8) : Bool := c == 9 || c == 10 || c == 11 || c == 12 || c == 13 || c == 32

/-- Two-byte encodings of space code points: U+0085 = C2 85, U+00A0 = C2 A0. -/
def uni2 (c d : UInt8) : Bool := c == 0xC2 && (d == 0x85 || d == 0xA0)

/-- Three-byte encodings: U+1680 = E1 9A 80, U+2000..U+200A = E2 80 80..8A, U+2028 = E2 80 A8,
    U+2029 = E2 80 A9, U+202F = E2 80 AF, U+205F = E2 81 9F, U+3000 = E3 80 80. -/
def uni3 (c d e : UInt8) : Bool :=
  (c == 0xE1 && d == 0x9A && e == 0x80) ||
  (c == 0xE2 && d == 0x80 && ((0x80 ≤ e && e ≤ 0x8A) || e == 0xA8 || e == 0xA9 || e == 0xAF)) ||
  (c == 0xE2 && d == 0x81 && e == 0x9F) ||
  (c == 0xE3 && d == 0x80 && e == 0x80)

/-- `strings.TrimLeftFunc(s, unicode.IsSpace)`. -/
def trimLeftU : Bytes → Bytes
  | [] => []
  | c :: r =>
    if asciiSp c then trimLeftU r else
    match r with
    | [] => c :: r
    | d :: r2 =>
      if uni2 c d then trimLeftU r2 else
      match r2 with
      | [] => c :: r
      | e :: r3 => if uni3 c d e then trimLeftU r3 else c :: r

/-- The same scan on the reversed string (bytes of a sequence arrive last-first). -/
def trimRevU : Bytes → Bytes
  | [] => []
  | c :: r =>
    if asciiSp c then trimRevU r else
    match r with
    | [] => c :: r
    | d :: r2 =>
      if uni2 d c then trimRevU r2 else
      match r2 with
      | [] => c :: r
      | e :: r3 => if uni3 e d c then trimRevU r3 else c :: r

/-- `strings.TrimRightFunc(s, unicode.IsSpace)`. -/
def trimRightU (s : Bytes) : Bytes := (trimRevU s.reverse).reverse

/-- Reference: trim on the left, then on the right, rune by rune. -/
def trimSpaceRef (s : Bytes) : Bytes := trimRightU (trimLeftU s)

/-- The ASCII-only loops of the fast path. -/
def dropAsciiSp : Bytes → Bytes
  | [] => []
  | c :: r => if asciiSp c then dropAsciiSp r else c :: r

/-- `strings.TrimSpace` in the shape of the Go code (ASCII fast path with the two fall-backs). -/
def trimSpace (s : Bytes) : Bytes :=
  let s1 := dropAsciiSp s
  match s1 with
  | [] => []
  | c :: _ =>
    if c ≥ 0x80 then trimRightU (trimLeftU s1)          -- TrimFunc(s[start:], unicode.IsSpace)
    else
      let r := dropAsciiSp s1.reverse                    -- second loop, from the end
      match r with
      | [] => []
      | d :: _ => if d ≥ 0x80 then trimRightU r.reverse  -- TrimRightFunc(s[start:stop], …)
                  else r.reverse

end UF

import UF.Model.Engine
/-
  Model of `dnsengine.go`, `rules/host.go` (`HostRule.Match`) and
  `rules/network.go` (`IsHostLevelNetworkRule`).
  `GetDNSBasicRule` belongs to another work group: it is the parameter `basic`.
-/
namespace UF.B
open UF UF.Bytes

/-- `IsHostLevelNetworkRule`, bit for bit (including the `(e & H) | (e ^ H) == H` idiom). -/
def isHostLevel (r : NetRule) : Bool :=
  if decide (r.permDomains.length > 0) || decide (r.restrDomains.length > 0) then false
  else if r.permTypes != 0 && r.restrTypes != 0 then false
  else if r.disabled != 0 then false
  else if r.enabled != 0 then
    ((r.enabled &&& Facts.OptionHostLevelRulesOnly) ||| (r.enabled ^^^ Facts.OptionHostLevelRulesOnly))
      == Facts.OptionHostLevelRulesOnly
  else true

/-- `HostRule.Match` (the single-name fast path, then the loop). -/
def hostRuleMatches (r : HostRule) (host : Bytes) : Bool :=
  (decide (r.hostnames.length = 1) && r.hostnames.head? == some host) || r.hostnames.any (· == host)

/-- `RetrieveNetworkRule`: the rule at the index if it is a network rule, else nil. -/
def retrieveNet (retrieve : Idx → Option Rule) (idx : Idx) : Option NetRule :=
  match retrieve idx with
  | some (.net r) => some r
  | _ => none

/-- `RetrieveHostRule`. -/
def retrieveHost (retrieve : Idx → Option Rule) (idx : Idx) : Option HostRule :=
  match retrieve idx with
  | some (.host r) => some r
  | _ => none

structure DnsEngine where
  net : Engine := {}
  hosts : HMap (List Idx) := []

/-- The loop body of `NewDNSEngine`. -/
def DnsEngine.addRule (hf : HashFns) (k : Nat) (d : DnsEngine) (rule : Rule) (idx : Idx) : DnsEngine :=
  match rule with
  | .host hr => { d with hosts := hr.hostnames.foldl (fun lk n => pushIdx lk (hf.h n) idx) d.hosts }
  | .net r => if isHostLevel r then { d with net := d.net.addRule hf k r idx } else d
  | .cos _ => d

def DnsEngine.build (hf : HashFns) (k : Nat) (L : List (Rule × Idx)) : DnsEngine :=
  L.foldl (fun d p => d.addRule hf k p.1 p.2) {}

structure DnsResult where
  networkRules : List NetRule := []
  networkRule : Option NetRule := none
  v4 : List HostRule := []
  v6 : List HostRule := []
  matched : Bool := false

/-- `matchLookupTable`: hash bucket, retrieval, re-`Match`. -/
def DnsEngine.matchLookupTable (hf : HashFns) (retrieve : Idx → Option Rule) (d : DnsEngine)
    (host : Bytes) : List HostRule :=
  (hget [] d.hosts (hf.h host)).filterMap fun idx =>
    match retrieveHost retrieve idx with
    | some hr => if hostRuleMatches hr host then some hr else none
    | none => none

/-- `DNSEngine.MatchRequest`; `q` is the hostname request built by `getRequestFromPool`
    (`q.hostname` = `dReq.Hostname`). -/
def DnsEngine.matchRequest (hf : HashFns) (k : Nat) (retrieve : Idx → Option Rule) (ext : Ext)
    (basic : List NetRule → Option NetRule) (d : DnsEngine) (q : Request) : DnsResult :=
  if q.hostname.isEmpty then {}
  else
    let nrs := d.net.matchAll hf k (retrieveNet retrieve) ext q
    match basic nrs with
    | some r => { networkRules := nrs, networkRule := some r, matched := true }
    | none =>
      let rr := d.matchLookupTable hf retrieve q.hostname
      if rr.isEmpty then { networkRules := nrs }
      else { networkRules := nrs, v4 := rr.filter (·.ip.is4), v6 := rr.filter (!·.ip.is4), matched := true }

end UF.B

import UF.Model.Rule
/-
  Model of `MatchingResult.GetCosmeticOption` (rules/match.go) and of the flag decoding in
  `Engine.GetCosmeticResult` (engine.go).  `CosmeticOption` is a `uint32`: `BitVec 32`.
-/
namespace UF

abbrev CosOpt := BitVec 32

def cosGenericCSS : CosOpt := BitVec.ofNat 32 Facts.CosmeticOptionGenericCSS
def cosCSS : CosOpt := BitVec.ofNat 32 Facts.CosmeticOptionCSS
def cosJS : CosOpt := BitVec.ofNat 32 Facts.CosmeticOptionJS
def cosAll : CosOpt := BitVec.ofNat 32 Facts.CosmeticOptionAll

/-- Go `x &^= y`. -/
def andNot (x y : CosOpt) : CosOpt := x &&& ~~~y

/-- `GetCosmeticOption` on the basic rule of a result (`none` = no basic rule). -/
def getCosmeticOption (basic : Option NetRule) : CosOpt :=
  match basic with
  | none => cosAll
  | some r =>
    if !r.whitelist then cosAll
    else
      let o := cosAll
      let o := if r.isEnabled Facts.OptionElemhide then andNot o (cosCSS ||| cosGenericCSS) else o
      let o := if r.isEnabled Facts.OptionGenerichide then andNot o cosGenericCSS else o
      let o := if r.isEnabled Facts.OptionJsinject then andNot o cosJS else o
      o

/-- The three flags `Engine.GetCosmeticResult` passes on: (includeCSS, includeJS, includeGenericCSS). -/
def decodeCosmeticFlags (o : CosOpt) : Bool × Bool × Bool :=
  (o &&& cosCSS == cosCSS, o &&& cosJS == cosJS, o &&& cosGenericCSS == cosGenericCSS)

end UF

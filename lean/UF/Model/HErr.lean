import UF.Basic.Bytes
/-
  Shared by the models of work group H (C10, C17, C18): the two ways a Go function of these
  properties can fail.  `panic` models a run-time panic (slice / index out of range) and is what
  the totality theorems exclude; `reject` is an ordinary returned `error`.
-/
namespace UF.H

inductive HErr where
  | panic
  | reject
  deriving DecidableEq, Repr, Inhabited

/-- Checked list indexing `l[i]` (a Go index expression that may panic). -/
def idxE {α} (l : List α) (i : Nat) : Except HErr α :=
  match l[i]? with
  | some x => .ok x
  | none => .error .panic

/-- Checked slicing `s[i:j]`. -/
def sliceE (s : Bytes) (i j : Nat) : Except HErr Bytes :=
  match Bytes.slice? s i j with
  | some x => .ok x
  | none => .error .panic

/-- `Except` without the panic alternative. -/
def noPanic {α} : Except HErr α → Prop
  | .error .panic => False
  | _ => True

/-- Was the input rejected with an ordinary error? (for `decide`d examples) -/
def isReject {α} : Except HErr α → Bool
  | .error .reject => true
  | _ => false

end UF.H

import UF.Model.Regex
import UF.Model.Match
/-
  Model of the shortcut extraction of rules/network.go (C05), after the D4 repair:

    loadShortcut          `len(shortcut) > 1` + `strings.ToLower`
    findShortcut          the `IndexAny(pattern, "*^|")` loop for mask patterns (slices are CHECKED)
    findRegexpShortcut    candidates (`parts`, produced by the textual heuristics – an ARBITRARY list
                          for the theorems) filtered by `isRequiredLiteral` against
                          `requiredRegexpLiterals` = `appendRequiredLiterals` over the parse tree
-/
namespace UF
open Bytes

/-- The characters `findShortcut` splits a mask pattern at: `*`, `^`, `|`. -/
def maskSpecials : Bytes := [42, 94, 124]

/-- The loop of `findShortcut`; `none` = a slice expression would panic. Fuel: one iteration per
    separator, so `len + 1` suffices. -/
def findShortcutLoop : Nat → Bytes → Bytes → Option Bytes
  | 0, _, shortcut => some shortcut
  | fuel + 1, pattern, shortcut =>
    if pattern.isEmpty then some shortcut else
    match indexAny pattern maskSpecials with
    | none => if pattern.length > shortcut.length then some pattern else some shortcut
    | some i =>
      (if i > shortcut.length then slice? pattern 0 i else some shortcut).bind fun shortcut' =>
      (slice? pattern (i + 1) pattern.length).bind fun rest =>
      findShortcutLoop fuel rest shortcut'

/-- `findShortcut(pattern)`. -/
def findShortcut (pattern : Bytes) : Option Bytes := findShortcutLoop (pattern.length + 1) pattern []

/-- The tail of `loadShortcut`: only shortcuts longer than one byte are kept, lower-cased. -/
def loadShortcut (candidate : Bytes) : Bytes :=
  if candidate.length > 1 then toLower candidate else []

namespace Re

/-- `appendRequiredLiterals`: the lower-cased literals every match must contain – literals under
    concatenation, capture, `+` and `{m,…}` with `m ≥ 1`; nothing from alternations, `*`, `?`, `{0,…}`,
    classes and assertions. -/
def requiredLits : Re → List Bytes
  | .lit bs _ => [toLower bs]
  | .cat a b => requiredLits a ++ requiredLits b
  | .grp a => requiredLits a
  | .plus a => requiredLits a
  | .rep a m _ => if m > 0 then requiredLits a else []
  | _ => []

end Re

/-- `isRequiredLiteral(part, required)`. -/
def isRequiredLiteral (part : Bytes) (required : List Bytes) : Bool :=
  required.any fun l => hasSub l (toLower part)

/-- The selection loop at the end of `findRegexpShortcut`: the first longest candidate that is
    contained in a required literal. -/
def pickLongest (parts : List Bytes) (required : List Bytes) : Bytes :=
  parts.foldl (fun longest part =>
    if part.length > longest.length && isRequiredLiteral part required then part else longest) []

/-- `findRegexpShortcut` given the candidates of the textual heuristics and the parse tree of the
    expression (`none`: `syntax.Parse` failed – nothing is required, so nothing is accepted). -/
def findRegexpShortcut (parts : List Bytes) (tree : Option Re) : Bytes :=
  pickLongest parts (match tree with | some t => t.requiredLits | none => [])

/-- Every literal required by `t` (the tree the shortcut was checked against) is contained in a literal
    required by `c` (the expression that is actually compiled: `t` itself, `t` under `(?i)`, or Go's own
    parse of the `(?i)`-prefixed text). -/
def litsCovered (t c : Re) : Bool :=
  t.requiredLits.all fun l => c.requiredLits.any fun l' => hasSub l' l

/-- Literal information about an expression: every match consumes a text `w` whose lower-casing starts
    with `pre`, ends with `suf`, contains every `inner` as a factor and, if `exact`, equals `pre`. -/
structure LitInfo where
  exact : Bool
  pre : Bytes
  suf : Bytes
  inner : List Bytes
  deriving Repr, DecidableEq

namespace Re

/-- Like `requiredLits`, but adjacent literal pieces are merged across concatenations, zero-width
    assertions, captures and the first/last iteration of `+` / `{m,}` (`m ≥ 1`):
    `foojs+` requires `foojs`, `banner{2,}` requires `banner`. -/
def litInfo : Re → LitInfo
  | .lit bs _ => ⟨true, toLower bs, toLower bs, []⟩
  | .empty | .bol | .eol | .wordB | .nwordB => ⟨true, [], [], []⟩
  | .grp a => litInfo a
  | .cat a b =>
    let ia := litInfo a
    let ib := litInfo b
    ⟨ia.exact && ib.exact,
     if ia.exact then ia.pre ++ ib.pre else ia.pre,
     if ib.exact then ia.suf ++ ib.suf else ib.suf,
     if ia.exact || ib.exact then ia.inner ++ ib.inner else ia.inner ++ (ia.suf ++ ib.pre) :: ib.inner⟩
  | .plus a => let ia := litInfo a; ⟨false, ia.pre, ia.suf, ia.inner⟩
  | .rep a m _ => if m > 0 then (let ia := litInfo a; ⟨false, ia.pre, ia.suf, ia.inner⟩) else ⟨false, [], [], []⟩
  | _ => ⟨false, [], [], []⟩

/-- The merged required literals. -/
def requiredRuns (r : Re) : List Bytes :=
  let i := litInfo r
  i.pre :: i.suf :: i.inner

end Re

/-- `shortcutJustified` against the merged runs (more shortcuts are recognised as sound). -/
def shortcutJustifiedRuns (shortcut : Bytes) (tree : Re) : Bool :=
  shortcut.isEmpty || tree.requiredRuns.any fun l => hasSub l shortcut

/-- What the shortcut test of `Match` needs from a regex rule's shortcut (checked by the `c05.shortcut`
    op on Go's own parse tree): empty, or contained in a required literal. -/
def shortcutJustified (shortcut : Bytes) (tree : Re) : Bool :=
  shortcut.isEmpty || tree.requiredLits.any fun l => hasSub l shortcut

end UF

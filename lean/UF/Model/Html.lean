import UF.Basic.Bytes
import UF.Gen.Facts
/-
  Model of proxy/htmlfilter.go (C20), as repaired by commit 9cb6043 (D12):

    b    := ReadDecompressedBody(res)                 -- gunzip is an oracle: the op hands over the plain body
    body := DecodeLatin1(b)                           -- Go string = UTF-8 text of the code points 0..255
    idx  := findBodyInjectionIndex(body)              -- byte index INTO THE UTF-8 TEXT; the window is
                                                      -- counted in runes (= bytes of the original body)
    if idx != -1 { delete CSP headers; body = body[:idx] + injection + body[idx:] }
    b    := EncodeLatin1(body)                        -- fails on a rune > U+00FF or invalid UTF-8
    Content-Encoding deleted; ContentLength = len(b)

  `charmap.ISO8859_1` is the identity map between bytes and the code points U+0000..U+00FF.

  `strings.EqualFold(str, marker)` on this domain.  `marker` is one of four ASCII strings; `str` is a
  BYTE slice of the UTF-8 text (it may end in the middle of a two-byte sequence).  EqualFold compares
  bytes with ASCII case folding while both are ASCII; at the first non-ASCII byte of `str` it decodes
  a rune `sr` (a code point U+0080..U+00FF, or U+FFFD for a cut sequence) and compares it with the
  ASCII marker character `tr` using Unicode simple folding.  The simple-fold orbits of the ASCII
  characters are {X, x} for letters other than k/s, {K, k, U+212A}, {S, s, U+017F}, and {c} for
  `<` and `/`; none contains a code point in U+0080..U+00FF or U+FFFD (µ U+00B5 folds with U+039C/
  U+03BC, ÿ U+00FF with U+0178, å U+00E5 with U+212B -- never with an ASCII letter).  So on this
  domain EqualFold is false as soon as `str` has a non-ASCII byte, and otherwise is the bytewise
  comparison with ASCII case folding: `eqFoldByte`.  The correspondence op `c20.html` exercises
  exactly these cases (markers preceded/followed/interrupted by high bytes, U+212A/U+017F as bytes).
-/
namespace UF.Html

/-- `charmap.ISO8859_1.NewDecoder()` + `string(b)`: one byte ↦ UTF-8 encoding of the code point. -/
def encByte (c : UInt8) : Bytes :=
  if c < 0x80 then [c] else [(0xC0 : UInt8) ||| (c >>> 6), (0x80 : UInt8) ||| (c &&& 0x3F)]

def latin1Decode (b : Bytes) : Bytes := b.flatMap encByte

/-- `charmap.ISO8859_1.NewEncoder().Bytes`: UTF-8 text ↦ bytes; `none` is the encoder's error
    (a rune above U+00FF or invalid UTF-8, including over-long forms C0/C1). -/
def latin1Encode : Bytes → Option Bytes
  | [] => some []
  | c :: r =>
    if c < 0x80 then (latin1Encode r).map (c :: ·) else
    match r with
    | [] => none
    | d :: r2 =>
      if (c == 0xC2 || c == 0xC3) && 0x80 ≤ d && d ≤ 0xBF then
        (latin1Encode r2).map ((((c &&& 0x03) <<< 6) ||| (d &&& 0x3F)) :: ·)
      else none

def isCont (c : UInt8) : Bool := 0x80 ≤ c && c ≤ 0xBF

/-- Width of the rune `utf8.DecodeRuneInString` finds at the start of a non-empty string (invalid
    or truncated sequences have width 1).  Used by `for i := range body`. -/
def runeWidth : Bytes → Nat
  | [] => 0
  | c :: r =>
    if c < 0x80 then 1 else
    if 0xC2 ≤ c && c ≤ 0xDF then
      match r with
      | d :: _ => if isCont d then 2 else 1
      | _ => 1
    else if 0xE0 ≤ c && c ≤ 0xEF then
      match r with
      | d :: e :: _ =>
        let lo : UInt8 := if c == 0xE0 then 0xA0 else 0x80
        let hi : UInt8 := if c == 0xED then 0x9F else 0xBF
        if lo ≤ d && d ≤ hi && isCont e then 3 else 1
      | _ => 1
    else if 0xF0 ≤ c && c ≤ 0xF4 then
      match r with
      | d :: e :: f :: _ =>
        let lo : UInt8 := if c == 0xF0 then 0x90 else 0x80
        let hi : UInt8 := if c == 0xF4 then 0x8F else 0xBF
        if lo ≤ d && d ≤ hi && isCont e && isCont f then 4 else 1
      | _ => 1
    else 1

/-- One character of `strings.EqualFold` against an ASCII marker (see the header comment). -/
def eqFoldByte (a b : UInt8) : Bool :=
  a < 0x80 && b < 0x80 && Bytes.lowerByte a == Bytes.lowerByte b

/-- `strings.EqualFold(s, t)` for ASCII `t` on the domain described above. -/
def equalFold : Bytes → Bytes → Bool
  | [], [] => true
  | a :: s, b :: t => eqFoldByte a b && equalFold s t
  | _, _ => false

/-- `isMatchFound(body, match, index)` where `suffix = body[index:]`:
    `index+len(match) > len(body)` ⇒ false; else `EqualFold(body[index:index+len(match)], match)`
    (the slice is in bounds by the guard). -/
def isMatchFound (suffix mtch : Bytes) : Bool :=
  -- `index+len(match) > len(body)`, i.e. fewer than `len(match)` bytes are left (tested on the
  -- taken prefix so that the driver does not walk the whole body at every position)
  let str := suffix.take mtch.length
  if str.length < mtch.length then false else equalFold str mtch

/-- The four injection markers, in the order of the `||` chain. -/
def markers : List Bytes := [lit "</head", lit "<link", lit "<style", lit "<script"]

def anyMarker (suffix : Bytes) : Bool := markers.any (isMatchFound suffix)

/-- `findBodyInjectionIndex`: `for i := range body` visits the start of every rune; `skip` is the
    number of bytes of the current rune still to step over, `i` the byte index, `cnt` the number of
    runes visited so far. -/
def findGo (window : Nat) : (body : Bytes) → (i cnt skip : Nat) → Option Nat
  | [], _, _, _ => none
  | _ :: r, i, cnt, skip + 1 => findGo window r (i + 1) cnt skip
  | c :: r, i, cnt, 0 =>
    if cnt == window then none else
    if anyMarker (c :: r) then some i else
    findGo window r (i + 1) (cnt + 1) (runeWidth (c :: r) - 1)

def findBodyInjectionIndex (window : Nat) (body : Bytes) : Option Nat := findGo window body 0 0 0

/-- What `filterHTML` leaves behind. -/
structure Response where
  body : Bytes
  contentLength : Nat
  /-- `Content-Encoding` present afterwards -/
  contentEncoding : Bool
  /-- the two CSP headers still present afterwards (if they were there) -/
  cspKept : Bool
  deriving DecidableEq, Repr

/-- `filterHTML` on a response whose decompressed body is `b`; `tag` is `buildInjectionCode`.
    `none` = the function returns an error (encoder failure) or panics on a slice. -/
def filterHTML (window : Nat) (b tag : Bytes) : Option Response :=
  let body := latin1Decode b
  let modified : Option (Bytes × Bool) :=
    match findBodyInjectionIndex window body with
    | none => some (body, false)
    | some idx =>
      match Bytes.slice? body 0 idx, Bytes.slice? body idx body.length with
      | some pre, some post => some (pre ++ tag ++ post, true)
      | _, _ => none
  match modified with
  | none => none
  | some (m, injected) =>
    match latin1Encode m with
    | none => none
    | some out => some ⟨out, out.length, false, !injected⟩

end UF.Html

import UF.Model.HErr
import UF.Model.Rule
import UF.Gen.Facts
/-
  Model of filterutil.ExtractHostname (filterutil/util.go) and of rules/request.go:
  `effectiveTLDPlusOne`, `NewRequest`, `FillRequestForHostname`, `NewRequestForHostname`.
  `publicsuffix.PublicSuffix` is the oracle `ext.psl`.  Slices and index expressions are checked.

  `strings.ToLower` is modelled on ASCII; a URL with a byte ≥ 0x80 among its first 4096 bytes is
  outside the model's domain (Go cuts BYTES and then lower-cases, replacing invalid UTF-8).
-/
namespace UF.H
open Bytes

/-- `filterutil.ExtractHostname`. -/
def extractHostname (url : Bytes) : Except HErr Bytes :=
  -- firstIdx, or `none` for the early `return ""`
  let first : Option Nat :=
    match indexOf url (lit "//") with
    | some i => some (i + 2)
    | none =>
      match indexByte url (ch ':') with
      | none => none
      | some j => if j == 0 then none else some (j - 1)      -- firstIdx - 1 (!), `< 0` ⇒ ""
  match first with
  | none => .ok []
  | some firstIdx =>
    match sliceE url firstIdx url.length with               -- url[firstIdx:]
    | .error e => .error e
    | .ok tail =>
      let nextIdx := match indexAny tail (lit "/:?") with
        | none => url.length
        | some k => k + firstIdx
      if nextIdx ≤ firstIdx then .ok []
      else sliceE url firstIdx nextIdx                       -- url[firstIdx:nextIdx]

/-- `effectiveTLDPlusOne`. -/
def effectiveTLDPlusOne (ext : Ext) (hostname : Bytes) : Except HErr Bytes :=
  let n := hostname.length
  if n < 1 then .ok [] else
  match idxE hostname 0, idxE hostname (n - 1) with           -- hostname[0], hostname[hostnameLen-1]
  | .ok c0, .ok cl =>
    if c0 == ch '.' || cl == ch '.' then .ok [] else
    let suffix := (ext.psl hostname).1
    -- i := hostnameLen - len(suffix) - 1 ; `i < 0`
    if n < suffix.length + 1 then .ok [] else
    let i := n - suffix.length - 1
    match idxE hostname i with                                -- hostname[i]
    | .error e => .error e
    | .ok ci =>
      if ci != ch '.' then .ok [] else
      match sliceE hostname 0 i with                          -- hostname[:i]
      | .error e => .error e
      | .ok pre =>
        let start := match lastIndexByte pre (ch '.') with    -- 1 + strings.LastIndex(…, ".")
          | none => 0
          | some k => k + 1
        sliceE hostname start n                               -- hostname[start:]
  | _, _ => .error .panic

/-- The cap `if len(url) > maxURLLength { url = url[:maxURLLength] }`. -/
def capURL (url : Bytes) : Except HErr Bytes :=
  if url.length > Facts.maxURLLength then sliceE url 0 Facts.maxURLLength else .ok url

/-- `domain := effectiveTLDPlusOne(h); if domain != "" { … = domain } else { … = h }`. -/
def domainOrHost (ext : Ext) (h : Bytes) : Except HErr Bytes :=
  match effectiveTLDPlusOne ext h with
  | .error e => .error e
  | .ok d => .ok (if !d.isEmpty then d else h)

/-- `NewRequest`. -/
def newRequest (ext : Ext) (url sourceURL : Bytes) (requestType : Nat) : Except HErr Request :=
  match capURL url, capURL sourceURL with
  | .ok url, .ok sourceURL =>
    match extractHostname url, extractHostname sourceURL with
    | .ok hostname, .ok sourceHostname =>
      match domainOrHost ext hostname, domainOrHost ext sourceHostname with
      | .ok domain, .ok sourceDomain =>
        .ok { reqType := requestType,
              url := url, urlLower := toLower url, hostname := hostname,
              sourceURL := sourceURL, sourceHostname := sourceHostname,
              domain := domain, sourceDomain := sourceDomain,
              thirdParty := !sourceDomain.isEmpty && sourceDomain != domain }
      | _, _ => .error .panic
    | _, _ => .error .panic
  | _, _ => .error .panic

/-- `FillRequestForHostname`: the fields it assigns; every other field of `r` is kept. -/
def fillRequestForHostname (ext : Ext) (r : Request) (hostname : Bytes) : Except HErr Request :=
  let urlStr := lit "http://" ++ hostname
  match domainOrHost ext hostname with
  | .error e => .error e
  | .ok domain =>
    .ok { r with url := urlStr, urlLower := urlStr, hostname := hostname,
                 reqType := Facts.TypeDocument, thirdParty := false, isHostnameRequest := true,
                 domain := domain }

/-- `NewRequestForHostname`. -/
def newRequestForHostname (ext : Ext) (hostname : Bytes) : Except HErr Request :=
  fillRequestForHostname ext {} hostname

end UF.H

import UF.Basic.Bytes
/-
  Model of `filterutil/hash.go`: the djb2 variant `hash = (hash * 33) ^ c` on `uint32`,
  `FastHash "" = 0`.  The lookup theorems are proved for an arbitrary pair of hash functions
  (`HashFns`) and instantiated with this one (`djb2`).
-/
namespace UF.B
open UF UF.Bytes

/-- The loop body of `FastHashBetween` folded over the bytes it visits. -/
def fastHashFrom (acc : UInt32) : Bytes → UInt32
  | [] => acc
  | c :: t => fastHashFrom ((acc * 33) ^^^ c.toUInt32) t

/-- The index loop of `FastHashBetween` with checked indexing `str[i]` (`none` = run-time panic):
    `n` iterations starting at index `i`. -/
def fastHashLoop? (s : Bytes) : (i n : Nat) → UInt32 → Option UInt32
  | _, 0, acc => some acc
  | i, n + 1, acc =>
    match s[i]? with
    | none => none
    | some c => fastHashLoop? s (i + 1) n ((acc * 33) ^^^ c.toUInt32)

/-- `FastHashBetween str begin end` with the possible index panic made explicit. -/
def fastHashBetween? (s : Bytes) (b e : Nat) : Option UInt32 := fastHashLoop? s b (e - b) 5381

/-- `FastHashBetween str begin end` on in-range arguments (see `fastHashBetween?_eq`). -/
def fastHashBetween (s : Bytes) (b e : Nat) : UInt32 := fastHashFrom 5381 ((s.drop b).take (e - b))

/-- `FastHash str`. -/
def fastHash (s : Bytes) : UInt32 := if s.isEmpty then 0 else fastHashBetween s 0 s.length

/-- The two hash entry points used by the lookup tables: `h` on a whole string (`FastHash`) and
    `hb` on a window of a string (`FastHashBetween`). -/
structure HashFns where
  h : Bytes → UInt32
  hb : Bytes → Nat → Nat → UInt32

/-- The only thing the lookup tables need from the pair: hashing a window in place gives the hash
    of the window. (No injectivity of any kind: collisions are allowed.) -/
def HashFns.Coherent (hf : HashFns) (k : Nat) : Prop :=
  ∀ (s : Bytes) (i : Nat), i + k ≤ s.length → hf.hb s i (i + k) = hf.h ((s.drop i).take k)

/-- The concrete pair of `filterutil/hash.go`. -/
def djb2 : HashFns := ⟨fastHash, fastHashBetween⟩

end UF.B

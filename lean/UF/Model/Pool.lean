import UF.Model.Rule
/-
  Models of the two pieces of hidden per-request state outside the rule cache (C13):

  * `getRequestFromPool` + `FillRequestForHostname` (dnsengine.go:138-155, rules/request.go:161-179):
    a pooled `rules.Request` is overwritten field by field;
  * `removeDNSRewriteRules` (rules/match.go:249-276) on EXPLICIT slices: a heap of backing arrays,
    a slice = (array, len, cap).  `append` writes in place when `len < cap` and copies otherwise, so the
    capacity-limited reslice `rules[:i:i]` is what keeps the caller's slice intact.
-/
namespace UF

/-- `urlfilter.DNSRequest` (the `Answer` field is never read by the engine). -/
structure DReq where
  clientIP : Option Addr := none
  clientName : Bytes := []
  hostname : Bytes := []
  sortedTags : List Bytes := []
  dnsType : Nat := 0
  deriving DecidableEq, Repr, Inhabited

/-- `rules.FillRequestForHostname(r, hostname)`; `etld1` models `effectiveTLDPlusOne` (C17). -/
def fillRequestForHostname (etld1 : Bytes → Bytes) (r : Request) (hostname : Bytes) : Request :=
  let urlStr := lit "http://" ++ hostname
  let r := { r with url := urlStr }
  let r := { r with urlLower := urlStr }
  let r := { r with hostname := hostname }
  let r := { r with reqType := Facts.TypeDocument }
  let r := { r with thirdParty := false }
  let r := { r with isHostnameRequest := true }
  let domain := etld1 r.hostname
  if domain != [] then { r with domain := domain } else { r with domain := r.hostname }

/-- `DNSEngine.getRequestFromPool` applied to the pooled value `old`. -/
def fillFromPool (etld1 : Bytes → Bytes) (old : Request) (d : DReq) : Request :=
  let req := old
  let req := { req with sourceDomain := [] }
  let req := { req with sourceHostname := [] }
  let req := { req with sourceURL := [] }
  let req := { req with sortedTags := d.sortedTags }
  let req := { req with clientIP := d.clientIP }
  let req := { req with clientName := d.clientName }
  let req := { req with dnsType := d.dnsType }
  fillRequestForHostname etld1 req d.hostname

/-- The Go names of the fields of `UF.Request`, sorted: what the model of the refill assigns.
    Compared with the generated facts (`Facts.requestFields`, `Facts.requestAssignedOnRefill`). -/
def modelRequestFields : List String :=
  ["ClientIP", "ClientName", "DNSType", "Domain", "Hostname", "IsHostnameRequest", "RequestType",
   "SortedClientTags", "SourceDomain", "SourceHostname", "SourceURL", "ThirdParty", "URL", "URLLowerCase"]

/-! ### Explicit slices -/

/-- A heap of backing arrays. -/
abbrev Heap (α : Type) := List (List α)

/-- The backing array with number `a` (empty if it does not exist). -/
def heapAt {α} (h : Heap α) (a : Nat) : List α := h.getD a []

/-- A Go slice with offset 0: backing array, length, capacity (`len ≤ cap ≤` array size). -/
structure Slice where
  arr : Nat
  len : Nat
  cap : Nat
  deriving DecidableEq, Repr, Inhabited

namespace Slice

/-- The elements a slice shows. -/
def view {α} (h : Heap α) (s : Slice) : List α := (heapAt h s.arr).take s.len

/-- `s[:i:j]` (full slice expression); `none` models the run-time panic when `i ≤ j ≤ cap` fails. -/
def reslice3 (s : Slice) (i j : Nat) : Option Slice :=
  if i ≤ j ∧ j ≤ s.cap then some { s with len := i, cap := j } else none

/-- `s[:i]` (keeps the capacity). -/
def reslice2 (s : Slice) (i : Nat) : Option Slice :=
  if i ≤ s.cap then some { s with len := i } else none

/-- `append(s, x)`: in place while there is spare capacity, otherwise a fresh array (growth factor
    irrelevant: any capacity `≥ len+1` gives the same views). -/
def append {α} (h : Heap α) (s : Slice) (x : α) : Heap α × Slice :=
  if s.len < s.cap then
    (h.set s.arr ((heapAt h s.arr).set s.len x), { s with len := s.len + 1 })
  else
    let elems := s.view h ++ [x]
    (h ++ [elems], { arr := h.length, len := s.len + 1, cap := s.len + 1 })

end Slice

/-- Well-formed slice: the array exists and is at least `cap` long, `len ≤ cap`. -/
def Slice.WF {α} (h : Heap α) (s : Slice) : Prop :=
  s.arr < h.length ∧ s.len ≤ s.cap ∧ s.cap ≤ (heapAt h s.arr).length

/-- The loop `for ; i < len(rules); i++ { if r.DNSRewrite == nil { filtered = append(filtered, r) } }`
    over the elements read from the caller's slice one at a time (each read sees the CURRENT heap, as
    in Go: an in-place append may already have overwritten the element). -/
def rewriteLoop {α} (isRw : α → Bool) (rules : Slice) : Nat → Nat → Heap α → Slice → Heap α × Slice
  | 0, _, h, f => (h, f)
  | fuel + 1, i, h, f =>
    match (heapAt h rules.arr)[i]? with
    | none => (h, f)
    | some r =>
      if i < rules.len then
        if isRw r then rewriteLoop isRw rules fuel (i + 1) h f
        else
          let (h', f') := Slice.append h f r
          rewriteLoop isRw rules fuel (i + 1) h' f'
      else (h, f)

/-- `removeDNSRewriteRules(rules)`; `limited = true` is the code (`rules[:i:i]`), `false` the variant
    `rules[:i]`.  Returns the new heap and the result slice (`none` = slice-bounds panic). -/
def removeDNSRewriteRulesS {α} (isRw : α → Bool) (limited : Bool) (h : Heap α) (rules : Slice) :
    Option (Heap α × Slice) :=
  match (rules.view h).findIdx? isRw with
  | none => some (h, rules)
  | some i =>
    match (if limited then rules.reslice3 i i else rules.reslice2 i) with
    | none => none
    | some filtered => some (rewriteLoop isRw rules (rules.len - i) i h filtered)

end UF

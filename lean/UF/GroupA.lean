-- Property files of work group A (import UF.Props.Cxx lines go here).
import UF.Driver.Ops.GroupA
import UF.Proofs.RegexFast
import UF.Proofs.RegexParse
import UF.Props.C05

import UF.Compose4.EnvOfStorage
import UF.Compose3.WebTop
import UF.Compose3.CosTop
import UF.Proofs.ProgRun
/-
  Work group P2b (REVIEW2 F12, C13 part): the query programs the machine `UF.Prog` did not have.

  `Prog.Query` is `dns | web` (`DNSEngine.MatchRequest`, `NetworkEngine.MatchAll`).  The property C13 also names
  `Engine.MatchRequest` and the cosmetic query.  Both are PROGRAMS over the same machine and the same shared state:

  * `Engine.MatchRequest(r)` (engine.go:24-35) is `networkEngine.MatchAll(r)`; then, if `r.SourceURL != ""`,
    `networkEngine.MatchAll(rules.NewRequest(r.SourceURL, "", TypeDocument))` (a NEW request object, no pool);
    then the pure `rules.NewMatchingResult`.  So it is the program "run `.web r`; run `.web (sourceReq r)`;
    combine" (`runMatchRequest`), the second `MatchAll` starting in the state the first one left (cache warm,
    lazy-compile cells set).
  * `Engine.GetCosmeticResult` → `CosmeticEngine.Match` (cosmeticengine.go:93-121).  On this tree the cosmetic
    lookup table holds the `*rules.CosmeticRule` POINTERS themselves (`byHostname map[string][]*CosmeticRule`,
    `genericRules`, `whitelist`, `wildcardRules`, filled once by `NewCosmeticEngine` from the storage scan), NOT
    storage indexes: `Match` calls no method of the storage, touches neither the rule cache nor any lazily
    computed field (`CosmeticRule.Match` reads `permittedDomains`/`restrictedDomains` only), and writes only its
    own fresh result.  (`filterlist.RuleStorage` has no `RetrieveCosmeticRule`.)  So the cosmetic query is the
    program that leaves the shared state alone and returns a function of the immutable tables
    (`QCtx.cosmetic`; on the engine of the lists: group I3's `engineCosmeticResult`).  That these tables are
    written by constructors only is the fact obligation `c14_fact_writers_constructor_only` (`frozenTypes`
    contains `CosmeticEngine`, `cosmeticLookupTable`).

  Two engines over ONE storage (an `Engine` and a `DNSEngine` built from the same `RuleStorage`, as AdGuard Home
  does) share the rule cache and the rule objects in it -- hence their lazy-compile cells -- but have their own
  lookup tables, their own sequential-table objects and (DNS engine) request pool: `World`, `runWEv`.
-/
namespace UF.Compose4
open UF UF.B UF.Prog UF.Storage UF.Compose

variable {Re : Type}

/-- The parts of `urlfilter.Engine` that are not in `Prog.Env`. -/
structure QCtx where
  /-- `rules.NewRequest(r.SourceURL, "", rules.TypeDocument)` -/
  sourceReq : Request → Request
  /-- `CosmeticEngine.Match` after the flag decoding of `GetCosmeticResult`: a function of the immutable
      in-memory cosmetic tables -/
  cosmetic : Bytes → CosOpt → List Bytes × List Bytes

/-- An event of a history on the engines. -/
inductive QEv where
  /-- `DNSEngine.MatchRequest` -/
  | dns (d : DReq)
  /-- `NetworkEngine.MatchAll` -/
  | web (r : Request)
  /-- `Engine.MatchRequest` -/
  | matchRequest (r : Request)
  /-- `Engine.GetCosmeticResult` -/
  | cosmetic (hostname : Bytes) (opt : CosOpt)
  deriving Repr, Inhabited

/-- What an event answers. -/
inductive QAns where
  | rules (a : List Rule × List Rule)
  | result (m : MatchingResult)
  | cosmetic (c : List Bytes × List Bytes)
  deriving DecidableEq, Repr

/-- `Engine.MatchRequest(r)` as a program of the machine: two `MatchAll` runs on the shared state, then
    `NewMatchingResult`. -/
def runMatchRequest (env : Env Rule Re) (cx : QCtx) (s : State Rule Re) (r : Request) :
    State Rule Re × MatchingResult :=
  let p1 := runQuery env s (.web r)
  if r.sourceURL != [] then
    let p2 := runQuery env p1.1 (.web (cx.sourceReq r))
    (p2.1, newMatchingResult (netRulesOf p1.2.answer.1) (netRulesOf p2.2.answer.1))
  else (p1.1, newMatchingResult (netRulesOf p1.2.answer.1) [])

/-- One event on the shared state. -/
def runQEv (env : Env Rule Re) (cx : QCtx) (s : State Rule Re) : QEv → State Rule Re × QAns
  | .dns d => let p := runQuery env s (.dns d); (p.1, .rules p.2.answer)
  | .web r => let p := runQuery env s (.web r); (p.1, .rules p.2.answer)
  | .matchRequest r => let p := runMatchRequest env cx s r; (p.1, .result p.2)
  | .cosmetic h o => (s, .cosmetic (cx.cosmetic h o))

/-- A history of events; the answers in order. -/
def runQHistory (env : Env Rule Re) (cx : QCtx) : State Rule Re → List QEv → State Rule Re × List QAns
  | s, [] => (s, [])
  | s, e :: rest =>
    let p := runQEv env cx s e
    let q := runQHistory env cx p.1 rest
    (q.1, p.2 :: q.2)

/-- `Engine.MatchRequest` computed statelessly (no cache, no cells). -/
def pureMatchRequest (env : Env Rule Re) (cx : QCtx) (r : Request) : MatchingResult :=
  newMatchingResult (netRulesOf (pureAnswer env (.web r)).1)
    (if r.sourceURL != [] then netRulesOf (pureAnswer env (.web (cx.sourceReq r))).1 else [])

/-- The stateless answer of an event. -/
def pureQAns (env : Env Rule Re) (cx : QCtx) : QEv → QAns
  | .dns d => .rules (pureAnswer env (.dns d))
  | .web r => .rules (pureAnswer env (.web r))
  | .matchRequest r => .result (pureMatchRequest env cx r)
  | .cosmetic h o => .cosmetic (cx.cosmetic h o)

/-- What every event preserves when no list is closed. -/
def Clean (env : Env Rule Re) (s : State Rule Re) : Prop := SInv env s ∧ s.closed = []

theorem clean_init (env : Env Rule Re) : Clean env ({} : State Rule Re) := ⟨sinv_init env, rfl⟩

theorem runQuery_pure {env : Env Rule Re} {s : State Rule Re} (q : Query) (h : Clean env s) :
    (runQuery env s q).2.answer = pureAnswer env q ∧ Clean env (runQuery env s q).1 := by
  have hg := runQuery_good q h.1
  have he := runQuery_goodEq q h.1 h.2
  refine ⟨?_, hg.1, by rw [runQuery_closed]; exact h.2⟩
  rw [answer_of_goodEq hg.2.1.1 he hg.2.2, runQuery_q]

theorem runMatchRequest_pure {env : Env Rule Re} (cx : QCtx) {s : State Rule Re} (r : Request) (h : Clean env s) :
    (runMatchRequest env cx s r).2 = pureMatchRequest env cx r ∧ Clean env (runMatchRequest env cx s r).1 := by
  obtain ⟨a1, c1⟩ := runQuery_pure (.web r) h
  obtain ⟨a2, c2⟩ := runQuery_pure (.web (cx.sourceReq r)) c1
  unfold runMatchRequest pureMatchRequest
  simp only
  split
  · exact ⟨by rw [a1, a2], c2⟩
  · exact ⟨by rw [a1], c1⟩

theorem runQEv_pure {env : Env Rule Re} (cx : QCtx) {s : State Rule Re} (e : QEv) (h : Clean env s) :
    (runQEv env cx s e).2 = pureQAns env cx e ∧ Clean env (runQEv env cx s e).1 := by
  cases e with
  | dns d => obtain ⟨a, c⟩ := runQuery_pure (.dns d) h; exact ⟨by simp only [runQEv, pureQAns, a], c⟩
  | web r => obtain ⟨a, c⟩ := runQuery_pure (.web r) h; exact ⟨by simp only [runQEv, pureQAns, a], c⟩
  | matchRequest r =>
    obtain ⟨a, c⟩ := runMatchRequest_pure cx r h; exact ⟨by simp only [runQEv, pureQAns, a], c⟩
  | cosmetic hn o => exact ⟨rfl, h⟩

theorem runQHistory_pure {env : Env Rule Re} (cx : QCtx) (es : List QEv) : ∀ {s : State Rule Re}, Clean env s →
    (runQHistory env cx s es).2 = es.map (pureQAns env cx) ∧ Clean env (runQHistory env cx s es).1 := by
  induction es with
  | nil => intro s h; exact ⟨rfl, h⟩
  | cons e rest ih =>
    intro s h
    obtain ⟨a, c⟩ := runQEv_pure cx e h
    obtain ⟨a', c'⟩ := ih c
    exact ⟨by simp only [runQHistory, List.map_cons, a, a'], c'⟩

/-! ### on the engine of the lists -/

/-- The `Engine` of engine.go over the lists: the referrer request of group H/I3, the cosmetic engine of
    groups B/I1/I3 built from the storage scan. -/
def engineCtx (px : E.ParseExt) (lists : List RList) : QCtx :=
  ⟨Compose3.sourceRequestOf px.ext, Compose3.engineCosmeticResult px lists⟩

theorem netRules_pureAnswer_envNet (io : IO) (px : E.ParseExt) (lists : List RList) (pm : PatModel Re)
    (hpat : px.ext.pat = pm.pat) (st : RuleStorage) (hnew : newRuleStorage lists = some st)
    (history : List (BitVec 64)) (q : Request) :
    netRulesOf (pureAnswer (envNet io px lists pm) (.web q)).1 = Compose3.netMatchAll io px lists st history q := by
  rw [pureAnswer_envNet io px lists pm hpat st hnew history, netAnswer_web]
  simp only [netRulesOf_map_net]
  rfl

/-- The stateless `MatchRequest` on the machine instantiated with the network engine of the lists IS group I3's
    model of `Engine.MatchRequest` (`MatchAll`, `MatchAll` of the referrer, `NewMatchingResult`), whatever
    reachable cache states `history`, `history'` the two `MatchAll` calls find the storage in. -/
theorem pureMatchRequest_envNet (io : IO) (px : E.ParseExt) (lists : List RList) (pm : PatModel Re)
    (hpat : px.ext.pat = pm.pat) (st : RuleStorage) (hnew : newRuleStorage lists = some st)
    (history history' : List (BitVec 64)) (r : Request) :
    pureMatchRequest (envNet io px lists pm) (engineCtx px lists) r =
      Compose3.engineMatch io px lists st history history' r := by
  unfold pureMatchRequest Compose3.engineMatch
  simp only [engineCtx]
  rw [netRules_pureAnswer_envNet io px lists pm hpat st hnew history,
    netRules_pureAnswer_envNet io px lists pm hpat st hnew history']

/-- What the engine models of groups B/C/I3 answer for an event, from the bytes of the lists. -/
def engineQAns (io : IO) (px : E.ParseExt) (lists : List RList) (st : RuleStorage)
    (history history' : List (BitVec 64)) : QEv → QAns
  | .dns d => .rules (netAnswer io px lists st history (.dns d))
  | .web r => .rules (netAnswer io px lists st history (.web r))
  | .matchRequest r => .result (Compose3.engineMatch io px lists st history history' r)
  | .cosmetic h o => .cosmetic (Compose3.engineCosmeticResult px lists h o)

theorem pureQAns_envNet (io : IO) (px : E.ParseExt) (lists : List RList) (pm : PatModel Re)
    (hpat : px.ext.pat = pm.pat) (st : RuleStorage) (hnew : newRuleStorage lists = some st)
    (history history' : List (BitVec 64)) (e : QEv) :
    pureQAns (envNet io px lists pm) (engineCtx px lists) e = engineQAns io px lists st history history' e := by
  cases e with
  | dns d => simp only [pureQAns, engineQAns, pureAnswer_envNet io px lists pm hpat st hnew history]
  | web r => simp only [pureQAns, engineQAns, pureAnswer_envNet io px lists pm hpat st hnew history]
  | matchRequest r =>
    simp only [pureQAns, engineQAns, pureMatchRequest_envNet io px lists pm hpat st hnew history history']
  | cosmetic h o => rfl

/-! ### two engines over one storage -/

/-- `to` sees the shared part of the state (rule cache, fault state, the lazy-compile cells of the cached rule
    objects) as `frm` left it, and keeps its own part (cells of its sequential table, request pool). -/
def share (frm to : State Rule Re) : State Rule Re :=
  { cache := frm.cache, closed := frm.closed,
    cells := fun ob => match ob with
      | .st _ => frm.cells ob
      | .seq _ => to.cells ob,
    pool := to.pool }

/-- Two environments read the same storage: same content, same compile function. -/
def SameStorage (e1 e2 : Env Rule Re) : Prop := e1.truth = e2.truth ∧ e1.compile = e2.compile

/-- The shared-state invariant transfers between engines over the same storage. -/
theorem clean_share {e1 e2 : Env Rule Re} (hss : SameStorage e1 e2) {s1 s2 : State Rule Re}
    (h1 : Clean e1 s1) (h2 : Clean e2 s2) : Clean e2 (share s1 s2) := by
  refine ⟨⟨?_, ?_⟩, h1.2⟩
  · intro idx r hm
    rw [← hss.1]; exact h1.1.1 idx r hm
  · intro ob
    cases ob with
    | st idx =>
      rcases h1.1.2 (.st idx) with h | ⟨r, hr, hc⟩
      · exact Or.inl h
      · refine Or.inr ⟨r, ?_, ?_⟩
        · simp only [Env.objRule] at hr ⊢; rw [← hss.1]; exact hr
        · show s1.cells (.st idx) = _; rw [← hss.2]; exact hc
    | seq k => exact h2.1.2 (.seq k)

/-- The state of an `Engine` and a `DNSEngine` built over ONE `RuleStorage`: each component is the machine
    state as that engine sees it; the shared part of the two is kept equal (`runWEv` copies it over after
    every event). -/
structure World (Re : Type) where
  web : State Rule Re := {}
  dns : State Rule Re := {}

/-- One event: DNS queries run on the DNS engine (`envD`), the others on the `Engine` (`envN`). -/
def runWEv (envN envD : Env Rule Re) (cx : QCtx) (w : World Re) : QEv → World Re × QAns
  | .dns d => let p := runQEv envD cx w.dns (.dns d); (⟨share p.1 w.web, p.1⟩, p.2)
  | e => let p := runQEv envN cx w.web e; (⟨p.1, share p.1 w.dns⟩, p.2)

def runWHistory (envN envD : Env Rule Re) (cx : QCtx) : World Re → List QEv → World Re × List QAns
  | w, [] => (w, [])
  | w, e :: rest =>
    let p := runWEv envN envD cx w e
    let q := runWHistory envN envD cx p.1 rest
    (q.1, p.2 :: q.2)

/-- The stateless answers of the two engines. -/
def pureWAns (envN envD : Env Rule Re) (cx : QCtx) : QEv → QAns
  | .dns d => pureQAns envD cx (.dns d)
  | e => pureQAns envN cx e

theorem runWEv_pure {envN envD : Env Rule Re} (hss : SameStorage envN envD) (cx : QCtx) {w : World Re} (e : QEv)
    (hn : Clean envN w.web) (hd : Clean envD w.dns) :
    (runWEv envN envD cx w e).2 = pureWAns envN envD cx e ∧
      Clean envN (runWEv envN envD cx w e).1.web ∧ Clean envD (runWEv envN envD cx w e).1.dns := by
  have hss' : SameStorage envD envN := ⟨hss.1.symm, hss.2.symm⟩
  cases e with
  | dns d =>
    obtain ⟨a, c⟩ := runQEv_pure cx (.dns d) hd
    exact ⟨a, clean_share hss' c hn, c⟩
  | web r =>
    obtain ⟨a, c⟩ := runQEv_pure cx (.web r) hn
    exact ⟨a, c, clean_share hss c hd⟩
  | matchRequest r =>
    obtain ⟨a, c⟩ := runQEv_pure cx (.matchRequest r) hn
    exact ⟨a, c, clean_share hss c hd⟩
  | cosmetic h o =>
    obtain ⟨a, c⟩ := runQEv_pure cx (.cosmetic h o) hn
    exact ⟨a, c, clean_share hss c hd⟩

theorem runWHistory_pure {envN envD : Env Rule Re} (hss : SameStorage envN envD) (cx : QCtx) (es : List QEv) :
    ∀ {w : World Re}, Clean envN w.web → Clean envD w.dns →
      (runWHistory envN envD cx w es).2 = es.map (pureWAns envN envD cx) := by
  induction es with
  | nil => intro w _ _; rfl
  | cons e rest ih =>
    intro w hn hd
    obtain ⟨a, cn, cd⟩ := runWEv_pure hss cx e hn hd
    simp only [runWHistory, List.map_cons, a, ih cn cd]

/-- What the engine models answer from the bytes of the lists for the pair (`Engine`, `DNSEngine`): DNS events on
    the DNS engine of the lists (hosts table, host-level network rules), the others on the `Engine`. -/
def worldQAns (io : IO) (px : E.ParseExt) (lists : List RList) (st : RuleStorage)
    (history history' : List (BitVec 64)) : QEv → QAns
  | .dns d => .rules (dnsAnswer io px lists st history (.dns d))
  | e => engineQAns io px lists st history history' e

theorem sameStorage_envNet_envDns (io : IO) (px : E.ParseExt) (lists : List RList) (pm : PatModel Re) :
    SameStorage (envNet io px lists pm) (envDns io px lists pm) := ⟨rfl, rfl⟩

end UF.Compose4

import UF.Model.DnsEngine
import UF.Spec.DnsEngine
import UF.Proofs.ProgCached
/-
  Integration (group J): the abstract environment `Prog.Env` of the state machine of C13/C14/C19
  INSTANTIATED with group B's engine models.

    cands q    = for every window of the lower-cased URL the bucket of the shortcuts table (`true, idx`), then
                 for every dot-suffix of the source hostname the bucket of the domains table (`false, idx`) --
                 in the order `NetworkEngine.MatchAll` visits them;
    hcands q   = the bucket of the DNS engine's hosts table for the request's hostname;
    resident   = the rules of the sequential table;
    truth      = the retrieval function (parameter here; group D's storage in `EnvOfStorage.lean`);
    wants      = the type assertions of `RetrieveNetworkRule` / `RetrieveHostRule`;
    pre        = the nine stateless checks of `NetworkRule.Match` / all of `HostRule.Match`;
    compile, accepts = a model `PatModel` of `preparePattern` + `MatchString`; `NetRule.matches` with the
                 pattern oracle `pm.pat` is `pre && patOK`;
    basic      = `GetDNSBasicRule(...) != nil`.

  `pure_net_eq`: the stateless answer of the state machine on this environment IS `Engine.matchAll` (as lists:
  the `ruleIn` de-duplication is part of both); `dnsResultOf_engineAnswer`: for a DNS query it assembles to
  `DnsEngine.matchRequest`.
-/
namespace UF.Compose4
open UF UF.B UF.Prog UF.Bytes

/-- A model of `preparePattern` (pattern, `$match-case` ↦ what is stored) and `regex.MatchString`. -/
structure PatModel (Re : Type) where
  compile : (pattern : Bytes) → (matchCase : Bool) → Comp Re
  accepts : Re → (target : Bytes) → Bool

/-- The pattern oracle a `PatModel` stands for (status 0 ⇒ true, -1 ⇒ false, 1 ⇒ `MatchString`). -/
def PatModel.pat {Re} (pm : PatModel Re) (pattern : Bytes) (matchCase : Bool) (target : Bytes) : Bool :=
  match pm.compile pattern matchCase with
  | .any => true
  | .re x => pm.accepts x target
  | .bad => false

/-- Every pattern oracle is a `PatModel` (the compiled object is the pair it was compiled from), so theorems
    stated "for every `pm` with `ext.pat = pm.pat`" cover every `ext`. -/
def PatModel.ofOracle (pat : Bytes → Bool → Bytes → Bool) : PatModel (Bytes × Bool) :=
  ⟨fun p mc => .re (p, mc), fun x t => pat x.1 x.2 t⟩

theorem PatModel.ofOracle_pat (pat : Bytes → Bool → Bytes → Bool) : (PatModel.ofOracle pat).pat = pat := rfl

/-- The nine checks of `NetworkRule.Match` before `matchPattern`. -/
def preNet (ext : Ext) (r : NetRule) (q : Request) : Bool :=
  matchShortcut r q &&
  !(r.isEnabled Facts.OptionThirdParty && !q.thirdParty) &&
  !(r.isDisabled Facts.OptionThirdParty && q.thirdParty) &&
  matchRequestType r q.reqType &&
  matchRequestDomain ext r q.hostname q.isHostnameRequest &&
  matchSourceDomain ext r q.sourceHostname &&
  matchDNSType r q.dnsType &&
  matchClientTags r q.sortedTags &&
  matchClient r q.clientName q.clientIP

theorem matches_eq_pre (ext : Ext) (r : NetRule) (q : Request) :
    r.matches ext q = (preNet ext r q && matchPattern ext r q) := rfl

/-- What `matchPattern` hands to `MatchString`. -/
def patTarget (r : NetRule) (q : Request) : Bytes := if shouldMatchHostname r q then q.hostname else q.url

/-- Candidates of the shortcuts table, in visiting order. -/
def scCands (hf : HashFns) (k : Nat) (t : ShortcutsTable) (url : Bytes) : List Int :=
  (List.range (url.length + 1 - k)).flatMap fun i => hget [] t.lookup (hf.hb url i (i + k))

/-- Candidates of the domains table, in visiting order. -/
def domCands (hf : HashFns) (t : DomainsTable) (srcHost : Bytes) : List Int :=
  if srcHost.isEmpty then [] else (getSubdomains srcHost).flatMap fun d => hget [] t.lookup (hf.h d)

def wantsOf : Src → Rule → Bool
  | .sc, .net _ => true
  | .dom, .net _ => true
  | .host, .host _ => true
  | _, _ => false

/-- The environment of a DNS engine (a network engine `e` alone is `⟨e, []⟩` with `web` queries). -/
def envOf {Re : Type} (hf : HashFns) (k : Nat) (truth : Int → Option Rule) (listOf : Int → Int) (etld1 : Bytes → Bytes)
    (ext : Ext) (pm : PatModel Re) (basic : List NetRule → Option NetRule) (d : DnsEngine) : Env Rule Re where
  truth := truth
  listOf := listOf
  etld1 := etld1
  cands := fun q => (scCands hf k d.net.sc q.urlLower).map (fun i => (true, i)) ++
    (domCands hf d.net.dom q.sourceHostname).map (fun i => (false, i))
  hcands := fun q => hget [] d.hosts (hf.h q.hostname)
  basic := fun rs => (basic (netRulesOf rs)).isSome
  wants := wantsOf
  pre := fun r q => match r with
    | .net n => preNet ext n q
    | .host h => hostRuleMatches h q.hostname
    | .cos _ => false
  compile := fun r => match r with
    | .net n => pm.compile n.pattern (n.isEnabled Facts.OptionMatchCase)
    | _ => .any
  accepts := fun x r q => match r with
    | .net n => pm.accepts x (patTarget n q)
    | _ => true
  resident := d.net.seq.map Rule.net

/-- What the engine models answer for a query: `NetworkEngine.MatchAll`, or the two stages of
    `DNSEngine.MatchRequest` (network rules; host rules of the hosts table unless a basic rule was found). -/
def engineAnswer (hf : HashFns) (k : Nat) (truth : Int → Option Rule) (etld1 : Bytes → Bytes) (ext : Ext)
    (basic : List NetRule → Option NetRule) (d : DnsEngine) : Query → List Rule × List Rule
  | .web q => ((d.net.matchAll hf k (retrieveNet truth) ext q).map Rule.net, [])
  | .dns dr =>
    if dr.hostname.isEmpty then ([], [])
    else
      let q := fillFromPool etld1 default dr
      let nrs := d.net.matchAll hf k (retrieveNet truth) ext q
      (nrs.map Rule.net, if (basic nrs).isSome then [] else (d.matchLookupTable hf truth q.hostname).map Rule.host)

/-- `DNSResult` assembled from (network rules, host rules). -/
def dnsResultOf (basic : List NetRule → Option NetRule) (a : List Rule × List Rule) : DnsResult :=
  let nrs := netRulesOf a.1
  match basic nrs with
  | some r => { networkRules := nrs, networkRule := some r, matched := true }
  | none =>
    let rr := hostRulesOf a.2
    if rr.isEmpty then { networkRules := nrs }
    else { networkRules := nrs, v4 := rr.filter (·.ip.is4), v6 := rr.filter (!·.ip.is4), matched := true }

/-! ### `Match` on the instance -/

variable {Re : Type}

theorem envOf_mtch_net (hf : HashFns) (k : Nat) (truth : Int → Option Rule) (listOf : Int → Int) (etld1 : Bytes → Bytes)
    (ext : Ext) (pm : PatModel Re) (basic : List NetRule → Option NetRule) (d : DnsEngine)
    (hpat : ext.pat = pm.pat) (n : NetRule) (q : Request) :
    (envOf hf k truth listOf etld1 ext pm basic d).mtch (.net n) q = n.matches ext q := by
  rw [matches_eq_pre]
  simp only [Env.mtch, Env.patOK, envOf, matchPattern, hpat, PatModel.pat, patTarget]
  cases pm.compile n.pattern (n.isEnabled Facts.OptionMatchCase) <;> rfl

theorem netRulesOf_map_net (l : List NetRule) : netRulesOf (l.map Rule.net) = l := by
  induction l with
  | nil => rfl
  | cons a t ih => simp only [List.map_cons, netRulesOf, List.filterMap_cons]; simpa [netRulesOf] using ih

theorem hostRulesOf_map_host (l : List HostRule) : hostRulesOf (l.map Rule.host) = l := by
  induction l with
  | nil => rfl
  | cons a t ih => simp only [List.map_cons, hostRulesOf, List.filterMap_cons]; simpa [hostRulesOf] using ih

/-! ### what the three tables do with a non-nil pointer -/

theorem useStep_sc {R Re : Type} (env : Env R Re) (q : Request) (acc : List (Item × R)) (idx : Int) (r : R) :
    useStep env q acc .sc idx (some r) =
      if Prog.ruleIn idx acc then acc else if env.mtch r q then acc ++ [(Item.st .sc idx, r)] else acc := by
  simp only [useStep, Env.verdict, show (Src.sc == Src.sc) = true from rfl, show (Src.sc == Src.host) = false from rfl,
    Bool.true_and, Bool.false_eq_true, if_false]

theorem useStep_dom {R Re : Type} (env : Env R Re) (q : Request) (acc : List (Item × R)) (idx : Int) (r : R) :
    useStep env q acc .dom idx (some r) = if env.mtch r q then acc ++ [(Item.st .dom idx, r)] else acc := by
  simp only [useStep, Env.verdict, show (Src.dom == Src.sc) = false from rfl, show (Src.dom == Src.host) = false from rfl,
    Bool.false_and, Bool.false_eq_true, if_false]

theorem useStep_host {R Re : Type} (env : Env R Re) (q : Request) (acc : List (Item × R)) (idx : Int) (r : R) :
    useStep env q acc .host idx (some r) = if env.pre r q then acc ++ [(Item.st .host idx, r)] else acc := by
  simp only [useStep, Env.verdict, show (Src.host == Src.sc) = false from rfl, show (Src.host == Src.host) = true from rfl,
    Bool.false_and, Bool.false_eq_true, if_false, if_true]

theorem useStep_none {R Re : Type} (env : Env R Re) (q : Request) (acc : List (Item × R)) (src : Src) (idx : Int) :
    useStep env q acc src idx none = acc := rfl

/-! ### the stateless fold on the instance is `MatchAll` -/

section
variable (hf : HashFns) (k : Nat) (truth : Int → Option Rule) (listOf : Int → Int) (etld1 : Bytes → Bytes)
  (ext : Ext) (pm : PatModel Re) (basic : List NetRule → Option NetRule) (d : DnsEngine) (hpat : ext.pat = pm.pat)
  (q : Request)

/-- results of the shortcuts table, tagged -/
def tagSc (res : List (Int × NetRule)) : List (Item × Rule) := res.map fun p => (Item.st .sc p.1, Rule.net p.2)

theorem item_sc_beq (a b : Int) : (Item.st Src.sc a == Item.st Src.sc b) = (a == b) := by
  by_cases h : a = b
  · subst h; simp
  · rw [beq_eq_false_iff_ne.2 h, beq_eq_false_iff_ne.2 (fun h' => h (by injection h'))]

theorem ruleIn_tagSc (idx : Int) (res : List (Int × NetRule)) : Prog.ruleIn idx (tagSc res) = B.ruleIn idx res := by
  induction res with
  | nil => rfl
  | cons p rest ih =>
    simp only [Prog.ruleIn, tagSc, B.ruleIn, List.map_cons, List.any_cons] at ih ⊢
    rw [ih, item_sc_beq]

include hpat in
theorem pureStep_sc (res : List (Int × NetRule)) (idx : Int) :
    pureStep (envOf hf k truth listOf etld1 ext pm basic d) q (tagSc res) (.st .sc idx) =
      tagSc (scStep (retrieveNet truth) (fun r => r.matches ext q) res idx) := by
  have hm := envOf_mtch_net hf k truth listOf etld1 ext pm basic d hpat
  simp only [pureStep, scStep, retrieveNet]
  cases htr : truth idx with
  | none => simp [envOf, htr, useStep]
  | some r =>
    cases r with
    | net n =>
      have hf' : ((envOf hf k truth listOf etld1 ext pm basic d).truth idx).filter
          ((envOf hf k truth listOf etld1 ext pm basic d).wants .sc) = some (.net n) := by
        simp [envOf, htr, Option.filter, wantsOf]
      rw [hf', useStep_sc, ruleIn_tagSc, hm]
      by_cases hin : B.ruleIn idx res = true
      · simp [hin]
      · by_cases hmm : n.matches ext q = true
        · simp [hin, hmm, tagSc]
        · simp [hin, hmm]
    | host h =>
      have hf' : ((envOf hf k truth listOf etld1 ext pm basic d).truth idx).filter
          ((envOf hf k truth listOf etld1 ext pm basic d).wants .sc) = none := by
        simp [envOf, htr, Option.filter, wantsOf]
      rw [hf']; rfl
    | cos c =>
      have hf' : ((envOf hf k truth listOf etld1 ext pm basic d).truth idx).filter
          ((envOf hf k truth listOf etld1 ext pm basic d).wants .sc) = none := by
        simp [envOf, htr, Option.filter, wantsOf]
      rw [hf']; rfl

include hpat in
theorem pureFold_sc_bucket (bucket : List Int) : ∀ (res : List (Int × NetRule)),
    pureFold (envOf hf k truth listOf etld1 ext pm basic d) q (tagSc res) (bucket.map (Item.st .sc)) =
      tagSc (bucket.foldl (scStep (retrieveNet truth) (fun r => r.matches ext q)) res) := by
  induction bucket with
  | nil => intro res; rfl
  | cons i rest ih =>
    intro res
    simp only [List.map_cons, pureFold_cons, List.foldl_cons]
    rw [pureStep_sc hf k truth listOf etld1 ext pm basic d hpat q, ih]

include hpat in
theorem pureFold_sc (ws : List Nat) (url : Bytes) (t : ShortcutsTable) : ∀ (res : List (Int × NetRule)),
    pureFold (envOf hf k truth listOf etld1 ext pm basic d) q (tagSc res)
        ((ws.flatMap fun i => hget [] t.lookup (hf.hb url i (i + k))).map (Item.st .sc)) =
      tagSc (ws.foldl (fun res i => (hget [] t.lookup (hf.hb url i (i + k))).foldl
        (scStep (retrieveNet truth) (fun r => r.matches ext q)) res) res) := by
  induction ws with
  | nil => intro res; rfl
  | cons w rest ih =>
    intro res
    simp only [List.flatMap_cons, List.map_append, pureFold_append, List.foldl_cons]
    rw [pureFold_sc_bucket hf k truth listOf etld1 ext pm basic d hpat q, ih]

/-- Items of the domains table and of the sequential table do not look at what was collected before. -/
theorem pureStep_append_of_not_sc (env : Env Rule Re) (acc : List (Item × Rule)) (it : Item)
    (h : ∀ idx, it ≠ .st .sc idx) : pureStep env q acc it = acc ++ pureStep env q [] it := by
  cases it with
  | st src idx =>
    have hs : (src == Src.sc) = false := by
      cases src with
      | sc => exact absurd rfl (h idx)
      | dom => rfl
      | host => rfl
    simp only [pureStep, useStep, hs, Bool.false_and, Bool.false_eq_true, if_false]
    split
    · simp
    · split <;> simp
  | seq j =>
    simp only [pureStep, seqStep]
    split
    · simp
    · split <;> simp

theorem pureFold_append_of_not_sc (env : Env Rule Re) (items : List Item) (h : ∀ it ∈ items, ∀ idx, it ≠ .st .sc idx) :
    ∀ (acc : List (Item × Rule)), pureFold env q acc items = acc ++ pureFold env q [] items := by
  induction items with
  | nil => intro acc; simp [pureFold_nil]
  | cons it rest ih =>
    intro acc
    have h1 := h it (List.mem_cons_self)
    have h2 : ∀ it' ∈ rest, ∀ idx, it' ≠ .st .sc idx := fun it' hi => h it' (List.mem_cons_of_mem _ hi)
    rw [pureFold_cons, pureStep_append_of_not_sc q env acc it h1, ih h2, pureFold_cons, ih h2 (pureStep env q [] it)]
    simp [List.append_assoc]

include hpat in
/-- One bucket of the domains table. -/
theorem pureFold_dom_bucket (bucket : List Int) :
    (pureFold (envOf hf k truth listOf etld1 ext pm basic d) q [] (bucket.map (Item.st .dom))).map (·.2) =
      (bucket.filterMap (retrieveMatching (retrieveNet truth) (fun r => r.matches ext q))).map Rule.net ∧
    ∀ e ∈ pureFold (envOf hf k truth listOf etld1 ext pm basic d) q [] (bucket.map (Item.st .dom)), e.1.isHost = false := by
  have hm := envOf_mtch_net hf k truth listOf etld1 ext pm basic d hpat
  induction bucket with
  | nil => exact ⟨rfl, fun e he => by cases he⟩
  | cons i rest ih =>
    simp only [List.map_cons, pureFold_cons]
    rw [pureFold_append_of_not_sc q _ _ (by
      intro it hit idx; simp only [List.mem_map] at hit; obtain ⟨j, _, rfl⟩ := hit; simp)]
    have hstep : (pureStep (envOf hf k truth listOf etld1 ext pm basic d) q [] (.st .dom i)).map (·.2) =
          ((retrieveMatching (retrieveNet truth) (fun r => r.matches ext q) i).toList).map Rule.net ∧
        ∀ e ∈ pureStep (envOf hf k truth listOf etld1 ext pm basic d) q [] (.st .dom i), e.1.isHost = false := by
      simp only [pureStep, retrieveMatching, retrieveNet]
      cases htr : truth i with
      | none => simp [envOf, htr, useStep]
      | some r =>
        cases r with
        | net n =>
          have hf' : ((envOf hf k truth listOf etld1 ext pm basic d).truth i).filter
              ((envOf hf k truth listOf etld1 ext pm basic d).wants .dom) = some (.net n) := by
            simp [envOf, htr, Option.filter, wantsOf]
          rw [hf', useStep_dom, hm]
          by_cases hmm : n.matches ext q = true
          · simp [hmm, Item.isHost]
          · simp [hmm]
        | host h =>
          have hf' : ((envOf hf k truth listOf etld1 ext pm basic d).truth i).filter
              ((envOf hf k truth listOf etld1 ext pm basic d).wants .dom) = none := by
            simp [envOf, htr, Option.filter, wantsOf]
          rw [hf']; simp [useStep]
        | cos c =>
          have hf' : ((envOf hf k truth listOf etld1 ext pm basic d).truth i).filter
              ((envOf hf k truth listOf etld1 ext pm basic d).wants .dom) = none := by
            simp [envOf, htr, Option.filter, wantsOf]
          rw [hf']; simp [useStep]
    refine ⟨?_, ?_⟩
    · rw [List.map_append, hstep.1, ih.1, List.filterMap_cons]
      cases retrieveMatching (retrieveNet truth) (fun r => r.matches ext q) i <;> simp
    · intro e he
      rcases List.mem_append.1 he with he | he
      · exact hstep.2 e he
      · exact ih.2 e he

include hpat in
theorem pureFold_dom (doms : List Bytes) (t : DomainsTable) :
    (pureFold (envOf hf k truth listOf etld1 ext pm basic d) q []
        ((doms.flatMap fun dm => hget [] t.lookup (hf.h dm)).map (Item.st .dom))).map (·.2) =
      (doms.flatMap fun dm => (hget [] t.lookup (hf.h dm)).filterMap
        (retrieveMatching (retrieveNet truth) (fun r => r.matches ext q))).map Rule.net ∧
    ∀ e ∈ pureFold (envOf hf k truth listOf etld1 ext pm basic d) q []
        ((doms.flatMap fun dm => hget [] t.lookup (hf.h dm)).map (Item.st .dom)), e.1.isHost = false := by
  induction doms with
  | nil => exact ⟨rfl, fun e he => by cases he⟩
  | cons dm rest ih =>
    simp only [List.flatMap_cons, List.map_append, pureFold_append]
    rw [pureFold_append_of_not_sc q _ _ (by
      intro it hit idx; simp only [List.mem_map] at hit; obtain ⟨j, _, rfl⟩ := hit; simp)]
    have hb := pureFold_dom_bucket hf k truth listOf etld1 ext pm basic d hpat q (hget [] t.lookup (hf.h dm))
    refine ⟨by rw [List.map_append, hb.1, ih.1], ?_⟩
    intro e he
    rcases List.mem_append.1 he with he | he
    · exact hb.2 e he
    · exact ih.2 e he

include hpat in
/-- The sequential table: entries `pre.length …` of `pre ++ l`. -/
theorem pureFold_seq (l : List NetRule) : ∀ (pre : List NetRule), d.net.seq = pre ++ l →
    (pureFold (envOf hf k truth listOf etld1 ext pm basic d) q []
        ((List.range' pre.length l.length).map Item.seq)).map (·.2) =
      (l.filter (fun r => r.matches ext q)).map Rule.net ∧
    ∀ e ∈ pureFold (envOf hf k truth listOf etld1 ext pm basic d) q []
        ((List.range' pre.length l.length).map Item.seq), e.1.isHost = false := by
  have hm := envOf_mtch_net hf k truth listOf etld1 ext pm basic d hpat
  induction l with
  | nil => intro pre _; exact ⟨rfl, fun e he => by cases he⟩
  | cons a t ih =>
    intro pre hseq
    have hres : (envOf hf k truth listOf etld1 ext pm basic d).resident[pre.length]? = some (Rule.net a) := by
      simp [envOf, hseq]
    have ih' := ih (pre ++ [a]) (by simp [hseq])
    simp only [List.length_append, List.length_singleton] at ih'
    simp only [List.length_cons, List.range'_succ, List.map_cons, pureFold_cons]
    rw [pureFold_append_of_not_sc q _ _ (by
      intro it hit idx; simp only [List.mem_map] at hit; obtain ⟨j, _, rfl⟩ := hit; simp)]
    have hstep : (pureStep (envOf hf k truth listOf etld1 ext pm basic d) q [] (.seq pre.length)).map (·.2) =
          ([a].filter (fun r => r.matches ext q)).map Rule.net ∧
        ∀ e ∈ pureStep (envOf hf k truth listOf etld1 ext pm basic d) q [] (.seq pre.length), e.1.isHost = false := by
      simp only [pureStep, seqStep, hres, hm]
      by_cases hmm : a.matches ext q = true
      · simp [hmm, Item.isHost]
      · simp [hmm]
    refine ⟨?_, ?_⟩
    · rw [List.map_append, hstep.1, ih'.1]
      simp only [List.filter_cons, List.filter_nil]
      cases a.matches ext q <;> simp
    · intro e he
      rcases List.mem_append.1 he with he | he
      · exact hstep.2 e he
      · exact ih'.2 e he

theorem nets_of_not_host (acc : List (Item × Rule)) (h : ∀ e ∈ acc, e.1.isHost = false) : nets acc = acc.map (·.2) := by
  simp only [nets]
  rw [List.filter_eq_self.2 (fun e he => by simp [h e he])]

theorem hosts_of_not_host (acc : List (Item × Rule)) (h : ∀ e ∈ acc, e.1.isHost = false) : hosts acc = [] := by
  simp only [hosts]
  rw [List.filter_eq_nil_iff.2 (fun e he => by simp [h e he])]
  rfl

theorem nets_append (a b : List (Item × Rule)) : nets (a ++ b) = nets a ++ nets b := by simp [nets]
theorem hosts_append (a b : List (Item × Rule)) : hosts (a ++ b) = hosts a ++ hosts b := by simp [hosts]

theorem tagSc_not_host (res : List (Int × NetRule)) : ∀ e ∈ tagSc res, e.1.isHost = false := by
  intro e he
  simp only [tagSc, List.mem_map] at he
  obtain ⟨p, _, rfl⟩ := he
  rfl

theorem tagSc_snd (res : List (Int × NetRule)) : (tagSc res).map (·.2) = (res.map (·.2)).map Rule.net := by
  simp [tagSc, List.map_map, Function.comp_def]

include hpat in
/-- THE FIRST STAGE IS `NetworkEngine.MatchAll`: same rules, same order, same multiplicities; and it contains
    no host entries. -/
theorem pure1_eq :
    nets (pure1 (envOf hf k truth listOf etld1 ext pm basic d) q) =
      (d.net.matchAll hf k (retrieveNet truth) ext q).map Rule.net ∧
    hosts (pure1 (envOf hf k truth listOf etld1 ext pm basic d) q) = [] := by
  have hsc := pureFold_sc hf k truth listOf etld1 ext pm basic d hpat q
    (List.range (q.urlLower.length + 1 - k)) q.urlLower d.net.sc []
  have hseq := pureFold_seq hf k truth listOf etld1 ext pm basic d hpat q d.net.seq [] rfl
  simp only [List.length_nil] at hseq
  have hitems : (envOf hf k truth listOf etld1 ext pm basic d).items1 q =
      (scCands hf k d.net.sc q.urlLower).map (Item.st .sc) ++
      ((domCands hf d.net.dom q.sourceHostname).map (Item.st .dom) ++
       (List.range' 0 d.net.seq.length).map Item.seq) := by
    simp [Env.items1, envOf, List.map_append, List.map_map, Function.comp_def, List.range_eq_range']
  have hdomAll : (pureFold (envOf hf k truth listOf etld1 ext pm basic d) q []
        ((domCands hf d.net.dom q.sourceHostname).map (Item.st .dom))).map (·.2) =
      (d.net.dom.matchAllG hf (retrieveNet truth) (fun r => r.matches ext q) q.sourceHostname).map Rule.net ∧
      ∀ e ∈ pureFold (envOf hf k truth listOf etld1 ext pm basic d) q []
        ((domCands hf d.net.dom q.sourceHostname).map (Item.st .dom)), e.1.isHost = false := by
    unfold domCands DomainsTable.matchAllG
    split
    · exact ⟨rfl, fun e he => by cases he⟩
    · exact pureFold_dom hf k truth listOf etld1 ext pm basic d hpat q _ _
  have hA : pureFold (envOf hf k truth listOf etld1 ext pm basic d) q [] ((scCands hf k d.net.sc q.urlLower).map (Item.st .sc)) =
      tagSc (d.net.sc.matchAllG hf k (retrieveNet truth) (fun r => r.matches ext q) q.urlLower) := by
    have : ([] : List (Item × Rule)) = tagSc [] := rfl
    rw [this]
    exact hsc
  have hns1 : ∀ it ∈ (domCands hf d.net.dom q.sourceHostname).map (Item.st .dom) ++
      (List.range' 0 d.net.seq.length).map Item.seq, ∀ idx, it ≠ .st .sc idx := by
    intro it hit idx
    simp only [List.mem_append, List.mem_map] at hit
    rcases hit with ⟨j, _, rfl⟩ | ⟨j, _, rfl⟩ <;> simp
  have hns2 : ∀ it ∈ (List.range' 0 d.net.seq.length).map Item.seq, ∀ idx, it ≠ .st .sc idx := by
    intro it hit idx
    simp only [List.mem_map] at hit
    obtain ⟨j, _, rfl⟩ := hit; simp
  have hform : pure1 (envOf hf k truth listOf etld1 ext pm basic d) q =
      tagSc (d.net.sc.matchAllG hf k (retrieveNet truth) (fun r => r.matches ext q) q.urlLower) ++
      (pureFold (envOf hf k truth listOf etld1 ext pm basic d) q [] ((domCands hf d.net.dom q.sourceHostname).map (Item.st .dom)) ++
       pureFold (envOf hf k truth listOf etld1 ext pm basic d) q [] ((List.range' 0 d.net.seq.length).map Item.seq)) := by
    unfold pure1
    rw [hitems, pureFold_append, hA, pureFold_append_of_not_sc q _ _ hns1, pureFold_append,
      pureFold_append_of_not_sc q _ _ hns2]
  rw [hform]
  refine ⟨?_, ?_⟩
  · rw [nets_append, nets_append, nets_of_not_host _ (tagSc_not_host _), nets_of_not_host _ hdomAll.2,
      nets_of_not_host _ hseq.2, tagSc_snd, hdomAll.1, hseq.1]
    simp [Engine.matchAll, Engine.matchAllG, List.map_append]
  · rw [hosts_append, hosts_append, hosts_of_not_host _ (tagSc_not_host _), hosts_of_not_host _ hdomAll.2,
      hosts_of_not_host _ hseq.2]
    rfl

/-- The hosts table: bucket, `RetrieveHostRule`, nil check, `HostRule.Match`. -/
theorem pureFold_host_bucket (bucket : List Int) :
    (pureFold (envOf hf k truth listOf etld1 ext pm basic d) q [] (bucket.map (Item.st .host))).map (·.2) =
      (bucket.filterMap fun idx => match retrieveHost truth idx with
        | some hr => if hostRuleMatches hr q.hostname then some hr else none
        | none => none).map Rule.host ∧
    ∀ e ∈ pureFold (envOf hf k truth listOf etld1 ext pm basic d) q [] (bucket.map (Item.st .host)), e.1.isHost = true := by
  induction bucket with
  | nil => exact ⟨rfl, fun e he => by cases he⟩
  | cons i rest ih =>
    simp only [List.map_cons, pureFold_cons]
    rw [pureFold_append_of_not_sc q _ _ (by
      intro it hit idx; simp only [List.mem_map] at hit; obtain ⟨j, _, rfl⟩ := hit; simp)]
    have hstep : (pureStep (envOf hf k truth listOf etld1 ext pm basic d) q [] (.st .host i)).map (·.2) =
          ((match retrieveHost truth i with
            | some hr => if hostRuleMatches hr q.hostname then some hr else none
            | none => none).toList).map Rule.host ∧
        ∀ e ∈ pureStep (envOf hf k truth listOf etld1 ext pm basic d) q [] (.st .host i), e.1.isHost = true := by
      simp only [pureStep, retrieveHost]
      cases htr : truth i with
      | none => simp [envOf, htr, useStep]
      | some r =>
        cases r with
        | host h =>
          have hf' : ((envOf hf k truth listOf etld1 ext pm basic d).truth i).filter
              ((envOf hf k truth listOf etld1 ext pm basic d).wants .host) = some (.host h) := by
            simp [envOf, htr, Option.filter, wantsOf]
          have hp : (envOf hf k truth listOf etld1 ext pm basic d).pre (.host h) q = hostRuleMatches h q.hostname := rfl
          rw [hf', useStep_host, hp]
          by_cases hmm : hostRuleMatches h q.hostname = true
          · simp [hmm, Item.isHost]
          · simp [hmm]
        | net n =>
          have hf' : ((envOf hf k truth listOf etld1 ext pm basic d).truth i).filter
              ((envOf hf k truth listOf etld1 ext pm basic d).wants .host) = none := by
            simp [envOf, htr, Option.filter, wantsOf]
          rw [hf']; simp [useStep]
        | cos c =>
          have hf' : ((envOf hf k truth listOf etld1 ext pm basic d).truth i).filter
              ((envOf hf k truth listOf etld1 ext pm basic d).wants .host) = none := by
            simp [envOf, htr, Option.filter, wantsOf]
          rw [hf']; simp [useStep]
    refine ⟨?_, ?_⟩
    · rw [List.map_append, hstep.1, ih.1, List.filterMap_cons]
      cases (match retrieveHost truth i with
            | some hr => if hostRuleMatches hr q.hostname then some hr else none
            | none => none) <;> simp
    · intro e he
      rcases List.mem_append.1 he with he | he
      · exact hstep.2 e he
      · exact ih.2 e he

theorem nets_of_host (acc : List (Item × Rule)) (h : ∀ e ∈ acc, e.1.isHost = true) : nets acc = [] := by
  simp only [nets]
  rw [List.filter_eq_nil_iff.2 (fun e he => by simp [h e he])]
  rfl

theorem hosts_of_host (acc : List (Item × Rule)) (h : ∀ e ∈ acc, e.1.isHost = true) : hosts acc = acc.map (·.2) := by
  simp only [hosts]
  rw [List.filter_eq_self.2 (fun e he => h e he)]

/-- The hosts table as the fault-tolerant reference of C19 sees it. -/
theorem pureHosts_eq :
    pureHosts (envOf hf k truth listOf etld1 ext pm basic d) q = (d.matchLookupTable hf truth q.hostname).map Rule.host := by
  have hb := pureFold_host_bucket hf k truth listOf etld1 ext pm basic d q (hget [] d.hosts (hf.h q.hostname))
  unfold pureHosts
  have : (envOf hf k truth listOf etld1 ext pm basic d).hcands q = hget [] d.hosts (hf.h q.hostname) := rfl
  rw [this, hosts_of_host _ hb.2, hb.1]
  rfl

include hpat in
/-- THE STATELESS ANSWER OF THE STATE MACHINE IS THE ANSWER OF THE ENGINE MODELS. -/
theorem pureAnswer_eq (qu : Query) :
    pureAnswer (envOf hf k truth listOf etld1 ext pm basic d) qu = engineAnswer hf k truth etld1 ext basic d qu := by
  cases qu with
  | web w =>
    have h1 := pure1_eq hf k truth listOf etld1 ext pm basic d hpat w
    simp only [pureAnswer, Query.trivial, Bool.false_eq_true, if_false, Env.reqOf, pure2, Env.items2, pureFold_nil,
      engineAnswer, h1.1, h1.2]
  | dns dr =>
    by_cases hd : dr.hostname.isEmpty = true
    · simp only [pureAnswer, engineAnswer, Query.trivial, hd, if_true]
    · have hd' : dr.hostname.isEmpty = false := by simpa using hd
      have hreq : (envOf hf k truth listOf etld1 ext pm basic d).reqOf (.dns dr) = fillFromPool etld1 default dr := rfl
      have h1 := pure1_eq hf k truth listOf etld1 ext pm basic d hpat (fillFromPool etld1 default dr)
      have hb := pureFold_host_bucket hf k truth listOf etld1 ext pm basic d (fillFromPool etld1 default dr)
        (hget [] d.hosts (hf.h (fillFromPool etld1 default dr).hostname))
      have hbasic : (envOf hf k truth listOf etld1 ext pm basic d).basic
            (nets (pure1 (envOf hf k truth listOf etld1 ext pm basic d) (fillFromPool etld1 default dr))) =
          (basic (d.net.matchAll hf k (retrieveNet truth) ext (fillFromPool etld1 default dr))).isSome := by
        rw [h1.1]; simp only [envOf, netRulesOf_map_net]
      have hh : (envOf hf k truth listOf etld1 ext pm basic d).hcands (fillFromPool etld1 default dr) =
          hget [] d.hosts (hf.h (fillFromPool etld1 default dr).hostname) := rfl
      have hp2 : pure2 (envOf hf k truth listOf etld1 ext pm basic d) (.dns dr) (fillFromPool etld1 default dr) =
          pure1 (envOf hf k truth listOf etld1 ext pm basic d) (fillFromPool etld1 default dr) ++
            (if (basic (d.net.matchAll hf k (retrieveNet truth) ext (fillFromPool etld1 default dr))).isSome then []
             else pureFold (envOf hf k truth listOf etld1 ext pm basic d) (fillFromPool etld1 default dr) []
              ((hget [] d.hosts (hf.h (fillFromPool etld1 default dr).hostname)).map (Item.st .host))) := by
        unfold pure2
        simp only [Env.items2, hbasic]
        split
        · simp [pureFold_nil]
        · rw [hh, pureFold_append_of_not_sc _ _ _ (by
            intro it hit idx; simp only [List.mem_map] at hit; obtain ⟨j, _, rfl⟩ := hit; simp)]
      simp only [pureAnswer, engineAnswer, Query.trivial, hd', Bool.false_eq_true, if_false, hreq]
      rw [hp2, nets_append, hosts_append, h1.1, h1.2]
      split
      · simp [nets, hosts]
      · rw [nets_of_host _ hb.2, hosts_of_host _ hb.2, hb.1]
        simp only [List.append_nil, List.nil_append]
        rfl

end

/-- For a DNS query the pair assembles to group B's `DnsEngine.matchRequest`. -/
theorem dnsResultOf_engineAnswer (hf : HashFns) (k : Nat) (truth : Int → Option Rule) (etld1 : Bytes → Bytes) (ext : Ext)
    (basic : List NetRule → Option NetRule) (d : DnsEngine) (dr : DReq) (hd : dr.hostname ≠ []) :
    dnsResultOf basic (engineAnswer hf k truth etld1 ext basic d (.dns dr)) =
      d.matchRequest hf k truth ext basic (fillFromPool etld1 default dr) := by
  have hne : dr.hostname.isEmpty = false := by cases h : dr.hostname with | nil => exact absurd h hd | cons => rfl
  have hq : (fillFromPool etld1 default dr).hostname = dr.hostname := by
    simp only [fillFromPool, fillRequestForHostname]; split <;> rfl
  simp only [engineAnswer, hne, Bool.false_eq_true, if_false, dnsResultOf, DnsEngine.matchRequest, hq, netRulesOf_map_net]
  cases hb : basic (d.net.matchAll hf k (retrieveNet truth) ext (fillFromPool etld1 default dr)) with
  | some r => simp
  | none => simp [hostRulesOf_map_host]

end UF.Compose4

import UF.Compose4.EnvOfEngine
import UF.Compose3.DnsTop
/-
  Integration (group J): the environment of the state machine of C13/C14/C19 for the engines BUILT FROM THE
  BYTES OF THE LISTS over group D's storage model.

    truth i  = `lookupFull io px lists (int64 i)`: what `RuleStorage.RetrieveRule` yields on the unmodified
               lists, parsed by the modelled `rules.NewRule` (groups D, E, H; composed by I1).  By
               `retrieveFull_eq_lookup` this is what group D's storage WITH ITS CACHE returns in every
               reachable cache state (`retrieveAt_reach`), so the engine answers below do not depend on the
               storage history either.
    listOf i = the list id packed in the upper half of the index.
    tables   = `DnsEngine.build` / `Engine.build` of groups B/I1 over the storage scan.
-/
namespace UF.Compose4
open UF UF.B UF.Prog UF.Storage UF.Compose

/-- The content-determined retrieval function of the lists (Go `int64` index). -/
def truthOf (io : IO) (px : E.ParseExt) (lists : List RList) (i : Int) : Option Rule :=
  lookupFull io px lists (BitVec.ofInt 64 i)

/-- Group D's storage with its cache, in ANY state reachable from a new storage by any history of retrievals,
    returns `truthOf`. -/
theorem retrieveAt_reach (io : IO) (px : E.ParseExt) (lists : List RList) (st : RuleStorage)
    (hnew : newRuleStorage lists = some st) (history : List (BitVec 64)) :
    retrieveAt io px (reach io px st history) = truthOf io px lists := by
  funext i
  obtain ⟨hinv, hl⟩ := reach_inv io px lists st hnew history
  unfold retrieveAt truthOf
  rw [retrieveFull_eq_lookup io px _ hinv, hl]

/-- `storageIdxToRuleListIdx(idx)`: the list id. -/
def listOfIdx (i : Int) : Int := (unpack (BitVec.ofInt 64 i)).1.toInt

variable {Re : Type}

/-- The DNS engine of the lists (`NewDNSEngine(storage)`) as the environment of the state machine. -/
def envDns (io : IO) (px : E.ParseExt) (lists : List RList) (pm : PatModel Re) : Env Rule Re :=
  envOf djb2 Facts.shortcutLength (truthOf io px lists) listOfIdx (Compose3.etld1Of px.ext) px.ext pm getDNSBasicRule
    (DnsEngine.build djb2 Facts.shortcutLength (storageRulesI px lists))

/-- The network engine of the lists (`NewNetworkEngine(storage)`; no hosts table). -/
def envNet (io : IO) (px : E.ParseExt) (lists : List RList) (pm : PatModel Re) : Env Rule Re :=
  envOf djb2 Facts.shortcutLength (truthOf io px lists) listOfIdx (Compose3.etld1Of px.ext) px.ext pm getDNSBasicRule
    ⟨Engine.build djb2 Facts.shortcutLength (storageNetRules px lists), []⟩

/-- What group B's DNS engine model answers, retrieving through group D's storage in cache state
    `reach … history` (`Compose3.dnsEngineMatchRequest` is `dnsResultOf` of the `dns` case). -/
def dnsAnswer (io : IO) (px : E.ParseExt) (lists : List RList) (st : RuleStorage) (history : List (BitVec 64)) :
    Query → List Rule × List Rule :=
  engineAnswer djb2 Facts.shortcutLength (retrieveAt io px (reach io px st history)) (Compose3.etld1Of px.ext) px.ext
    getDNSBasicRule (DnsEngine.build djb2 Facts.shortcutLength (storageRulesI px lists))

/-- What group B's network engine model answers (`NetworkEngine.MatchAll`, the object of `c01_storage`). -/
def netAnswer (io : IO) (px : E.ParseExt) (lists : List RList) (st : RuleStorage) (history : List (BitVec 64)) :
    Query → List Rule × List Rule :=
  engineAnswer djb2 Facts.shortcutLength (retrieveAt io px (reach io px st history)) (Compose3.etld1Of px.ext) px.ext
    getDNSBasicRule ⟨Engine.build djb2 Facts.shortcutLength (storageNetRules px lists), []⟩

theorem pureAnswer_envDns (io : IO) (px : E.ParseExt) (lists : List RList) (pm : PatModel Re) (hpat : px.ext.pat = pm.pat)
    (st : RuleStorage) (hnew : newRuleStorage lists = some st) (history : List (BitVec 64)) (q : Query) :
    pureAnswer (envDns io px lists pm) q = dnsAnswer io px lists st history q := by
  unfold envDns dnsAnswer
  rw [pureAnswer_eq _ _ _ _ _ _ _ _ _ hpat, retrieveAt_reach io px lists st hnew history]

theorem pureAnswer_envNet (io : IO) (px : E.ParseExt) (lists : List RList) (pm : PatModel Re) (hpat : px.ext.pat = pm.pat)
    (st : RuleStorage) (hnew : newRuleStorage lists = some st) (history : List (BitVec 64)) (q : Query) :
    pureAnswer (envNet io px lists pm) q = netAnswer io px lists st history q := by
  unfold envNet netAnswer
  rw [pureAnswer_eq _ _ _ _ _ _ _ _ _ hpat, retrieveAt_reach io px lists st hnew history]

/-- `MatchAll` of the network engine of the lists (the left-hand side of `C01.c01_storage`). -/
theorem netAnswer_web (io : IO) (px : E.ParseExt) (lists : List RList) (st : RuleStorage) (history : List (BitVec 64))
    (q : Request) :
    netAnswer io px lists st history (.web q) =
      (((Engine.build djb2 Facts.shortcutLength (storageNetRules px lists)).matchAll djb2 Facts.shortcutLength
          (retrieveNet (retrieveAt io px (reach io px st history))) px.ext q).map Rule.net, []) := rfl

/-- A DNS query assembles to group I3's top-level `dnsEngineMatchRequest`, for ANY pooled request `old`. -/
theorem dnsAnswer_dns (io : IO) (px : E.ParseExt) (lists : List RList) (st : RuleStorage) (history : List (BitVec 64))
    (old : Request) (d : DReq) (hd : d.hostname ≠ []) :
    dnsResultOf getDNSBasicRule (dnsAnswer io px lists st history (.dns d)) =
      Compose3.dnsEngineMatchRequest io px lists st history old d := by
  unfold dnsAnswer Compose3.dnsEngineMatchRequest Compose3.dnsRequestOf
  rw [dnsResultOf_engineAnswer _ _ _ _ _ _ _ _ hd, fill_overwrites' _ old d]

end UF.Compose4

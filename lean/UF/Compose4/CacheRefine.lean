import UF.Compose4.EnvOfStorage
/-
  Integration (group J): the rule cache of the state machine `UF.Prog` IS group D's storage cache.

  `Prog` splits `RuleStorage.RetrieveRule` into the atomic actions `get` (cache probe under RLock), `read`
  (the list) and `put` (insert under Lock), with its own cache `List (Int × Rule)` of rule OBJECTS.  Group D's
  model `Storage.retrieveRule` is one function on `RuleStorage` whose cache holds `(BitVec 64 × Option SRule)`
  (the projection of a rule, or the typed nil of a failed parse).  `retrieve_refines`: from related states
  (`CacheRel`: the state machine's cache serves exactly what the storage's cache serves), the retrieval
  sub-program of the state machine run alone returns the pointer `retrieveFull` returns (before the type
  assertion of the table) and ends in related states.  So a sequential history on the state machine is a
  history of `Storage.retrieveRule` calls on group D's storage, cache included.
-/
namespace UF.Compose4
open UF UF.B UF.Prog UF.Storage UF.Compose

/-- What the storage's cache serves for a key (the rule object behind a cached projection). -/
def served (px : E.ParseExt) (st : RuleStorage) (k : BitVec 64) : Option Rule :=
  match st.cache.lookup k with
  | some (some sr) => materialize (realRx px) sr
  | _ => none

/-- The state machine's cache is the abstraction of the storage's cache (keys are Go `int64`s). -/
def CacheRel (px : E.ParseExt) (st : RuleStorage) (c : List (Int × Rule)) : Prop :=
  ∀ k : BitVec 64, cacheLookup c k.toInt = served px st k

theorem cacheRel_new (px : E.ParseExt) (lists : List RList) : CacheRel px ⟨lists, []⟩ [] := by
  intro k; rfl

theorem cacheLookup_insert {R : Type} (c : List (Int × R)) (i j : Int) (r : R) :
    cacheLookup (cacheInsert c i r) j = if j = i then some r else cacheLookup c j := by
  by_cases h : j = i
  · subst h; simp [cacheLookup, cacheInsert]
  · simp only [h, if_false]
    unfold cacheLookup cacheInsert
    rw [List.find?_cons_of_neg (by simpa using fun h' => h h'.symm)]
    have : (List.find? (fun e => e.1 == j) (List.filter (fun e => e.1 != i) c)) =
        List.find? (fun e => e.1 == j) c := by
      induction c with
      | nil => rfl
      | cons a t ih =>
        by_cases ha : a.1 = i
        · have hne : (a.1 == j) = false := by
            simp only [beq_eq_false_iff_ne, ne_eq]; exact fun h' => h (by rw [← h', ha])
          have hf : (a.1 != i) = false := by simp [ha]
          rw [List.filter_cons, hf, List.find?_cons, hne]; simpa using ih
        · have hf : (a.1 != i) = true := by simp [ha]
          rw [List.filter_cons, hf]; simp only [if_true, List.find?_cons, ih]
    rw [this]

variable {Re : Type}

/-- The retrieval sub-program: `get`; on a miss `read`; on a successful read `put`. -/
def retrieveProg (env : Env Rule Re) (s : State Rule Re) (t : Thread Rule) (src : Src) (i : Int) :
    State Rule Re × Thread Rule :=
  let p1 := step env s { t with pc := .get src i }
  match p1.2.pc with
  | .read _ _ =>
    let p2 := step env p1.1 p1.2
    match p2.2.pc with
    | .put _ _ _ => step env p2.1 p2.2
    | _ => p2
  | _ => p1

theorem lookupFull_of_rule {io : IO} {px : E.ParseExt} {lists : List RList} {k : BitVec 64} {sr : SRule}
    (h : lookupRule io (realParser px) lists k = .rule sr) : lookupFull io px lists k = materialize (realRx px) sr := by
  simp [lookupFull, h]

theorem lookupFull_of_not_rule {io : IO} {px : E.ParseExt} {lists : List RList} {k : BitVec 64}
    (h : ∀ sr, lookupRule io (realParser px) lists k ≠ .rule sr) : lookupFull io px lists k = none := by
  unfold lookupFull
  split
  · next sr hs => exact absurd hs (h sr)
  · rfl

/-- ONE RETRIEVAL: the state machine's `get / read / put` and group D's `retrieveRule` (+ the rule object,
    `retrieveFull`) return the same pointer and keep the caches related.  `env` is any environment whose `truth`
    is the storage's content-determined retrieval (`envDns`, `envNet`); `i` is a Go `int64`. -/
theorem retrieve_refines (io : IO) (px : E.ParseExt) (lists : List RList) (env : Env Rule Re)
    (htruth : env.truth = truthOf io px lists)
    (st : RuleStorage) (hinv : Storage.CacheInv io (realParser px) st) (hl : st.lists = lists)
    (s : State Rule Re) (t : Thread Rule) (src : Src) (i : Int) (hi : (BitVec.ofInt 64 i).toInt = i)
    (hrel : CacheRel px st s.cache) (h0 : s.closed = []) :
    (retrieveProg env s t src i).2.pc =
        .use src i ((retrieveFull io px st (BitVec.ofInt 64 i)).1.filter (env.wants src)) ∧
      CacheRel px (retrieveFull io px st (BitVec.ofInt 64 i)).2 (retrieveProg env s t src i).1.cache ∧
      (retrieveProg env s t src i).1.closed = [] := by
  have hlk : cacheLookup s.cache i = served px st (BitVec.ofInt 64 i) := by rw [← hi]; rw [hi]; have := hrel (BitVec.ofInt 64 i); rwa [hi] at this
  have htr : env.truth i = lookupFull io px lists (BitVec.ofInt 64 i) := by rw [htruth]; rfl
  unfold retrieveFull retrieveRule
  cases hc : st.cache.lookup (BitVec.ofInt 64 i) with
  | some v =>
    have hv := hinv _ _ hc
    rw [hl] at hv
    cases v with
    | some sr =>
      simp only at hv ⊢
      have hsv : served px st (BitVec.ofInt 64 i) = materialize (realRx px) sr := by simp [served, hc]
      rw [hsv] at hlk
      cases hm : materialize (realRx px) sr with
      | some r =>
        rw [hm] at hlk
        simp only [retrieveProg, step, stepG, hlk]
        exact ⟨by first | trivial | rfl, hrel, by first | trivial | exact h0⟩
      | none =>
        rw [hm] at hlk
        have htn : env.truth i = none := by rw [htr, lookupFull_of_rule hv, hm]
        simp only [retrieveProg, step, stepG, hlk, h0, List.contains_nil, Bool.false_eq_true, if_false, htn]
        exact ⟨by first | trivial | rfl, hrel, by first | trivial | exact h0⟩
    | none =>
      simp only at hv ⊢
      have hsv : served px st (BitVec.ofInt 64 i) = none := by simp [served, hc]
      rw [hsv] at hlk
      have htn : env.truth i = none := by
        rw [htr]; exact lookupFull_of_not_rule (fun sr h => by rw [hv] at h; cases h)
      simp only [retrieveProg, step, stepG, hlk, h0, List.contains_nil, Bool.false_eq_true, if_false, htn]
      exact ⟨by first | trivial | rfl, hrel, by first | trivial | exact h0⟩
  | none =>
    have hsv : served px st (BitVec.ofInt 64 i) = none := by simp [served, hc]
    rw [hsv] at hlk
    simp only
    -- what the lists answer
    have hlr : lookupRule io (realParser px) lists (BitVec.ofInt 64 i) =
        (match findList st.lists (unpack (BitVec.ofInt 64 i)).1.toInt with
         | none => .err
         | some l => l.retrieve io (realParser px) (unpack (BitVec.ofInt 64 i)).2.toInt) := by
      rw [hl]; rfl
    cases hfl : findList st.lists (unpack (BitVec.ofInt 64 i)).1.toInt with
    | none =>
      rw [hfl] at hlr
      have htn : env.truth i = none := by
        rw [htr]; exact lookupFull_of_not_rule (fun sr h => by rw [hlr] at h; cases h)
      simp only [retrieveProg, step, stepG, hlk, h0, List.contains_nil, Bool.false_eq_true, if_false, htn]
      exact ⟨by first | trivial | rfl, hrel, by first | trivial | exact h0⟩
    | some l =>
      rw [hfl] at hlr
      simp only at hlr ⊢
      cases hres : l.retrieve io (realParser px) (unpack (BitVec.ofInt 64 i)).2.toInt with
      | rule sr =>
        rw [hres] at hlr
        simp only
        cases hm : materialize (realRx px) sr with
        | some r =>
          have htn : env.truth i = some r := by rw [htr, lookupFull_of_rule hlr, hm]
          simp only [retrieveProg, step, stepG, hlk, h0, List.contains_nil, Bool.false_eq_true, if_false, htn]
          refine ⟨by first | trivial | rfl, ?_, by first | trivial | exact h0⟩
          intro k
          simp only [cacheLookup_insert, served, List.lookup_cons]
          by_cases hk : k = BitVec.ofInt 64 i
          · subst hk; simp [hi, hm]
          · have hne : k.toInt ≠ i := by
              intro h'; apply hk; rw [← BitVec.ofInt_toInt (x := k), h']
            have hb : (k == BitVec.ofInt 64 i) = false := by simpa using hk
            simp only [hne, if_false, hb]
            exact hrel k
        | none =>
          have htn : env.truth i = none := by rw [htr, lookupFull_of_rule hlr, hm]
          simp only [retrieveProg, step, stepG, hlk, h0, List.contains_nil, Bool.false_eq_true, if_false, htn]
          refine ⟨by first | trivial | rfl, ?_, by first | trivial | exact h0⟩
          intro k
          simp only [served, List.lookup_cons]
          by_cases hk : k = BitVec.ofInt 64 i
          · subst hk; simp [hi, hm, hlk]
          · have hb : (k == BitVec.ofInt 64 i) = false := by simpa using hk
            simp only [hb]
            exact hrel k
      | bad =>
        rw [hres] at hlr
        have htn : env.truth i = none := by
          rw [htr]; exact lookupFull_of_not_rule (fun sr h => by rw [hlr] at h; cases h)
        simp only [retrieveProg, step, stepG, hlk, h0, List.contains_nil, Bool.false_eq_true, if_false, htn]
        refine ⟨by first | trivial | rfl, ?_, by first | trivial | exact h0⟩
        intro k
        simp only [served, List.lookup_cons]
        by_cases hk : k = BitVec.ofInt 64 i
        · subst hk; simp [hi, hlk]
        · have hb : (k == BitVec.ofInt 64 i) = false := by simpa using hk
          simp only [hb]
          exact hrel k
      | panic =>
        rw [hres] at hlr
        have htn : env.truth i = none := by
          rw [htr]; exact lookupFull_of_not_rule (fun sr h => by rw [hlr] at h; cases h)
        simp only [retrieveProg, step, stepG, hlk, h0, List.contains_nil, Bool.false_eq_true, if_false, htn]
        exact ⟨by first | trivial | rfl, hrel, by first | trivial | exact h0⟩
      | err =>
        rw [hres] at hlr
        have htn : env.truth i = none := by
          rw [htr]; exact lookupFull_of_not_rule (fun sr h => by rw [hlr] at h; cases h)
        simp only [retrieveProg, step, stepG, hlk, h0, List.contains_nil, Bool.false_eq_true, if_false, htn]
        exact ⟨by first | trivial | rfl, hrel, by first | trivial | exact h0⟩
      | nothing =>
        rw [hres] at hlr
        have htn : env.truth i = none := by
          rw [htr]; exact lookupFull_of_not_rule (fun sr h => by rw [hlr] at h; cases h)
        simp only [retrieveProg, step, stepG, hlk, h0, List.contains_nil, Bool.false_eq_true, if_false, htn]
        exact ⟨by first | trivial | rfl, hrel, by first | trivial | exact h0⟩
      | nilRule =>
        rw [hres] at hlr
        have htn : env.truth i = none := by
          rw [htr]; exact lookupFull_of_not_rule (fun sr h => by rw [hlr] at h; cases h)
        simp only [retrieveProg, step, stepG, hlk, h0, List.contains_nil, Bool.false_eq_true, if_false, htn]
        exact ⟨by first | trivial | rfl, hrel, by first | trivial | exact h0⟩

end UF.Compose4

-- Property files of work group C (import UF.Props.Cxx lines go here).
import UF.Driver.Ops.GroupC
import UF.Props.C07
import UF.Props.C08
import UF.Props.C09
import UF.Props.C06

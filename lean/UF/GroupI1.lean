-- Property files of work group I1 (import UF.Props.Cxx lines go here).
import UF.Driver.Ops.GroupI1

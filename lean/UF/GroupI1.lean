-- Property files of work group I1 (import UF.Props.Cxx lines go here).
import UF.Props.C11Compose
import UF.Props.C01Compose
import UF.Props.C02Compose
import UF.Props.C15Compose

-- Property files of work group G (import UF.Props.Cxx lines go here).
import UF.Driver.Ops.GroupG
import UF.Props.C03

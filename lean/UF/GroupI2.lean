-- Property files of work group I2 (import UF.Props.Cxx lines go here).
import UF.Driver.Ops.GroupI2

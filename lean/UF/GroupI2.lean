-- Property files of work group I2 (import UF.Props.Cxx lines go here).
import UF.Props.C03Full
import UF.Props.C04Full
import UF.Props.C05Full
import UF.Props.C12Full
import UF.Props.C10Full
import UF.Props.C18Full

-- Property files of work group F (import UF.Props.Cxx lines go here).
import UF.Driver.Ops.GroupF
import UF.Props.C13
import UF.Props.C14
import UF.Props.C19

-- Property files of work group F (import UF.Props.Cxx lines go here).
import UF.Driver.Ops.GroupF
import UF.Props.C13
import UF.Props.C14
import UF.Props.C19
-- integration group J: C13/C14/C19 on the engine models
import UF.Props.C13Engine
import UF.Props.C14Engine
import UF.Props.C14Sections
import UF.Props.C19Engine

-- Property files of work group F (import UF.Props.Cxx lines go here).
import UF.Driver.Ops.GroupF

/- Group P3 (REVIEW2 F3): the model of Go's flag-blind alternation factoring and what it means for C03/C04/C05. -/
import UF.Model.RegexQuirk
import UF.Proofs.RegexQuirk
import UF.Proofs.RegexQuirkLits
import UF.Props.C03Quirk
import UF.Props.C04Quirk
import UF.Props.C05Quirk

def hello := "world"

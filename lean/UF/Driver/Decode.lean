import UF.Driver.Wire
import UF.Model.Rule
/-
  Decoders from wire values to model records.  Layout (see harness/wire.go):
  addr    = _ | (is4 val zone)
  prefix  = (is4 val bits)
  clients = _ | ((host…) (prefix…))
  value   = _ | (addr is4 val) | (str x) | (mx pref exch) | (srv prio weight port target)
              | (svcb prio target _|((k v)…))
  rewrite = _ | (rcode rrtype cname value)
  R = (R text listID whitelist pattern shortcut (permDom) (restrDom) (denyallow) (permDns) (restrDns)
         (permTags) (restrTags) permClients restrClients enabled disabled permTypes restrTypes rewrite)
  Q = (Q url urlLower hostname domain srcURL srcHost srcDomain (tags) reqType dnsType thirdParty
         isHostReq clientName clientIP)
  H = (H text listID (names) ip)
  K = (K text listID content (permDom) (restrDom) whitelist)
-/
namespace UF
open W

def decAddr? (w : W) : Option (Option Addr) :=
  if w.isNone then some none else
  match w with
  | .l [i, v, z] => do
    let is4 ← i.bool?
    let val ← v.nat?
    let zone ← z.bytes?
    pure (some { is4, val, zone })
  | _ => none

def decAddr (w : W) : Option Addr := do
  let a ← decAddr? w
  a

def decPrefix (w : W) : Option Prefix :=
  match w with
  | .l [i, v, b] => do
    let is4 ← i.bool?
    let val ← v.nat?
    let bits ← b.nat?
    pure { addr := { is4, val }, bits }
  | _ => none

def decClients (w : W) : Option (Option Clients) :=
  if w.isNone then some none else
  match w with
  | .l [h, n] => do
    let hosts ← h.bytesList?
    let ns ← n.list?
    let nets ← ns.mapM decPrefix
    pure (some { hosts, nets })
  | _ => none

def decPair (w : W) : Option (Bytes × Bytes) :=
  match w with
  | .l [k, v] => do pure (← k.bytes?, ← v.bytes?)
  | _ => none

def decValue (w : W) : Option RRVal :=
  if w.isNone then some .none else
  match w with
  | .l [.a "addr", i, v] => do pure (.addr { is4 := ← i.bool?, val := ← v.nat? })
  | .l [.a "str", s] => do pure (.str (← s.bytes?))
  | .l [.a "mx", p, e] => do pure (.mx (← p.nat?) (← e.bytes?))
  | .l [.a "srv", p, wt, po, t] => do pure (.srv (← p.nat?) (← wt.nat?) (← po.nat?) (← t.bytes?))
  | .l [.a "svcb", p, t, ps] => do
    let params ← if ps.isNone then pure none else do
      let xs ← ps.list?
      let kv ← xs.mapM decPair
      pure (some kv)
    pure (.svcb (← p.nat?) (← t.bytes?) params)
  | _ => none

def decRewrite (w : W) : Option (Option DnsRewrite) :=
  if w.isNone then some none else
  match w with
  | .l [rc, rr, cn, v] => do
    pure (some { rcode := ← rc.nat?, rrType := ← rr.nat?, newCNAME := ← cn.bytes?, value := ← decValue v })
  | _ => none

def decNetRule (w : W) : Option NetRule :=
  match w with
  | .l [.a "R", text, listID, wl, pat, sc, pd, rd, da, pdns, rdns, pt, rt, pc, rc, en, dis, pty, rty, rw] => do
    pure {
      text := ← text.bytes?, listID := ← listID.int?, whitelist := ← wl.bool?,
      pattern := ← pat.bytes?, shortcut := ← sc.bytes?,
      permDomains := ← pd.bytesList?, restrDomains := ← rd.bytesList?, denyallow := ← da.bytesList?,
      permDns := ← pdns.natList?, restrDns := ← rdns.natList?,
      permTags := ← pt.bytesList?, restrTags := ← rt.bytesList?,
      permClients := ← decClients pc, restrClients := ← decClients rc,
      enabled := ← en.nat?, disabled := ← dis.nat?, permTypes := ← pty.nat?, restrTypes := ← rty.nat?,
      rewrite := ← decRewrite rw }
  | _ => none

def decRequest (w : W) : Option Request :=
  match w with
  | .l [.a "Q", url, lower, host, dom, surl, shost, sdom, tags, rt, dt, tp, hr, cn, cip] => do
    pure {
      url := ← url.bytes?, urlLower := ← lower.bytes?, hostname := ← host.bytes?, domain := ← dom.bytes?,
      sourceURL := ← surl.bytes?, sourceHostname := ← shost.bytes?, sourceDomain := ← sdom.bytes?,
      sortedTags := ← tags.bytesList?, reqType := ← rt.nat?, dnsType := ← dt.nat?,
      thirdParty := ← tp.bool?, isHostnameRequest := ← hr.bool?,
      clientName := ← cn.bytes?, clientIP := ← decAddr? cip }
  | _ => none

def decHostRule (w : W) : Option HostRule :=
  match w with
  | .l [.a "H", text, listID, names, ip] => do
    pure { text := ← text.bytes?, listID := ← listID.int?, hostnames := ← names.bytesList?, ip := ← decAddr ip }
  | _ => none

def decCosRule (w : W) : Option CosRule :=
  match w with
  | .l [.a "K", text, listID, content, pd, rd, wl] => do
    pure { text := ← text.bytes?, listID := ← listID.int?, content := ← content.bytes?,
           permDomains := ← pd.bytesList?, restrDomains := ← rd.bytesList?, whitelist := ← wl.bool? }
  | _ => none

def decRule (w : W) : Option Rule :=
  match w with
  | .l (.a "R" :: _) => (decNetRule w).map .net
  | .l (.a "H" :: _) => (decHostRule w).map .host
  | .l (.a "K" :: _) => (decCosRule w).map .cos
  | _ => none

/-- A finite table for an oracle `Bytes → α`; unknown keys fall back to `dflt`
    (the driver reports such lookups as out of domain where it matters). -/
def tableLookup {α} (tbl : List (Bytes × α)) (dflt : α) (k : Bytes) : α :=
  match tbl.find? (·.1 == k) with
  | some (_, v) => v
  | none => dflt

/-- psl table: `((host suffix icann)…)`. -/
def decPslTable (w : W) : Option (List (Bytes × (Bytes × Bool))) := do
  let xs ← w.list?
  xs.mapM fun e => match e with
    | .l [h, s, i] => do pure (← h.bytes?, (← s.bytes?, ← i.bool?))
    | _ => none

/-- addr table: `((string addr)…)`. -/
def decAddrTable (w : W) : Option (List (Bytes × Option Addr)) := do
  let xs ← w.list?
  xs.mapM fun e => match e with
    | .l [h, ad] => do pure (← h.bytes?, ← decAddr? ad)
    | _ => none

/-- pattern-oracle table: `((pattern matchCase target answer)…)`. -/
def decPatTable (w : W) : Option (List ((Bytes × Bool × Bytes) × Bool)) := do
  let xs ← w.list?
  xs.mapM fun e => match e with
    | .l [p, mc, t, ans] => do pure ((← p.bytes?, ← mc.bool?, ← t.bytes?), ← ans.bool?)
    | _ => none

def mkExt (psl : List (Bytes × (Bytes × Bool))) (addrs : List (Bytes × Option Addr))
    (pats : List ((Bytes × Bool × Bytes) × Bool)) : Ext where
  psl := tableLookup psl ([], false)
  parseAddr := tableLookup addrs none
  parsePrefix := fun _ => none
  pat := fun p mc t =>
    match pats.find? (fun e => e.1 == (p, mc, t)) with
    | some (_, v) => v
    | none => false

end UF

import UF.Driver.Decode
import UF.Model.Result
import UF.Model.Engine
import UF.Spec.Engine
import UF.Spec.DnsEngine
import UF.Spec.Cosmetic
/- Ops of work group B (C01, C02, C15). Return `none` for ops of other groups. -/
namespace UF.Ops.B
open UF UF.B

/-- Sorted, de-duplicated list of byte strings, rendered as one token. -/
def outTextSet (ts : List Bytes) : String :=
  "(" ++ ",".intercalate ((Bytes.sortB ts.eraseDups).map outBytes) ++ ")"

def decIdxNetRule (w : W) : Option (NetRule × Idx) :=
  match w with
  | .l [i, r] => do pure (← decNetRule r, ← i.int?)
  | _ => none

def retrieveFrom {α} (tbl : List (α × Idx)) (idx : Idx) : Option α :=
  (tbl.find? (·.2 == idx)).map (·.1)

/-- Executable form of the theorems' hypotheses on the rule list (`DomainsWF`, `TextDeterminesRule`,
    unique storage indexes = `RetrievalOK` for `retrieveFrom`); a line violating them is `ood`. -/
def netHypsOK (L : List (NetRule × Idx)) : Bool :=
  L.all (fun p => p.1.permDomains.all fun d => !d.isEmpty && d.getLast? != some (ch '.')) &&
  L.all (fun p => L.all fun p' => p.1.text != p'.1.text || p'.1 == { p.1 with listID := p'.1.listID }) &&
  (L.map (·.2)).eraseDups.length == L.length

/-- `c01.matchall ((idx R)…) Q psl addrs (pat…)`: model = the three-table engine built by folding
    `addRule` over the rules in storage order; spec = linear scan. Answers: sorted text sets. -/
def opC01 (args : List W) : String :=
  match args with
  | [.l rs, q, psl, addrs, pats] =>
    match rs.mapM decIdxNetRule, decRequest q, decPslTable psl, decAddrTable addrs, decPatTable pats with
    | some L, some q, some psl, some addrs, some pats =>
      if !netHypsOK L then "ood -" else
      let ext := mkExt psl addrs pats
      let e := Engine.build djb2 Facts.shortcutLength L
      let model := e.matchAll djb2 Facts.shortcutLength (retrieveFrom L) ext q
      let spec := specMatchAll ext (L.map (·.1)) q
      outTextSet (model.map (·.text)) ++ " " ++ outTextSet (spec.map (·.text))
    | _, _, _, _, _ => "bad-decode"
  | _ => "bad-arity"

def decIdxRule (w : W) : Option (Rule × Idx) :=
  match w with
  | .l [i, r] => do pure (← decRule r, ← i.int?)
  | _ => none

def outHostSet (hs : List HostRule) : String :=
  outTextSet (hs.map fun h => (toString h.listID).toUTF8.toList ++ lit ":" ++ h.text)

/-- Class of the basic rule as C02 states it: `_` = none, else `<exception><important>`. -/
def outDnsClass (o : Option NetRule) : String :=
  match o with
  | none => "_"
  | some f => outBool f.whitelist ++ outBool f.important

def outDns (r : DnsResult) : String :=
  (fun a => if a == "()|_|()|()|F" then "()" else a) <| outTextSet (r.networkRules.map (·.text)) ++ "|" ++ outDnsClass r.networkRule ++ "|" ++
  outHostSet r.v4 ++ "|" ++ outHostSet r.v6 ++ "|" ++ outBool r.matched

/-- `c02.dns ((idx rule)…) Q psl addrs (pat…) basic`: `basic` is Go's choice of `GetDNSBasicRule`
    (`_` = nil, else the rule text); it must be one of the candidates, otherwise the answer is flagged. -/
def opC02 (args : List W) : String :=
  match args with
  | [.l rs, q, psl, addrs, pats, b] =>
    match rs.mapM decIdxRule, decRequest q, decPslTable psl, decAddrTable addrs, decPatTable pats with
    | some L, some q, some psl, some addrs, some pats =>
      let goBasic : Option Bytes := if b.isNone then none else b.bytes?
      let basic : List NetRule → Option NetRule := fun nrs =>
        match goBasic with
        | none => none
        | some t => nrs.find? (·.text == t)
      if !(netHypsOK (hostLevelNet L) && (L.map (·.2)).eraseDups.length == L.length) then "ood -" else
      let ext := mkExt psl addrs pats
      let d := DnsEngine.build djb2 Facts.shortcutLength L
      let model := d.matchRequest djb2 Facts.shortcutLength (retrieveFrom L) ext basic q
      -- the reference resolution uses the MODEL of GetDNSBasicRule (group C; `c02_basic` shows it meets the
      -- contract `c02` needs), not the implementation's own choice: a wrong nil / non-nil decision shows up here
      let spec := specDns ext getDNSBasicRule (L.map (·.1)) q
      let flag (r : DnsResult) := if goBasic.isSome && r.networkRule.isNone && !q.hostname.isEmpty then "basic-not-a-candidate:" else ""
      flag model ++ outDns model ++ " " ++ flag spec ++ outDns spec
    | _, _, _, _, _ => "bad-decode"
  | _ => "bad-arity"

def outSel (p : List Bytes × List Bytes) : String :=
  (fun a => if a == "()|()" then "()" else a) <| outTextSet p.1 ++ "|" ++ outTextSet p.2

/-- `c15.cosm (K…) host css js generic psl`. -/
def opC15 (args : List W) : String :=
  match args with
  | [.l rs, host, css, js, gen, psl] =>
    match rs.mapM decCosRule, host.bytes?, css.bool?, js.bool?, gen.bool?, decPslTable psl with
    | some L, some host, some css, some js, some gen, some psl =>
      if !(L.all fun r => r.permDomains.all fun d => !d.isEmpty) then "ood -" else
      let ext := mkExt psl [] []
      let t := CosTable.build L
      outSel (t.matchHost ext host css js gen) ++ " " ++ outSel (specCosmetic ext L host css js gen)
    | _, _, _, _, _, _ => "bad-decode"
  | _ => "bad-arity"

/-- `c01.hash x<s> i j`: `FastHash s` and `FastHashBetween s i j` (checked indexing). -/
def opC01Hash (args : List W) : String :=
  match args with
  | [s, i, j] =>
    match s.bytes?, i.nat?, j.nat? with
    | some s, some i, some j =>
      let hb := match fastHashBetween? s i j with
        | some v => toString v.toNat
        | none => "PANIC"
      s!"{(fastHash s).toNat}:{hb} -"
    | _, _, _ => "bad-decode"
  | _ => "bad-arity"

end UF.Ops.B

namespace UF.Ops

def dispatchB (op : String) (args : List W) : Option String :=
  match op with
  | "c01.matchall" => some (B.opC01 args)
  | "c01.hash" => some (B.opC01Hash args)
  | "c02.dns" => some (B.opC02 args)
  | "c15.cosm" => some (B.opC15 args)
  | _ => none

end UF.Ops

import UF.Driver.Decode
import UF.Model.Engine
import UF.Spec.Engine
/- Ops of work group B (C01, C02, C15). Return `none` for ops of other groups. -/
namespace UF.Ops
open UF

/-- Sorted, de-duplicated list of byte strings, rendered as one token. -/
def outTextSet (ts : List Bytes) : String :=
  "(" ++ ",".intercalate ((Bytes.sortB ts.eraseDups).map outBytes) ++ ")"

def decIdxNetRule (w : W) : Option (NetRule × Idx) :=
  match w with
  | .l [i, r] => do pure (← decNetRule r, ← i.int?)
  | _ => none

def retrieveFrom {α} (tbl : List (α × Idx)) (idx : Idx) : Option α :=
  (tbl.find? (·.2 == idx)).map (·.1)

/-- `c01.matchall ((idx R)…) Q psl addrs (pat…)`: model = the three-table engine built by folding
    `addRule` over the rules in storage order; spec = linear scan. Answers: sorted text sets. -/
def opC01 (args : List W) : String :=
  match args with
  | [.l rs, q, psl, addrs, pats] =>
    match rs.mapM decIdxNetRule, decRequest q, decPslTable psl, decAddrTable addrs, decPatTable pats with
    | some L, some q, some psl, some addrs, some pats =>
      let ext := mkExt psl addrs pats
      let e := Engine.build djb2 Facts.shortcutLength L
      let model := e.matchAll djb2 Facts.shortcutLength (retrieveFrom L) ext q
      let spec := specMatchAll ext (L.map (·.1)) q
      outTextSet (model.map (·.text)) ++ " " ++ outTextSet (spec.map (·.text))
    | _, _, _, _, _ => "bad-decode"
  | _ => "bad-arity"

def dispatchB (op : String) (args : List W) : Option String :=
  match op with
  | "c01.matchall" => some (opC01 args)
  | _ => none

end UF.Ops

import UF.Driver.Decode
import UF.Driver.Ops.GroupE
import UF.Driver.Ops.GroupI2
import UF.Driver.Ops.GroupL09
import UF.Compose5.TextRef
import UF.Compose5.GrammarW
/- Ops of integration group L (see notes/AGENT_GUIDE.md). Return `none` for ops of other groups. -/
namespace UF.Ops.L
open UF UF.I2 UF.L

def optOfWord : String → Option Opt
  | "important" => some .important | "badfilter" => some .badfilter | "matchCase" => some .matchCase
  | "elemhide" => some .elemhide | "generichide" => some .generichide | "genericblock" => some .genericblock
  | "jsinject" => some .jsinject | "urlblock" => some .urlblock | "content" => some .content
  | "extension" => some .extension | "popup" => some .popup | "stealth" => some .stealth
  | "empty" => some .empty | "mp4" => some .mp4
  | _ => none

def ctypeOfWord : String → Option CType
  | "script" => some .script | "stylesheet" => some .stylesheet | "subdocument" => some .subdocument
  | "object" => some .object | "image" => some .image | "xmlhttprequest" => some .xmlhttprequest
  | "media" => some .media | "font" => some .font | "websocket" => some .websocket | "ping" => some .ping
  | "other" => some .other
  | _ => none

def decVals (w : W) : Option (List (Bool × Bytes)) := do
  let xs ← w.list?
  xs.mapM fun e => match e with
    | .l [n, v] => do pure (← n.bool?, ← v.bytes?)
    | _ => none

/-- One STRUCTURED modifier (the wire form is documented in harness/op_l_textref.go). -/
def decMod (w : W) : Option Mod :=
  match w with
  | .l [.a "opt", .a o] => (optOfWord o).map .opt
  | .l [.a "tp", alt] => alt.bool?.map .thirdParty
  | .l [.a "fp", alt] => alt.bool?.map .firstParty
  | .l [.a "nmc"] => some .notMatchCase
  | .l [.a "doc"] => some .document
  | .l [.a "ct", neg, .a c] => do pure (.ctype (← neg.bool?) (← ctypeOfWord c))
  | .l [.a "domain", vs] => (decVals vs).map .domain
  | .l [.a "denyallow", vs] => vs.bytesList?.map .denyallow
  | .l [.a "dnstype", vs] => (decVals vs).map .dnstype
  | .l [.a "ctag", vs] => (decVals vs).map .ctag
  | .l [.a "client", vs] => (decVals vs).map .client
  | _ => none

def decMods (w : W) : Option (List Mod) := do
  let xs ← w.list?
  xs.mapM decMod

def decCVals (w : W) : Option (List (Bool × CVal)) := do
  let xs ← w.list?
  xs.mapM fun e => match e with
    | .l [n, .a "p", v] => do pure (← n.bool?, .plain (← v.bytes?))
    | .l [n, .a "s", v] => do pure (← n.bool?, .quoted false (← v.bytes?))
    | .l [n, .a "d", v] => do pure (← n.bool?, .quoted true (← v.bytes?))
    | _ => none

/-- One modifier of the WIDER grammar (group P2): `(clientq ((neg p|s|d value)…))`, `(next)`, or a modifier of the
    old grammar. -/
def decModW (w : W) : Option ModW :=
  match w with
  | .l [.a "clientq", vs] => (decCVals vs).map .clientQ
  | .l [.a "next"] => some .notExtension
  | _ => (decMod w).map .base

def decModsW (w : W) : Option (List ModW) := do
  let xs ← w.list?
  xs.mapM decModW

/-- `l.textref <exception> <pattern> (<mod>…) <Go's rendering> <listID> <addrs> <prefixes> <Q> <psl>`

    answer `<renderings agree>|<T|F|err>`:
    model = the complete parser model on the text RENDERED BY LEAN (`L.render`) + `Match` over `modelPat`;
    spec  = `specMatchText` of the STRUCTURED modifiers (`ModSpec.ofModsW`; `= ModSpec.ofMods` on the old
            grammar), the pattern as written and the request — no parser, no record (theorems `c04_text_ref`,
            `c04_wide_text_ref`); where the parser model rejects the text the reference has nothing to say and
            repeats `err`.
    `ood` outside the grammar domain (`patOKW`, `slashOK`, `modsOKW`), for `/regex/` patterns, or where the
    pattern model does not answer. -/
def opTextRef (args : List W) : String :=
  match args with
  | [wl, pat, mods, gotext, id, addrs, prefixes, q, psl] =>
    match wl.bool?, pat.bytes?, decModsW mods, gotext.bytes?, id.int?, decAddrTable addrs,
        decPrefixTable prefixes, decRequest q, decPslTable psl with
    | some wl, some pat, some ms, some gotext, some id, some addrs, some prefixes, some q, some psl =>
      if !patOKW pat || !slashOK pat ms || !modsOKW ms then "ood ood" else
      let text := renderW wl pat ms
      let same := outBool (text == gotext)
      let ext := withModelPat { mkExt psl addrs [] with parsePrefix := tableLookup prefixes none }
      let pa := E.parseNetRule (UF.Ops.I2.ruleExtProbe ext reShortcutM none).px text id
      if !parseInDomain pa then "ood ood" else
      match pa with
      | .error .err => same ++ "|err " ++ same ++ "|err"
      | .error .panic => same ++ "|PANIC " ++ same ++ "|PANIC"
      | .ok r =>
        if UF.isRegexPattern r.pattern then "ood ood" else
        if !matchDecided ext r q then "ood ood" else
        let decided := (modelPat r.pattern (r.isEnabled Facts.OptionMatchCase) (matchTarget r q)).isSome
        let spec :=
          if !q.inDomainB || !decided || !UF.Ops.I2.reqWellFormed q then "-"
          else same ++ "|" ++ outBool (specMatchText ext pat (ModSpec.ofModsW ms) q)
        same ++ "|" ++ outBool (r.matches ext q) ++ " " ++ spec
    | _, _, _, _, _, _, _, _, _ => "bad-decode"
  | _ => "bad-arity"

end UF.Ops.L

namespace UF.Ops

def dispatchL (op : String) (args : List W) : Option String :=
  match op with
  | "l.textref" => some (L.opTextRef args)
  | _ => dispatchL09 op args

end UF.Ops

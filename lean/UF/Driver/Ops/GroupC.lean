import UF.Driver.Decode
import UF.Spec.Priority
import UF.Spec.Result
import UF.Spec.DnsRewrite
/- Ops of work group C (C06–C09). Return `none` for ops of other groups. -/
namespace UF.Ops

/-- `c07.prio <R a> <R b>`: model `isHigherPriority a b`, spec "key a > key b". -/
def opC07Prio (args : List W) : String :=
  match args with
  | [a, b] =>
    match decNetRule a, decNetRule b with
    | some a, some b => outBool (isHigherPriority a b) ++ " " ++ outBool (specHigher a b)
    | _, _ => "bad-decode"
  | _ => "bad-arity"

/-- `c07.matrix (<R>…) (<R>…)`: the matrix, row-major, as a string of T/F. -/
def opC07Matrix (args : List W) : String :=
  match args with
  | [.l rows, .l cols] =>
    match rows.mapM decNetRule, cols.mapM decNetRule with
    | some rows, some cols =>
      let m := String.join (rows.map fun a => String.join (cols.map fun b => outBool (isHigherPriority a b)))
      let s := String.join (rows.map fun a => String.join (cols.map fun b => outBool (specHigher a b)))
      m ++ " " ++ s
    | _, _ => "bad-decode"
  | _ => "bad-arity"

/-- Decode a list of rules and tag each with its position (in `listID`, which no modelled
    function of group C reads) so that answers can be printed as indexes. -/
def decIndexed (w : W) : Option (List NetRule) := do
  let xs ← w.list?
  let rs ← xs.mapM decNetRule
  pure ((rs.zip (List.range rs.length)).map fun (r, i) => { r with listID := (i : Int) })

def outIdx (rs : List NetRule) : String := "(" ++ ",".intercalate (rs.map fun r => toString r.listID) ++ ")"

/-- `c08.negates <R b> <R r>`: model `negatesBadfilter`, spec the twin relation. -/
def opC08Negates (args : List W) : String :=
  match args with
  | [b, r] =>
    match decNetRule b, decNetRule r with
    | some b, some r => outBool (negatesBadfilter b r) ++ " " ++ outBool (isTwin b r)
    | _, _ => "bad-decode"
  | _ => "bad-arity"

/-- `c08.removebad (<R>…)`: indexes of the survivors; spec = the twin filter. -/
def opC08RemoveBad (args : List W) : String :=
  match args with
  | [rs] =>
    match decIndexed rs with
    | some rs => outIdx (removeBadfilterRules rs) ++ " " ++ outIdx (specRemoveBadTwin rs)
    | none => "bad-decode"
  | _ => "bad-arity"

/-- `c09.rewrites (<R>…)`: indexes of `DNSRewrites()`; the spec is computed from the rules that
    carry a rewrite (not through the model's `dnsRewritesAll`). -/
def opC09Rewrites (args : List W) : String :=
  match args with
  | [rs] =>
    match decIndexed rs with
    | some rs =>
      let m := match dnsRewrites rs with
        | some out => outIdx out
        | none => "PANIC"
      m ++ " " ++ outIdx (specRewrites (rs.filter (·.rewrite.isSome)))
    | none => "bad-decode"
  | _ => "bad-arity"

def c09LetterIdx (c : Char) : Nat :=
  if c.toNat ≥ 97 then c.toNat - 97 else c.toNat - 65 + 26

/-- `c09.batch (<R alphabet>…) (-<seq> -<seq> …)`: for each sequence the positions of the survivors. -/
def opC09Batch (args : List W) : String :=
  match args with
  | [.l alpha, .l seqs] =>
    match alpha.mapM decNetRule with
    | some alpha =>
      let alphaArr := alpha.toArray
      let one (f : List NetRule → Option (List NetRule)) (s : String) : String :=
        let rs := s.toList.map fun c => alphaArr.getD (c09LetterIdx c) {}
        let tagged := (rs.zip (List.range rs.length)).map fun (r, i) => { r with listID := (i : Int) }
        match f tagged with
        | some out => String.join (out.map fun r => toString r.listID)
        | none => "X"
      let ss := seqs.map fun w => match w with | .a s => (s.drop 1).toString | _ => ""
      let m := ".".intercalate (ss.map (one dnsRewrites))
      let sp := ".".intercalate (ss.map (one fun rs => some (specRewrites (rs.filter (·.rewrite.isSome)))))
      "o:" ++ m ++ " o:" ++ sp
    | none => "bad-decode"
  | _ => "bad-arity"

/-- `c06.result (<R rules>…) (<R source>…)`: class of `GetBasicResult`; spec `classWeb`. -/
def opC06Result (args : List W) : String :=
  match args with
  | [rs, src] =>
    match decIndexed rs, decIndexed src with
    | some rs, some src =>
      (classOf (getBasicResult (newMatchingResult rs src))).toString ++ " " ++ (classWeb rs src).toString
    | _, _ => "bad-decode"
  | _ => "bad-arity"

/-- `c06.pick`: which rule `GetBasicResult` returns: `b<i>` (i-th rule), `d<i>` (i-th source rule). -/
def opC06Pick (args : List W) : String :=
  match args with
  | [rs, src] =>
    match decIndexed rs, decIndexed src with
    | some rs, some src =>
      let m := newMatchingResult rs src
      let ans := match getBasicResult m with
        | none => "none"
        | some r => if m.replaceRules.isEmpty && m.basicRule.isNone then s!"d{r.listID}" else s!"b{r.listID}"
      ans ++ " -"
    | _, _ => "bad-decode"
  | _ => "bad-arity"

def opC06Dns (args : List W) : String :=
  match args with
  | [rs] =>
    match decIndexed rs with
    | some rs => (classOf (getDNSBasicRule rs)).toString ++ " " ++ (classDns rs).toString
    | none => "bad-decode"
  | _ => "bad-arity"

def opC06DnsPick (args : List W) : String :=
  match args with
  | [rs] =>
    match decIndexed rs with
    | some rs => (match getDNSBasicRule rs with | none => "none" | some r => s!"b{r.listID}") ++ " -"
    | none => "bad-decode"
  | _ => "bad-arity"

/-- `c06.resultx`, `c06.dnsbasicx`, `c07.priox`: inputs with option bits that rule text cannot set
    (set by the harness through reflection); compared with the model only. -/
def opC06ResultX (args : List W) : String :=
  match args with
  | [rs, src] =>
    match decIndexed rs, decIndexed src with
    | some rs, some src =>
      let m := newMatchingResult rs src
      let res := getBasicResult m
      let pick := match res with
        | none => "none"
        | some r => if m.replaceRules.isEmpty && m.basicRule.isNone then s!"d{r.listID}" else s!"b{r.listID}"
      (classOf res).toString ++ ":" ++ pick ++ " -"
    | _, _ => "bad-decode"
  | _ => "bad-arity"

def opC06DnsX (args : List W) : String :=
  match args with
  | [rs] =>
    match decIndexed rs with
    | some rs =>
      let res := getDNSBasicRule rs
      (classOf res).toString ++ ":" ++ (match res with | none => "none" | some r => s!"b{r.listID}") ++ " -"
    | none => "bad-decode"
  | _ => "bad-arity"

def dispatchC (op : String) (args : List W) : Option String :=
  match op with
  | "c07.prio" => some (opC07Prio args)
  | "c07.matrix" => some (opC07Matrix args)
  | "c08.negates" => some (opC08Negates args)
  | "c08.removebad" => some (opC08RemoveBad args)
  | "c09.rewrites" => some (opC09Rewrites args)
  | "c09.batch" => some (opC09Batch args)
  | "c06.result" => some (opC06Result args)
  | "c06.pick" => some (opC06Pick args)
  | "c06.dnsbasic" => some (opC06Dns args)
  | "c06.dnspick" => some (opC06DnsPick args)
  | "c06.resultx" => some (opC06ResultX args)
  | "c06.dnsbasicx" => some (opC06DnsX args)
  | "c07.priox" => some (opC07Prio args)
  | _ => none

end UF.Ops

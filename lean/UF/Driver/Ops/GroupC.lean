import UF.Driver.Decode
import UF.Spec.Priority
/- Ops of work group C (C06–C09). Return `none` for ops of other groups. -/
namespace UF.Ops

/-- `c07.prio <R a> <R b>`: model `isHigherPriority a b`, spec "key a > key b". -/
def opC07Prio (args : List W) : String :=
  match args with
  | [a, b] =>
    match decNetRule a, decNetRule b with
    | some a, some b => outBool (isHigherPriority a b) ++ " " ++ outBool (specHigher a b)
    | _, _ => "bad-decode"
  | _ => "bad-arity"

/-- `c07.matrix (<R>…) (<R>…)`: the matrix, row-major, as a string of T/F. -/
def opC07Matrix (args : List W) : String :=
  match args with
  | [.l rows, .l cols] =>
    match rows.mapM decNetRule, cols.mapM decNetRule with
    | some rows, some cols =>
      let m := String.join (rows.map fun a => String.join (cols.map fun b => outBool (isHigherPriority a b)))
      let s := String.join (rows.map fun a => String.join (cols.map fun b => outBool (specHigher a b)))
      m ++ " " ++ s
    | _, _ => "bad-decode"
  | _ => "bad-arity"

def dispatchC (op : String) (args : List W) : Option String :=
  match op with
  | "c07.prio" => some (opC07Prio args)
  | "c07.matrix" => some (opC07Matrix args)
  | _ => none

end UF.Ops

import UF.Driver.Decode
import UF.Model.DnsRewriteParse
import UF.Spec.DnsRewriteShape
/- Ops of work group H (see notes/AGENT_GUIDE.md). Return `none` for ops of other groups. -/
namespace UF.Ops
open UF

/-! Encoders mirroring harness/wire.go (`waddr`, `wvalue`, `wrewrite`, `whostrule`, `wrequest`). -/

def encAddr (a : Addr) : String := outList [outBool a.is4, toString a.val, outBytes a.zone]

def encValue : RRVal → String
  | .none => "_"
  | .addr a => outList ["addr", outBool a.is4, toString a.val]
  | .str s => outList ["str", outBytes s]
  | .mx p e => outList ["mx", toString p, outBytes e]
  | .srv p w po t => outList ["srv", toString p, toString w, toString po, outBytes t]
  | .svcb p t ps =>
    let params := match ps with
      | none => "_"
      | some kv => outList (kv.map fun (k, v) => outList [outBytes k, outBytes v])
    outList ["svcb", toString p, outBytes t, params]

def encRewrite (d : DnsRewrite) : String :=
  outList [toString d.rcode, toString d.rrType, outBytes d.newCNAME, encValue d.value]

/-- Answers are single tokens: blanks of the wire form become commas (as `tok` in the harness). -/
def tok (s : String) : String := s.map fun c => if c == ' ' then ',' else c

def encExcept {α} (enc : α → String) : Except HErr α → String
  | .ok x => tok (enc x)
  | .error .reject => "err"
  | .error .panic => "PANIC"

/-- `c10.dnsrw <value> <addr table>`: model = full dump of `loadDNSRewrite`; spec = the same
    answer if it has the published shape, `BADSHAPE` otherwise. -/
def opC10Dnsrw (args : List W) : String :=
  match args with
  | [v, addrs] =>
    match v.bytes?, decAddrTable addrs with
    | some v, some addrs =>
      if !dnsRewriteInDomain v then "ood ood" else
      let r := loadDNSRewrite (mkExt [] addrs []) v
      let m := encExcept encRewrite r
      let s := match r with
        | .ok rw => if shapeOK rw then m else "BADSHAPE"
        | _ => m
      m ++ " " ++ s
    | _, _ => "bad-decode"
  | _ => "bad-arity"

/-- `c10.shape <rewrite>`: the shape predicate on a rewrite the IMPLEMENTATION returned
    (the harness expects `T`). -/
def opC10Shape (args : List W) : String :=
  match args with
  | [rw] =>
    match decRewrite rw with
    | some (some rw) => let b := outBool (shapeOK rw); b ++ " " ++ b
    | _ => "bad-decode"
  | _ => "bad-arity"

def dispatchH (op : String) (args : List W) : Option String :=
  match op with
  | "c10.dnsrw" => some (opC10Dnsrw args)
  | "c10.shape" => some (opC10Shape args)
  | _ => none

end UF.Ops

import UF.Driver.Decode
import UF.Model.DnsRewriteParse
import UF.Spec.DnsRewriteShape
import UF.Model.HostRule
import UF.Spec.HostLine
import UF.Model.RequestNew
import UF.Spec.Request
import UF.Compose2.NewRuleFull
/- Ops of work group H (see notes/AGENT_GUIDE.md). Return `none` for ops of other groups. -/
namespace UF.Ops.H
open UF UF.H

/-! Encoders mirroring harness/wire.go (`waddr`, `wvalue`, `wrewrite`, `whostrule`, `wrequest`). -/

def encAddr (a : Addr) : String := outList [outBool a.is4, toString a.val, outBytes a.zone]

def encValue : RRVal → String
  | .none => "_"
  | .addr a => outList ["addr", outBool a.is4, toString a.val]
  | .str s => outList ["str", outBytes s]
  | .mx p e => outList ["mx", toString p, outBytes e]
  | .srv p w po t => outList ["srv", toString p, toString w, toString po, outBytes t]
  | .svcb p t ps =>
    let params := match ps with
      | none => "_"
      | some kv => outList (kv.map fun (k, v) => outList [outBytes k, outBytes v])
    outList ["svcb", toString p, outBytes t, params]

def encRewrite (d : DnsRewrite) : String :=
  outList [toString d.rcode, toString d.rrType, outBytes d.newCNAME, encValue d.value]

/-- Answers are single tokens: blanks of the wire form become commas (as `tok` in the harness). -/
def tok (s : String) : String := s.map fun c => if c == ' ' then ',' else c

def encExcept {α} (enc : α → String) : Except HErr α → String
  | .ok x => tok (enc x)
  | .error .reject => "err"
  | .error .panic => "PANIC"

/-- `c10.dnsrw <value> <addr table>`: model = full dump of `loadDNSRewrite`; spec = the same
    answer if it has the published shape, `BADSHAPE` otherwise. -/
def opC10Dnsrw (args : List W) : String :=
  match args with
  | [v, addrs] =>
    match v.bytes?, decAddrTable addrs with
    | some v, some addrs =>
      if !dnsRewriteInDomain v then "ood ood" else
      let r := loadDNSRewrite (mkExt [] addrs []) v
      let m := encExcept encRewrite r
      let s := match r with
        | .ok rw => if shapeOK rw then m else "BADSHAPE"
        | _ => m
      m ++ " " ++ s
    | _, _ => "bad-decode"
  | _ => "bad-arity"

/-- `c10.shape <rewrite>`: the shape predicate on a rewrite the IMPLEMENTATION returned
    (the harness expects `T`). -/
def opC10Shape (args : List W) : String :=
  match args with
  | [rw] =>
    match decRewrite rw with
    | some (some rw) => let b := outBool (shapeOK rw); b ++ " " ++ b
    | _ => "bad-decode"
  | _ => "bad-arity"

/-! ### C18 -/

def encHostRule (h : HostRule) : String :=
  outList ["H", outBytes h.text, toString h.listID, outList (h.hostnames.map outBytes), encAddr h.ip]

/-- Oracle table for `filterutil.IsDomainName`: `((string bool)…)`. -/
def decBoolTable (w : W) : Option (List (Bytes × Bool)) := do
  let xs ← w.list?
  xs.mapM fun e => match e with
    | .l [h, b] => do pure (← h.bytes?, ← b.bool?)
    | _ => none

def isAsciiSpace (c : UInt8) : Bool := c == 9 || c == 10 || c == 11 || c == 12 || c == 13 || c == 32

/-- `strings.TrimSpace` when, after removing ASCII white space from both ends, both end bytes
    are ASCII (`none` = a byte ≥ 0x80 is reached at an end: Go switches to the Unicode trimming,
    which is not modelled here). -/
def trimSpaceAscii (s : Bytes) : Option Bytes :=
  let t := ((s.dropWhile isAsciiSpace).reverse.dropWhile isAsciiSpace).reverse
  match t.head?, t.getLast? with
  | some a, some b => if a < 128 && b < 128 then some t else none
  | _, _ => some t

def specHostRecord (ext : Ext) (dn : Bytes → Bool) (line : Bytes) : String :=
  match specHostLine ext dn line with
  | some (names, a) => tok (encHostRule { text := line, listID := 1, hostnames := names, ip := a })
  | none => "err"

/-- `c18.hostline <line> <addr table> <dn table>`: `NewHostRule` vs model vs the token reference. -/
def opC18Hostline (args : List W) : String :=
  match args with
  | [line, addrs, dns] =>
    match line.bytes?, decAddrTable addrs, decBoolTable dns with
    | some line, some addrs, some dns =>
      let ext := mkExt [] addrs []
      let dn := fun name => (tableLookup dns false name, UF.I2.isDomainNameB name).2  -- the MODEL of IsDomainName (group E), not the Go table
      encExcept encHostRule (newHostRule ext dn line 1) ++ " " ++ specHostRecord ext dn line
    | _, _, _ => "bad-decode"
  | _ => "bad-arity"

/-- `c18.newrule <line> <addr table> <dn table>`: what `NewRule` makes of the line
    (`skip` | `cos` | `net` | H record).  Spec: the hosts reference, for every line the SYNTACTIC test
    `hostLineOutside` does not exclude (it never looks behind the comment sign: comments with `$$`, `$@$`,
    ` ##` … are compared; theorem `c18_not_comment_not_cosmetic`). -/
def opC18Newrule (args : List W) : String :=
  match args with
  | [line, addrs, dns] =>
    match line.bytes?, decAddrTable addrs, decBoolTable dns with
    | some line, some addrs, some dns =>
      match trimSpaceAscii line with
      | none => "ood ood"
      | some line =>
        let ext := mkExt [] addrs []
        let dn := fun name => (tableLookup dns false name, UF.I2.isDomainNameB name).2  -- the MODEL of IsDomainName (group E), not the Go table
        let m := match newRuleKind ext dn line 1 with
          | .skipped => "skip" | .cosmetic => "cos" | .network => "net" | .crash => "PANIC"
          | .host r => tok (encHostRule r)
        let s := if line.isEmpty || hostLineOutside line then "-" else
          match specHostRecord ext dn line with
          | "err" => "net"
          | r => r
        m ++ " " ++ s
    | _, _, _ => "bad-decode"
  | _ => "bad-arity"

/-- `c18.dns <line> <addr table> <dn table> (<queried names>)`: one `DNSEngine` holding the line;
    per query `<inV4><inV6>`; `nohost` when the line is not a host rule. -/
def opC18Dns (args : List W) : String :=
  match args with
  | [line, addrs, dns, qs] =>
    match line.bytes?, decAddrTable addrs, decBoolTable dns, qs.bytesList? with
    | some line, some addrs, some dns, some qs =>
      match trimSpaceAscii line with
      | none => "ood ood"
      | some line =>
        let ext := mkExt [] addrs []
        let dn := fun name => (tableLookup dns false name, UF.I2.isDomainNameB name).2  -- the MODEL of IsDomainName (group E), not the Go table
        let fmt (f : Bytes → Bool × Bool) : String :=
          outList (qs.map fun q => let (a, b) := f q; outBool a ++ outBool b)
        let m := match newRuleKind ext dn line 1 with
          | .host r => tok (fmt fun q => (hostRuleMatches r q && r.ip.is4, hostRuleMatches r q && !r.ip.is4))
          | _ => "nohost"
        let s := if line.isEmpty || hostLineOutside line then "-" else
          match specHostLine ext dn line with
          | some (names, a) => tok (fmt (specHostAnswer names a))
          | none => "nohost"
        m ++ " " ++ s
    | _, _, _, _ => "bad-decode"
  | _ => "bad-arity"

/-! ### C17 -/

def encRequest (r : Request) : String :=
  outList ["Q", outBytes r.url, outBytes r.urlLower, outBytes r.hostname, outBytes r.domain,
    outBytes r.sourceURL, outBytes r.sourceHostname, outBytes r.sourceDomain,
    outList (r.sortedTags.map outBytes), toString r.reqType, toString r.dnsType, outBool r.thirdParty,
    outBool r.isHostnameRequest, outBytes r.clientName,
    match r.clientIP with | none => "_" | some a => encAddr a]

/-- `c17.req <url> <src> <type> <psl table>`: `NewRequest` vs model vs the reference request
    (the latter only for URLs inside the grammar of the property). -/
def opC17Req (args : List W) : String :=
  match args with
  | [url, src, ty, psl] =>
    match url.bytes?, src.bytes?, ty.nat?, decPslTable psl with
    | some url, some src, some ty, some psl =>
      if !(Bytes.isAscii (url.take Facts.maxURLLength) && Bytes.isAscii (src.take Facts.maxURLLength)) then "ood ood" else
      let ext := mkExt psl [] []
      let s := match refRequest ext url src ty with
        | some q => tok (encRequest q)
        | none => "-"
      encExcept encRequest (newRequest ext url src ty) ++ " " ++ s
    | _, _, _, _ => "bad-decode"
  | _ => "bad-arity"

/-- `c17.hostreq <hostname> <psl table>`: `NewRequestForHostname`. -/
def opC17Hostreq (args : List W) : String :=
  match args with
  | [h, psl] =>
    match h.bytes?, decPslTable psl with
    | some h, some psl =>
      -- hostnames are lower-case by contract (DESIGN §6; `c05_hostname_lowercase_needed`)
      if h.any Bytes.isUpper then "ood ood" else
      let ext := mkExt psl [] []
      let s := if noEmptyLabel h then
          tok (encRequest { url := lit "http://" ++ h, urlLower := lit "http://" ++ h, hostname := h,
                            domain := refDomain ext h, reqType := Facts.TypeDocument, isHostnameRequest := true })
        else "-"
      encExcept encRequest (newRequestForHostname ext h) ++ " " ++ s
    | _, _ => "bad-decode"
  | _ => "bad-arity"

/-- `c17.etld <hostname> <psl table>`: `effectiveTLDPlusOne` alone. -/
def opC17Etld (args : List W) : String :=
  match args with
  | [h, psl] =>
    match h.bytes?, decPslTable psl with
    | some h, some psl =>
      let ext := mkExt psl [] []
      let s := if noEmptyLabel h then outBytes ((refETLD1 ext h).getD []) else "-"
      encExcept outBytes (effectiveTLDPlusOne ext h) ++ " " ++ s
    | _, _ => "bad-decode"
  | _ => "bad-arity"

end UF.Ops.H

namespace UF.Ops
open UF.Ops.H

def dispatchH (op : String) (args : List W) : Option String :=
  match op with
  | "c10.dnsrw" => some (opC10Dnsrw args)
  | "c10.shape" => some (opC10Shape args)
  | "c17.req" => some (opC17Req args)
  | "c17.hostreq" => some (opC17Hostreq args)
  | "c17.etld" => some (opC17Etld args)
  | "c18.hostline" => some (opC18Hostline args)
  | "c18.newrule" => some (opC18Newrule args)
  | "c18.dns" => some (opC18Dns args)
  | _ => none

end UF.Ops

import UF.Driver.Decode
import UF.Spec.Storage
import UF.Spec.Html
/- Ops of work group D (C11: `c11.*`, C20: `c20.*`). Return `none` for ops of other groups. -/
namespace UF.Ops
open UF.Storage UF.Html

/-! ### C11 -/

def kindLetter : Kind → String
  | .network => "N" | .host => "H" | .cosmetic => "C"

/-- Oracle table of `rules.NewRule`: trimmed line ↦ kind / none / err. -/
abbrev ParseTable := List (Bytes × String)

def decParseTable (w : W) : Option ParseTable := do
  let xs ← w.list?
  xs.mapM fun e => match e with
    | .l [l, .a k] => do pure ((← l.bytes?), k)
    | _ => none

/-- The parser handed to the model: trims (with the MODEL's trimSpace), then asks the table.
    A line missing from the table shows up as a rule with the text `MISSING-ORACLE`. -/
def tableParser (t : ParseTable) : Parser := fun l _ =>
  let s := trimSpace l
  if s.isEmpty then .nothing else
  match t.lookup s with
  | some "N" => .rule .network s
  | some "H" => .rule .host s
  | some "C" => .rule .cosmetic s
  | some "none" => .nothing
  | some "err" => .error
  | _ => .rule .network (lit "MISSING-ORACLE")

def decRList (file : Bool) (w : W) : Option RList :=
  match w with
  | .l [i, g, c] => do pure { id := (← i.int?), ignoreCosmetic := (← g.bool?), content := (← c.bytes?), file }
  | _ => none

def decRLists (file : Bool) (w : W) : Option (List RList) := do
  let xs ← w.list?
  xs.mapM (decRList file)

def inInt32 (i : Int) : Bool := -2147483648 ≤ i && i < 2147483648

/-- Answer lists are joined without blanks (an answer is one token). -/
def outAnswers (xs : List String) : String := "(" ++ ",".intercalate xs ++ ")"

def outSRule (r : SRule) : String := s!"{kindLetter r.kind}:{outBytes r.text}:{r.listID}"

def outRetrieved : Retrieved → String
  | .panic => "PANIC" | .err => "err" | .nothing => "none" | .bad => "bad" | .nilRule => "nilrule"
  | .rule r => outSRule r

/-- The chunking used by the driver for the file-backed model (any would do: `retrieveFile_eq_string`). -/
def driverIO : Storage.IO := { bufSize := Facts.readerBufferSize, chunk := fun k => (k * 1237 + 1) % 5000 }

/-- `c11.trim <bytes>`: model `trimSpace`, spec `trimSpaceRef`. -/
def opTrim (args : List W) : String :=
  match args with
  | [b] => match b.bytes? with
    | some b => outBytes (trimSpace b) ++ " " ++ outBytes (trimSpaceRef b)
    | none => "bad-decode"
  | _ => "bad-arity"

/-- `c11.pack <id> <idx>`: `<storage index>:<id'>:<idx'>` through pack/unpack on bit vectors;
    spec by integer arithmetic. -/
def opPack (args : List W) : String :=
  match args with
  | [i, x] => match i.int?, x.int? with
    | some id, some idx =>
      if !(inInt32 id && inInt32 idx) then "ood -" else
      let p := pack (BitVec.ofInt 32 id) (BitVec.ofInt 32 idx)
      let (a, b) := unpack p
      let specP : Int := id * 4294967296 + idx.emod 4294967296
      s!"{p.toInt}:{a.toInt}:{b.toInt} {specP}:{id}:{idx}"
    | _, _ => "bad-decode"
  | _ => "bad-arity"

/-- `c11.scan ((id ign content)…) <oracle>`: the storage scan `((storageIdx kind:text:id)…)` or `err`
    for duplicate ids; spec = the reference line-by-line parse with the index computed arithmetically. -/
def opScan (args : List W) : String :=
  match args with
  | [ls, t] => match decRLists false ls, decParseTable t with
    | some lists, some t =>
      if !(lists.all fun l => inInt32 l.id && l.content.length < 2147483648) then "ood -" else
      let parse := tableParser t
      match newRuleStorage lists with
      | none => "err err"
      | some st =>
        let m := (storageScan parse st.lists).map fun (r, idx) => s!"{idx.toInt}/{outSRule r}"
        let s := (specStorageScan parse lists).map fun (r, id, off) =>
          s!"{id * 4294967296 + (off : Int)}/{outSRule r}"
        outAnswers m ++ " " ++ outAnswers s
    | _, _ => "bad-decode"
  | _ => "bad-arity"

/-- `c11.retrieve ((id ign content)…) <oracle> (idx…)`: consecutive `RetrieveRule` calls on one
    storage (the cache is threaded), String-backed and File-backed models side by side.
    Spec: a scanned index answers with the scanned rule; other indices are not constrained
    (the model's answer is repeated). -/
def opRetrieve (args : List W) : String :=
  match args with
  | [ls, t, is] => match decRLists false ls, decRLists true ls, decParseTable t, is.list? >>= (·.mapM W.int?) with
    | some lists, some flists, some t, some idxs =>
      if !(lists.all fun l => inInt32 l.id && l.content.length < 2147483648) then "ood -" else
      if !(idxs.all fun i => -9223372036854775808 ≤ i && i < 9223372036854775808) then "ood -" else
      let parse := tableParser t
      match newRuleStorage lists, newRuleStorage flists with
      | some st, some fst =>
        let run (st : RuleStorage) : List Retrieved :=
          (idxs.foldl (init := (st, ([] : List Retrieved))) fun (st, acc) i =>
            let (r, st') := retrieveRule driverIO parse st (BitVec.ofInt 64 i)
            (st', r :: acc)).2.reverse
        let a := run st
        let b := run fst
        if a != b then "model-backing-mismatch -" else
        let scanned := specStorageScan parse lists
        let spec := (idxs.zip a).map fun (i, r) =>
          match scanned.find? (fun (_, id, off) => id * 4294967296 + (off : Int) == i) with
          | some (sr, _, _) => outSRule sr
          | none => outRetrieved r
        outAnswers (a.map outRetrieved) ++ " " ++ outAnswers spec
      | _, _ => "err err"
    | _, _, _, _ => "bad-decode"
  | _ => "bad-arity"

/-! ### C20 -/

def outResponse : Option Response → String
  | none => "err"
  | some r => s!"{outBytes r.body}|{r.contentLength}|{outBool r.contentEncoding}|{outBool r.cspKept}"

/-- `c20.html <body> <gzip T/F> <tag>`: the body is the DECOMPRESSED body (gzip is an oracle:
    decompress ∘ compress = id). -/
def opHtml (args : List W) : String :=
  match args with
  | [b, _gz, t] => match b.bytes?, t.bytes? with
    | some b, some tag =>
      if !Bytes.isAscii tag then "ood -" else
      let w := Facts.headBufferSize
      let m := filterHTML w b tag
      let out := specFilter w b tag
      let injected := (specFind w b).isSome
      let s : Response := ⟨out, out.length, false, !injected⟩
      outResponse m ++ " " ++ outResponse (some s)
    | _, _ => "bad-decode"
  | _ => "bad-arity"

/-- `c20.index <body>`: `findBodyInjectionIndex` on the Latin-1-decoded text (byte index into the
    UTF-8 text, or -1); spec: the reference position mapped into the UTF-8 text. -/
def opHtmlIndex (args : List W) : String :=
  match args with
  | [b] => match b.bytes? with
    | some b =>
      let w := Facts.headBufferSize
      let show_ (o : Option Nat) : String := match o with | some i => toString i | none => "-1"
      show_ (findBodyInjectionIndex w (latin1Decode b)) ++ " " ++
        show_ ((specFind w b).map fun i => (latin1Decode (b.take i)).length)
    | none => "bad-decode"
  | _ => "bad-arity"

def dispatchD (op : String) (args : List W) : Option String :=
  match op with
  | "c11.trim" => some (opTrim args)
  | "c11.pack" => some (opPack args)
  | "c11.scan" => some (opScan args)
  | "c11.retrieve" => some (opRetrieve args)
  | "c20.html" => some (opHtml args)
  | "c20.index" => some (opHtmlIndex args)
  | _ => none

end UF.Ops

import UF.Driver.Decode
import UF.Driver.Ops.GroupC
import UF.Compose5.C09Text
/- Ops of integration group L for C09 (the relation from the property text).
   Return `none` for ops of other groups. -/
namespace UF.Ops

/-- `l.c09mixed (<R>…)`: indexes of `DNSRewrites()` (model, as `c09.rewrites`); the spec token is the
    TEXT-level reference `UF.L.specRewritesText` (plain disjunction of the clauses of the property
    text), computed from the rules that carry a rewrite (not through the model's `dnsRewritesAll`). -/
def opL09Mixed (args : List W) : String :=
  match args with
  | [rs] =>
    match decIndexed rs with
    | some rs =>
      let m := match dnsRewrites rs with
        | some out => outIdx out
        | none => "PANIC"
      m ++ " " ++ outIdx (UF.L.specRewritesText (rs.filter (·.rewrite.isSome)))
    | none => "bad-decode"
  | _ => "bad-arity"

def dispatchL09 (op : String) (args : List W) : Option String :=
  match op with
  | "l.c09mixed" => some (opL09Mixed args)
  | _ => none

end UF.Ops

import UF.Driver.Decode
import UF.Model.Match
/- op `match <R> <Q> <psl> <addrs> (<pat>…)`: model of `NetworkRule.Match`. -/
namespace UF.Ops

def opMatch (args : List W) : String :=
  match args with
  | [r, q, psl, addrs, pats] =>
    match decNetRule r, decRequest q, decPslTable psl, decAddrTable addrs, decPatTable pats with
    | some r, some q, some psl, some addrs, some pats =>
      outBool (r.matches (mkExt psl addrs pats) q)
    | _, _, _, _, _ => "bad-decode"
  | _ => "bad-arity"

end UF.Ops

import UF.Driver.Decode
import UF.Driver.Ops.GroupE
import UF.Model.RequestNew
import UF.Spec.Request
/- Ops of strengthening group R1 (after seed round 5). Return `none` for ops of other groups.

   `c04.reqmatch <R> <Q> <psl> <addrs> (<pat>…)`: `NetworkRule.Match` on the request that
   `rules.NewRequest(url, sourceURL, type)` builds.  The Go column is `f.Match(NewRequest(…))`.  The
   DERIVED fields of the wire request (hostname, domain, source hostname, source domain, third-party) are
   NOT trusted here: the model column recomputes them with the model of `NewRequest` (group H,
   `UF/Model/RequestNew.lean`) and the spec column with the reference request of C17
   (`UF/Spec/Request.lean`: URL-grammar host, public suffix plus one label or the host itself,
   third-party = there is a source and its registrable domain differs), from the URL, the source URL and
   the request type alone; the fields `NewRequest` does not assign (tags, client, DNS type) are kept.
   So a request whose third-party flag is wrong is seen as a wrong `$third-party` verdict. -/
namespace UF.Ops.R1
open UF UF.H UF.Ops

/-- The fields `NewRequest` leaves alone, copied from the wire request. -/
def withClientFields (q q' : Request) : Request :=
  { q' with sortedTags := q.sortedTags, dnsType := q.dnsType, clientName := q.clientName, clientIP := q.clientIP }

def opC04ReqMatch (args : List W) : String :=
  match args with
  | [r, q, psl, addrs, pats] =>
    match decNetRule r, decRequest q, decPslTable psl, decAddrTable addrs, decPatTable pats with
    | some r, some q, some psl, some addrs, some pats =>
      -- the request model is byte-exact on ASCII URLs (as in `c17.req`); hostname requests are not built by NewRequest
      if q.isHostnameRequest || !(Bytes.isAscii q.url && Bytes.isAscii q.sourceURL) then "ood ood" else
      let ext := mkExt psl addrs pats
      match newRequest ext q.url q.sourceURL q.reqType with
      | .error _ => "PANIC -"
      | .ok qm =>
        let qm := withClientFields q qm
        if !qm.inDomainB then "ood ood" else
        let s := match refRequest ext q.url q.sourceURL q.reqType with
          | some qs => outBool (specMatch ext r (withClientFields q qs))
          | none => "-"
        outBool (r.matches ext qm) ++ " " ++ s
    | _, _, _, _, _ => "bad-decode"
  | _ => "bad-arity"

end UF.Ops.R1

namespace UF.Ops

def dispatchR1 (op : String) (args : List W) : Option String :=
  match op with
  | "c04.reqmatch" => some (R1.opC04ReqMatch args)
  | _ => none

end UF.Ops

import UF.Driver.Decode
import UF.Model.Match
import UF.Model.ParseOptions
import UF.Model.NewRule
import UF.Spec.Match
/- Ops of work group E (see notes/AGENT_GUIDE.md). Return `none` for ops of other groups. -/
namespace UF.Ops

/-! ### Encoders: the same single-token format as harness/wire.go (`wnetrule`). -/

def encStrs (l : List Bytes) : String := outList (l.map outBytes)
def encNats (l : List Nat) : String := outList (l.map toString)

def encPrefix (p : Prefix) : String :=
  outList [outBool p.addr.is4, toString p.addr.val, toString p.bits]

def encClients : Option Clients → String
  | none => "_"
  | some c => outList [encStrs c.hosts, outList (c.nets.map encPrefix)]

def encValue : RRVal → String
  | .none => "_"
  | .addr a => outList ["addr", outBool a.is4, toString a.val]
  | .str s => outList ["str", outBytes s]
  | .mx p e => outList ["mx", toString p, outBytes e]
  | .srv p w po t => outList ["srv", toString p, toString w, toString po, outBytes t]
  | .svcb p t ps =>
    outList ["svcb", toString p, outBytes t,
      match ps with
      | none => "_"
      | some kv => outList (kv.map fun (k, v) => outList [outBytes k, outBytes v])]

def encRewrite : Option DnsRewrite → String
  | none => "_"
  | some d => outList [toString d.rcode, toString d.rrType, outBytes d.newCNAME, encValue d.value]

def encNetRule (r : NetRule) : String :=
  outList ["R", outBytes r.text, toString r.listID, outBool r.whitelist, outBytes r.pattern, outBytes r.shortcut,
    encStrs r.permDomains, encStrs r.restrDomains, encStrs r.denyallow, encNats r.permDns, encNats r.restrDns,
    encStrs r.permTags, encStrs r.restrTags, encClients r.permClients, encClients r.restrClients,
    toString r.enabled, toString r.disabled, toString r.permTypes, toString r.restrTypes, encRewrite r.rewrite]

/-! ### Oracle tables of the parser ops -/

/-- prefix table: `((string prefix|_)…)`. -/
def decPrefixTable (w : W) : Option (List (Bytes × Option Prefix)) := do
  let xs ← w.list?
  xs.mapM fun e => match e with
    | .l [s, p] => do
      let s ← s.bytes?
      if p.isNone then pure (s, none) else pure (s, some (← decPrefix p))
    | _ => none

/-- rewrite table: `((value err|rewrite)…)`. -/
def decRewriteTable (w : W) : Option (List (Bytes × Option DnsRewrite)) := do
  let xs ← w.list?
  xs.mapM fun e => match e with
    | .l [s, .a "err"] => do pure (← s.bytes?, none)
    | .l [s, rw] => do
      let s ← s.bytes?
      let rw ← decRewrite rw
      pure (s, rw)
    | _ => none

/-- regexp shortcut table: `((pattern shortcut)…)`. -/
def decShortcutTable (w : W) : Option (List (Bytes × Bytes)) := do
  let xs ← w.list?
  xs.mapM fun e => match e with
    | .l [p, s] => do pure (← p.bytes?, ← s.bytes?)
    | _ => none

def mkParseExt (psl : List (Bytes × (Bytes × Bool))) (addrs : List (Bytes × Option Addr))
    (prefixes : List (Bytes × Option Prefix)) (rewrites : List (Bytes × Option DnsRewrite))
    (shortcuts : List (Bytes × Bytes)) (pats : List ((Bytes × Bool × Bytes) × Bool)) : E.ParseExt where
  ext := { mkExt psl addrs pats with parsePrefix := tableLookup prefixes none }
  loadDNSRewrite := tableLookup rewrites none
  regexpShortcut := tableLookup shortcuts []

/-- Is the model exact on this parse?  `strings.ToLower` of the shortcut is modelled for ASCII only
    (the ASCII lower-casing keeps non-ASCII bytes, so a non-ASCII candidate shows in the result). -/
def parseInDomain (x : E.PE NetRule) : Bool :=
  match x with
  | .ok r => Bytes.isAscii r.shortcut
  | .error _ => true

def outParse (x : E.PE NetRule) : String :=
  match x with
  | .ok r => (encNetRule r).replace " " ","   -- answers are single tokens without blanks
  | .error .err => "err"
  | .error .panic => "PANIC"

/-- `c04.parse <text> <listID> <addrs> <prefixes> <rewrites> <reshortcuts>`: the model of
    `NewNetworkRule`, printed in the format of `wnetrule`. -/
def opC04Parse (args : List W) : String :=
  match args with
  | [text, id, addrs, prefixes, rewrites, shortcuts] =>
    match text.bytes?, id.int?, decAddrTable addrs, decPrefixTable prefixes, decRewriteTable rewrites,
        decShortcutTable shortcuts with
    | some text, some id, some addrs, some prefixes, some rewrites, some shortcuts =>
      let px := mkParseExt [] addrs prefixes rewrites shortcuts []
      let res := E.parseNetRule px text id
      if !parseInDomain res then "ood -" else outParse res ++ " -"
    | _, _, _, _, _, _ => "bad-decode"
  | _ => "bad-arity"

/-- DESIGN.md §6: hostnames given to `NewRequestForHostname` / `DNSRequest` are lower-case by contract
    (`FillRequestForHostname` does not lower-case `URLLowerCase`; `c05_hostname_lowercase_needed`).  A
    hostname request with an upper-case ASCII letter in its name is outside the domain: `ood`. -/
def hostnameCaseOK (q : Request) : Bool := !q.isHostnameRequest || !q.hostname.any Bytes.isUpper

/-- `c04.match <R> <Q> <psl> <addrs> (<pat>…)`: model = `NetRule.matches`, spec = `specMatch`
    (from the modifier values); `ood` outside the request domain of C04. -/
def opC04Match (args : List W) : String :=
  match args with
  | [r, q, psl, addrs, pats] =>
    match decNetRule r, decRequest q, decPslTable psl, decAddrTable addrs, decPatTable pats with
    | some r, some q, some psl, some addrs, some pats =>
      if !q.inDomainB || !hostnameCaseOK q then "ood ood" else
      let ext := mkExt psl addrs pats
      outBool (r.matches ext q) ++ " " ++ outBool (specMatch ext r q)
    | _, _, _, _, _ => "bad-decode"
  | _ => "bad-arity"

/-- `c04.textmatch <text> <listID> <addrs> <prefixes> <rewrites> <reshortcuts> <Q> <psl> (<pat>…)`:
    model = `(parseNetRule text).matches q`, spec = `specMatch (parseNetRule text) q` — the
    reference of the property computed from the rule TEXT. -/
def opC04TextMatch (args : List W) : String :=
  match args with
  | [text, id, addrs, prefixes, rewrites, shortcuts, q, psl, pats] =>
    match text.bytes?, id.int?, decAddrTable addrs, decPrefixTable prefixes, decRewriteTable rewrites,
        decShortcutTable shortcuts, decRequest q, decPslTable psl, decPatTable pats with
    | some text, some id, some addrs, some prefixes, some rewrites, some shortcuts, some q, some psl, some pats =>
      let px := mkParseExt psl addrs prefixes rewrites shortcuts pats
      let res := E.parseNetRule px text id
      if !parseInDomain res || !q.inDomainB || !hostnameCaseOK q then "ood ood" else
      match res with
      | .ok r => outBool (r.matches px.ext q) ++ " " ++ outBool (specMatch px.ext r q)
      | .error .err => "err err"
      | .error .panic => "PANIC PANIC"
    | _, _, _, _, _, _, _, _, _ => "bad-decode"
  | _ => "bad-arity"

/-- trim table: `((string TrimSpace(string))…)`; an unknown key is returned unchanged (a wrong
    model split then shows as a disagreement). -/
def decTrimTable (w : W) : Option (List (Bytes × Bytes)) := do
  let xs ← w.list?
  xs.mapM fun e => match e with
    | .l [s, t] => do pure (← s.bytes?, ← t.bytes?)
    | _ => none

def trimOf (tbl : List (Bytes × Bytes)) (k : Bytes) : Bytes :=
  match tbl.find? (·.1 == k) with
  | some (_, v) => v
  | none => k

/-- `c12.newrule <line> <listID> <trim table> <H|err> <addrs> <prefixes> <rewrites> <reshortcuts>`:
    the model of `rules.NewRule`; `TrimSpace` and `NewHostRule` are oracles (groups D and H). -/
def opC12NewRule (args : List W) : String :=
  match args with
  | [line, id, trims, host, addrs, prefixes, rewrites, shortcuts] =>
    let hostRule : Option (Option HostRule) :=
      match host with
      | .a "err" => some none
      | h => (decHostRule h).map some
    match line.bytes?, id.int?, decTrimTable trims, hostRule, decAddrTable addrs, decPrefixTable prefixes,
        decRewriteTable rewrites, decShortcutTable shortcuts with
    | some line, some id, some trims, some hostRule, some addrs, some prefixes, some rewrites, some shortcuts =>
      let rx : E.RuleExt := {
        px := mkParseExt [] addrs prefixes rewrites shortcuts []
        trim := trimOf trims
        newHostRule := fun _ _ => hostRule }
      let out := match E.newRule rx line id with
        | .ok none => "none"
        | .ok (some r) =>
          let kind := match r with | .net _ => "net" | .host _ => "host" | .cos _ => "cos"
          kind ++ ":" ++ outBytes r.text ++ ":" ++ toString r.listID
        | .error .err => "err"
        | .error .panic => "PANIC"
      out ++ " -"
    | _, _, _, _, _, _, _, _ => "bad-decode"
  | _ => "bad-arity"

/-! ### The text-level helpers one by one (`c04.units`) -/

def outPE {α} (f : α → String) (x : E.PE α) : String :=
  match x with
  | .ok a => f a
  | .error .err => "err"
  | .error .panic => "PANIC"

def opC04Units (op : String) (args : List W) : Option String :=
  match op, args with
  | "c04.domainname", [s] => some <|
    match s.bytes? with
    | some s => outPE outBool (E.isDomainNameC s) ++ " -"
    | none => "bad-decode"
  | "c04.split", [s, sep, esc, pres] => some <|
    match s.bytes?, sep.nat?, esc.nat?, pres.bool? with
    | some s, some sep, some esc, some pres =>
      outPE (fun l => (encStrs l).replace " " ",") (E.splitWithEscapeCharacter s sep.toUInt8 esc.toUInt8 pres) ++ " -"
    | _, _, _, _ => "bad-decode"
  | "c04.ruletext", [s] => some <|
    match s.bytes? with
    | some s => outPE (fun (p, o, wl) => "(" ++ outBytes p ++ "," ++ outBytes o ++ "," ++ outBool wl ++ ")") (E.parseRuleText s) ++ " -"
    | none => "bad-decode"
  | "c04.shortcut", [s] => some <|
    match s.bytes? with
    | some s => outPE outBytes (E.findShortcut s) ++ " -"
    | none => "bad-decode"
  | _, _ => none

def dispatchE (op : String) (args : List W) : Option String :=
  match op with
  | "c04.match" => some (opC04Match args)
  | "c04.parse" => some (opC04Parse args)
  | "c04.textmatch" => some (opC04TextMatch args)
  | "c12.newrule" => some (opC12NewRule args)
  | _ => opC04Units op args

end UF.Ops

import UF.Driver.Decode
import UF.Model.Match
import UF.Spec.Match
/- Ops of work group E (see notes/AGENT_GUIDE.md). Return `none` for ops of other groups. -/
namespace UF.Ops

/-- `c04.match <R> <Q> <psl> <addrs> (<pat>…)`: model = `NetRule.matches`, spec = `specMatch`
    (from the modifier values); `ood` outside the request domain of C04. -/
def opC04Match (args : List W) : String :=
  match args with
  | [r, q, psl, addrs, pats] =>
    match decNetRule r, decRequest q, decPslTable psl, decAddrTable addrs, decPatTable pats with
    | some r, some q, some psl, some addrs, some pats =>
      if !q.inDomainB then "ood ood" else
      let ext := mkExt psl addrs pats
      outBool (r.matches ext q) ++ " " ++ outBool (specMatch ext r q)
    | _, _, _, _, _ => "bad-decode"
  | _ => "bad-arity"

def dispatchE (op : String) (args : List W) : Option String :=
  match op with
  | "c04.match" => some (opC04Match args)
  | _ => none

end UF.Ops

import UF.Driver.Decode
import UF.Model.Mask
import UF.Spec.Mask
/- Ops of work group G (C03, see notes/AGENT_GUIDE.md). Return `none` for ops of other groups. -/
namespace UF.Ops
open UF.Mask UF.MaskSpec

/-- `c03.p2r <pattern>`: model = text produced by `patternToRegexpText` (or PANIC). -/
def opC03P2R (args : List W) : String :=
  match args with
  | [p] =>
    match p.bytes? with
    | some p =>
      -- second column: the closed form `maskText` (only claimed for mask patterns that are not any-URL patterns)
      (match patternToRegexpText p with
       | some t => outBytes t
       | none => "PANIC") ++ " " ++
      (if isAnyPattern p || isRegexPattern p then "-" else outBytes (maskText p))
    | none => "bad-decode"
  | _ => "bad-arity"

/-- `c03.acc <pattern as written> <pattern as stored in the rule> <matchCase> <subject>`:
    model = `/*` rewrite + `preparePatternText` + regex parser + search; spec = `ruleAccepts`. -/
def opC03Acc (args : List W) : String :=
  match args with
  | [p, stored, mc, u] =>
    match p.bytes?, stored.bytes?, mc.bool?, u.bytes? with
    | some p, some stored, some mc, some u =>
      -- outside ASCII the byte-level model is not Go's rune-based regexp (hypotheses of `c03`)
      if !Bytes.isAscii u || !Bytes.isAscii p then "ood ood" else
      let spec := outBool (ruleAccepts p mc u)
      let model :=
        match rewriteSlashStar p with
        | none => "PANIC"
        | some s =>
          if s != stored then "bad-rewrite" else
          match preparePatternText s mc with
          | .panic => "PANIC"
          | .any => "T"
          | .text t =>
            match Re.parseRE t with
            | some r =>
              -- the parsed expression must be the expression the mask stands for (theorem B, re-checked per line)
              if isRegexPattern s || r == maskAst (tokenize s) mc then outBool (r.search u) else "bad-ast"
            | none => "F"
      model ++ " " ++ spec
    | _, _, _, _ => "bad-decode"
  | _ => "bad-arity"

def dispatchG (op : String) (args : List W) : Option String :=
  match op with
  | "c03.p2r" => some (opC03P2R args)
  | "c03.p2rx" => some (opC03P2R args)
  | "c03.acc" => some (opC03Acc args)
  | _ => none

end UF.Ops

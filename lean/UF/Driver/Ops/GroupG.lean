import UF.Driver.Decode
/- Ops of work group G (see notes/AGENT_GUIDE.md). Return `none` for ops of other groups. -/
namespace UF.Ops

def dispatchG (op : String) (args : List W) : Option String :=
  match op, args with
  | _, _ => none

end UF.Ops

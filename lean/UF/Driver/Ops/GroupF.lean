import UF.Driver.Decode
import UF.Model.Prog
/- Ops of work group F (see notes/AGENT_GUIDE.md). Return `none` for ops of other groups. -/
namespace UF.Ops
open UF.Prog

/-- One abstract query of a trace (see harness/op_c13_common.go `gfEntry`). -/
structure FEntry where
  pool : Bool
  cands : List Int
  matching : List Nat
  resident : List Nat
  obsAns : Bool
  obsSize : Bool

def decIntList (w : W) : Option (List Int) := do
  let xs ← w.list?
  xs.mapM W.int?

def decFEntry (w : W) : Option FEntry :=
  match w with
  | .l [p, c, m, r, oa, os] => do
    pure { pool := ← p.bool?, cands := ← decIntList c, matching := ← m.natList?, resident := ← r.natList?,
           obsAns := ← oa.bool?, obsSize := ← os.bool? }
  | _ => none

/-- `(idx listID rid)` or `(idx listID rid status)`; `status` = what `preparePattern` returns on a fresh
    object of that rule: 0 (matches anything, nothing stored), 1 (compiled), 2 (invalid); default 0. -/
def decTruth (w : W) : Option (List (Int × Int × Nat × Nat)) := do
  let xs ← w.list?
  xs.mapM fun e => match e with
    | .l [i, l, r] => do pure (← i.int?, ← l.int?, ← r.nat?, 0)
    | .l [i, l, r, c] => do pure (← i.int?, ← l.int?, ← r.nat?, ← c.nat?)
    | _ => none

/-- Key of entry `k`: the request's hostname carries the entry number, so that the candidate function and
    `matches` of the driver's `Env` are functions of the request, as in the model. -/
def entryKey (k : Nat) : Bytes := (Nat.toDigits 10 k).map (fun c => c.toNat.toUInt8)

/-- The `Env` of a trace.  Every entry is one loop over storage candidates (the harness observes first
    occurrences only, so they are filed as domains-table candidates: no `ruleIn`) followed by the in-memory
    rules; the hosts-table stage of a DNS query is a separate entry, so `basic` always stops the query. -/
def fEnv (truth : List (Int × Int × Nat × Nat)) (entries : List FEntry) : Env Nat Unit :=
  let keyed := (List.range entries.length).zip entries |>.map fun (k, e) => (entryKey k, e)
  let find (req : Request) : Option FEntry := (keyed.find? (fun p => p.1 == req.hostname)).map (·.2)
  let status (r : Nat) : Nat := match truth.find? (fun e => e.2.2.1 == r) with | some e => e.2.2.2 | none => 0
  { truth := fun idx => (truth.find? (fun e => e.1 == idx)).map (fun e => e.2.2.1)
    listOf := fun idx => match truth.find? (fun e => e.1 == idx) with | some e => e.2.1 | none => 0
    etld1 := id
    cands := fun req => match find req with | some e => e.cands.map (fun i => (false, i)) | none => []
    hcands := fun _ => []
    basic := fun _ => true
    wants := fun _ _ => true
    pre := fun r req => match find req with
      | some e => e.matching.contains r || e.resident.contains r
      | none => false
    compile := fun r => match status r with | 0 => .any | 1 => .re () | _ => .bad
    accepts := fun _ _ _ => true
    resident := (entries.flatMap (·.resident)).eraseDups }

/-- Answers are compared as sets (DESIGN.md §6): sorted, duplicates removed. -/
def outNats (xs : List Nat) : String := "[" ++ ".".intercalate ((xs.eraseDups.mergeSort (· ≤ ·)).map toString) ++ "]"

/-- `c13model` / `c19model`: replay an abstract trace sequentially on the Prog model (`runQuery`), with
    the lists in `closed` closed before entry `closeAt` (never if negative).  Prints, for every entry,
    `<sorted answer>:<cache size>` with `_` where the harness could not observe. -/
def opProgModel (withSpec : Bool) (args : List W) : String :=
  match args with
  | [tw, cw, kw, ew] =>
    match decTruth tw, decIntList cw, kw.int?, ew.list? with
    | some truth, some closed, some closeAt, some ews =>
      match ews.mapM decFEntry with
      | none => "bad-entry"
      | some entries =>
        let env := fEnv truth entries
        let go := fun (acc : State Nat Unit × List String) (ke : Nat × FEntry) =>
          let (k, e) := ke
          let s := acc.1
          let s := if (k : Int) == closeAt then { s with closed := closed ++ s.closed } else s
          let req : Request := { hostname := entryKey k }
          let q : Query := if e.pool then .dns { hostname := entryKey k } else .web req
          let (s', t) := runQuery env s q
          let a := if e.obsAns then outNats (t.answer.1 ++ t.answer.2) else "_"
          let z := if e.obsSize then toString s'.cache.length else "_"
          let fin := if t.pc.isDone then "" else if t.pc.isCrash then "!crash" else "!unfinished"
          (s', (a ++ ":" ++ z ++ fin) :: acc.2)
        let (_, outs) := ((List.range entries.length).zip entries).foldl go (({} : State Nat Unit), [])
        -- the stateless reference (fault-free histories only): `pureAnswer` of each query, and the cache
        -- holds exactly the retrievable indices among all candidates seen so far
        let specGo := fun (acc : List Int × List String) (ke : Nat × FEntry) =>
          let (k, e) := ke
          let q : Query := if e.pool then .dns { hostname := entryKey k } else .web { hostname := entryKey k }
          let seen := (acc.1 ++ e.cands.filter (fun i => (env.truth i).isSome)).eraseDups
          let a := if e.obsAns then outNats ((pureAnswer env q).1 ++ (pureAnswer env q).2) else "_"
          let z := if e.obsSize then toString seen.length else "_"
          (seen, (a ++ ":" ++ z) :: acc.2)
        let spec := if withSpec then
            ",".intercalate (((List.range entries.length).zip entries).foldl specGo ([], [])).2.reverse
          else "-"
        ",".intercalate outs.reverse ++ " " ++ spec
    | _, _, _, _ => "bad-decode"
  | _ => "bad-arity"

def dispatchF (op : String) (args : List W) : Option String :=
  match op with
  | "c13model" => some (opProgModel true args)
  | "c19model" => some (opProgModel false args)
  | _ => none

end UF.Ops

import UF.Driver.Decode
import UF.Driver.Ops.GroupB
import UF.Driver.Ops.GroupD
import UF.Driver.Ops.GroupE
import UF.Compose.Basic
/- Ops of work group I1 (see notes/AGENT_GUIDE.md). Return `none` for ops of other groups.

   The ops of this file run the COMPOSED model from the BYTES of the lists: group D's scan and retrieval,
   group E's `NewRule` over group D's `TrimSpace` and group H's `NewHostRule`, group B's engines, group C's
   `GetDNSBasicRule` — the glue no single group's op covers. -/
namespace UF.Ops.I1
open UF UF.B UF.Storage UF.Compose

/-- Executable `StorageOK`. -/
def storageOKB (lists : List RList) : Bool :=
  !hasDupIds lists [] && lists.all (fun l => UF.Ops.inInt32 l.id) && decide (totalSize lists < maxInt32)

/-- The model of `strings.ToLower` (shortcut) is exact on ASCII only. -/
def rulesInDomain (rs : List Rule) : Bool :=
  rs.all fun
    | .net r => Bytes.isAscii r.shortcut
    | _ => true

def kindLetter : Rule → String
  | .net _ => "N" | .host _ => "H" | .cos _ => "C"

/-- `i1.chain ((id ign content)…) Q psl addrs prefixes rewrites reshortcuts (pat…)`:
    model = storage scan with the modelled parser → network engine → `MatchAll` (retrieval through the
    storage model); spec = filter over the rules parsed line by line.  Answers: sorted text sets. -/
def opChain (args : List W) : String :=
  match args with
  | [ls, q, psl, addrs, prefixes, rewrites, shortcuts, pats] =>
    match UF.Ops.decRLists false ls, decRequest q, decPslTable psl, decAddrTable addrs, UF.Ops.decPrefixTable prefixes,
        UF.Ops.decRewriteTable rewrites, UF.Ops.decShortcutTable shortcuts, decPatTable pats with
    | some lists, some q, some psl, some addrs, some prefixes, some rewrites, some shortcuts, some pats =>
      if !storageOKB lists then "ood ood" else
      let px := UF.Ops.mkParseExt psl addrs prefixes rewrites shortcuts pats
      let spec := specRules px lists
      if !rulesInDomain spec then "ood ood" else
      let L := storageNetRules px lists
      let st : RuleStorage := ⟨lists, []⟩
      let e := Engine.build djb2 Facts.shortcutLength L
      let model := e.matchAll djb2 Facts.shortcutLength (retrieveNet (retrieveAt UF.Ops.driverIO px st)) px.ext q
      let specAns := specMatchAll px.ext (netRulesOf spec) q
      UF.Ops.B.outTextSet (model.map (·.text)) ++ " " ++ UF.Ops.B.outTextSet (specAns.map (·.text))
    | _, _, _, _, _, _, _, _ => "bad-decode"
  | _ => "bad-arity"

/-- `i1.dnschain ((id ign content)…) Q psl addrs prefixes rewrites reshortcuts (pat…)`:
    model = storage scan → DNS engine → `MatchRequest` with group C's `getDNSBasicRule`; spec = `specDns`
    over the rules parsed line by line.  Answer format of `c02.dns`, plus the class of the basic rule. -/
def outDnsI (r : DnsResult) : String :=
  let cls := match r.networkRule with
    | none => "_"
    | some b => outBool b.whitelist ++ outBool b.important
  (fun a => if a == "()|_|()|()|F" then "()" else a) <|
    UF.Ops.B.outTextSet (r.networkRules.map (·.text)) ++ "|" ++ cls ++ "|" ++
    UF.Ops.B.outHostSet r.v4 ++ "|" ++ UF.Ops.B.outHostSet r.v6 ++ "|" ++ outBool r.matched

def opDnsChain (args : List W) : String :=
  match args with
  | [ls, q, psl, addrs, prefixes, rewrites, shortcuts, pats] =>
    match UF.Ops.decRLists false ls, decRequest q, decPslTable psl, decAddrTable addrs, UF.Ops.decPrefixTable prefixes,
        UF.Ops.decRewriteTable rewrites, UF.Ops.decShortcutTable shortcuts, decPatTable pats with
    | some lists, some q, some psl, some addrs, some prefixes, some rewrites, some shortcuts, some pats =>
      if !storageOKB lists then "ood ood" else
      let px := UF.Ops.mkParseExt psl addrs prefixes rewrites shortcuts pats
      let spec := specRules px lists
      if !rulesInDomain spec then "ood ood" else
      let L := storageRulesI px lists
      let st : RuleStorage := ⟨lists, []⟩
      let d := DnsEngine.build djb2 Facts.shortcutLength L
      let model := d.matchRequest djb2 Facts.shortcutLength (retrieveAt UF.Ops.driverIO px st) px.ext getDNSBasicRule q
      let specAns := specDns px.ext getDNSBasicRule spec q
      outDnsI model ++ " " ++ outDnsI specAns
    | _, _, _, _, _, _, _, _ => "bad-decode"
  | _ => "bad-arity"

/-- `i1.scan ((id ign content)…) addrs prefixes rewrites reshortcuts`: what the storage scanner yields with
    the modelled parser, `((storageIdx/kind:text:id)…)`; spec = group D's reference scan (split at newlines,
    index computed arithmetically) with the modelled parser; `rules-differ` if its rules are not `specRules`. -/
def opScan (args : List W) : String :=
  match args with
  | [ls, addrs, prefixes, rewrites, shortcuts] =>
    match UF.Ops.decRLists false ls, decAddrTable addrs, UF.Ops.decPrefixTable prefixes,
        UF.Ops.decRewriteTable rewrites, UF.Ops.decShortcutTable shortcuts with
    | some lists, some addrs, some prefixes, some rewrites, some shortcuts =>
      if !storageOKB lists then "ood ood" else
      let px := UF.Ops.mkParseExt [] addrs prefixes rewrites shortcuts []
      let out (r : Rule) : String := kindLetter r ++ ":" ++ outBytes r.text ++ ":" ++ toString r.listID
      let m := (storageRules px lists).map fun (r, k) => s!"{k.toInt}/{out r}"
      let kl : Kind → String | .network => "N" | .host => "H" | .cosmetic => "C"
      let ref := specStorageScan (realParser px) lists
      let s := ref.map fun (r, id, off) =>
        s!"{id * 4294967296 + (off : Int)}/{kl r.kind}:{outBytes r.text}:{r.listID}"
      if ref.map (·.1) != (specRules px lists).map toS then "rules-differ rules-differ" else
      UF.Ops.outAnswers m ++ " " ++ UF.Ops.outAnswers s
    | _, _, _, _, _ => "bad-decode"
  | _ => "bad-arity"

/-- `i1.coschain ((id ign content)…) host css js generic psl`: model = storage scan with the modelled parser →
    cosmetic lookup table → `Match`; spec = `specCosmetic` over the rules parsed line by line. -/
def opCosChain (args : List W) : String :=
  match args with
  | [ls, host, css, js, gen, psl] =>
    match UF.Ops.decRLists false ls, host.bytes?, css.bool?, js.bool?, gen.bool?, decPslTable psl with
    | some lists, some host, some css, some js, some gen, some psl =>
      if !storageOKB lists then "ood ood" else
      let px := UF.Ops.mkParseExt psl [] [] [] [] []
      let t := CosTable.build (storageCosRules px lists)
      UF.Ops.B.outSel (t.matchHost px.ext host css js gen) ++ " " ++
        UF.Ops.B.outSel (specCosmetic px.ext (cosRulesOf (specRules px lists)) host css js gen)
    | _, _, _, _, _, _ => "bad-decode"
  | _ => "bad-arity"

end UF.Ops.I1

namespace UF.Ops

def dispatchI1 (op : String) (args : List W) : Option String :=
  match op with
  | "i1.chain" => some (I1.opChain args)
  | "i1.dnschain" => some (I1.opDnsChain args)
  | "i1.scan" => some (I1.opScan args)
  | "i1.coschain" => some (I1.opCosChain args)
  | _ => none

end UF.Ops

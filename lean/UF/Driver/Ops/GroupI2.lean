import UF.Driver.Decode
import UF.Compose2.MatchFull
/- Ops of work group I2 (see notes/AGENT_GUIDE.md). Return `none` for ops of other groups. -/
namespace UF.Ops.I2
open UF UF.I2

/-- `i2.pat <stored pattern> <matchCase> <target>`: model = `modelPat` (`ood` outside its domain);
    spec = the documented mask language for patterns that are not `/regex/`. -/
def opPat (args : List W) : String :=
  match args with
  | [p, mc, u] =>
    match p.bytes?, mc.bool?, u.bytes? with
    | some p, some mc, some u =>
      match modelPat p mc u with
      | none => "ood -"
      | some b =>
        outBool b ++ " " ++
          (if UF.isRegexPattern p then "-" else outBool (MaskSpec.maskAccepts (MaskSpec.tokenize p) mc u))
    | _, _, _ => "bad-decode"
  | _ => "bad-arity"

/-- `i2.match <R> <Q> <psl> <addrs>`: the whole of `NetworkRule.Match` in the model — NO pattern oracle:
    `Ext.pat` is `modelPat`.  `ood` when the pattern answer is needed and outside the models' domain.
    spec = `specMatchFull` (mask rules, request in the domain of C04) or `specMatch` over `modelPat`. -/
def opMatch (args : List W) : String :=
  match args with
  | [r, q, psl, addrs] =>
    match decNetRule r, decRequest q, decPslTable psl, decAddrTable addrs with
    | some r, some q, some psl, some addrs =>
      let ext := withModelPat (mkExt psl addrs [])
      if !matchDecided ext r q then "ood -" else
      let spec :=
        if !q.inDomainB then "-"
        else if (modelPat r.pattern (r.isEnabled Facts.OptionMatchCase) (matchTarget r q)).isSome then
          if UF.isRegexPattern r.pattern then outBool (specMatch ext r q) else outBool (specMatchFull ext r q)
        else "-"
      outBool (r.matches ext q) ++ " " ++ spec
    | _, _, _, _ => "bad-decode"
  | _ => "bad-arity"

end UF.Ops.I2

namespace UF.Ops

def dispatchI2 (op : String) (args : List W) : Option String :=
  match op with
  | "i2.pat" => some (I2.opPat args)
  | "i2.match" => some (I2.opMatch args)
  | _ => none

end UF.Ops

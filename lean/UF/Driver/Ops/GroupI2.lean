import UF.Driver.Decode
import UF.Driver.Ops.GroupE
import UF.Driver.Ops.GroupH
import UF.Compose2.MatchFull
import UF.Compose2.NewRuleFull
import UF.Compose2.RegexShortcut
/- Ops of work group I2 (see notes/AGENT_GUIDE.md). Return `none` for ops of other groups. -/
namespace UF.Ops.I2
open UF UF.I2

/-- `i2.pat <stored pattern> <matchCase> <target>`: model = `modelPat` (`ood` outside its domain);
    spec = the documented mask language for patterns that are not `/regex/`. -/
def opPat (args : List W) : String :=
  match args with
  | [p, mc, u] =>
    match p.bytes?, mc.bool?, u.bytes? with
    | some p, some mc, some u =>
      match modelPat p mc u with
      | none => "ood -"
      | some b =>
        outBool b ++ " " ++
          (if UF.isRegexPattern p then "-" else outBool (MaskSpec.maskAccepts (MaskSpec.tokenize p) mc u))
    | _, _, _ => "bad-decode"
  | _ => "bad-arity"

/-- `i2.match <R> <Q> <psl> <addrs>`: the whole of `NetworkRule.Match` in the model — NO pattern oracle:
    `Ext.pat` is `modelPat`.  `ood` when the pattern answer is needed and outside the models' domain.
    spec = `specMatchFull` (mask rules, request in the domain of C04) or `specMatch` over `modelPat`. -/
def opMatch (args : List W) : String :=
  match args with
  | [r, q, psl, addrs] =>
    match decNetRule r, decRequest q, decPslTable psl, decAddrTable addrs with
    | some r, some q, some psl, some addrs =>
      let ext := withModelPat (mkExt psl addrs [])
      -- mixed-case hostnames of hostname requests are outside the domain (DESIGN §6)
      if q.isHostnameRequest && q.hostname.any Bytes.isUpper then "ood -" else
      if !matchDecided ext r q then "ood -" else
      let spec :=
        if !q.inDomainB then "-"
        else if (modelPat r.pattern (r.isEnabled Facts.OptionMatchCase) (matchTarget r q)).isSome then
          if UF.isRegexPattern r.pattern then outBool (specMatch ext r q) else outBool (specMatchFull ext r q)
        else "-"
      outBool (r.matches ext q) ++ " " ++ spec
    | _, _, _, _ => "bad-decode"
  | _ => "bad-arity"

/-! ### The complete model of `rules.NewRule` -/

def encCosRule (c : CosRule) : String :=
  outList ["K", outBytes c.text, toString c.listID, outBytes c.content, encStrs c.permDomains,
    encStrs c.restrDomains, outBool c.whitelist]

def encRule : Rule → String
  | .net r => encNetRule r
  | .host h => H.encHostRule h
  | .cos c => encCosRule c

def outNewRule (x : E.PE (Option Rule)) : String :=
  match x with
  | .ok none => "none"
  | .ok (some r) => H.tok (encRule r)
  | .error .err => "err"
  | .error .panic => "PANIC"

/-- The complete rule parser with the `$dnsrewrite` values outside the domain of group H's ASCII model
    of `ToUpper`/`EqualFold` answered by `dflt` (the driver runs it with two different defaults: if the
    outcomes differ, such a value mattered and the line is out of domain). -/
def ruleExtProbe (ext : Ext) (reShortcut : Bytes → Bytes) (dflt : Option DnsRewrite) : E.RuleExt :=
  let rx := fullRuleExt ext reShortcut
  { rx with px := { rx.px with loadDNSRewrite := fun v => if H.dnsRewriteInDomain v then rx.px.loadDNSRewrite v else dflt } }

/-- `strings.ToLower` of the shortcut is modelled on ASCII. -/
def ruleInDomain (x : E.PE (Option Rule)) : Bool :=
  match x with
  | .ok (some (.net r)) => Bytes.isAscii r.shortcut
  | _ => true

def mkParserExt (addrs : List (Bytes × Option Addr)) (prefixes : List (Bytes × Option Prefix)) : Ext :=
  { mkExt [] addrs [] with parsePrefix := tableLookup prefixes none }

/-- `i2.newrule <line> <listID> <addrs> <prefixes>`: the complete model of `rules.NewRule`; the answer
    is the whole parsed record (`R`/`H`/`K` dump), `none`, `err` or `PANIC`.  The only Go-supplied
    tables: `netip.ParseAddr`, `netip.ParsePrefix`.  (The shortcut of a `/regex/` pattern comes from
    `modelRegexpShortcut`; `ood` when the expression is outside its domain.) -/
def opNewRule (args : List W) : String :=
  match args with
  | [line, id, addrs, prefixes] =>
    match line.bytes?, id.int?, decAddrTable addrs, decPrefixTable prefixes with
    | some line, some id, some addrs, some prefixes =>
      let ext := mkParserExt addrs prefixes
      let a := E.newRule (ruleExtProbe ext reShortcutM none) line id
      let b := E.newRule (ruleExtProbe ext reShortcutM (some {})) line id
      if outNewRule a != outNewRule b || !ruleInDomain a || !ruleShortcutInDomain a then "ood -"
      else outNewRule a ++ " -"
    | _, _, _, _ => "bad-decode"
  | _ => "bad-arity"

/-- Is the request well formed in the sense of C05 (`URLLowerCase = ToLower(URL)`, and for hostname
    requests the hostname is a factor of the URL)? -/
def reqWellFormed (q : Request) : Bool :=
  q.urlLower == Bytes.toLower q.url && (!q.isHostnameRequest || Bytes.hasSub q.url q.hostname)

/-- `i2.textmatch <text> <listID> <addrs> <prefixes> <Q> <psl>`: everything from the rule TEXT — parse
    with the complete parser model (regex shortcut included), match with `modelPat`; no Go-supplied
    table but psl / addr / prefix.
    spec: mask rules, request in the domain → `specMatchNoShortcut` (modifiers as set membership + the
    documented mask language, no shortcut test: theorem `c04_full_end_to_end`) for well-formed requests,
    `specMatchFull` otherwise; `/regex/` rules → `specMatch` over `modelPat`. -/
def opTextMatch (args : List W) : String :=
  match args with
  | [text, id, addrs, prefixes, q, psl] =>
    match text.bytes?, id.int?, decAddrTable addrs, decPrefixTable prefixes,
        decRequest q, decPslTable psl with
    | some text, some id, some addrs, some prefixes, some q, some psl =>
      let ext := withModelPat { mkExt psl addrs [] with parsePrefix := tableLookup prefixes none }
      let pa := E.parseNetRule (ruleExtProbe ext reShortcutM none).px text id
      let pb := E.parseNetRule (ruleExtProbe ext reShortcutM (some {})).px text id
      if outParse pa != outParse pb || !parseInDomain pa ||
          !ruleShortcutInDomain (pa.map fun r => some (.net r)) then "ood -" else
      match pa with
      | .error .err => "err err"
      | .error .panic => "PANIC PANIC"
      | .ok r =>
        if q.isHostnameRequest && q.hostname.any Bytes.isUpper then "ood -" else
        if !matchDecided ext r q then "ood -" else
        let decided := (modelPat r.pattern (r.isEnabled Facts.OptionMatchCase) (matchTarget r q)).isSome
        let spec :=
          if !q.inDomainB || !decided then "-"
          else if UF.isRegexPattern r.pattern then outBool (specMatch ext r q)
          else if reqWellFormed q then outBool (specMatchNoShortcut ext r q)
          else outBool (specMatchFull ext r q)
        outBool (r.matches ext q) ++ " " ++ spec
    | _, _, _, _, _, _ => "bad-decode"
  | _ => "bad-arity"

/-- `i2.reshortcut <pattern>`: `findRegexpShortcut` from the TEXT of a `/regex/` pattern (candidate
    generation + required literals of Go's tree, modelled); `ood` outside the parser's subset. -/
def opReShortcut (args : List W) : String :=
  match args with
  | [p] =>
    match p.bytes? with
    | some p =>
      match modelRegexpShortcut p with
      | some s => outBytes s ++ " -"
      | none => "ood -"
    | none => "bad-decode"
  | _ => "bad-arity"

end UF.Ops.I2

namespace UF.Ops

def dispatchI2 (op : String) (args : List W) : Option String :=
  match op with
  | "i2.pat" => some (I2.opPat args)
  | "i2.match" => some (I2.opMatch args)
  | "i2.newrule" => some (I2.opNewRule args)
  | "i2.textmatch" => some (I2.opTextMatch args)
  | "i2.reshortcut" => some (I2.opReShortcut args)
  | _ => none

end UF.Ops

import UF.Driver.Decode
import UF.Model.Match
import UF.Spec.CosmeticOption
import UF.Model.Result
/-
  Ops owned by the core: `match` (model of NetworkRule.Match, C04), `cosopt` (C16), `assert`.
  Every handler returns "<model> <spec>" ("-" when the op has no separate executable spec).
-/
namespace UF.Ops

def opMatch (args : List W) : String :=
  match args with
  | [r, q, psl, addrs, pats] =>
    match decNetRule r, decRequest q, decPslTable psl, decAddrTable addrs, decPatTable pats with
    | some r, some q, some psl, some addrs, some pats =>
      outBool (r.matches (mkExt psl addrs pats) q) ++ " -"
    | _, _, _, _, _ => "bad-decode"
  | _ => "bad-arity"

def cosModOfName : String → Option CosMod
  | "elemhide" => some .elemhide | "generichide" => some .generichide | "jsinject" => some .jsinject
  | "document" => some .document | "urlblock" => some .urlblock | "genericblock" => some .genericblock
  | "content" => some .content | "extension" => some .extension | "important" => some .important
  | _ => none

/-- `cosopt <R|_> (<modifier names>)`: model = GetCosmeticOption on the parsed rule's bits and the
    decoded flags; spec = reference computed from the modifier *names* of the rule text. -/
def opCosopt (args : List W) : String :=
  let go (r : W) (names : List W) (src : Option (List W)) (matched : Option (List W) := none) : String :=
    let basic0 : Option (Option NetRule) := if r.isNone then some none else (decNetRule r).map some
    let mods := names.mapM fun w => match w with | .a s => cosModOfName s | _ => none
    let srcRules : Option (List NetRule) := match src with
      | none => some []
      | some ws => ws.mapM decNetRule
    let matchedRules : Option (Option (List NetRule)) := match matched with
      | none => some none
      | some ws => (ws.mapM decNetRule).map some
    match basic0, mods, srcRules, matchedRules with
    | some basic0, some mods, some srcRules, some matchedRules =>
      -- with referrer rules the basic rule is what NewMatchingResult selects (model of group C); with a list of
      -- matched rules (fourth argument: the rule `r` among withdrawn `$badfilter` pairs and weaker rules, in match
      -- order) it is what NewMatchingResult selects from THAT list
      let basic := match src, matchedRules with
        | _, some rs => (newMatchingResult rs srcRules).basicRule
        | none, none => basic0
        | some _, none => (newMatchingResult basic0.toList srcRules).basicRule
      let o := getCosmeticOption basic
      let (c, j, g) := decodeCosmeticFlags o
      let exc := match basic0 with | some r => r.whitelist | none => false
      let s := specCosmeticOption exc mods
      let (sc, sj, sg) := decodeCosmeticFlags s
      s!"{o.toNat}:{outBool c}{outBool j}{outBool g} {s.toNat}:{outBool sc}{outBool sj}{outBool sg}"
    | _, _, _, _ => "bad-decode"
  match args with
  | [r, .l names] => go r names none
  | [r, .l names, .l src] => go r names (some src)
  | [r, .l names, .l src, .l matched] => go r names (some src) (some matched)
  | _ => "bad-arity"

def dispatchCore (op : String) (args : List W) : Option String :=
  match op with
  | "match" => some (opMatch args)
  | "cosopt" => some (opCosopt args)
  | "assert" => some "T T"   -- Go-side law checks: the implementation's answer must be T
  | _ => none

end UF.Ops

import UF.Driver.Decode
/- Ops of work group I3 (see notes/AGENT_GUIDE.md). Return `none` for ops of other groups. -/
namespace UF.Ops

def dispatchI3 (op : String) (args : List W) : Option String :=
  match op, args with
  | _, _ => none

end UF.Ops

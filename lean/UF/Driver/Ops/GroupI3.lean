import UF.Driver.Decode
import UF.Driver.Ops.GroupB
import UF.Driver.Ops.GroupD
import UF.Driver.Ops.GroupE
import UF.Driver.Ops.GroupI1
import UF.Compose2.MatchFull
import UF.Compose2.NewRuleFull
import UF.Compose3.WebTop
import UF.Compose3.CosTop
import UF.Compose3.CosText
import UF.Compose3.DnsTop
/- Ops of work group I3 (see notes/AGENT_GUIDE.md). Return `none` for ops of other groups.

   The ops of this file run the TOP-LEVEL composed models from RAW inputs: list bytes + URL strings (or DNS
   request fields) → `engineMatchRequest` / `dnsEngineMatchRequest`.  The only Go-supplied tables are
   `publicsuffix` and `netip` (addr / prefix): the pattern oracle is group I2's `modelPatD`, `$dnsrewrite`
   values go through group H's `loadDNSRewrite`, the shortcut of `/regex/` rules through `modelRegexpShortcut`,
   the request fields through group H's `NewRequest` / group F's pool refill. -/
namespace UF.Ops.I3
open UF UF.B UF.Storage UF.Compose UF.Compose3 UF.I2

/-- The oracles: psl / addr / prefix tables; pattern := the model. -/
def mkExt3 (psl : List (Bytes × (Bytes × Bool))) (addrs : List (Bytes × Option Addr))
    (prefixes : List (Bytes × Option Prefix)) : Ext :=
  withModelPat { mkExt psl addrs [] with parsePrefix := tableLookup prefixes none }

/-- The parser parameters, all modelled; `$dnsrewrite` values outside the domain of group H's ASCII model of
    `ToUpper`/`EqualFold` are answered by `dflt` (run with two defaults: if the parsed lists differ, such a
    value mattered and the line is out of domain). -/
def pxProbe (ext : Ext) (dflt : Option DnsRewrite) : E.ParseExt :=
  let px := fullParseExt ext reShortcutM
  { px with loadDNSRewrite := fun v => if H.dnsRewriteInDomain v then px.loadDNSRewrite v else dflt }

/-- Are the parsed lists inside the domain on which the parser models are exact? -/
def listsInDomain (ext : Ext) (lists : List RList) : Bool :=
  let a := specRules (pxProbe ext none) lists
  let b := specRules (pxProbe ext (some {})) lists
  a == b && UF.Ops.I1.rulesInDomain a &&
    a.all (fun r => ruleShortcutInDomain (.ok (some r)))

/-- Is `Match` decided by the models for every network rule of the lists on this request? -/
def requestDecided (ext : Ext) (rules : List NetRule) (q : Request) : Bool :=
  rules.all fun r => matchDecided ext r q

def clsLetter : VClass → String
  | .block => "b" | .allow => "a" | .none => "n"

def optText : Option NetRule → String
  | none => "_"
  | some r => outBytes r.text

/-- The named modifiers as WRITTEN in the rule text (`parseRuleText` splits pattern and options;
    `textCosMods` cuts the options at unescaped commas and compares the names literally — theorem `c16_text`). -/
def textMods (t : Bytes) : Bool × List CosMod :=
  match E.parseRuleText t with
  | .ok (_, opts, wl) => (wl, textCosMods opts)
  | .error _ => (false, [])

def outReqFields (q : Request) : String :=
  outBytes q.hostname ++ "," ++ outBytes q.domain ++ "," ++ outBytes q.sourceHostname ++ "," ++
    outBytes q.sourceDomain ++ "," ++ outBool q.thirdParty

def outWeb (cls : VClass) (basic doc : Option NetRule) (opt : CosOpt) (sel : List Bytes × List Bytes)
    (q : Request) : String :=
  clsLetter cls ++ "|" ++ optText basic ++ "|" ++ toString opt.toNat ++ "|" ++ optText doc ++ "|" ++
    UF.Ops.B.outSel sel ++ "|" ++ outReqFields q

/-- `i3.web ((id ign content)…) <url> <src> <type> <cosHost> psl addrs prefixes`
    model = `engineMatchRequest` (NewRequest → MatchAll twice → NewMatchingResult) + `GetCosmeticOption` +
    `engineCosmeticResult`; answer `class|basicText|option|documentText|(generic)|(specific)|hostname,domain,srcHostname,srcDomain,thirdParty`.
    spec = class: `classWeb` over the matching lines / referrer matching lines (theorem `c06_top`);
    basic / document text: the model's, provided it is one of the matching lines (else `not-a-line`);
    option: `specCosmeticOption` of the modifiers WRITTEN in the basic rule's text (`c16_top`);
    selectors: `specCosmeticResult` for that option (`c16_top_cosmetic`); request fields: the reference request
    of C17 (`refRequest`: URL-grammar host, public suffix plus one label, third-party) when the URLs are inside
    the grammar (`c17_top_web`), the model's otherwise. -/
def opWeb (args : List W) : String :=
  match args with
  | [ls, url, src, ty, host, psl, addrs, prefixes] =>
    match UF.Ops.decRLists false ls, url.bytes?, src.bytes?, ty.nat?, host.bytes?, decPslTable psl,
        decAddrTable addrs, UF.Ops.decPrefixTable prefixes with
    | some lists, some url, some src, some ty, some host, some psl, some addrs, some prefixes =>
      if !UF.Ops.I1.storageOKB lists then "ood ood" else
      let ext := mkExt3 psl addrs prefixes
      if !listsInDomain ext lists then "ood ood" else
      -- `strings.ToLower` of the URL is modelled on ASCII
      if !Bytes.isAscii (url.take Facts.maxURLLength) || !Bytes.isAscii (src.take Facts.maxURLLength) then "ood ood" else
      let px := pxProbe ext none
      let q := requestOf ext url src ty
      let sq := sourceRequestOf ext q
      let nets := allNet px lists
      if !requestDecided ext nets q || (q.sourceURL != [] && !requestDecided ext nets sq) then "ood ood" else
      let st : RuleStorage := ⟨lists, []⟩
      let m := engineMatchRequest UF.Ops.driverIO px lists st [] [] url src ty
      let opt := getCosmeticOption m.basicRule
      let model := outWeb (classOf (getBasicResult m)) m.basicRule m.documentRule opt
        (engineCosmeticResult px lists host opt) q
      let ml := matchingLines px lists q
      let sml := sourceMatchingLines px lists q
      let basicOK := match m.basicRule with
        | none => true
        | some b => ml.any (fun r => r.text == b.text)
      let docOK := match m.documentRule with
        | none => true
        | some d => sml.any (fun r => r.text == d.text)
      if !basicOK || !docOK then model ++ " not-a-line" else
      let specOpt := match m.basicRule with
        | none => specCosmeticOption false []
        | some b => let (wl, mods) := textMods b.text; specCosmeticOption wl mods
      let spec := outWeb (classWeb ml sml) m.basicRule m.documentRule specOpt
        (specCosmeticResult px lists host specOpt) ((H.refRequest ext url src ty).getD q)
      model ++ " " ++ spec
    | _, _, _, _, _, _, _, _ => "bad-decode"
  | _ => "bad-arity"

/-- DNS request: `(D hostname dnsType clientName clientIP (tags))`. -/
def decDReq (w : W) : Option DReq :=
  match w with
  | .l [.a "D", h, t, cn, cip, tags] => do
    pure { hostname := ← h.bytes?, dnsType := ← t.nat?, clientName := ← cn.bytes?, clientIP := ← decAddr? cip,
           sortedTags := ← tags.bytesList? }
  | _ => none

def outDnsTop (r : DnsResult) (rewrites : Option (List NetRule)) : String :=
  let cls := match r.networkRule with
    | some b => (if b.whitelist then "a" else "b") ++ (if b.important then "!" else "")
    | none =>
      if r.matched then "h"
      else if (rewrites.getD []).length > 0 then "r"
      else if r.networkRules.length > 0 then "m" else "n"
  let rw := match rewrites with
    | none => "PANIC"
    | some l => UF.Ops.B.outTextSet (l.map (·.text))
  cls ++ "|" ++ UF.Ops.B.outTextSet (r.networkRules.map (·.text)) ++ "|" ++ UF.Ops.B.outHostSet r.v4 ++ "|" ++
    UF.Ops.B.outHostSet r.v6 ++ "|" ++ outBool r.matched ++ "|" ++ rw

/-- A pooled request full of stale data: the refill must overwrite all of it (`c02_top_pool`). -/
def staleRequest : Request :=
  { url := lit "http://stale.example/x", urlLower := lit "http://stale.example/x", hostname := lit "stale.example",
    domain := lit "stale.example", sourceURL := lit "http://src.example/", sourceHostname := lit "src.example",
    sourceDomain := lit "src.example", sortedTags := [lit "a", lit "device_pc"], reqType := 4, dnsType := 28,
    thirdParty := true, isHostnameRequest := false, clientName := lit "laptop",
    clientIP := some { is4 := true, val := 167772165 } }

/-- `i3.dns ((id ign content)…) (D hostname dnsType clientName clientIP (tags)) psl addrs prefixes`
    model = `dnsEngineMatchRequest` on a STALE pooled request + `dnsEffectiveRewrites`;
    spec = `specDnsTop` (reference scan for the request the fields alone describe) + the reference of C09 over
    its network rules.  Answer `class|(netTexts)|(v4)|(v6)|matched|(effective rewrite texts)`. -/
def opDns (args : List W) : String :=
  match args with
  | [ls, d, psl, addrs, prefixes] =>
    match UF.Ops.decRLists false ls, decDReq d, decPslTable psl, decAddrTable addrs, UF.Ops.decPrefixTable prefixes with
    | some lists, some d, some psl, some addrs, some prefixes =>
      if !UF.Ops.I1.storageOKB lists then "ood ood" else
      let ext := mkExt3 psl addrs prefixes
      if !listsInDomain ext lists then "ood ood" else
      let px := pxProbe ext none
      let q := dnsRequestOf ext default d
      if !requestDecided ext ((allNet px lists).filter dnsApplicable) q then "ood ood" else
      let st : RuleStorage := ⟨lists, []⟩
      let res := dnsEngineMatchRequest UF.Ops.driverIO px lists st [] staleRequest d
      let ref := specDnsTop px lists d
      outDnsTop res (dnsEffectiveRewrites res) ++ " " ++
        outDnsTop ref (some (specRewrites (dnsRewritesAll ref.networkRules)))
    | _, _, _, _, _ => "bad-decode"
  | _ => "bad-arity"

end UF.Ops.I3

namespace UF.Ops

def dispatchI3 (op : String) (args : List W) : Option String :=
  match op with
  | "i3.web" => some (I3.opWeb args)
  | "i3.dns" => some (I3.opDns args)
  | _ => none

end UF.Ops

import UF.Driver.Decode
import UF.Model.RegexParse
/- Ops of work group A (regex core `re…`, C05 `c05…`). Return `none` for ops of other groups. -/
namespace UF.Ops
open UF.Re

/-- `re x<pattern> x<subject>`: model of `regexp.Compile` + `MatchString`.
    `ood` when the pattern is outside the modelled subset (or a syntax error) or the subject is not ASCII. -/
def opRe (args : List W) : String :=
  match args with
  | [p, u] =>
    match p.bytes?, u.bytes? with
    | some p, some u =>
      if !Bytes.isAscii u then "ood -" else
      match parseRE p with
      | none => "ood -"
      | some r => outBool (search r u) ++ " -"
    | _, _ => "bad-decode"
  | _ => "bad-arity"

def dispatchA (op : String) (args : List W) : Option String :=
  match op with
  | "re" => some (opRe args)
  | _ => none

end UF.Ops

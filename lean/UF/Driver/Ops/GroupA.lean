import UF.Driver.Decode
import UF.Model.RegexParse
import UF.Spec.Shortcut
/- Ops of work group A (regex core `re…`, C05 `c05…`). Return `none` for ops of other groups. -/
namespace UF.Ops
open UF.Re

/-- `re x<pattern> x<subject>`: model of `regexp.Compile` + `MatchString`.
    `ood` when the pattern is outside the modelled subset (or a syntax error) or the subject is not ASCII. -/
def opRe (args : List W) : String :=
  match args with
  | [p, u] =>
    match p.bytes?, u.bytes? with
    | some p, some u =>
      if !Bytes.isAscii u then "ood -" else
      match parseRE p with
      | none => "ood -"
      | some r => outBool (searchFast r u) ++ " -"
    | _, _ => "bad-decode"
  | _ => "bad-arity"

def decRange (w : W) : Option (UInt8 × UInt8) :=
  match w with
  | .l [lo, hi] => do
    let lo ← lo.nat?
    let hi ← hi.nat?
    if lo ≤ hi ∧ hi ≤ 255 then pure (lo.toUInt8, hi.toUInt8) else none
  | _ => none

/-- Wire form of a `regexp/syntax` tree (harness/op_c05.go `wtree`) ↦ `Re`; fuel bounds the depth. -/
def decTree : Nat → W → Option Re
  | 0, _ => none
  | fuel + 1, w =>
    match w with
    | .a "nomatch" => some (.cls false [] false)
    | .a "empty" => some .empty
    | .a "any" => some .any
    | .a "anynl" => some .anyNL
    | .a "bol" => some .bol
    | .a "eol" => some .eol
    | .a "wb" => some .wordB
    | .a "nwb" => some .nwordB
    | .l [.a "lit", bs, fold] => do pure (.lit (← bs.bytes?) (← fold.bool?))
    | .l (.a "cls" :: rs) => do pure (.cls false (← rs.mapM decRange) false)
    | .l [.a "cap", t] => (decTree fuel t).map .grp
    | .l [.a "star", t] => (decTree fuel t).map .star
    | .l [.a "plus", t] => (decTree fuel t).map .plus
    | .l [.a "quest", t] => (decTree fuel t).map .quest
    | .l [.a "rep", t, mn, mx] => do
      let t ← decTree fuel t
      let mn ← mn.nat?
      let mx ← if mx.isNone then pure none else (mx.nat?).map some
      pure (.rep t mn mx)
    | .l (.a "cat" :: ts) => (ts.mapM (decTree fuel)).map mkCat
    | .l (.a "alt" :: ts) => (ts.mapM (decTree fuel)).map mkAlt
    | _ => none

/-- `c05.tree <ctree> x<subject>` -/
def opC05Tree (args : List W) : String :=
  match args with
  | [t, u] =>
    if t.isNone then "ood -" else
    match decTree 1000 t, u.bytes? with
    | some t, some u =>
      if !Bytes.isAscii u then "ood -" else outBool (searchFast t u) ++ " -"
    | _, _ => "bad-decode"
  | _ => "bad-arity"

/-- `c05.shortcut <tree> <ctree> x<shortcut>`: model = justified by the tree `findRegexpShortcut` consults,
    spec = justified by the merged runs of the compiled expression (hypothesis of theorem `c05_justified_runs`). -/
def opC05Shortcut (args : List W) : String :=
  match args with
  | [t, c, sc] =>
    if t.isNone || c.isNone then "ood -" else
    match decTree 1000 t, decTree 1000 c, sc.bytes? with
    | some t, some c, some sc => outBool (shortcutJustified sc t) ++ " " ++ outBool (shortcutJustifiedRuns sc c)
    | _, _, _ => "bad-decode"
  | _ => "bad-arity"

/-- `c05.url <ctree> x<shortcut> x<url>`: model = `Match` of a modifier-free regex rule
    (shortcut test ∧ pattern), spec = the pattern alone. -/
def opC05Url (args : List W) : String :=
  match args with
  | [t, sc, u] =>
    if t.isNone then "ood -" else
    match decTree 1000 t, sc.bytes?, u.bytes? with
    | some t, some sc, some u =>
      if !Bytes.isAscii u then "ood -" else
      let acc := searchFast t u
      outBool (Bytes.hasSub (Bytes.toLower u) sc && acc) ++ " " ++ outBool acc
    | _, _, _ => "bad-decode"
  | _ => "bad-arity"

/-- `c05.mask x<pattern>`: model = the `IndexAny` loop, spec = first longest separator-free run. -/
def opC05Mask (args : List W) : String :=
  match args with
  | [p] =>
    match p.bytes? with
    | some p =>
      (match findShortcut p with | some s => outBytes s | none => "PANIC") ++ " " ++ outBytes (specFindShortcut p)
    | none => "bad-decode"
  | _ => "bad-arity"

def dispatchA (op : String) (args : List W) : Option String :=
  match op with
  | "re" => some (opRe args)
  | "c05.tree" => some (opC05Tree args)
  | "c05.shortcut" => some (opC05Shortcut args)
  | "c05.url" => some (opC05Url args)
  | "c05.mask" => some (opC05Mask args)
  | _ => none

end UF.Ops

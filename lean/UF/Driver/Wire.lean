import UF.Basic.Bytes
/-
  Wire format of the line protocol between the Go harness and the Lean driver.
  A line is a sequence of values separated by blanks; a value is an atom
  (no blanks or parentheses) or a parenthesised list of values.
  Atoms: `x<hex>` bytes, decimal integers, `T`/`F`, `_` (none), bare words.
-/
namespace UF

inductive W where
  | a : String → W
  | l : List W → W
  deriving Repr, Inhabited

namespace W

/-- Tokenise into "(", ")" and atoms. -/
def tokens (s : String) : List String :=
  let (acc, cur) := s.toList.foldl (init := (([] : List String), ([] : List Char))) fun (acc, cur) c =>
    -- (flush is a thunk: it must not be evaluated for ordinary characters, or tokenising is quadratic)
    let flush := fun (_ : Unit) => if cur.isEmpty then acc else String.ofList cur.reverse :: acc
    if c == '(' then ("(" :: flush (), []) else
    if c == ')' then (")" :: flush (), []) else
    if c == ' ' || c == '\t' || c == '\n' || c == '\r' then (flush (), []) else
    (acc, c :: cur)
  (if cur.isEmpty then acc else String.ofList cur.reverse :: acc).reverse

/-- Parse a token list into a list of values, with an explicit stack. -/
def parseToks (ts : List String) : Option (List W) :=
  let rec go (ts : List String) (stack : List (List W)) (cur : List W) : Option (List W) :=
    match ts with
    | [] => if stack.isEmpty then some cur.reverse else none
    | "(" :: r => go r (cur :: stack) []
    | ")" :: r =>
      match stack with
      | [] => none
      | top :: st => go r st (W.l cur.reverse :: top)
    | t :: r => go r stack (W.a t :: cur)
  go ts [] []

def parseLine (s : String) : Option (List W) := parseToks (tokens s)

def bytes? : W → Option Bytes
  | .a s => if s.startsWith "x" then Bytes.ofHex (s.drop 1).toString else none
  | _ => none

def int? : W → Option Int
  | .a s => s.toInt?
  | _ => none

def nat? : W → Option Nat
  | .a s => s.toNat?
  | _ => none

def bool? : W → Option Bool
  | .a "T" => some true
  | .a "F" => some false
  | _ => none

def list? : W → Option (List W)
  | .l xs => some xs
  | _ => none

def isNone : W → Bool
  | .a "_" => true
  | _ => false

def bytesList? (w : W) : Option (List Bytes) := do
  let xs ← w.list?
  xs.mapM bytes?

def natList? (w : W) : Option (List Nat) := do
  let xs ← w.list?
  xs.mapM nat?

end W

/-! Output helpers (answers are single tokens without blanks). -/
def outBytes (b : Bytes) : String := "x" ++ Bytes.toHex b
def outBool (b : Bool) : String := if b then "T" else "F"
def outList (xs : List String) : String := "(" ++ " ".intercalate xs ++ ")"

end UF

import UF.Driver.Ops.Core
import UF.Driver.Ops.GroupA
import UF.Driver.Ops.GroupB
import UF.Driver.Ops.GroupC
import UF.Driver.Ops.GroupD
import UF.Driver.Ops.GroupE
import UF.Driver.Ops.GroupF
import UF.Driver.Ops.GroupG
import UF.Driver.Ops.GroupH
import UF.Driver.Ops.GroupI1
import UF.Driver.Ops.GroupI2
import UF.Driver.Ops.GroupI3
import UF.Driver.Ops.GroupL
import UF.Driver.Ops.GroupR1
/- Dispatch of the line protocol: each group file handles its own ops. -/
namespace UF

def dispatch (op : String) (args : List W) : String :=
  (Ops.dispatchCore op args <|> Ops.dispatchA op args <|> Ops.dispatchB op args <|>
   Ops.dispatchC op args <|> Ops.dispatchD op args <|> Ops.dispatchE op args <|>
   Ops.dispatchF op args <|> Ops.dispatchG op args <|> Ops.dispatchH op args <|>
   Ops.dispatchI1 op args <|> Ops.dispatchI2 op args <|> Ops.dispatchI3 op args <|> Ops.dispatchL op args <|>
   Ops.dispatchR1 op args).getD "unknown-op"

/-- One protocol line: `<op> <values…> [= <go answer…>]` ↦ the driver's answer. -/
def handleLine (line : String) : String :=
  let body := match line.splitOn " = " with
    | b :: _ => b
    | [] => line
  match W.parseLine body with
  | some (W.a op :: args) => dispatch op args
  | _ => "bad-line"

end UF

import UF.Driver.Ops.Match
/- Dispatch table of the line protocol: op name ↦ handler on the decoded arguments. -/
namespace UF

def dispatch (op : String) (args : List W) : String :=
  match op with
  | "match" => Ops.opMatch args
  | _ => "unknown-op"

/-- One protocol line: `<op> <values…> [= <go answer…>]` ↦ the driver's answer. -/
def handleLine (line : String) : String :=
  let body := match line.splitOn " = " with
    | b :: _ => b
    | [] => line
  match W.parseLine body with
  | some (W.a op :: args) => dispatch op args
  | _ => "bad-line"

end UF

import UF.Props.C04Text
import UF.Props.C04Perm
import UF.Props.C04Wide
import UF.Props.C07Text
import UF.Props.C08Engine
import UF.Props.C08Order
import UF.Props.C08Text
import UF.Props.C09Text
/- Property theorems of integration group L (text-level references, engine-level statements). -/

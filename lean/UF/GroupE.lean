-- Property files of work group E (import UF.Props.Cxx lines go here).
import UF.Driver.Ops.GroupE
import UF.Props.C04
import UF.Props.C12
import UF.Proofs.ParseBits

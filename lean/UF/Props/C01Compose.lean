import UF.Compose.NetRules
import UF.Compose.Texts
import UF.Props.C01
import UF.Proofs.EngineDns
/-
  C01 END TO END (integration group I1): from the BYTES of the filter lists to the answer of
  `NetworkEngine.MatchAll`.

  Group B proved C01 for an abstract list `L` of (rule, index) pairs under the hypotheses `RetrievalOK`
  (= C11), `DomainsWF`, `TextDeterminesRule` (parser guarantees) and `L.length < MaxInt32`.  Here `L` is
  `storageNetRules px lists`: the network rules group D's storage scan yields when run with group E's
  model of `rules.NewRule` (over group D's `TrimSpace` and group H's `NewHostRule`), with group D's packed
  storage indexes; retrieval goes through group D's `RuleStorage.RetrieveRule` (cache included, ANY
  reachable cache state, String- and File-backed lists).  All four hypotheses are PROVED, so the
  end-to-end statement `c01_storage` has no assumption between the modelled parts.  What remains a parameter
  is `px`: the oracles `Ext` (public suffix list, netip, the compiled-pattern oracle — instantiated by the
  regex model in C03/C05) and the `$dnsrewrite` value parser / regexp-shortcut finder (modelled by groups H
  and A; every statement holds for ALL functions in their place).

  `StorageOK lists`: pairwise distinct ids that fit int32, fewer than `MaxInt32` bytes in total.
  Property theorems only (helper lemmas live in UF/Compose).
-/
namespace UF.C01
open UF UF.B UF.Storage UF.Compose

/-- Hypothesis `RetrievalOK` of `c01`, discharged by C11 composed: in every reachable storage state. -/
theorem c01_storage_retrieval (io : IO) (px : E.ParseExt) (lists : List RList) (hok : StorageOK lists)
    (st : RuleStorage) (hnew : newRuleStorage lists = some st) (history : List (BitVec 64)) :
    RetrievalOK (retrieveNet (retrieveAt io px (reach io px st history))) (storageNetRules px lists) :=
  retrievalOK_net io px lists hok.listsOK st hnew history

/-- Hypothesis `DomainsWF`, discharged from the parser model: `loadDomains` accepts only `IsDomainName`
    values and `.*` values, so no permitted domain is empty or ends in a dot. -/
theorem c01_storage_domainsWF (px : E.ParseExt) (lists : List RList) :
    ∀ p ∈ storageNetRules px lists, DomainsWF p.1 := storageNetRules_domainsWF px lists

/-- The same for every text `NewNetworkRule` accepts. -/
theorem c01_parser_domainsWF (px : E.ParseExt) (t : Bytes) (id : Int) (r : NetRule)
    (h : E.parseNetRule px t id = .ok r) : DomainsWF r := parseNetRule_domainsWF h

/-- Hypothesis `TextDeterminesRule`, discharged from the parser model: parsing is a function of the
    trimmed text, and the list id is only stored. -/
theorem c01_storage_textDetermines (px : E.ParseExt) (lists : List RList) :
    TextDeterminesRule (storageNetRules px lists) := storageNetRules_textDetermines px lists

/-- `NewNetworkRule` never reads the list id. -/
theorem c01_parser_listID (px : E.ParseExt) (t : Bytes) (i j : Int) :
    E.parseNetRule px t i = mapE (setID i) (E.parseNetRule px t j) := parseNetRule_setID px t i j

/-- Hypothesis `L.length < MaxInt32`, discharged from the size of the contents (every rule takes at least
    one byte of some list). -/
theorem c01_storage_length (px : E.ParseExt) (lists : List RList) (hok : StorageOK lists) :
    (storageNetRules px lists).length < maxInt32 :=
  Nat.lt_of_le_of_lt (storageNetRules_length_le px lists) hok.size

/-- The list the engine is built from is, in order, the list of network rules obtained by splitting the
    contents at newlines and parsing every piece. -/
theorem c01_storage_rules (px : E.ParseExt) (lists : List RList) :
    (storageNetRules px lists).map (·.1) = netRulesOf (specRules px lists) := storageNetRules_eq_spec px lists

/-- C01 from bytes, every hash pair and window length. -/
theorem c01_storage_hash (hf : HashFns) (k : Nat) (hcoh : hf.Coherent k)
    (io : IO) (px : E.ParseExt) (lists : List RList) (hok : StorageOK lists)
    (st : RuleStorage) (hnew : newRuleStorage lists = some st) (history : List (BitVec 64))
    (q : Request) (t : Bytes) :
    t ∈ ((Engine.build hf k (storageNetRules px lists)).matchAll hf k
          (retrieveNet (retrieveAt io px (reach io px st history))) px.ext q).map (·.text) ↔
      t ∈ (specMatchAll px.ext (netRulesOf (specRules px lists)) q).map (·.text) := by
  rw [← storageNetRules_eq_spec]
  exact c01 hf k hcoh _ px.ext (storageNetRules px lists) q (c01_storage_length px lists hok)
    (c01_storage_retrieval io px lists hok st hnew history) (c01_storage_domainsWF px lists)
    (c01_storage_textDetermines px lists) t

/-- C01 END TO END, for the code as it is (djb2, generated `shortcutLength`): for all list contents, ids,
    backings, chunkings of the file reads, cache histories and requests, the texts `MatchAll` reports are
    exactly the texts of the network rules — obtained by parsing the lists line by line — that match. -/
theorem c01_storage (io : IO) (px : E.ParseExt) (lists : List RList) (hok : StorageOK lists)
    (st : RuleStorage) (hnew : newRuleStorage lists = some st) (history : List (BitVec 64))
    (q : Request) (t : Bytes) :
    t ∈ ((Engine.build djb2 Facts.shortcutLength (storageNetRules px lists)).matchAll djb2 Facts.shortcutLength
          (retrieveNet (retrieveAt io px (reach io px st history))) px.ext q).map (·.text) ↔
      t ∈ (specMatchAll px.ext (netRulesOf (specRules px lists)) q).map (·.text) :=
  c01_storage_hash djb2 Facts.shortcutLength (djb2_coherent _ (by decide)) io px lists hok st hnew history q t

/-- The same with the reference spelled out: `t` is reported iff some piece between two newlines of some
    list parses (`NewRule`) to a network rule with text `t` that matches the request. -/
theorem c01_storage_lines (io : IO) (px : E.ParseExt) (lists : List RList) (hok : StorageOK lists)
    (st : RuleStorage) (hnew : newRuleStorage lists = some st) (history : List (BitVec 64))
    (q : Request) (t : Bytes) :
    t ∈ ((Engine.build djb2 Facts.shortcutLength (storageNetRules px lists)).matchAll djb2 Facts.shortcutLength
          (retrieveNet (retrieveAt io px (reach io px st history))) px.ext q).map (·.text) ↔
      ∃ l ∈ lists, ∃ piece ∈ splitLines l.content, ∃ r : NetRule,
        E.newRule (realRx px) piece l.id = .ok (some (.net r)) ∧ r.matches px.ext q = true ∧ r.text = t := by
  rw [c01_storage io px lists hok st hnew history q t]
  simp only [specMatchAll, List.mem_map, List.mem_filter, mem_netRulesOf, mem_specRules]
  constructor
  · rintro ⟨r, ⟨⟨l, hl, piece, hp, hn, _⟩, hm⟩, rfl⟩
    exact ⟨l, hl, piece, hp, r, hn, hm, rfl⟩
  · rintro ⟨l, hl, piece, hp, r, hn, hm, rfl⟩
    exact ⟨r, ⟨⟨l, hl, piece, hp, hn, by simp [isCos]⟩, hm⟩, rfl⟩

/-- Order of the lists: any permutation of the lists gives the same reported texts (the insertion order
    drives the histogram and the bucket choice; the answer does not depend on it). -/
theorem c01_storage_perm (io : IO) (px : E.ParseExt) (lists lists' : List RList) (hperm : lists.Perm lists')
    (hok : StorageOK lists) (hok' : StorageOK lists')
    (st st' : RuleStorage) (hnew : newRuleStorage lists = some st) (hnew' : newRuleStorage lists' = some st')
    (history history' : List (BitVec 64)) (q : Request) (t : Bytes) :
    t ∈ ((Engine.build djb2 Facts.shortcutLength (storageNetRules px lists)).matchAll djb2 Facts.shortcutLength
          (retrieveNet (retrieveAt io px (reach io px st history))) px.ext q).map (·.text) ↔
    t ∈ ((Engine.build djb2 Facts.shortcutLength (storageNetRules px lists')).matchAll djb2 Facts.shortcutLength
          (retrieveNet (retrieveAt io px (reach io px st' history'))) px.ext q).map (·.text) := by
  rw [c01_storage_lines io px lists hok st hnew history q t,
      c01_storage_lines io px lists' hok' st' hnew' history' q t]
  constructor
  · rintro ⟨l, hl, rest⟩; exact ⟨l, hperm.mem_iff.1 hl, rest⟩
  · rintro ⟨l, hl, rest⟩; exact ⟨l, hperm.mem_iff.2 hl, rest⟩

/-- Splits, ids, duplicates, noise, line ends: two storages whose accepted network rules carry the same SET
    OF TEXTS report the same texts for every request — however the lines are split across lists, whatever
    the list ids, the order, the multiplicities, the blank / comment / rejected / non-network lines between
    them and the line ends (this is C12's inertness and C01's "every split of the lists", from bytes). -/
theorem c01_storage_texts (io : IO) (px : E.ParseExt) (lists lists' : List RList)
    (hok : StorageOK lists) (hok' : StorageOK lists')
    (st st' : RuleStorage) (hnew : newRuleStorage lists = some st) (hnew' : newRuleStorage lists' = some st')
    (history history' : List (BitVec 64)) (q : Request)
    (h : ∀ t, t ∈ (netRulesOf (specRules px lists)).map (·.text) ↔ t ∈ (netRulesOf (specRules px lists')).map (·.text))
    (t : Bytes) :
    t ∈ ((Engine.build djb2 Facts.shortcutLength (storageNetRules px lists)).matchAll djb2 Facts.shortcutLength
          (retrieveNet (retrieveAt io px (reach io px st history))) px.ext q).map (·.text) ↔
    t ∈ ((Engine.build djb2 Facts.shortcutLength (storageNetRules px lists')).matchAll djb2 Facts.shortcutLength
          (retrieveNet (retrieveAt io px (reach io px st' history'))) px.ext q).map (·.text) := by
  rw [c01_storage io px lists hok st hnew history q t, c01_storage io px lists' hok' st' hnew' history' q t]
  exact specMatchAll_texts_congr px lists lists' q h t

/-- Backing and cache history do not matter: String- or File-backed in any mixture, any two histories. -/
theorem c01_storage_backing (io io' : IO) (px : E.ParseExt) (lists : List RList) (flags : RList → Bool)
    (hok : StorageOK lists) (hok' : StorageOK (lists.map fun l => { l with file := flags l }))
    (st st' : RuleStorage) (hnew : newRuleStorage lists = some st)
    (hnew' : newRuleStorage (lists.map fun l => { l with file := flags l }) = some st')
    (history history' : List (BitVec 64)) (q : Request) (t : Bytes) :
    t ∈ ((Engine.build djb2 Facts.shortcutLength (storageNetRules px lists)).matchAll djb2 Facts.shortcutLength
          (retrieveNet (retrieveAt io px (reach io px st history))) px.ext q).map (·.text) ↔
    t ∈ ((Engine.build djb2 Facts.shortcutLength
            (storageNetRules px (lists.map fun l => { l with file := flags l }))).matchAll djb2 Facts.shortcutLength
          (retrieveNet (retrieveAt io' px (reach io' px st' history'))) px.ext q).map (·.text) := by
  rw [c01_storage_lines io px lists hok st hnew history q t,
      c01_storage_lines io' px _ hok' st' hnew' history' q t]
  simp only [List.mem_map]
  constructor
  · rintro ⟨l, hl, rest⟩; exact ⟨{ l with file := flags l }, ⟨l, hl, rfl⟩, rest⟩
  · rintro ⟨l', ⟨l, hl, rfl⟩, rest⟩; exact ⟨l, hl, rest⟩

/-! ### Non-vacuity: a concrete storage satisfies `StorageOK`, yields network rules of all three tables,
    and the end-to-end answer is computed (two lists; CRLF; comment; hosts line; cosmetic rule; an invalid
    rule; a `$domain` rule; the same text in both lists). -/

private def exPx : E.ParseExt :=
  { ext := { psl := fun _ => (lit "org", true), parseAddr := fun s => if s == lit "0.0.0.0" then some ⟨true, 0, []⟩ else none,
             parsePrefix := fun _ => none, pat := fun _ _ _ => true },
    loadDNSRewrite := fun _ => none, regexpShortcut := fun _ => [] }

private def exLists : List RList :=
  [⟨1, false, lit "/banner\r\n! c\n0.0.0.0 b.org\n-ads-\n", false⟩,
   ⟨-2, true, lit "##x\n||$$\n/ad$domain=c.org\n-ads-", true⟩]

example : StorageOK exLists := ⟨by decide, by decide, by decide⟩

example : (storageNetRules exPx exLists).map (fun p => (p.1.text, p.1.listID, p.2)) =
    [(lit "/banner", 1, 4294967296), (lit "-ads-", 1, 4294967323),
     (lit "/ad$domain=c.org", -2, -8589934583), (lit "-ads-", -2, -8589934566)] := by decide +kernel

private def exQ : Request :=
  { url := lit "http://x.org/ad/-ads-/banner", urlLower := lit "http://x.org/ad/-ads-/banner", hostname := lit "x.org",
    sourceURL := lit "http://c.org/", sourceHostname := lit "c.org", reqType := 4, thirdParty := true }

/-- Both sides of `c01_storage` computed on the instance (with the pattern oracle "contains the pattern"):
    the engine (shortcut table first, then the domains table) and the line-by-line reference report the same
    texts, in different orders. -/
example :
    ((Engine.build djb2 Facts.shortcutLength (storageNetRules exPx exLists)).matchAll djb2 Facts.shortcutLength
        (retrieveNet (retrieveAt ⟨4096, fun _ => 3⟩ { exPx with ext := { exPx.ext with pat := fun p _ t => Bytes.hasSub t p } }
          ⟨exLists, []⟩)) { exPx.ext with pat := fun p _ t => Bytes.hasSub t p } exQ).map (fun r => (r.text, r.listID)) =
      [(lit "-ads-", 1), (lit "-ads-", -2), (lit "/banner", 1), (lit "/ad$domain=c.org", -2)] ∧
    (specMatchAll { exPx.ext with pat := fun p _ t => Bytes.hasSub t p } (netRulesOf (specRules exPx exLists)) exQ).map
        (fun r => (r.text, r.listID)) =
      [(lit "/banner", 1), (lit "-ads-", 1), (lit "/ad$domain=c.org", -2), (lit "-ads-", -2)] := by decide +kernel

end UF.C01

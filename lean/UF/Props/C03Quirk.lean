import UF.Props.C03Full
import UF.Proofs.MaskParse
/-
  C03, group P3 (REVIEW2 F3): the divergence of Go's `regexp/syntax` from the textbook semantics
  (flag-blind factoring of alternation prefixes, UF/Model/RegexQuirk.lean) cannot touch MASK patterns:
  the expression `patternToRegexp` builds contains no class of the two cases of a letter and no
  alternation of single characters, so Go's tree of it contains no case-folded literal (with
  `$match-case`) or only case-folded ones (without), and `goTree` is the identity on it.  The C03 theorems
  (`c03_text`, `c03_stored`, `c03_models_agree`, …) are therefore unaffected by the repair of `parseRE`.
  Only property theorems and non-vacuity examples here.
-/
namespace UF.C03
open UF Bytes UF.I2 UF.Re

/-- The expression of a mask pattern has no source of case-folded literals. -/
theorem c03_mask_quirk_free (p : Bytes) :
    (Mask.maskAst (MaskSpec.tokenize p) true).hazard = false := by
  simp only [Mask.maskAst, if_true]
  exact Mask.hazard_maskAtoms _

/-- … hence Go's tree of the text compiled for a `$match-case` mask rule is the textbook tree. -/
theorem c03_mask_goTree (p t : Bytes) :
    goTree t (Mask.maskAst (MaskSpec.tokenize p) true) = some (Mask.maskAst (MaskSpec.tokenize p) true) :=
  goTree_of_not_hazard t _ (c03_mask_quirk_free p)

/-! ### Non-vacuity -/

example : goTree (lit "x") (Mask.maskAst (MaskSpec.tokenize (lit "||Ex.org^a|A")) true) =
    some (Mask.maskAst (MaskSpec.tokenize (lit "||Ex.org^a|A")) true) := c03_mask_goTree _ _

/-- A `/regex/` pattern CAN have one (then `goTree` is not the identity). -/
example : (parseCore (lit "A.|[aA]")).map hazard = some true := by decide +kernel

end UF.C03

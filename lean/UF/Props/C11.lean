import UF.Proofs.StorageMain
import UF.Proofs.StorageRef
import UF.Proofs.StorageDemo
/-
  C11 -- every scanned rule can be retrieved by its index from any backing store.

  Model: UF/Model/Storage.lean (+ TrimSpace.lean); reference: UF/Spec/Storage.lean.
  `rules.NewRule` is a parameter `parse`; the only assumption is `TrimsFirst parse`.
  `ListsOK lists`: distinct ids that fit int32, contents shorter than 2^31 bytes (the property's own
  quantifier).  `CacheInv`: every cache entry is what the lists answer (true of a new storage and
  kept by every `RetrieveRule`, see `c11_cache`).
-/
namespace UF.Storage

/-- `storageIdxToRuleListIdx (ruleListIdxToStorageIdx id idx) = (id, idx)` for ALL int32 pairs. -/
theorem pack_unpack (id idx : BitVec 32) : unpack (pack id idx) = (id, idx) := unpack_pack id idx

/-- The storage index is injective over (list id, offset). -/
theorem pack_inj (a b c d : BitVec 32) (h : pack a b = pack c d) : a = c ∧ b = d := pack_injective h

/-- In terms of Go `int`s: an id that fits int32 and an offset below 2^31 come back unchanged. -/
theorem pack_unpack_int (id : Int) (off : Nat) (h1 : -2147483648 ≤ id) (h2 : id < 2147483648) (h3 : off < 2147483648) :
    ((unpack (pack (BitVec.ofInt 32 id) (BitVec.ofNat 32 off))).1.toInt,
     (unpack (pack (BitVec.ofInt 32 id) (BitVec.ofNat 32 off))).2.toInt) = (id, (off : Int)) := by
  rw [unpack_pack, toInt_ofInt32 h1 h2, toInt_ofNat32 h3]

/-- The Go-shaped `strings.TrimSpace` (ASCII fast path with two fall-backs) is "trim left, then
    trim right". -/
theorem trimSpace_fast_path (s : Bytes) : trimSpace s = trimSpaceRef s := trimSpace_eq_ref s

/-- The scanner's line (with its newline) and the retriever's slice (without) trim to the same text. -/
theorem trimSpace_nl (l : Bytes) : trimSpace (l ++ [0x0A]) = trimSpace l := trimSpace_nl' l

theorem trimSpace_crnl (l : Bytes) : trimSpace (l ++ [0x0D, 0x0A]) = trimSpace l := trimSpace_crnl' l

/-- Offsets: a scanned `(idx, line)` lies inside the content, and the slice
    `StringRuleList.RetrieveRule` takes at `idx` (up to the next newline) trims to the same text. -/
theorem scan_retrieve_string (content : Bytes) (idx : Nat) (line : Bytes) (h : (idx, line) ∈ scanLines content) :
    idx < content.length ∧ trimSpace (untilNL (content.drop idx)) = trimSpace line := by
  obtain ⟨h1, h2⟩ := scanLines_mem h
  exact ⟨h1, by rw [h2, trimSpace_takeLine]⟩

/-- `StringRuleList.RetrieveRule` never panics (both slice expressions stay in bounds), at any index. -/
theorem retrieveString_no_panic (parse : Parser) (id : Int) (content : Bytes) (idx : Int) :
    retrieveString parse id content idx ≠ .panic := by
  by_cases h : idx < 0 ∨ idx ≥ content.length
  · rw [retrieveString_oob _ _ _ _ h]; simp
  · obtain ⟨i, rfl⟩ : ∃ i : Nat, idx = (i : Int) := ⟨idx.toNat, by omega⟩
    rw [retrieveString_eq _ _ _ _ (by omega)]
    simp only
    split
    · simp
    · cases parse (trimSpace (untilNL (List.drop i content))) id <;> simp [ofParse]

/-- Seek + block reads = slicing the string: for every buffer size, every chunking of the reads and
    every index (negative, inside, beyond the end). -/
theorem retrieveFile_eq_string (bufSize : Nat) (chunk : Nat → Nat) (parse : Parser) (id : Int) (content : Bytes)
    (idx : Int) : retrieveFile bufSize chunk parse id content idx = retrieveString parse id content idx :=
  retrieveFile_eq_retrieveString bufSize chunk parse id content idx

/-- C11, main statement: every rule the storage scanner yields is retrieved again through the index
    reported with it -- same kind, text and list id -- from String- and File-backed lists alike,
    whatever the cache holds (as long as it is a cache of these lists). -/
theorem c11 (io : IO) (parse : Parser) (hp : TrimsFirst parse) (st : RuleStorage) (hok : ListsOK st.lists)
    (hinv : CacheInv io parse st) (r : SRule) (k : BitVec 64) (h : (r, k) ∈ storageScan parse st.lists) :
    (retrieveRule io parse st k).1 = .rule r := by
  have hl := lookupRule_of_scan io hp hok h
  obtain ⟨_, _, h3⟩ := retrieveRule_spec io parse st k hinv
  rcases h3 with h3 | ⟨_, h3⟩
  · rw [h3, hl]
  · rw [hl] at h3; cases h3

/-- The cache: a new storage satisfies the invariant, and every `RetrieveRule` call -- of ANY index,
    scanned or garbage -- keeps it and leaves the lists alone.  So `c11` applies after every history. -/
theorem c11_cache (io : IO) (parse : Parser) :
    (∀ lists st, newRuleStorage lists = some st → CacheInv io parse st ∧ st.lists = lists) ∧
    (∀ st k, CacheInv io parse st →
      CacheInv io parse (retrieveRule io parse st k).2 ∧ (retrieveRule io parse st k).2.lists = st.lists) := by
  refine ⟨fun lists st h => cacheInv_new io parse h, fun st k hinv => ?_⟩
  obtain ⟨h1, h2, _⟩ := retrieveRule_spec io parse st k hinv
  exact ⟨h1, h2⟩

/-- After any history of retrievals on a new storage, a scanned index still answers with its rule. -/
theorem c11_history (io : IO) (parse : Parser) (hp : TrimsFirst parse) (lists : List RList) (hok : ListsOK lists)
    (st : RuleStorage) (hnew : newRuleStorage lists = some st) (history : List (BitVec 64))
    (r : SRule) (k : BitVec 64) (h : (r, k) ∈ storageScan parse lists) :
    (retrieveRule io parse (history.foldl (fun s j => (retrieveRule io parse s j).2) st) k).1 = .rule r := by
  obtain ⟨hinv, hl⟩ := cacheInv_new io parse hnew
  have key : ∀ (hs : List (BitVec 64)) (s : RuleStorage), CacheInv io parse s → s.lists = lists →
      CacheInv io parse (hs.foldl (fun s j => (retrieveRule io parse s j).2) s) ∧
      (hs.foldl (fun s j => (retrieveRule io parse s j).2) s).lists = lists := by
    intro hs
    induction hs with
    | nil => intro s h1 h2; exact ⟨h1, h2⟩
    | cons j js ih =>
      intro s h1 h2
      obtain ⟨g1, g2, _⟩ := retrieveRule_spec io parse s j h1
      exact ih _ g1 (g2.trans h2)
  obtain ⟨k1, k2⟩ := key history st hinv hl
  exact c11 io parse hp _ (by rw [k2]; exact hok) k1 r k (by rw [k2]; exact h)

/-- The index identifies the rule: two scanned entries with the same index are the same rule. -/
theorem c11_index_inj (parse : Parser) (hp : TrimsFirst parse) (lists : List RList) (hok : ListsOK lists)
    (r1 r2 : SRule) (k : BitVec 64) (h1 : (r1, k) ∈ storageScan parse lists) (h2 : (r2, k) ∈ storageScan parse lists) :
    r1 = r2 := by
  have a := lookupRule_of_scan ⟨0, fun _ => 0⟩ hp hok h1
  have b := lookupRule_of_scan ⟨0, fun _ => 0⟩ hp hok h2
  rw [a] at b
  cases b
  rfl

/-- The scanned sequence equals parsing the content line by line (reference: split at newlines,
    offsets = bytes before the line), list by list. -/
theorem c11_ref (parse : Parser) (hp : TrimsFirst parse) (lists : List RList) :
    storageScan parse lists =
      (specStorageScan parse lists).map fun (r, id, off) => (r, pack (BitVec.ofInt 32 id) (BitVec.ofNat 32 off)) := by
  unfold storageScan specStorageScan
  rw [List.map_flatMap]
  congr 1
  funext l
  rw [← scanList_eq_spec hp, List.map_map]
  apply List.map_congr_left
  intro ⟨r, idx⟩ hm
  obtain ⟨_, _, _, hid, _⟩ := scanList_mem hm
  simp only [Function.comp, hid]

/-- One list: the scanner is the reference scan. -/
theorem c11_ref_list (parse : Parser) (hp : TrimsFirst parse) (id : Int) (ign : Bool) (content : Bytes) :
    scanList parse id ign content = specScanList parse id ign content := scanList_eq_spec hp id ign content

/-- An in-memory list and a file-backed list with the same content are indistinguishable: the scan
    does not look at the backing, and retrieval agrees at every index for every chunking. -/
theorem c11_backing (io : IO) (parse : Parser) (lists : List RList) (flags flags' : RList → Bool) :
    let a := lists.map fun l => { l with file := flags l }
    let b := lists.map fun l => { l with file := flags' l }
    storageScan parse a = storageScan parse b ∧ ∀ k, lookupRule io parse a k = lookupRule io parse b k := by
  simp only
  constructor
  · unfold storageScan
    simp only [List.flatMap_map]
  · intro k
    unfold lookupRule
    rw [findList_map_file, findList_map_file]
    cases findList lists (unpack k).1.toInt with
    | none => rfl
    | some l => exact retrieve_file_irrel io parse l _ _ _

/-- `strings.TrimSpace` is idempotent: a rule text (a trimmed line) is a fixed point, which is what makes
    the parser assumption `TrimsFirst` coherent. -/
theorem trimSpace_idempotent (s : Bytes) : trimSpace (trimSpace s) = trimSpace s := trimSpace_idem s

/-- Duplicate ids: `NewRuleStorage` succeeds exactly when the ids are pairwise distinct ... -/
theorem c11_dup_ok (lists : List RList) (st : RuleStorage) (h : newRuleStorage lists = some st) :
    lists.Pairwise (fun a b => a.id ≠ b.id) ∧ st.lists = lists ∧ st.cache = [] := by
  unfold newRuleStorage at h
  split at h
  · cases h
  · rename_i hd
    simp only [Option.some.injEq] at h
    subst h
    exact ⟨(hasDupIds_false (by simpa using hd)).2, rfl, rfl⟩

/-- ... and fails when two lists share an id. -/
theorem c11_dup_err (lists : List RList) (h : newRuleStorage lists = none) :
    ¬ lists.Pairwise (fun a b => a.id ≠ b.id) := by
  unfold newRuleStorage at h
  split at h
  · rename_i hd
    rcases hasDupIds_true hd with h' | ⟨_, _, h'⟩
    · exact h'
    · simp at h'
  · cases h

/-! ### Non-vacuity: the hypotheses are satisfiable by a concrete, non-trivial instance
    (`demoParser`, `demoLists` in UF/Proofs/StorageDemo.lean: ids min/max int32, CRLF, padding, a
    comment, an invalid rule, no final newline, String- and File-backed, IgnoreCosmetic on/off). -/

example : TrimsFirst demoParser := demoParser_trimsFirst
example : ListsOK demoLists := demo_listsOK
example : (⟨.cosmetic, lit "##b", -2147483648⟩, pack (BitVec.ofInt 32 (-2147483648)) (BitVec.ofNat 32 12)) ∈
    storageScan demoParser demoLists := by rw [demo_storageScan]; simp
/-- `c11` applied to the instance: retrieving index (min int32, 12) from a new storage gives `##b`. -/
example (io : IO) : (retrieveRule io demoParser ⟨demoLists, []⟩
      (pack (BitVec.ofInt 32 (-2147483648)) (BitVec.ofNat 32 12))).1 = .rule ⟨.cosmetic, lit "##b", -2147483648⟩ :=
  c11 io demoParser demoParser_trimsFirst ⟨demoLists, []⟩ demo_listsOK
    (by intro k v hk; simp [List.lookup] at hk) _ _ (by rw [demo_storageScan]; simp)
/-- pack on the extreme ids -/
example : (pack (BitVec.ofInt 32 (-2147483648)) (BitVec.ofNat 32 12)).toInt = -9223372036854775796 ∧
    (pack (BitVec.ofInt 32 (-1)) (BitVec.ofInt 32 (-1))).toInt = -1 ∧
    (pack (BitVec.ofInt 32 2147483647) (BitVec.ofNat 32 7)).toInt = 9223372032559808519 := by decide
/-- trimming: NBSP / ideographic space / CRLF go, a cut sequence and U+200B (not White_Space) stay -/
example : trimSpace ([0xC2, 0xA0] ++ lit " ||a^" ++ [0xE3, 0x80, 0x80, 0x0D, 0x0A]) = lit "||a^" ∧
    trimSpace (lit "||a^" ++ [0xE2, 0x80, 0x8B, 0x20]) = lit "||a^" ++ [0xE2, 0x80, 0x8B] ∧
    trimSpace (lit " x" ++ [0xC2, 0x0A]) = lit "x" ++ [0xC2] := by decide +kernel

end UF.Storage

import UF.Compose.Basic
import UF.Props.C02
/-
  C02 COMPOSED (integration group I1).

  Group B proved C02 for a parameter `basic` (= `GetDNSBasicRule`, group C's) under the hypothesis
  `BasicRespectsTexts basic S`, and for an abstract rule list `L` under `RetrievalOK`, `TextDeterminesRule`,
  `L.length < MaxInt32`.  Here
  * `BasicRespectsTexts` is PROVED for group C's model `getDNSBasicRule` (from C06's characterisation of the
    loop, C07's "the selected rule is a maximum", C08's "twins compare everything but text and list id");
  * `L` is what the storage scan (group D) yields from the BYTES of the lists with the real parser model
    (group E's `NewRule` over group D's `TrimSpace`, hosts-file lines through group H's `NewHostRule`), and
    the three hypotheses about it are proved (C11 composed, the parser model, the size of the contents).
  So `c02_storage` states C02 from bytes with only the oracles in `px` as parameters.
  Property theorems only (helper lemmas live in UF/Compose).
-/
namespace UF.C02
open UF UF.B UF.Storage UF.Compose

/-- `BasicRespectsTexts` holds for the modelled `GetDNSBasicRule` on every rule set in which the text
    determines the rule up to the list id. -/
theorem c02_basic (S : List NetRule)
    (hS : ∀ r ∈ S, ∀ r' ∈ S, r.text = r'.text → r' = { r with listID := r'.listID }) :
    BasicRespectsTexts getDNSBasicRule S := basicRespectsTexts_getDNSBasicRule S hS

/-- On candidate lists that agree up to list ids, order and multiplicities, `GetDNSBasicRule` selects a
    rule of the same class (exception? important?) or none on both. -/
theorem c02_basic_agree (l l' : List NetRule)
    (h1 : ∀ r ∈ l, ∃ r' ∈ l', { r with listID := 0 } = { r' with listID := 0 })
    (h2 : ∀ r' ∈ l', ∃ r ∈ l, { r with listID := 0 } = { r' with listID := 0 }) :
    (getDNSBasicRule l).map netCls = (getDNSBasicRule l').map netCls :=
  getDNSBasicRule_agree ⟨h1, h2⟩

/-- C02 with `basic := getDNSBasicRule` (group C's model) and no hypothesis about it; the one hypothesis
    on the rule list that is left besides retrieval and size: rules are parsed from their text. -/
theorem c02_full (hf : HashFns) (k : Nat) (hcoh : hf.Coherent k)
    (retrieve : Idx → Option Rule) (ext : Ext) (L : List (Rule × Idx)) (q : Request)
    (hlen : L.length < maxInt32) (hret : RetrievalOK retrieve L)
    (hparse : ∀ r ∈ netRulesOf (L.map (·.1)), ∀ r' ∈ netRulesOf (L.map (·.1)),
      r.text = r'.text → r' = { r with listID := r'.listID }) :
    DnsResult.Equiv ((DnsEngine.build hf k L).matchRequest hf k retrieve ext getDNSBasicRule q)
      (specDns ext getDNSBasicRule (L.map (·.1)) q) := by
  refine c02 hf k hcoh retrieve ext getDNSBasicRule L q hlen hret ?_ (c02_basic _ hparse)
  intro ⟨r, i⟩ hp ⟨r', i'⟩ hp' ht
  have h1 := ((mem_hostLevelNet L r i).1 hp).1
  have h2 := ((mem_hostLevelNet L r' i').1 hp').1
  exact hparse r ((mem_netRulesOf _ _).2 (List.mem_map.2 ⟨_, h1, rfl⟩))
    r' ((mem_netRulesOf _ _).2 (List.mem_map.2 ⟨_, h2, rfl⟩)) ht

/-- The hypotheses of `c02`, discharged for the rules of a storage. -/
theorem c02_storage_hyps (io : IO) (px : E.ParseExt) (lists : List RList) (hok : StorageOK lists)
    (st : RuleStorage) (hnew : newRuleStorage lists = some st) (history : List (BitVec 64)) :
    (storageRulesI px lists).length < maxInt32 ∧
    RetrievalOK (retrieveAt io px (reach io px st history)) (storageRulesI px lists) ∧
    TextDeterminesRule (hostLevelNet (storageRulesI px lists)) ∧
    BasicRespectsTexts getDNSBasicRule (netRulesOf ((storageRulesI px lists).map (·.1))) :=
  ⟨Nat.lt_of_le_of_lt (storageRulesI_length_le px lists) hok.size,
   retrievalOK_rules io px lists hok.listsOK st hnew history,
   hostLevel_textDetermines px lists,
   basicRespectsTexts_getDNSBasicRule _ (storage_textDet px lists)⟩

/-- C02 from bytes, every hash pair and window length. -/
theorem c02_storage_hash (hf : HashFns) (k : Nat) (hcoh : hf.Coherent k)
    (io : IO) (px : E.ParseExt) (lists : List RList) (hok : StorageOK lists)
    (st : RuleStorage) (hnew : newRuleStorage lists = some st) (history : List (BitVec 64)) (q : Request) :
    DnsResult.Equiv
      ((DnsEngine.build hf k (storageRulesI px lists)).matchRequest hf k
        (retrieveAt io px (reach io px st history)) px.ext getDNSBasicRule q)
      (specDns px.ext getDNSBasicRule (specRules px lists) q) := by
  obtain ⟨h1, h2, h3, h4⟩ := c02_storage_hyps io px lists hok st hnew history
  rw [← storageRulesI_fst]
  exact c02 hf k hcoh _ px.ext getDNSBasicRule (storageRulesI px lists) q h1 h2 h3 h4

/-- C02 END TO END for the code as it is (djb2, generated `shortcutLength`, group C's `GetDNSBasicRule`):
    for all list contents (adblock rules, hosts-file lines, comments, CRLF …), ids, backings, cache
    histories and DNS requests, the answer of `DNSEngine.MatchRequest` agrees componentwise with the
    reference computed by parsing the lists line by line and scanning all rules. -/
theorem c02_storage (io : IO) (px : E.ParseExt) (lists : List RList) (hok : StorageOK lists)
    (st : RuleStorage) (hnew : newRuleStorage lists = some st) (history : List (BitVec 64)) (q : Request) :
    DnsResult.Equiv
      ((DnsEngine.build djb2 Facts.shortcutLength (storageRulesI px lists)).matchRequest djb2 Facts.shortcutLength
        (retrieveAt io px (reach io px st history)) px.ext getDNSBasicRule q)
      (specDns px.ext getDNSBasicRule (specRules px lists) q) :=
  c02_storage_hash djb2 Facts.shortcutLength (djb2_coherent _ (by decide)) io px lists hok st hnew history q

/-- The verdict class of the composed answer is the documented precedence (C06) over the applicable,
    matching rules of the reference — no `$replace` bit can be set from rule text. -/
theorem c02_storage_class (io : IO) (px : E.ParseExt) (lists : List RList) (hok : StorageOK lists)
    (st : RuleStorage) (hnew : newRuleStorage lists = some st) (history : List (BitVec 64)) (q : Request)
    (hq : q.hostname.isEmpty = false) :
    (((DnsEngine.build djb2 Facts.shortcutLength (storageRulesI px lists)).matchRequest djb2 Facts.shortcutLength
        (retrieveAt io px (reach io px st history)) px.ext getDNSBasicRule q).networkRule.map netCls) =
      (getDNSBasicRule ((netRulesOf (specRules px lists)).filter
        fun r => dnsApplicable r && r.matches px.ext q)).map netCls := by
  have h := (c02_storage io px lists hok st hnew history q).2.1
  rw [h]
  unfold specDns
  simp only [hq, Bool.false_eq_true, if_false]
  cases hb : getDNSBasicRule ((netRulesOf (specRules px lists)).filter
      fun r => dnsApplicable r && r.matches px.ext q) with
  | some r => rfl
  | none => rfl

/-! ### Non-vacuity: a storage with an adblock rule, its exception in another list and a hosts line. -/

private def exPx : E.ParseExt :=
  { ext := { psl := fun _ => (lit "org", true), parseAddr := fun s => if s == lit "0.0.0.0" then some ⟨true, 0, []⟩ else none,
             parsePrefix := fun _ => none, pat := fun _ _ _ => true },
    loadDNSRewrite := fun _ => none, regexpShortcut := fun _ => [] }

private def exLists : List RList :=
  [⟨1, false, lit "||b.org^\r\n! c\n0.0.0.0 b.org\n", false⟩, ⟨7, false, lit "@@||b.org^$important\n##x", true⟩]

example : StorageOK exLists := ⟨by decide, by decide, by decide⟩

example : (specRules exPx exLists).map (fun r => (kindOf r, r.text, r.listID)) =
    [(.network, lit "||b.org^", 1), (.host, lit "0.0.0.0 b.org", 1), (.network, lit "@@||b.org^$important", 7),
     (.cosmetic, lit "##x", 7)] := by decide +kernel

private def exQ (h : Bytes) : Request :=
  { url := h, urlLower := h, hostname := h, isHostnameRequest := true, reqType := Facts.TypeDocument }

/-- Both sides of `c02_storage` computed on the instance: for `b.org` the important exception of list 7 wins
   
    over the blocking rule and the hosts line of list 1. -/
example :
    let res := (DnsEngine.build djb2 Facts.shortcutLength (storageRulesI exPx exLists)).matchRequest djb2
      Facts.shortcutLength (retrieveAt ⟨4096, fun _ => 1⟩ exPx ⟨exLists, []⟩) exPx.ext getDNSBasicRule (exQ (lit "b.org"))
    let ref := specDns exPx.ext getDNSBasicRule (specRules exPx exLists) (exQ (lit "b.org"))
    res.networkRules.map (·.text) = [lit "||b.org^", lit "@@||b.org^$important"] ∧
    res.networkRule.map (·.text) = some (lit "@@||b.org^$important") ∧ res.v4 = [] ∧ res.matched = true ∧
    ref.networkRules.map (·.text) = [lit "||b.org^", lit "@@||b.org^$important"] ∧
    ref.networkRule.map (·.text) = some (lit "@@||b.org^$important") ∧ ref.v4 = [] ∧ ref.matched = true := by
  decide +kernel

end UF.C02

import UF.Proofs.DnsRewriteParse
/-
  C10 — parsed `$dnsrewrite` values always have the published shape.

  Model: `UF.loadDNSRewrite` (UF/Model/DnsRewriteParse.lean) mirrors rules/dnsrewrite.go;
  reference: `UF.shapeOK` (UF/Spec/DnsRewriteShape.lean) is the doc comment of `RRValue`/`DNSRewrite`.
  All theorems hold for EVERY byte string and EVERY address oracle (`netip.ParseAddr` may answer
  anything: the family of an address is part of the `Addr` it returns, `Is6 = ¬Is4`).
  The tables of miekg/dns, the keyword list and the handler keys are generated facts; the theorems
  are re-checked against them on every run.
-/
namespace UF.H
open Bytes

/-- Every accepted value has the published shape. -/
theorem c10 (ext : Ext) (s : Bytes) (rw : DnsRewrite)
    (h : loadDNSRewrite ext s = .ok rw) : shapeOK rw = true := by
  unfold loadDNSRewrite at h
  simp only at h
  split at h
  · exact loadDNSRewriteShort_shape h
  · cases h
  · split at h
    · exact loadDNSRewriteNormal_shape h
    · cases h
  · cases h

/-- The parser never panics: no checked slice or index (`p[0]`, `p[1:]`, `valStr[l-1]`,
    `valStr[:l-1]`, `fields[i]`, `kv[i]`, `parts[i]`) fails, for any input. -/
theorem c10_total (ext : Ext) (s : Bytes) : loadDNSRewrite ext s ≠ .error .panic := by
  unfold loadDNSRewrite
  simp only
  split
  · exact loadDNSRewriteShort_noPanic _ _
  · simp
  · rename_i hlen
    rw [idxE_of_lt (by omega : 0 < (splitNByte s (ch ';') 3).length),
        idxE_of_lt (by omega : 1 < (splitNByte s (ch ';') 3).length),
        idxE_of_lt (by omega : 2 < (splitNByte s (ch ';') 3).length)]
    exact loadDNSRewriteNormal_noPanic _ _ _ _
  · simp

/-- Error/ok dichotomy: a value is either rejected with an (ordinary) error or accepted with a
    well-shaped rewrite; there is no third outcome. -/
theorem c10_dichotomy (ext : Ext) (s : Bytes) :
    loadDNSRewrite ext s = .error .reject ∨
    ∃ rw, loadDNSRewrite ext s = .ok rw ∧ shapeOK rw = true := by
  cases h : loadDNSRewrite ext s with
  | error e =>
    cases e with
    | panic => exact absurd h (c10_total ext s)
    | reject => exact Or.inl rfl
  | ok rw => exact Or.inr ⟨rw, rfl, c10 ext s rw h⟩

/-- What the shape says, type by type (consumers type-assert `Value` according to `RRType`). -/
theorem c10_value_by_type (ext : Ext) (s : Bytes) (rw : DnsRewrite)
    (h : loadDNSRewrite ext s = .ok rw) (hc : rw.newCNAME = []) (hrc : rw.rcode = 0) :
    (rw.rrType = Facts.H.DnsTypeA → ∃ a, rw.value = .addr a ∧ a.is4 = true) ∧
    (rw.rrType = Facts.H.DnsTypeAAAA → ∃ a, rw.value = .addr a ∧ a.is4 = false) ∧
    (rw.rrType = Facts.H.DnsTypeMX → ∃ p e, rw.value = .mx p e ∧ p ≤ 65535) ∧
    (rw.rrType = Facts.H.DnsTypeSRV → ∃ p w po t, rw.value = .srv p w po t ∧ p ≤ 65535 ∧ w ≤ 65535 ∧ po ≤ 65535) ∧
    (rw.rrType = Facts.H.DnsTypeHTTPS ∨ rw.rrType = Facts.H.DnsTypeSVCB →
        ∃ p t ps, rw.value = .svcb p t ps ∧ p ≤ 65535) ∧
    (rw.rrType = Facts.H.DnsTypePTR → ∃ x, rw.value = .str x ∧ x.getLast? = some (ch '.')) ∧
    (rw.rrType = Facts.H.DnsTypeTXT → ∃ x, rw.value = .str x) := by
  have hs := c10 ext s rw h
  obtain ⟨rc, rr, cn, v⟩ := rw
  simp only at hc hrc
  subst hc hrc
  simp only [shapeOK, List.isEmpty_nil, Bool.not_true, Bool.false_eq_true, if_false, bne_self_eq_false,
    Bool.and_eq_true] at hs
  obtain ⟨_, hv⟩ := hs
  refine ⟨?_, ?_, ?_, ?_, ?_, ?_, ?_⟩
  all_goals intro hr
  · subst hr; cases v <;> simp_all [valueShapeOK, Facts.H.DnsTypeA]
  · subst hr; cases v <;> simp_all [valueShapeOK, Facts.H.DnsTypeA, Facts.H.DnsTypeAAAA]
  · subst hr; cases v <;> simp_all [valueShapeOK, isU16, Facts.H.DnsTypeA, Facts.H.DnsTypeAAAA, Facts.H.DnsTypeMX]
  · subst hr
    cases v with
    | srv p w po t =>
      simp [valueShapeOK, isU16, Facts.H.DnsTypeA, Facts.H.DnsTypeAAAA, Facts.H.DnsTypeMX, Facts.H.DnsTypeSRV] at hv
      exact ⟨p, w, po, t, rfl, hv.1.1, hv.1.2, hv.2⟩
    | _ => simp_all [valueShapeOK, isU16, Facts.H.DnsTypeA, Facts.H.DnsTypeAAAA, Facts.H.DnsTypeMX, Facts.H.DnsTypeSRV]
  · rcases hr with hr | hr <;> subst hr <;> cases v <;>
      simp_all [valueShapeOK, isU16, Facts.H.DnsTypeA, Facts.H.DnsTypeAAAA, Facts.H.DnsTypeMX, Facts.H.DnsTypeSRV,
        Facts.H.DnsTypeHTTPS, Facts.H.DnsTypeSVCB]
  · subst hr; cases v <;>
      simp_all [valueShapeOK, Facts.H.DnsTypeA, Facts.H.DnsTypeAAAA, Facts.H.DnsTypeMX, Facts.H.DnsTypeSRV,
        Facts.H.DnsTypeHTTPS, Facts.H.DnsTypeSVCB, Facts.H.DnsTypePTR]
  · subst hr; cases v <;>
      simp_all [valueShapeOK, Facts.H.DnsTypeA, Facts.H.DnsTypeAAAA, Facts.H.DnsTypeMX, Facts.H.DnsTypeSRV,
        Facts.H.DnsTypeHTTPS, Facts.H.DnsTypeSVCB, Facts.H.DnsTypePTR, Facts.H.DnsTypeTXT]

/-- A new-CNAME rewrite carries nothing else; a non-success rcode carries nothing else. -/
theorem c10_cname_rcode_alone (ext : Ext) (s : Bytes) (rw : DnsRewrite)
    (h : loadDNSRewrite ext s = .ok rw) :
    (rw.newCNAME ≠ [] → rw.rcode = 0 ∧ rw.rrType = 0 ∧ rw.value = .none) ∧
    (rw.rcode ≠ 0 → rw.newCNAME = [] ∧ rw.rrType = 0 ∧ rw.value = .none) := by
  have hs := c10 ext s rw h
  obtain ⟨rc, rr, cn, v⟩ := rw
  constructor
  · intro hc
    cases cn with
    | nil => exact absurd rfl hc
    | cons c t => simpa [shapeOK, and_assoc] using hs
  · intro hrc
    simp only at hrc
    cases cn with
    | nil => simpa [shapeOK, hrc] using hs
    | cons c t => simp [shapeOK] at hs; exact absurd hs.1.1 hrc

/-- Generated-fact obligation: the model's handler dispatch has exactly the keys of the Go map
    `dnsRewriteRRHandlers` (probed through the real `loadDNSRewrite`). -/
theorem c10_handler_keys :
    ∀ rr ∈ Facts.H.dnsTypeTable.map (·.2),
      (handlerOf rr).isSome = Facts.H.dnsRewriteHandlerTypes.contains rr := by decide

/-- Generated-fact obligation: the keyword list of the shorthand form. -/
theorem c10_keywords :
    Facts.H.dnsRewriteKeywords = [lit "NOERROR", lit "NXDOMAIN", lit "REFUSED", lit "SERVFAIL"] := by decide

/-- Generated-fact obligation: every keyword of the shorthand form is a key of the generated
    `dns.StringToRcode` table, with the value the RFC assigns -- so the `(lookupTbl … s).getD 0` of
    `loadDNSRewriteShort` (Go: the map index `dns.StringToRcode[s]`, zero value when absent) never
    falls back silently to NOERROR for a keyword. -/
theorem c10_keywords_in_rcode_table :
    Facts.H.dnsRewriteKeywords.all (fun k => (lookupTbl Facts.H.dnsRcodeTable k).isSome) = true ∧
    lookupTbl Facts.H.dnsRcodeTable (lit "NOERROR") = some 0 ∧
    lookupTbl Facts.H.dnsRcodeTable (lit "SERVFAIL") = some 2 ∧
    lookupTbl Facts.H.dnsRcodeTable (lit "NXDOMAIN") = some 3 ∧
    lookupTbl Facts.H.dnsRcodeTable (lit "REFUSED") = some 5 := by decide

/-! Non-vacuity: each form is accepted for some value (and the hypotheses of `c10` are satisfiable). -/


example : (loadDNSRewrite exampleExt (lit "NOERROR;MX;10 mail.example.net")).toOption =
    some { rrType := 15, value := .mx 10 (lit "mail.example.net") } := by decide
example : isReject (loadDNSRewrite exampleExt (lit "NOERROR;MX;65536 mail.example.net")) = true := by decide
example : isReject (loadDNSRewrite exampleExt (lit "NOERROR;AAAA;1.2.3.4")) = true := by decide
example : (loadDNSRewrite exampleExt (lit "::1")).toOption =
    some { rrType := 28, value := .addr { is4 := false, val := 1 } } := by decide
example : (loadDNSRewrite exampleExt (lit "NOERROR;PTR;host.example.net")).toOption =
    some { rrType := 12, value := .str (lit "host.example.net.") } := by decide
example : (loadDNSRewrite exampleExt (lit "REFUSED")).toOption = some { rcode := 5 } := by decide
example : (loadDNSRewrite exampleExt (lit "example.net")).toOption = some { newCNAME := lit "example.net" } := by decide
example : (loadDNSRewrite exampleExt (lit "NOERROR;HTTPS;1 . alpn=h3 alpn=h2")).toOption =
    some { rrType := 65, value := .svcb 1 (lit ".") (some [(lit "alpn", lit "h2")]) } := by decide
/-- The shape predicate is not trivially true. -/
example : shapeOK { rrType := 1, value := .addr { is4 := false, val := 1 } } = false := by decide
example : shapeOK { rrType := 15, value := .mx 65536 (lit "x") } = false := by decide

end UF.H

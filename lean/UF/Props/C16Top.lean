import UF.Compose3.CosTop
import UF.Compose3.CosText
import UF.Props.C06Top
/-
  C16 AT THE TOP LEVEL (integration group I3): the cosmetic option of `Engine.MatchRequest(…)` and the
  cosmetic result of `Engine.GetCosmeticResult(hostname, option)`, from RAW inputs (list bytes, URL strings).

  * `c16_top`: `MatchRequest(NewRequest(url, src, t)).GetCosmeticOption()` is the reference
    `specCosmeticOption` applied to the class and the NAMED modifiers of the winning (basic) rule, which is
    one of the lines of the lists that match the request (C01 + C06 + C16 composed).  `c16_spec_all` is C16
    with the hypothesis on the option mask removed (the modifiers are decoded from the rule).
  * `c16_top_mono*`: an exception with more modifiers only ever removes options; no result re-enables one;
    fewer options give fewer selectors.
  * `c16_top_cosmetic`: `GetCosmeticResult` = the reference selectors over the cosmetic rules parsed line by
    line, with the three flags decoded from the option (C15 from bytes + the flag decoding of engine.go).
  Property theorems only (helper lemmas live in UF/Compose3).
-/
namespace UF.C16
open UF UF.B UF.Storage UF.Compose UF.Compose3

/-- C16 for EVERY exception rule record, no hypothesis on its option mask: the option is the reference
    applied to the named modifiers the rule carries (`cosModsOf`: elemhide, generichide, jsinject, document =
    its five bits, urlblock, genericblock, content, extension, important). -/
theorem c16_spec_all (r : NetRule) (hw : r.whitelist = true) :
    getCosmeticOption (some r) = specCosmeticOption true (cosModsOf r) :=
  getCosmeticOption_eq_spec r hw

/-- The decoding is faithful: a rule whose option bits are exactly those of a list of named modifiers
    carries (at least) these modifiers, and both give the same reference option. -/
theorem c16_decode (r : NetRule) (mods : List CosMod) (hw : r.whitelist = true) (hbits : r.enabled = modsBits mods) :
    specCosmeticOption true (cosModsOf r) = specCosmeticOption true mods := by
  rw [← c16_spec_all r hw, c16 r mods hw hbits]

/-- C16 FROM RAW INPUTS: for all list contents, URL strings, source-URL strings and types, the cosmetic
    option of the result of `Engine.MatchRequest` is the reference option of its basic rule's class and
    modifiers — everything when there is no basic rule or it blocks. -/
theorem c16_top (io : IO) (px : E.ParseExt) (lists : List RList) (st : RuleStorage)
    (history history' : List (BitVec 64)) (url sourceURL : Bytes) (reqType : Nat) :
    getCosmeticOption (engineMatchRequest io px lists st history history' url sourceURL reqType).basicRule =
      specOptionOf (engineMatchRequest io px lists st history history' url sourceURL reqType).basicRule :=
  getCosmeticOption_eq_specOptionOf _

/-- … and that basic rule is a line of the lists that matches the request: an exception `b` that decides the
    option was parsed from some line, matches `NewRequest(url, src, t)`, and the option is
    "all minus what `b`'s modifiers disable". -/
theorem c16_top_winner (io : IO) (px : E.ParseExt) (lists : List RList) (hok : StorageOK lists)
    (st : RuleStorage) (hnew : newRuleStorage lists = some st) (history history' : List (BitVec 64))
    (url sourceURL : Bytes) (reqType : Nat)
    (hne : getCosmeticOption (engineMatchRequest io px lists st history history' url sourceURL reqType).basicRule ≠ cosAll) :
    ∃ b, (engineMatchRequest io px lists st history history' url sourceURL reqType).basicRule = some b ∧
      b.whitelist = true ∧
      b ∈ matchingLines px lists (requestOf px.ext url sourceURL reqType) ∧
      getCosmeticOption (some b) = specCosmeticOption true (cosModsOf b) := by
  cases hb : (engineMatchRequest io px lists st history history' url sourceURL reqType).basicRule with
  | none => rw [hb] at hne; exact absurd rfl hne
  | some b =>
    cases hw : b.whitelist with
    | false =>
      rw [hb] at hne
      exact absurd (c16_nonexception (some b) (fun r hr => by cases hr; exact hw)) hne
    | true =>
      exact ⟨b, rfl, hw, (C06.c06_top_winner io px lists hok st hnew history history' url sourceURL reqType b hb).1,
        c16_spec_all b hw⟩

/-- C16 FROM THE RULE TEXT (groups A + E composed): for every text `NewNetworkRule` accepts as an exception
    rule — whatever else it carries (`$domain`, content types, `$important`, `~extension`, …), any order, any
    repetitions — `GetCosmeticOption` is the reference `specCosmeticOption true` applied to the named modifiers
    WRITTEN in its options part (`textCosMods`: the comma-separated option names `elemhide`, `generichide`,
    `jsinject`, `document`, `urlblock`, `genericblock`, `content`, `extension`, `important`). -/
theorem c16_text (px : E.ParseExt) (t : Bytes) (id : Int) (r : NetRule)
    (h : E.parseNetRule px t id = .ok r) (hw : r.whitelist = true) :
    ∃ pat opts, E.parseRuleText t = .ok (pat, opts, true) ∧
      getCosmeticOption (some r) = specCosmeticOption true (textCosMods opts) :=
  getCosmeticOption_text h hw

/-- C16 FROM RAW INPUTS AND THE TEXT OF THE WINNER: whenever the result of `Engine.MatchRequest` restricts the
    cosmetic options, its basic rule `b` is an exception parsed from a line of the lists that matches the
    request, and the option is the reference applied to the modifiers written in `b`'s TEXT. -/
theorem c16_top_text (io : IO) (px : E.ParseExt) (lists : List RList) (hok : StorageOK lists)
    (st : RuleStorage) (hnew : newRuleStorage lists = some st) (history history' : List (BitVec 64))
    (url sourceURL : Bytes) (reqType : Nat) (b : NetRule)
    (hb : (engineMatchRequest io px lists st history history' url sourceURL reqType).basicRule = some b)
    (hw : b.whitelist = true) :
    b ∈ matchingLines px lists (requestOf px.ext url sourceURL reqType) ∧
    ∃ pat opts, E.parseRuleText b.text = .ok (pat, opts, true) ∧
      getCosmeticOption (engineMatchRequest io px lists st history history' url sourceURL reqType).basicRule =
        specCosmeticOption true (textCosMods opts) := by
  have hm := (C06.c06_top_winner io px lists hok st hnew history history' url sourceURL reqType b hb).1
  refine ⟨hm, ?_⟩
  rw [hb]
  exact getCosmeticOption_text (allNet_parse (List.mem_filter.1 hm).1) hw

/-- No result re-enables anything: the option is always a subset of `CosmeticOptionAll`. -/
theorem c16_top_sub_all (io : IO) (px : E.ParseExt) (lists : List RList) (st : RuleStorage)
    (history history' : List (BitVec 64)) (url sourceURL : Bytes) (reqType : Nat) :
    getCosmeticOption (engineMatchRequest io px lists st history history' url sourceURL reqType).basicRule &&& cosAll =
      getCosmeticOption (engineMatchRequest io px lists st history history' url sourceURL reqType).basicRule := by
  cases hb : (engineMatchRequest io px lists st history history' url sourceURL reqType).basicRule with
  | none => decide
  | some b =>
    cases hw : b.whitelist with
    | false => rw [c16_nonexception (some b) (fun r hr => by cases hr; exact hw)]; decide
    | true =>
      rw [c16_bits b hw]
      cases b.isEnabled Facts.OptionElemhide <;> cases b.isEnabled Facts.OptionGenerichide <;>
        cases b.isEnabled Facts.OptionJsinject <;> decide

/-- Monotonicity at the top level: take any two scenarios (lists, URLs, types) whose results are decided by
    exceptions `b`, `b'`; if `b'` carries every option bit of `b` (more modifiers), the second option is a
    subset of the first. -/
theorem c16_top_mono (io : IO) (px px' : E.ParseExt) (lists lists' : List RList) (st st' : RuleStorage)
    (h1 h2 h1' h2' : List (BitVec 64)) (url src url' src' : Bytes) (t t' : Nat) (b b' : NetRule)
    (hb : (engineMatchRequest io px lists st h1 h2 url src t).basicRule = some b)
    (hb' : (engineMatchRequest io px' lists' st' h1' h2' url' src' t').basicRule = some b')
    (hw : b.whitelist = true) (hw' : b'.whitelist = true)
    (hsub : ∀ opt, b.isEnabled opt = true → b'.isEnabled opt = true) :
    getCosmeticOption (engineMatchRequest io px' lists' st' h1' h2' url' src' t').basicRule &&&
        getCosmeticOption (engineMatchRequest io px lists st h1 h2 url src t).basicRule =
      getCosmeticOption (engineMatchRequest io px' lists' st' h1' h2' url' src' t').basicRule := by
  rw [hb, hb']
  exact c16_mono b b' hw hw' hsub

/-- `Engine.GetCosmeticResult(hostname, option)` FROM BYTES: generic and specific selector lists have exactly
    the members of the reference over the cosmetic rules parsed line by line, with
    (includeCSS, includeJS, includeGenericCSS) = the three bits of the option (C15 composed with the decoding). -/
theorem c16_top_cosmetic (px : E.ParseExt) (lists : List RList) (hostname : Bytes) (option : CosOpt) :
    (∀ c, c ∈ (engineCosmeticResult px lists hostname option).1 ↔ c ∈ (specCosmeticResult px lists hostname option).1) ∧
    (∀ c, c ∈ (engineCosmeticResult px lists hostname option).2 ↔ c ∈ (specCosmeticResult px lists hostname option).2) :=
  C15.c15_storage px lists hostname (decodeCosmeticFlags option).1 (decodeCosmeticFlags option).2.1
    (decodeCosmeticFlags option).2.2

/-- The whole chain `MatchRequest` → `GetCosmeticOption` → `GetCosmeticResult`: the flags handed to the
    cosmetic engine when an exception `b` decided are "not disabled by `b`" (C16), and the selectors are the
    reference ones for these flags (C15). -/
theorem c16_top_chain (io : IO) (px : E.ParseExt) (lists : List RList) (st : RuleStorage)
    (history history' : List (BitVec 64)) (url sourceURL : Bytes) (reqType : Nat) (hostname : Bytes) (b : NetRule)
    (hb : (engineMatchRequest io px lists st history history' url sourceURL reqType).basicRule = some b)
    (hw : b.whitelist = true) :
    ∀ c, (c ∈ (engineCosmeticResult px lists hostname
            (getCosmeticOption (engineMatchRequest io px lists st history history' url sourceURL reqType).basicRule)).1 ↔
          c ∈ (specCosmetic px.ext (cosRulesOf (specRules px lists)) hostname
            (!b.isEnabled Facts.OptionElemhide) (!b.isEnabled Facts.OptionJsinject)
            (!(b.isEnabled Facts.OptionElemhide || b.isEnabled Facts.OptionGenerichide))).1) ∧
         (c ∈ (engineCosmeticResult px lists hostname
            (getCosmeticOption (engineMatchRequest io px lists st history history' url sourceURL reqType).basicRule)).2 ↔
          c ∈ (specCosmetic px.ext (cosRulesOf (specRules px lists)) hostname
            (!b.isEnabled Facts.OptionElemhide) (!b.isEnabled Facts.OptionJsinject)
            (!(b.isEnabled Facts.OptionElemhide || b.isEnabled Facts.OptionGenerichide))).2) := by
  intro c
  have h := c16_top_cosmetic px lists hostname (getCosmeticOption (some b))
  rw [hb]
  unfold specCosmeticResult at h
  rw [c16_flags b hw] at h
  exact ⟨h.1 c, h.2 c⟩

/-- Fewer options, fewer selectors: if `option'` is bitwise contained in `option`, every selector
    `GetCosmeticResult` returns for `option'` it also returns for `option` (so an exception with more
    modifiers can only remove selectors from the page). -/
theorem c16_top_cosmetic_mono (px : E.ParseExt) (lists : List RList) (hostname : Bytes) (option option' : CosOpt)
    (h : option' &&& option = option') :
    (∀ c, c ∈ (engineCosmeticResult px lists hostname option').1 → c ∈ (engineCosmeticResult px lists hostname option).1) ∧
    (∀ c, c ∈ (engineCosmeticResult px lists hostname option').2 → c ∈ (engineCosmeticResult px lists hostname option).2) := by
  obtain ⟨a1, a2⟩ := c16_top_cosmetic px lists hostname option
  obtain ⟨b1, b2⟩ := c16_top_cosmetic px lists hostname option'
  obtain ⟨d1, _, d3⟩ := decode_mono option option' h
  obtain ⟨m1, m2⟩ := specCosmetic_mono px.ext (cosRulesOf (specRules px lists)) hostname
    (decodeCosmeticFlags option).1 (decodeCosmeticFlags option).2.1 (decodeCosmeticFlags option).2.2
    (decodeCosmeticFlags option').1 (decodeCosmeticFlags option').2.1 (decodeCosmeticFlags option').2.2 d1 d3
  exact ⟨fun c hc => (a1 c).2 (m1 c ((b1 c).1 hc)), fun c hc => (a2 c).2 (m2 c ((b2 c).1 hc))⟩

/-! ### Non-vacuity: an `$elemhide` exception for the page decides the option (only the JS bit is left), and
    the cosmetic result for that option is empty while the full option gives both selectors. -/

private def exPx : E.ParseExt :=
  { ext := { psl := fun _ => (lit "org", true), parseAddr := fun _ => none,
             parsePrefix := fun _ => none, pat := I2.modelPatD },
    loadDNSRewrite := fun _ => none, regexpShortcut := fun _ => [] }

private def exLists : List RList :=
  [⟨1, false, lit "@@||site.org^$elemhide\n##.ad\nsite.org##.banner\n@@||js.org^$jsinject,generichide\n", false⟩]

example :
    let m := engineMatchRequest ⟨4096, fun _ => 1⟩ exPx exLists ⟨exLists, []⟩ [] [] (lit "http://site.org/") [] 1
    m.basicRule.map (·.text) = some (lit "@@||site.org^$elemhide") ∧
    m.basicRule.map cosModsOf = some [.elemhide] ∧
    textCosMods (lit "elemhide") = [.elemhide] ∧ textCosMods (lit "domain=a.org|b.org,document,~extension") = [.document] ∧
    getCosmeticOption m.basicRule = cosJS ∧
    engineCosmeticResult exPx exLists (lit "site.org") (getCosmeticOption m.basicRule) = ([], []) ∧
    engineCosmeticResult exPx exLists (lit "site.org") cosAll = ([lit ".ad"], [lit ".banner"]) := by
  decide +kernel

example :
    let m := engineMatchRequest ⟨4096, fun _ => 1⟩ exPx exLists ⟨exLists, []⟩ [] [] (lit "http://js.org/") [] 1
    m.basicRule.map cosModsOf = some [.generichide, .jsinject] ∧
    engineCosmeticResult exPx exLists (lit "site.org") (getCosmeticOption m.basicRule) = ([], [lit ".banner"]) := by
  decide +kernel

end UF.C16

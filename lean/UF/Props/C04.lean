import UF.Spec.Match
import UF.Model.ParseOptions
import UF.Proofs.MergeSorted
import UF.Proofs.MatchDomain
import UF.Proofs.MatchSpec
import UF.Proofs.ParseWF
import UF.Proofs.Bits
import UF.Proofs.ParsePerm
import UF.Proofs.ParseBits
/-
  C04 — a rule matches iff its pattern and every modifier are satisfied; value order never matters.
  Property theorems only (helper lemmas live in UF/Proofs/Match*.lean, Merge*.lean, Parse*.lean).

  Model: `NetRule.matches` (UF/Model/Match.lean, the shape of `NetworkRule.Match`) and
  `parseNetRule` (UF/Model/ParseOptions.lean, the shape of `NewNetworkRule`).
  Reference: `specMatch` (UF/Spec/Match.lean), set-membership statements over the modifier values.
-/
namespace UF.C04
open UF Bytes

/-- The two-index merge over two sorted slices (`matchClientTagsSpecific`) finds a common element
    iff one exists.  Both lists must be sorted by `strings.Compare`: the request's tags are sorted
    by contract, the rule's by `loadCTags` (`c04_parser_sorts`). -/
theorem merge_iff_common (a b : List Bytes) (ha : SortedB a) (hb : SortedB b) :
    matchClientTagsSpecific a b = true ↔ ∃ t, t ∈ a ∧ t ∈ b := by
  rw [E.matchClientTagsSpecific_iff a b ha hb]
  simp [List.any_eq_true]

/-- Binary search over the sorted client names finds `x` iff it is listed. -/
theorem bsearch_iff_mem (xs : List Bytes) (x : Bytes) (h : SortedB xs) :
    bsearch xs.toArray x = true ↔ x ∈ xs := by
  rw [E.bsearch_iff xs x h]
  simp

/-- The double-`HasSuffix` test of `isDomainOrSubdomainOfAny` says: the host is `d` or ends with
    `"." ++ d`. -/
theorem domain_test_iff (host d : Bytes) :
    (host == d || (hasSuffix host d && hasSuffix host (ch '.' :: d))) = true ↔
      host = d ∨ ∃ x, host = x ++ ch '.' :: d := by
  rw [E.plain_domain_test_iff]
  simp [specPlainDomain, E.hasSuffix_iff]

/-- The wildcard test (`HasPrefix` / `Index > 0` pre-check, then the public-suffix comparison) says:
    the public suffix `s` of the host is non-empty and ICANN-managed and the host is `base.s` or ends
    with `.base.s` — label boundary included — for every host that does not begin with a dot. -/
theorem wildcard_test_iff (ext : Ext) (host base : Bytes) (h : host.head? ≠ some (ch '.')) :
    domainEntryMatches ext host (base ++ lit ".*") = true ↔
      (ext.psl host).1 ≠ [] ∧ (ext.psl host).2 = true ∧
      (host = base ++ ch '.' :: (ext.psl host).1 ∨
       ∃ x, host = x ++ ch '.' :: (base ++ ch '.' :: (ext.psl host).1)) := by
  rw [E.domainEntryMatches_eq_spec ext host _ h]
  have hs : hasSuffix (base ++ lit ".*") (lit ".*") = true := E.hasSuffix_append base (lit ".*")
  have hl : (base ++ lit ".*").length - 2 = base.length := by simp [lit]
  simp only [specDomainEntry, hs, if_true, hl, List.take_left', specWildcardDomain]
  simp [E.hasSuffix_iff, and_assoc]

/-- Content-type masks, for a request that is ONE content type (bit `k`): permitted when no type is
    listed or bit `k` is, and bit `k` is not restricted. -/
theorem reqtype_iff (r : NetRule) (k : Nat) :
    matchRequestType r (2 ^ k) = true ↔
      (r.permTypes = 0 ∨ r.permTypes.testBit k = true) ∧ r.restrTypes.testBit k = false := by
  rw [E.matchRequestType_eq_spec]
  have key : ∀ n : Nat, (n &&& 2 ^ k = 0) ↔ n.testBit k = false := by
    intro n
    have hb := and_two_pow_beq n k
    have hpos : 2 ^ k ≠ 0 := Nat.ne_of_gt (Nat.two_pow_pos k)
    rcases E.and_two_pow_cases n k with e | e
    · rw [e] at hb ⊢
      have : ((0 : Nat) == 2 ^ k) = false := by simp; omega
      rw [this] at hb
      simp [← hb]
    · rw [e] at hb ⊢
      simp at hb
      simp [hb]
  simp only [specReqType, Bool.and_eq_true, Bool.or_eq_true, beq_iff_eq, bne_iff_ne, ne_eq, key]
  simp

/-- `loadCTags` / `loadClients` sort what they parse: every parsed rule is well-formed. -/
theorem c04_parser_sorts (px : E.ParseExt) (t : Bytes) (id : Int) (r : NetRule)
    (h : E.parseNetRule px t id = .ok r) : r.WellFormed :=
  E.parseNetRule_wellFormed h

/-- C04 on rule records: for every well-formed rule (tags and client names sorted) and every request
    of the domain, `Match` is the reference. -/
theorem c04 (ext : Ext) (r : NetRule) (q : Request) (hwf : r.WellFormed) (hq : q.InDomain) :
    r.matches ext q = specMatch ext r q :=
  E.matches_eq_spec ext r q hwf hq

/-- C04 end to end from the rule TEXT: whatever `NewNetworkRule` accepts matches a request iff the
    reference computed from the parsed modifier values does. -/
theorem c04_text (px : E.ParseExt) (t : Bytes) (id : Int) (r : NetRule) (q : Request)
    (h : E.parseNetRule px t id = .ok r) (hq : q.InDomain) :
    r.matches px.ext q = specMatch px.ext r q :=
  E.matches_eq_spec px.ext r q (E.parseNetRule_wellFormed h) hq

/-- Value order never matters (1): `Match` reads the list-valued modifiers as sets. -/
theorem c04_perm (ext : Ext) (r r' : NetRule) (h : r.PermEquiv r') (q : Request) :
    r.matches ext q = r'.matches ext q :=
  E.matches_permEquiv ext h q

/-- Value order never matters (2): writing the values of every list-valued modifier in another
    order and then sorting as the parser does (`slices.Sort` for tags and client names,
    `SortFunc` for subnets) gives a rule that matches exactly the same requests. -/
theorem c04_perm_values (ext : Ext) (r : NetRule) (q : Request)
    {pd pd' rd rd' da da' pt pt' rt rt' ph ph' rh rh' : List Bytes} {pn pn' rn rn' : List Nat}
    {pnets pnets' rnets rnets' : List Prefix}
    (h1 : pd.Perm pd') (h2 : rd.Perm rd') (h3 : da.Perm da') (h4 : pn.Perm pn') (h5 : rn.Perm rn')
    (h6 : pt.Perm pt') (h7 : rt.Perm rt') (h8 : ph.Perm ph') (h9 : rh.Perm rh')
    (h10 : pnets.Perm pnets') (h11 : rnets.Perm rnets') :
    NetRule.matches ext
      { r with permDomains := pd, restrDomains := rd, denyallow := da, permDns := pn, restrDns := rn,
               permTags := sortB pt, restrTags := sortB rt,
               permClients := E.Clients.finalize (some { hosts := ph, nets := pnets }),
               restrClients := E.Clients.finalize (some { hosts := rh, nets := rnets }) } q =
    NetRule.matches ext
      { r with permDomains := pd', restrDomains := rd', denyallow := da', permDns := pn', restrDns := rn',
               permTags := sortB pt', restrTags := sortB rt',
               permClients := E.Clients.finalize (some { hosts := ph', nets := pnets' }),
               restrClients := E.Clients.finalize (some { hosts := rh', nets := rnets' }) } q := by
  apply E.matches_permEquiv
  exact {
    text := rfl, listID := rfl, whitelist := rfl, pattern := rfl, shortcut := rfl,
    permDomains := h1, restrDomains := h2, denyallow := h3, permDns := h4, restrDns := h5,
    permTags := E.sortB_eq_of_perm h6, restrTags := E.sortB_eq_of_perm h7,
    permClients := E.finalize_permEquiv ph ph' pnets pnets' h8 h10,
    restrClients := E.finalize_permEquiv rh rh' rnets rnets' h9 h11,
    enabled := rfl, disabled := rfl, permTypes := rfl, restrTypes := rfl }

/-- Value order never matters (3), at the level of the modifier's VALUE TEXT: writing the
    `|`-separated values of `$ctag` in another order gives the same parsed (sorted) lists, or the
    same error. -/
theorem c04_perm_text_ctag {l l' : List Bytes} (h : l.Perm l') (hne : l ≠ [])
    (hs : E.sepFree (ch '|') l) :
    E.loadCTags (joinSep l [ch '|']) = E.loadCTags (joinSep l' [ch '|']) :=
  E.loadCTags_perm h hne hs

/-- … of `$domain` / `$denyallow`: the parsed permitted / restricted lists are permutations of
    each other (or both texts are rejected); `c04_perm` then gives equal `Match`. -/
theorem c04_perm_text_domain {l l' : List Bytes} (h : l.Perm l') (hne : l ≠ [])
    (hs : E.sepFree (ch '|') l) :
    E.PE.Rel (fun a b => a.1.Perm b.1 ∧ a.2.Perm b.2)
      (E.loadDomains (joinSep l [ch '|']) (ch '|')) (E.loadDomains (joinSep l' [ch '|']) (ch '|')) :=
  E.loadDomains_perm h hne hs

/-- … of `$dnstype`. -/
theorem c04_perm_text_dnstype {l l' : List Bytes} (h : l.Perm l') (hne : l ≠ [])
    (hs : E.sepFree (ch '|') l) :
    E.PE.Rel (fun a b => a.1.Perm b.1 ∧ a.2.Perm b.2)
      (E.loadDNSTypes (joinSep l [ch '|'])) (E.loadDNSTypes (joinSep l' [ch '|'])) :=
  E.loadDNSTypes_perm h hne hs

/-- … of `$client`, on the values as `splitWithEscapeCharacter` delivers them: the finalized
    client sets have equal host lists and subnets that are permutations of each other. -/
theorem c04_perm_text_client (ext : Ext) {l l' : List Bytes} (h : l.Perm l') :
    E.PE.Rel (fun a b => Clients.PermEquiv (E.Clients.finalize a.1) (E.Clients.finalize b.1) ∧
                       Clients.PermEquiv (E.Clients.finalize a.2) (E.Clients.finalize b.2))
      (l.foldlM (E.loadClientsStep ext) (none, none)) (l'.foldlM (E.loadClientsStep ext) (none, none)) :=
  E.loadClients_items_perm ext h

/-- `$csp`, `$replace`, `$cookie`, `$redirect` are unreachable from rule text on this tree
    (`loadOption` has no case for them): no parsed rule has one of these bits (DESIGN.md §3). -/
theorem c04_unreachable_options (px : E.ParseExt) (t : Bytes) (id : Int) (r : NetRule)
    (h : E.parseNetRule px t id = .ok r) (opt : Nat)
    (ho : opt = Facts.OptionCsp ∨ opt = Facts.OptionReplace ∨ opt = Facts.OptionCookie ∨
          opt = Facts.OptionRedirect) :
    r.isEnabled opt = false ∧ r.isDisabled opt = false :=
  E.parseNetRule_no_advanced h opt ho

/-- Generated-fact obligation: every key of `dns.StringToType` is ASCII, which is what makes the
    `upperKey` model of `strings.ToUpper` + map lookup in `strToRRType` exact for non-ASCII input. -/
theorem dns_type_names_ascii : Facts.dnsStringToType.all (fun e => isAscii e.1) = true := by decide

/-! ### Non-vacuity -/

/-- A concrete oracle: the public suffix of both hosts below is `com`, ICANN-managed. -/
private def exExt : Ext :=
  { psl := fun _ => (lit "com", true), parseAddr := fun _ => none, parsePrefix := fun _ => none,
    pat := fun _ _ _ => true }

/-- The D3 boundary: `google.*` accepts `www.google.com` and rejects `google.notgoogle.com`. -/
example : specDomainEntry exExt (lit "www.google.com") (lit "google.*") = true := by decide
example : specDomainEntry exExt (lit "google.notgoogle.com") (lit "google.*") = false := by decide
example : domainEntryMatches exExt (lit "google.notgoogle.com") (lit "google.*") = false := by decide

/-- The request domain is inhabited by ordinary requests, and well-formed rules exist with
    non-trivial sorted values. -/
example : ({ reqType := 4, sortedTags := [lit "a", lit "b"], hostname := lit "x.com",
             sourceHostname := lit "www.google.com" } : Request).InDomain :=
  { oneType := ⟨2, rfl⟩, sorted := by decide, hostNoDot := by decide, srcNoDot := by decide }

example : ({ permTags := [lit "a", lit "b"], restrTags := [lit "c"],
             permClients := some { hosts := [lit "pc", lit "tv"], nets := [] } } : NetRule).WellFormed :=
  { permTags := by decide, restrTags := by decide,
    permHosts := by intro c h; cases h; decide,
    restrHosts := by intro c h; cases h }

/-- Without sortedness the merge is wrong, so the hypothesis of `merge_iff_common` is needed. -/
example : matchClientTagsSpecific [lit "b", lit "a"] [lit "a"] = false := by decide

end UF.C04

import UF.Compose2.Dispatch
import UF.Compose2.DomainNameChars
import UF.Props.C18
/-
  C18 on the COMPLETE model of `rules.NewRule` (integration group I2).

  Group H stated the dispatch of a hosts line against its own model of the tests `NewRule` applies
  first (`newRuleKind`, with `IsDomainName` as a parameter); group E modelled `NewRule` with
  `NewHostRule` as a parameter.  UF/Compose2/Dispatch.lean shows that the two models of `isComment` /
  `findCosmeticRuleMarker` are the same functions, so group H's statements hold of the complete model
  `newRuleFull` (group D's `TrimSpace`, group E's `IsDomainName`, group H's `NewHostRule`).
  Only property theorems and non-vacuity examples here.
-/
namespace UF.C18
open UF Bytes UF.I2 UF.H

/-- The dispatch of the complete model is group H's `newRuleKind` on the trimmed line. -/
theorem c18_kind_full (ext : Ext) (reShortcut : Bytes → Bytes) (line : Bytes) (id : Int) :
    newRuleFull ext reShortcut line id =
      kindResult ext reShortcut (trimSpace line) id (newRuleKind ext isDomainNameB (trimSpace line) id) :=
  newRuleFull_kind ext reShortcut line id

/-- The two groups' models of the comment and cosmetic-marker tests agree on every line. -/
theorem c18_tests_agree (line : Bytes) :
    E.isComment line = .ok (isCommentLine line) ∧
    E.findCosmeticRuleMarker line = .ok (findCosmeticRuleMarker line) :=
  ⟨isComment_eq line, findCosmeticRuleMarker_eq line⟩

/-- A list line whose trimmed text is `IP (sp|tab)+ name ((sp|tab)+ name)* ws* ['#' any]` (address and
    names without '$', the address not starting with '!') and whose comment does not begin with a
    cosmetic marker directly after a name yields, in the complete model of `NewRule`, the host rule with
    exactly the listed names and the parsed address (text = the trimmed line) -- whatever else the
    comment contains (`$$`, `$@$`, ` ##` …: the carve-out after the repair of D16). -/
theorem c18_dispatch_full (ext : Ext) (reShortcut : Bytes → Bytes) (line : Bytes)
    (ip : Bytes) (wn : List (Bytes × Bytes)) (trail cmt : Bytes) (a : Addr) (listID : Int)
    (htrim : trimSpace line = hostLineIP ip wn trail cmt)
    (hip : isHostToken ip = true) (hwn : goodPairs wn = true) (hne : wn ≠ [])
    (ht : allBlank trail = true) (hc : isCommentTail cmt = true)
    (ha : ext.parseAddr ip = some a)
    (hipd : isPlainToken ip = true) (hwnd : dollarFreePairs wn = true)
    (hout : commentIsMarker trail cmt = false) :
    newRuleFull ext reShortcut line listID =
      .ok (some (.host { text := hostLineIP ip wn trail cmt, listID := listID,
                         hostnames := wn.map (·.2), ip := a })) := by
  rw [newRuleFull_kind, htrim,
    c18_dispatch ext isDomainNameB ip wn trail cmt a listID hip hwn hne ht hc ha hipd hwnd hout]
  rfl

/-- The same for a bare domain name (`IsDomainName` is group E's state machine, no longer a
    parameter; it accepts only letters, digits, '.' and '-', so the name is a plain token:
    `isPlainToken_of_isDomainName`). -/
theorem c18_dispatch_bare_full (ext : Ext) (reShortcut : Bytes → Bytes) (line : Bytes)
    (name trail cmt : Bytes) (listID : Int)
    (htrim : trimSpace line = hostLineBare name trail cmt)
    (hn : isHostToken name = true) (hdn : E.isDomainNameC name = .ok true)
    (ht : allBlank trail = true) (hc : isCommentTail cmt = true)
    (hout : commentIsMarker trail cmt = false) :
    newRuleFull ext reShortcut line listID =
      .ok (some (.host { text := hostLineBare name trail cmt, listID := listID, hostnames := [name],
                         ip := { is4 := true, val := 0 } })) := by
  have hdn' : isDomainNameB name = true := by
    unfold isDomainNameB
    rw [hdn]
  rw [newRuleFull_kind, htrim,
    c18_dispatch_bare ext isDomainNameB name trail cmt listID hn hdn' ht hc
      (Compose.isPlainToken_of_isDomainName hdn) hout]
  rfl

/-- A host rule produced by the complete model answers a query iff the name is listed. -/
theorem c18_host_match_full (ext : Ext) (reShortcut : Bytes → Bytes) (line : Bytes) (id : Int)
    (h : HostRule) (_ : newRuleFull ext reShortcut line id = .ok (some (.host h))) (q : Bytes) :
    hostRuleMatches h q = true ↔ q ∈ h.hostnames :=
  host_match_iff h q

/-! ### Non-vacuity -/

private def exExt : Ext :=
  { psl := fun _ => ([], false),
    parseAddr := fun s => if s == lit "0.0.0.0" then some { is4 := true, val := 0 } else none,
    parsePrefix := fun _ => none, pat := fun _ _ _ => false }

/-- `  0.0.0.0 example.org  www.example.org # note\r\n`: the hypotheses hold and the model yields the
    two names. -/
example :
    let line := lit "  0.0.0.0 example.org  www.example.org # note\r\n"
    let ip := lit "0.0.0.0"
    let wn := [(lit " ", lit "example.org"), (lit "  ", lit "www.example.org")]
    trimSpace line = hostLineIP ip wn (lit " ") (lit "# note") ∧
    isHostToken ip = true ∧ goodPairs wn = true ∧ allBlank (lit " ") = true ∧ isCommentTail (lit "# note") = true ∧
    isPlainToken ip = true ∧ dollarFreePairs wn = true ∧
    commentIsMarker (lit " ") (lit "# note") = false := by decide

example : (match newRuleFull exExt (fun _ => []) (lit "  0.0.0.0 example.org  www.example.org # note\r\n") 3 with
    | .ok (some (.host h)) => some (h.hostnames, h.listID)
    | _ => none) = some ([lit "example.org", lit "www.example.org"], 3) := by decide

/-- The D16 replay through the complete model of `NewRule`: `0.0.0.0 example.org # costs$$5` is the
    host rule for `example.org` (before /repo d2e67f2 the line was rejected as a cosmetic rule). -/
example : (match newRuleFull exExt (fun _ => []) (lit "0.0.0.0 example.org # costs$$5\n") 3 with
    | .ok (some (.host h)) => some (h.hostnames, h.listID)
    | _ => none) = some ([lit "example.org"], 3) := by decide

end UF.C18

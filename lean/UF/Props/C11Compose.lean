import UF.Compose.Scan
import UF.Props.C11
import UF.Props.C12
/-
  C11 composed with the REAL parser model (integration group I1).

  Group D proved C11 for a parser PARAMETER under the assumption `TrimsFirst`.  Here the parameter is
  group E's model of `rules.NewRule` over group D's `strings.TrimSpace` and group H's `NewHostRule`
  (`Compose.realRx px`, `Compose.realParser px`); `TrimsFirst` is PROVED for it, so C11 holds for the
  modelled parser with no assumption left between the modelled parts.  The remaining parameters are the
  external oracles in `px` (`Ext`: public suffix list, `netip`, the pattern oracle; the `$dnsrewrite` value
  parser and `findRegexpShortcut`, modelled by groups H and A, are quantified over: every statement holds
  for ALL functions in their place).

  `storageRules px lists` is what the storage scanner yields from the BYTES of the lists (rule objects with
  their packed indexes); `retrieveFull` is `RuleStorage.RetrieveRule` (cache included) returning the rule
  object.  Lists may be String- or File-backed (`RList.file`), in any mixture.
  Property theorems only (helper lemmas live in UF/Compose).
-/
namespace UF.C11
open UF UF.Storage UF.Compose

/-- Group D's assumption about the parser holds for the modelled `NewRule`. -/
theorem c11_trimsFirst_real (px : E.ParseExt) : TrimsFirst (realParser px) := realParser_trimsFirst px

/-- Group D's scan with the real parser is the projection (kind, text, list id) of the scan that keeps the
    rule objects: the two groups' models describe the same scan. -/
theorem c11_scan_real (px : E.ParseExt) (lists : List RList) :
    storageScan (realParser px) lists = (storageRules px lists).map fun p => (toS p.1, p.2) :=
  storageScan_real px lists

/-- C11 with the real parser: every rule produced by scanning the real contents of the lists with the
    modelled `NewRule` is retrieved again — the same rule object: kind, text, list id and every parsed
    field — through the index reported with it, from String- and File-backed lists alike, for every
    chunking of the file reads, after ANY history of earlier retrievals (any reachable cache state). -/
theorem c11_real (io : IO) (px : E.ParseExt) (lists : List RList) (hok : ListsOK lists)
    (st : RuleStorage) (hnew : newRuleStorage lists = some st) (history : List (BitVec 64))
    (r : Rule) (k : BitVec 64) (h : (r, k) ∈ storageRules px lists) :
    (retrieveFull io px (reach io px st history) k).1 = some r := by
  have hs : (toS r, k) ∈ storageScan (realParser px) lists := by
    rw [storageScan_real]; exact List.mem_map.2 ⟨(r, k), h, rfl⟩
  have hr := c11_history io (realParser px) (realParser_trimsFirst px) lists hok st hnew history (toS r) k hs
  obtain ⟨_, _, _, line, _, hn, _, _⟩ := storageRules_line h
  unfold retrieveFull
  simp only
  unfold reach
  rw [hr]
  exact materialize_toS hn

/-- `c11_real` with group H's model of the `$dnsrewrite` value parser plugged in as well: the only parameters
    left are the external oracles `ext` (public suffix list, `netip`, pattern oracle) and `findRegexpShortcut`
    (group A's model works on the parsed regexp tree, not on bytes; it stays a parameter). -/
theorem c11_real_modelled (io : IO) (ext : Ext) (regexpShortcut : Bytes → Bytes) (lists : List RList)
    (hok : ListsOK lists) (st : RuleStorage) (hnew : newRuleStorage lists = some st) (history : List (BitVec 64))
    (r : Rule) (k : BitVec 64) (h : (r, k) ∈ storageRules (modelPx ext regexpShortcut) lists) :
    (retrieveFull io (modelPx ext regexpShortcut) (reach io (modelPx ext regexpShortcut) st history) k).1 = some r :=
  c11_real io (modelPx ext regexpShortcut) lists hok st hnew history r k h

/-- The same in group D's terms (kind, text, list id), any cache that is a cache of these lists. -/
theorem c11_real_srule (io : IO) (px : E.ParseExt) (st : RuleStorage) (hok : ListsOK st.lists)
    (hinv : CacheInv io (realParser px) st) (r : Rule) (k : BitVec 64) (h : (r, k) ∈ storageRules px st.lists) :
    (retrieveRule io (realParser px) st k).1 = .rule (toS r) :=
  c11 io (realParser px) (realParser_trimsFirst px) st hok hinv (toS r) k
    (by rw [storageScan_real]; exact List.mem_map.2 ⟨(r, k), h, rfl⟩)

/-- The cache is invisible: in every reachable state, retrieval of ANY index (scanned or garbage) returns
    what the lists themselves answer; so a pure function `retrieve` represents the stateful storage. -/
theorem c11_real_cache_invisible (io : IO) (px : E.ParseExt) (lists : List RList)
    (st : RuleStorage) (hnew : newRuleStorage lists = some st) (history : List (BitVec 64)) (k : BitVec 64) :
    (retrieveFull io px (reach io px st history) k).1 = lookupFull io px lists k := by
  obtain ⟨h1, h2⟩ := reach_inv io px lists st hnew history
  rw [retrieveFull_eq_lookup io px _ h1 k, h2]

/-- Every yielded rule is `NewRule(line, id)` of a line of its list, its text is the trimmed line, and the
    index is (list id, byte offset of the line). -/
theorem c11_real_lines (px : E.ParseExt) (lists : List RList) (r : Rule) (k : BitVec 64)
    (h : (r, k) ∈ storageRules px lists) :
    ∃ l ∈ lists, ∃ idx line, (idx, line) ∈ scanLines l.content ∧
      E.newRule (realRx px) line l.id = .ok (some r) ∧ r.text = trimSpace line ∧ r.listID = l.id ∧
      k = pack (BitVec.ofInt 32 l.id) (BitVec.ofNat 32 idx) := by
  obtain ⟨l, hl, idx, line, h1, h2, _, h4⟩ := storageRules_line h
  exact ⟨l, hl, idx, line, h1, h2, (realRx_text h2).1, (realRx_text h2).2, h4⟩

/-- The index identifies the rule. -/
theorem c11_real_index_inj (px : E.ParseExt) (lists : List RList) (hok : ListsOK lists)
    (r1 r2 : Rule) (k : BitVec 64) (h1 : (r1, k) ∈ storageRules px lists) (h2 : (r2, k) ∈ storageRules px lists) :
    r1 = r2 := by
  have hst : newRuleStorage lists = some ⟨lists, []⟩ := by
    unfold newRuleStorage; rw [hok.distinct]; rfl
  have a := c11_real ⟨0, fun _ => 0⟩ px lists hok _ hst [] r1 k h1
  have b := c11_real ⟨0, fun _ => 0⟩ px lists hok _ hst [] r2 k h2
  rw [a] at b
  exact Option.some.inj b

/-- The scan with the real parser equals parsing the contents line by line (group D's reference). -/
theorem c11_real_ref (px : E.ParseExt) (lists : List RList) :
    storageScan (realParser px) lists =
      (specStorageScan (realParser px) lists).map fun (r, id, off) =>
        (r, pack (BitVec.ofInt 32 id) (BitVec.ofNat 32 off)) :=
  c11_ref (realParser px) (realParser_trimsFirst px) lists

/-- String- and File-backed lists with the same contents yield the same rules. -/
theorem c11_real_backing (px : E.ParseExt) (lists : List RList) (flags flags' : RList → Bool) :
    storageRules px (lists.map fun l => { l with file := flags l }) =
      storageRules px (lists.map fun l => { l with file := flags' l }) := by
  unfold storageRules storageRulesX
  simp only [List.flatMap_map]
  rfl

/-- Group E's inertness of CRLF line endings assumed `trim (l ++ [13]) = trim l`; with group D's
    `TrimSpace` this holds (`trimSpace_crnl`/`trimSpace_nl` are the same lemma for the scanner's lines), so:
    switching a list to CRLF endings changes nothing in the sequence of accepted rules. -/
theorem c11_crlf_inert (px : E.ParseExt) (id : Int) (lines : List Bytes) :
    E.scanAccepted (realRx px) id (lines.map (· ++ [13])) = E.scanAccepted (realRx px) id lines :=
  C12.c12_inert_crlf (realRx px) id lines trimSpace_cr

/-- The three outcomes of a line for the real parser, with no assumption left. -/
theorem c11_real_outcomes (px : E.ParseExt) (line : Bytes) (id : Int) :
    E.newRule (realRx px) line id = .ok none ∨
    (∃ r, E.newRule (realRx px) line id = .ok (some r) ∧ r.text = trimSpace line ∧ r.listID = id) ∨
    E.newRule (realRx px) line id = .error .err :=
  C12.c12_outcomes (realRx px) line id (hostRuleH_keeps px.ext)

/-! ### Non-vacuity: a concrete storage (two lists, CRLF, a comment, a hosts line, a cosmetic rule, an
    invalid rule; one File-backed) scanned with the real parser model and the retrieval of one index. -/

private def exPx : E.ParseExt :=
  { ext := { psl := fun _ => ([], false), parseAddr := fun s => if s == lit "0.0.0.0" then some ⟨true, 0, []⟩ else none,
             parsePrefix := fun _ => none, pat := fun _ _ _ => true },
    loadDNSRewrite := fun _ => none, regexpShortcut := fun _ => [] }

private def exLists : List RList :=
  [⟨1, false, lit "||a.org^\r\n! c\n0.0.0.0 b.org\n", false⟩, ⟨-2, true, lit "##x\n||$$\n/ad$domain=c.org", true⟩]

example : ListsOK exLists := ⟨by decide, by decide, by decide⟩

example : (storageRules exPx exLists).map (fun p => (kindOf p.1, p.1.text, p.1.listID, p.2.toInt)) =
    [(.network, lit "||a.org^", 1, 4294967296), (.host, lit "0.0.0.0 b.org", 1, 4294967310),
     (.network, lit "/ad$domain=c.org", -2, -8589934583)] := by decide +kernel

end UF.C11

import UF.Model.NewRule
import UF.Proofs.ParseTotal
import UF.Proofs.ParseWF
/-
  C12 — parsing and matching never crash; comments and rejected lines are inert.
  Property theorems only (helper lemmas live in UF/Proofs/ParseTotal.lean, ParseWF.lean).

  In the model every Go slice / index expression is a checked operation whose failure is the value
  `.error .panic`; `c12_total_*` say that this value is never produced, for ALL byte strings and all
  oracles (`netip`, `loadDNSRewrite`, `findRegexpShortcut`, `TrimSpace`, `NewHostRule` are parameters:
  their own crash-freedom is group A/D/H's or is sampled by the `c12.crash` stream).
-/
namespace UF.C12
open UF Bytes

/-! ### Network-rule text -/

theorem c12_total_parseRuleText (t : Bytes) : E.parseRuleText t ≠ .error .panic :=
  E.parseRuleText_noPanic t

theorem c12_total_splitWithEscapeCharacter (str : Bytes) (sep esc : UInt8) (preserveAll : Bool) :
    E.splitWithEscapeCharacter str sep esc preserveAll ≠ .error .panic :=
  E.splitWithEscapeCharacter_noPanic str sep esc preserveAll

theorem c12_total_findShortcut (p : Bytes) : E.findShortcut p ≠ .error .panic :=
  E.findShortcut_noPanic p

/-- `loadDomains`, including the index expression `"xn--"[xn]` inside `IsDomainName`. -/
theorem c12_total_loadDomains (d : Bytes) (sep : UInt8) : E.loadDomains d sep ≠ .error .panic :=
  E.loadDomains_noPanic d sep

theorem c12_total_isDomainName (n : Bytes) : E.isDomainNameC n ≠ .error .panic :=
  E.isDomainNameC_noPanic n

theorem c12_total_loadDNSTypes (t : Bytes) : E.loadDNSTypes t ≠ .error .panic :=
  E.loadDNSTypes_noPanic t

theorem c12_total_loadCTags (v : Bytes) : E.loadCTags v ≠ .error .panic :=
  E.loadCTags_noPanic v

theorem c12_total_loadClients (ext : Ext) (v : Bytes) : E.loadClients ext v ≠ .error .panic :=
  E.loadClients_noPanic ext v

theorem c12_total_loadOptions (px : E.ParseExt) (r : NetRule) (options : Bytes) :
    E.loadOptions px r options ≠ .error .panic :=
  E.loadOptions_noPanic px r options

/-- `NewNetworkRule` never panics, for every text, list id and oracle. -/
theorem c12_total_parseNetRule (px : E.ParseExt) (t : Bytes) (id : Int) :
    E.parseNetRule px t id ≠ .error .panic :=
  E.parseNetRule_noPanic px t id

/-! ### Cosmetic markers, comments, `NewRule` -/

theorem c12_total_startsAtIndexWith (str : Bytes) (start : Nat) (sub : Bytes) :
    E.startsAtIndexWith str start sub ≠ .error .panic :=
  E.startsAtIndexWith_noPanic str start sub

theorem c12_total_findCosmeticRuleMarker (t : Bytes) : E.findCosmeticRuleMarker t ≠ .error .panic :=
  E.findCosmeticRuleMarker_noPanic t

theorem c12_total_isComment (l : Bytes) : E.isComment l ≠ .error .panic :=
  E.isComment_noPanic l

theorem c12_total_newCosmeticRule (trim : Bytes → Bytes) (t : Bytes) (id : Int) :
    E.newCosmeticRule trim t id ≠ .error .panic :=
  E.newCosmeticRule_noPanic trim t id

/-- `NewRule` never panics. -/
theorem c12_total_newRule (rx : E.RuleExt) (line : Bytes) (id : Int) :
    E.newRule rx line id ≠ .error .panic :=
  E.newRule_noPanic rx line id

/-! ### Matching: the two helpers of `Match` that slice / index -/

/-- `isDomainOrSubdomainOfAny` with `d[0:len(d)-1]` checked never fails and computes the function
    used by the model of `Match`. -/
theorem c12_total_isDomainOrSubdomainOfAny (ext : Ext) (domain : Bytes) (ds : List Bytes) :
    E.isDomainOrSubdomainOfAnyC ext domain ds = .ok (isDomainOrSubdomainOfAny ext domain ds) :=
  E.isDomainOrSubdomainOfAnyC_eq ext domain ds

/-- `shouldMatchHostname` with `pattern[0]`, `pattern[len-1]`, `pattern[i]` checked never fails and
    computes the function used by the model of `Match`. -/
theorem c12_total_shouldMatchHostname (r : NetRule) (q : Request) :
    E.shouldMatchHostnameC r q = .ok (shouldMatchHostname r q) :=
  E.shouldMatchHostnameC_eq r q

/-! ### What a line yields -/

/-- A line that yields a rule yields one whose text is the trimmed line and whose list id is the
    one given (`NewHostRule`, group H's, is assumed to keep text and id). -/
theorem c12_text (rx : E.RuleExt) (line : Bytes) (id : Int) (r : Rule)
    (hhost : ∀ t i h, rx.newHostRule t i = some h → h.text = t ∧ h.listID = i)
    (h : E.newRule rx line id = .ok (some r)) : r.text = rx.trim line ∧ r.listID = id :=
  E.newRule_text hhost h

/-- The three outcomes of the property: nothing, a rule (text = trimmed line, given id), or an error
    — never a crash. -/
theorem c12_outcomes (rx : E.RuleExt) (line : Bytes) (id : Int)
    (hhost : ∀ t i h, rx.newHostRule t i = some h → h.text = t ∧ h.listID = i) :
    E.newRule rx line id = .ok none ∨
    (∃ r, E.newRule rx line id = .ok (some r) ∧ r.text = rx.trim line ∧ r.listID = id) ∨
    E.newRule rx line id = .error .err := by
  cases h : E.newRule rx line id with
  | ok o =>
    cases o with
    | none => exact Or.inl rfl
    | some r => exact Or.inr (Or.inl ⟨r, rfl, E.newRule_text hhost h⟩)
  | error e =>
    cases e with
    | panic => exact absurd h (E.newRule_noPanic rx line id)
    | err => exact Or.inr (Or.inr rfl)

/-- A network rule produced by `NewNetworkRule` keeps its text and list id. -/
theorem c12_text_net (px : E.ParseExt) (t : Bytes) (id : Int) (r : NetRule)
    (h : E.parseNetRule px t id = .ok r) : r.text = t ∧ r.listID = id :=
  E.parseNetRule_text h

/-! ### Inert lines.  `RuleScanner.Scan` keeps exactly the lines for which `NewRule` returns a rule
    and no error; engines are built from the scanned rules only.  Hence every result of every
    engine is a function of `scanAccepted` (the sequence of accepted rules, each carrying its list
    id and text), and the statements below are the model-level content of "results(L) = results(L+N)". -/

/-- Deleting (equivalently: inserting) any set of lines that yield no rule — blank, comment or
    rejected — does not change the sequence of accepted rules. -/
theorem c12_inert_scan (rx : E.RuleExt) (id : Int) (lines : List Bytes) (keep : Bytes → Bool)
    (h : ∀ l ∈ lines, keep l = false → E.acceptedOf rx id l = none) :
    E.scanAccepted rx id (lines.filter keep) = E.scanAccepted rx id lines :=
  E.scanAccepted_filter rx id lines keep h

/-- Inserting one inert line at any position. -/
theorem c12_inert_insert (rx : E.RuleExt) (id : Int) (a b : List Bytes) (n : Bytes)
    (h : E.acceptedOf rx id n = none) :
    E.scanAccepted rx id (a ++ n :: b) = E.scanAccepted rx id (a ++ b) :=
  E.scanAccepted_insert rx id a b n h

/-- Switching to CRLF line endings (every line gets a trailing CR) changes nothing, given that
    `TrimSpace` (group D) removes a trailing CR. -/
theorem c12_inert_crlf (rx : E.RuleExt) (id : Int) (lines : List Bytes)
    (hcr : ∀ l, rx.trim (l ++ [13]) = rx.trim l) :
    E.scanAccepted rx id (lines.map (· ++ [13])) = E.scanAccepted rx id lines :=
  E.scanAccepted_crlf rx id lines hcr

/-- Any result computed from the accepted rules (engine construction + query, abstractly a function
    `results`) is unchanged by noise insertion and by CRLF endings.  NOTE: this is only a congruence of
    `filterMap` over an ARBITRARY `results` -- it mentions no engine.  The engine-level statements (from
    the bytes of the lists to `MatchAll`, the DNS result and the cosmetic selectors) are in
    Props/C12Engine.lean (`c12_engine_insert`, `c12_engine_crlf`), composed from `c01_storage`,
    `c02_storage`, `c15_storage`. -/
theorem c12_inert {α} (results : List Rule → α) (rx : E.RuleExt) (id : Int) (lines : List Bytes)
    (keep : Bytes → Bool) (h : ∀ l ∈ lines, keep l = false → E.acceptedOf rx id l = none)
    (hcr : ∀ l, rx.trim (l ++ [13]) = rx.trim l) :
    results (E.scanAccepted rx id (lines.filter keep)) = results (E.scanAccepted rx id lines) ∧
    results (E.scanAccepted rx id (lines.map (· ++ [13]))) = results (E.scanAccepted rx id lines) := by
  rw [E.scanAccepted_filter rx id lines keep h, E.scanAccepted_crlf rx id lines hcr]
  exact ⟨rfl, rfl⟩

/-- Blank lines and comments yield nothing. -/
theorem c12_blank (rx : E.RuleExt) (line : Bytes) (id : Int) (h : rx.trim line = []) :
    E.newRule rx line id = .ok none := by
  simp [E.newRule, h]
  rfl

/-! ### Non-vacuity -/

private def exRx : E.RuleExt :=
  { px := { ext := { psl := fun _ => ([], false), parseAddr := fun _ => none,
                     parsePrefix := fun _ => none, pat := fun _ _ _ => true },
            loadDNSRewrite := fun _ => none, regexpShortcut := fun _ => [] },
    trim := id, newHostRule := fun _ _ => none }

/-- A comment, a rejected line and an accepted line. -/
example : E.acceptedOf exRx 1 (lit "! comment") = none := by decide
example : (match E.newRule exRx (lit "||a.com^$unknown") 1 with | .error .err => true | _ => false) = true := by decide
example : (E.acceptedOf exRx 7 (lit "||a.com^$ctag=b|a")).map (fun r => (r.text, r.listID)) =
    some (lit "||a.com^$ctag=b|a", 7) := by decide
/-- The D2 shape (a one-byte pattern with a `$domain`) parses without a crash. -/
example : (E.parseNetRule exRx.px (lit "a$domain=a.com") 1).toOption.map (·.pattern) = some (lit "a") := by
  decide

end UF.C12

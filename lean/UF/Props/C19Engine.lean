import UF.Compose4.EnvOfStorage
import UF.Props.C19
/-
  C19 ON THE ENGINE MODELS (integration group J): the fault theorems of Props/C19.lean with the environment
  instantiated by the engine built from the bytes of the lists (see Props/C13Engine.lean).  `close l` makes
  every later read of list `l` fail; the nil checks of the three tables are branches of the machine.
-/
namespace UF.C19
open UF UF.B UF.Prog UF.Storage UF.Compose UF.Compose4

/-- For ANY engine model and EVERY schedule with `close` events: no crash; the network rules a finished query
    returns are among those the engine model returns fault-free; the host rules are among those the hosts table
    holds for the name (`matchLookupTable`). -/
theorem c19_engine_generic {Re : Type} (hf : HashFns) (k : Nat) (truth : Int → Option Rule) (listOf : Int → Int)
    (etld1 : Bytes → Bytes) (ext : Ext) (pm : PatModel Re) (basic : List NetRule → Option NetRule) (d : DnsEngine)
    (hpat : ext.pat = pm.pat) (s : State Rule Re) (hs : SInv (envOf hf k truth listOf etld1 ext pm basic d) s)
    (qs : List Query) (sched : List Ev) :
    ∀ t ∈ (Config.run (envOf hf k truth listOf etld1 ext pm basic d) ⟨s, qs.map Thread.init⟩ sched).threads,
      t.pc ≠ .crash ∧
      (t.pc = .done →
        (∀ r ∈ t.answer.1, r ∈ (engineAnswer hf k truth etld1 ext basic d t.q).1) ∧
        (∀ r ∈ t.answer.2, r ∈ (d.matchLookupTable hf truth
            ((envOf hf k truth listOf etld1 ext pm basic d).reqOf t.q).hostname).map Rule.host)) := by
  intro t ht
  refine ⟨c19_nopanic _ s qs sched hs t ht, fun hd => ?_⟩
  obtain ⟨h1, h2⟩ := c19_subset _ s qs sched hs t ht hd
  rw [pureAnswer_eq hf k truth listOf etld1 ext pm basic d hpat] at h1
  rw [pureHosts_eq hf k truth listOf etld1 ext pm basic d] at h2
  exact ⟨h1, h2⟩

/-- C19 FOR THE DNS ENGINE BUILT FROM THE BYTES OF THE LISTS, any number of concurrent queries, every schedule,
    `close` events at arbitrary points: no crash; every returned network rule is in the fault-free answer of the
    engine model (retrieving through group D's storage, any reachable cache state); every returned host rule is
    one `matchLookupTable` yields for the name. -/
theorem c19_engine {Re : Type} (io : IO) (px : E.ParseExt) (lists : List RList) (pm : PatModel Re)
    (hpat : px.ext.pat = pm.pat) (st : RuleStorage) (hnew : newRuleStorage lists = some st)
    (history : List (BitVec 64)) (qs : List Query) (sched : List Ev) :
    ∀ t ∈ (Config.run (envDns io px lists pm) ⟨{}, qs.map Thread.init⟩ sched).threads,
      t.pc ≠ .crash ∧
      (t.pc = .done →
        (∀ r ∈ t.answer.1, r ∈ (dnsAnswer io px lists st history t.q).1) ∧
        (∀ r ∈ t.answer.2, r ∈ ((DnsEngine.build djb2 Facts.shortcutLength (storageRulesI px lists)).matchLookupTable djb2
            (retrieveAt io px (reach io px st history)) ((envDns io px lists pm).reqOf t.q).hostname).map Rule.host)) := by
  intro t ht
  refine ⟨c19_nopanic _ {} qs sched (sinv_init _) t ht, fun hd => ?_⟩
  obtain ⟨h1, h2⟩ := c19_subset _ {} qs sched (sinv_init _) t ht hd
  rw [pureAnswer_envDns io px lists pm hpat st hnew history] at h1
  unfold envDns at h2
  rw [pureHosts_eq] at h2
  rw [retrieveAt_reach io px lists st hnew history]
  exact ⟨h1, h2⟩

/-- Sequential form on the network engine of the lists: every history of `MatchAll` queries and `close`
    events finishes every query, and answer i is contained in the fault-free `Engine.matchAll` answer. -/
theorem c19_engine_history {Re : Type} (io : IO) (px : E.ParseExt) (lists : List RList) (pm : PatModel Re)
    (hpat : px.ext.pat = pm.pat) (st : RuleStorage) (hnew : newRuleStorage lists = some st)
    (history : List (BitVec 64)) (h : List HEv) :
    (∀ t ∈ (runHistoryT (envNet io px lists pm) {} h).2, t.pc = .done) ∧
    (runHistory (envNet io px lists pm) {} h).2.length = (queriesOf h).length ∧
    ∀ p ∈ (runHistory (envNet io px lists pm) {} h).2.zip (queriesOf h),
      ∀ r ∈ p.1.1, r ∈ (netAnswer io px lists st history p.2).1 := by
  refine ⟨c19_nopanic_history _ h {} (sinv_init _), (c19_subset_history _ h {} (sinv_init _)).1, ?_⟩
  intro p hp r hr
  have := ((c19_subset_history _ h {} (sinv_init _)).2 p hp).1 r hr
  rw [pureAnswer_envNet io px lists pm hpat st hnew history] at this
  exact this

/-- Rules already materialised continue to be served, on the engine: if the cache holds the network rule `n` at
    index `idx`, `idx` is in the shortcuts-table bucket of some window of the URL (or in the domains-table bucket
    of some suffix of the source hostname), and `n` matches the request (`NetworkRule.Match` of groups B/E),
    then `n` is in the answer of the query -- whatever lists are closed, whatever the lazy-compile cells hold. -/
theorem c19_engine_cached {Re : Type} (io : IO) (px : E.ParseExt) (lists : List RList) (pm : PatModel Re)
    (hpat : px.ext.pat = pm.pat) (s : State Rule Re) (hs : SInv (envNet io px lists pm) s)
    (q : Request) (idx : Int) (n : NetRule) (hin : (idx, Rule.net n) ∈ s.cache)
    (hcand : idx ∈ scCands djb2 Facts.shortcutLength (Engine.build djb2 Facts.shortcutLength (storageNetRules px lists)).sc q.urlLower ∨
             idx ∈ domCands djb2 (Engine.build djb2 Facts.shortcutLength (storageNetRules px lists)).dom q.sourceHostname)
    (hm : n.matches px.ext q = true) :
    Rule.net n ∈ (runQuery (envNet io px lists pm) s (.web q)).2.answer.1 := by
  have hm' : (envNet io px lists pm).mtch (.net n) ((envNet io px lists pm).reqOf (.web q)) = true := by
    unfold envNet; rw [envOf_mtch_net _ _ _ _ _ _ _ _ _ hpat]; exact hm
  rcases hcand with hc | hc
  · exact c19_cached _ s (.web q) true idx (.net n) hs rfl hin
      (List.mem_append_left _ (List.mem_map.2 ⟨idx, hc, rfl⟩)) rfl hm'
  · exact c19_cached _ s (.web q) false idx (.net n) hs rfl hin
      (List.mem_append_right _ (List.mem_map.2 ⟨idx, hc, rfl⟩)) rfl hm'

/-- …and for the hosts table of the DNS engine of the lists: a cached host rule `hr` whose index is in the bucket
    of the queried name and which names it (`HostRule.Match`) is returned whenever the network rules of the
    (possibly degraded) answer contain no basic rule (`GetDNSBasicRule` of group C) -- whatever lists are closed. -/
theorem c19_engine_cached_host {Re : Type} (io : IO) (px : E.ParseExt) (lists : List RList) (pm : PatModel Re)
    (s : State Rule Re) (hs : SInv (envDns io px lists pm) s) (d : DReq) (hq : d.hostname.isEmpty = false)
    (idx : Int) (hr : HostRule) (hin : (idx, Rule.host hr) ∈ s.cache)
    (hcand : idx ∈ hget [] (DnsEngine.build djb2 Facts.shortcutLength (storageRulesI px lists)).hosts (djb2.h d.hostname))
    (hm : hostRuleMatches hr d.hostname = true)
    (hb : getDNSBasicRule (netRulesOf (runQuery (envDns io px lists pm) s (.dns d)).2.answer.1) = none) :
    Rule.host hr ∈ (runQuery (envDns io px lists pm) s (.dns d)).2.answer.2 := by
  have hname : ((envDns io px lists pm).reqOf (.dns d)).hostname = d.hostname := by
    simp only [Env.reqOf, fillFromPool, fillRequestForHostname]; split <;> rfl
  refine c19_cached_host _ s d idx (.host hr) hs hq hin ?_ rfl ?_ ?_
  · show idx ∈ hget [] _ (djb2.h ((envDns io px lists pm).reqOf (.dns d)).hostname)
    rw [hname]; exact hcand
  · show hostRuleMatches hr ((envDns io px lists pm).reqOf (.dns d)).hostname = true
    rw [hname]; exact hm
  · show (getDNSBasicRule (netRulesOf _)).isSome = false
    rw [hb]; rfl

end UF.C19

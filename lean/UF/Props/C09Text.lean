import UF.Compose5.C09Text
import UF.Props.C09
import UF.Props.C10Full
/-
  C09 — the relation "exception e disables rewrite r" FROM THE PROPERTY TEXT (integration group L,
  review finding 9).  `UF.disables` (UF/Spec/DnsRewrite.lean) repeats the if/else nesting of the
  code's `matchException`; here the relation is a plain disjunction of the clauses of the text
  (UF/Compose5/C09Text.lean: `emptyValue`, `sameNewCNAME`, `sameResponse`, `importanceOK`), in three
  readings of the text's "same new CNAME, OR same response code and …":

    reading            second disjunct guarded by        equals `disables` (= the code, by `c09`)
    ----------------   -------------------------------   ---------------------------------------------
    disablesText       exception has no new CNAME        for ALL records, no hypothesis
                                                         (`c09_disablesText_eq`, `c09_text`)
    disablesTextKind   neither side has a new CNAME      iff-needed hypothesis: the REWRITE's value has
                                                         the C10 shape "new CNAME ⇒ rcode = 0 ∧ rrType = 0
                                                         ∧ value = nil" (`c09_disablesTextKind_eq`,
                                                         `c09_text_kind`, `c09_text_parsed`); nothing is
                                                         needed of the exception's value; without the
                                                         hypothesis it is false (example below)
    disablesTextNaive  nothing (the literal "or")        NOT equal, not even on parsed (C10-shaped) rules:
                                                         `@@||e^$dnsrewrite=x.net` would disable
                                                         `||e^$dnsrewrite=NOERROR` and `||e^$dnsrewrite=y.net`
                                                         (`c09_naive_edge`, `c09_naive_differs_iff`,
                                                         `c09_naive_differs_iff_shaped`, `c09_text_naive_refuted`);
                                                         equal only when no exception names a new CNAME
                                                         (`c09_naive_eq_of_noCNAME`, `c09_text_naive`)

  Only property theorems and non-vacuity examples here.
-/
namespace UF.C09
open UF UF.L

/-! ### the relation, clause by clause -/

/-- `disablesText`, every clause spelled out as a proposition about the two records: both rules
    carry a `$dnsrewrite`; a non-important exception never disables an important rewrite; and the
    exception's value is empty, or names the rewrite's new CNAME, or (naming no CNAME) has the same
    response code and, for successful responses, the same record type and value. -/
theorem c09_disablesText_iff (e r : NetRule) :
    disablesText e r = true ↔
      ∃ ew rw, e.rewrite = some ew ∧ r.rewrite = some rw ∧
        (e.important = true ∨ r.important = false) ∧
        (ew = {} ∨
         (ew.newCNAME ≠ [] ∧ rw.newCNAME = ew.newCNAME) ∨
         (ew.newCNAME = [] ∧ rw.rcode = ew.rcode ∧
            (ew.rcode ≠ 0 ∨ (rw.rrType = ew.rrType ∧ rw.value = ew.value)))) := by
  have hempty : ∀ ew : DnsRewrite, emptyValue ew = true ↔ ew = {} := by
    intro ew; rw [emptyValue_eq]; exact beq_iff_eq
  cases he : e.rewrite with
  | none => simp [disablesText, he]
  | some ew =>
    cases hr : r.rewrite with
    | none => simp [disablesText, he, hr]
    | some rw =>
      simp only [disablesText, he, hr, importanceOK, sameNewCNAME, hasNewCNAME, sameResponse,
        Bool.and_eq_true, Bool.or_eq_true, hempty, Bool.not_eq_true', bne_iff_ne, beq_iff_eq,
        bne_eq_false_iff_eq, Option.some.injEq, exists_and_left, exists_eq_left', or_assoc]

/-- READING 1 (`disablesText`) is the reference relation of `c09`, for all records: no shape
    hypothesis is needed for this reading. -/
theorem c09_disablesText_eq (e r : NetRule) : disablesText e r = disables e r :=
  disablesText_eq_disables e r

/-- READING 2 (`disablesTextKind`: CNAME rewrites are compared with CNAME exceptions, responses with
    responses) is the reference relation when the REWRITE's value is C10-shaped; exactly the clause
    "a new CNAME stands alone" of `shapeOK` is used, and nothing about the exception's value. -/
theorem c09_disablesTextKind_eq (e r : NetRule)
    (hr : ∀ rw, r.rewrite = some rw → rw.newCNAME ≠ [] →
      rw.rcode = 0 ∧ rw.rrType = 0 ∧ rw.value = RRVal.none) :
    disablesTextKind e r = disables e r := by
  apply disablesTextKind_eq_disables
  intro rw hrw
  unfold cnameAlone
  by_cases hc : rw.newCNAME = []
  · simp [hc]
  · obtain ⟨h1, h2, h3⟩ := hr rw hrw hc
    simp [h1, h2, h3]

/-- The same with the hypothesis in the form C10 delivers it. -/
theorem c09_disablesTextKind_eq_shaped (e r : NetRule)
    (hr : ∀ rw, r.rewrite = some rw → H.shapeOK rw = true) : disablesTextKind e r = disables e r :=
  disablesTextKind_eq_disables e r (fun rw h => cnameAlone_of_shapeOK rw (hr rw h))

/-- READING 3 (the literal "or") only ever disables MORE than the code does … -/
theorem c09_naive_weaker (e r : NetRule) (h : disables e r = true) : disablesTextNaive e r = true :=
  disablesTextNaive_of_disables e r h

/-- … and differs from it EXACTLY on the pairs where the importance guard holds, the exception names
    a new CNAME, the rewrite has a different one (or none), and the "same response" clause holds. -/
theorem c09_naive_differs_iff (e r : NetRule) :
    disablesTextNaive e r ≠ disables e r ↔
      ∃ ew rw, e.rewrite = some ew ∧ r.rewrite = some rw ∧
        (e.important = true ∨ r.important = false) ∧
        ew.newCNAME ≠ [] ∧ rw.newCNAME ≠ ew.newCNAME ∧
        rw.rcode = ew.rcode ∧ (ew.rcode ≠ 0 ∨ (rw.rrType = ew.rrType ∧ rw.value = ew.value)) := by
  rw [disablesTextNaive_ne_iff]
  simp only [importanceOK, sameResponse, Bool.and_eq_true, Bool.or_eq_true, Bool.not_eq_true',
    bne_iff_ne, beq_iff_eq]

/-- On C10-shaped values (what the parser produces) the difference is: a CNAME exception against a
    rewrite to ANOTHER CNAME or against the bare `NOERROR` rewrite (the empty value).  The naive
    reading says "disabled" (rcode 0, type 0, value nil on both sides); the code says "kept". -/
theorem c09_naive_differs_iff_shaped (e r : NetRule)
    (he : ∀ ew, e.rewrite = some ew → H.shapeOK ew = true)
    (hr : ∀ rw, r.rewrite = some rw → H.shapeOK rw = true) :
    disablesTextNaive e r ≠ disables e r ↔
      ∃ ew rw, e.rewrite = some ew ∧ r.rewrite = some rw ∧
        (e.important = true ∨ r.important = false) ∧
        ew.newCNAME ≠ [] ∧ rw.newCNAME ≠ ew.newCNAME ∧ (rw.newCNAME ≠ [] ∨ rw = {}) := by
  rw [disablesTextNaive_ne_iff]
  constructor
  · rintro ⟨ew, rw, h1, h2, hi, hc, hs, hsr⟩
    refine ⟨ew, rw, h1, h2, by simpa [importanceOK] using hi, hc, hs, ?_⟩
    rw [sameResponse_of_cnameAlone ew rw hc (cnameAlone_of_shapeOK ew (he ew h1))] at hsr
    simp only [Bool.and_eq_true, beq_iff_eq] at hsr
    exact (bareNoerror_iff rw (cnameAlone_of_shapeOK rw (hr rw h2))).mp ⟨hsr.1.1, hsr.1.2, hsr.2⟩
  · rintro ⟨ew, rw, h1, h2, hi, hc, hs, hb⟩
    refine ⟨ew, rw, h1, h2, by simpa [importanceOK] using hi, hc, hs, ?_⟩
    rw [sameResponse_of_cnameAlone ew rw hc (cnameAlone_of_shapeOK ew (he ew h1))]
    obtain ⟨h3, h4, h5⟩ := (bareNoerror_iff rw (cnameAlone_of_shapeOK rw (hr rw h2))).mpr hb
    simp [h3, h4, h5]

/-- The naive reading is the code's relation for exceptions that name no new CNAME. -/
theorem c09_naive_eq_of_noCNAME (e r : NetRule)
    (h : ∀ ew, e.rewrite = some ew → ew.newCNAME = []) : disablesTextNaive e r = disables e r :=
  disablesTextNaive_eq_of_noCNAME e r h

/-- THE EDGE CASE of the review, both readings evaluated on the records of
    `@@||e^$dnsrewrite=x.net` against `||e^$dnsrewrite=NOERROR`, `||e^$dnsrewrite=y.net`,
    `||e^$dnsrewrite=x.net` and `||e^$dnsrewrite=1.2.3.4`: -/
theorem c09_naive_edge :
    -- bare NOERROR: kept by the code and by readings 1 and 2, disabled by the naive reading
    (disables xExcX xNoerror = false ∧ disablesText xExcX xNoerror = false ∧
      disablesTextKind xExcX xNoerror = false ∧ disablesTextNaive xExcX xNoerror = true) ∧
    -- another CNAME: the same
    (disables xExcX xCnameY = false ∧ disablesText xExcX xCnameY = false ∧
      disablesTextKind xExcX xCnameY = false ∧ disablesTextNaive xExcX xCnameY = true) ∧
    -- the same CNAME: disabled in every reading
    (disables xExcX xCnameX = true ∧ disablesText xExcX xCnameX = true ∧
      disablesTextKind xExcX xCnameX = true ∧ disablesTextNaive xExcX xCnameX = true) ∧
    -- an A record: kept in every reading
    (disables xExcX xA = false ∧ disablesText xExcX xA = false ∧
      disablesTextKind xExcX xA = false ∧ disablesTextNaive xExcX xA = false) := by decide

/-! ### the effective rewrites -/

/-- `DNSRewrites()` = the TEXT-level reference filter of `DNSRewritesAll()`, as sequences, for every
    list of matched network rules.  No shape hypothesis: reading 1 needs none. -/
theorem c09_text (res : List NetRule) :
    dnsRewrites res = some (specRewritesText (dnsRewritesAll res)) := by
  rw [specRewritesText_eq_with]
  exact dnsRewrites_eq_with disablesText res (fun e _ r _ _ _ => disablesText_eq_disables e r)

/-- Without `$badfilter` rules: the plain filter with the text-level relation. -/
theorem c09_text_nobadfilter (res : List NetRule) (h : ∀ r ∈ res, r.badfilter = false) :
    dnsRewrites res = some ((dnsRewritesAll res).filter (fun r =>
      !r.whitelist && !(dnsRewritesAll res).any (fun e => e.whitelist && disablesText e r))) := by
  rw [c09_text, specRewritesText, specRemoveBad_of_no_badfilter]
  intro r hr
  rw [c09_all] at hr
  exact h r (List.mem_filter.mp hr).1

/-- Reading 2 for lists whose non-exception rewrite values have the shape "a new CNAME stands
    alone" (nothing is asked of the exceptions). -/
theorem c09_text_kind (res : List NetRule)
    (h : ∀ r ∈ res, r.whitelist = false → ∀ rw, r.rewrite = some rw → rw.newCNAME ≠ [] →
      rw.rcode = 0 ∧ rw.rrType = 0 ∧ rw.value = RRVal.none) :
    dnsRewrites res = some (specRewritesTextKind (dnsRewritesAll res)) :=
  dnsRewrites_eq_with disablesTextKind res
    (fun e _ r hr _ hrw => c09_disablesTextKind_eq e r (h r hr hrw))

/-- Reading 2 under the C10 shape of all values. -/
theorem c09_text_kind_shaped (res : List NetRule)
    (h : ∀ r ∈ res, ∀ rw, r.rewrite = some rw → H.shapeOK rw = true) :
    dnsRewrites res = some (specRewritesTextKind (dnsRewritesAll res)) :=
  dnsRewrites_eq_with disablesTextKind res
    (fun e _ r hr _ _ => c09_disablesTextKind_eq_shaped e r (h r hr))

/-- The naive reading is right for lists in which no exception names a new CNAME — the only natural
    hypothesis under which it is: a shape hypothesis cannot help, see `c09_text_naive_refuted`. -/
theorem c09_text_naive (res : List NetRule)
    (h : ∀ e ∈ res, e.whitelist = true → ∀ ew, e.rewrite = some ew → ew.newCNAME = []) :
    dnsRewrites res = some (specRewritesTextNaive (dnsRewritesAll res)) :=
  dnsRewrites_eq_with disablesTextNaive res
    (fun e he r _ hew _ => c09_naive_eq_of_noCNAME e r (h e he hew))

/-- The naive reading is refuted on C10-shaped values: for `[||e^$dnsrewrite=NOERROR,
    @@||e^$dnsrewrite=x.net]` the code keeps the rewrite, the naive reference drops it.  (The harness
    checks the same on the real code: `assert l.c09naive`.) -/
theorem c09_text_naive_refuted :
    ∃ res : List NetRule, (∀ r ∈ res, ∀ rw, r.rewrite = some rw → H.shapeOK rw = true) ∧
      dnsRewrites res = some [xNoerror] ∧ specRewritesTextNaive (dnsRewritesAll res) = [] :=
  ⟨[xNoerror, xExcX], by decide, by decide, by decide⟩

/-- FROM RULE TEXT: for rules produced by the complete model of `rules.NewNetworkRule` (group E's
    parser with group H's `$dnsrewrite` parser plugged in) the shape hypothesis is discharged by C10
    (`c10_full`), so `DNSRewrites()` is the reference filter in BOTH sound readings of the text, for
    every list of rule texts, every `netip` oracle and every regexp-shortcut oracle. -/
theorem c09_text_parsed (ext : Ext) (reShortcut : Bytes → Bytes) (res : List NetRule)
    (h : ∀ r ∈ res, ∃ t id, I2.parseNetRuleFull ext reShortcut t id = .ok r) :
    dnsRewrites res = some (specRewritesText (dnsRewritesAll res)) ∧
    dnsRewrites res = some (specRewritesTextKind (dnsRewritesAll res)) := by
  refine ⟨c09_text res, c09_text_kind_shaped res ?_⟩
  intro r hr rw hrw
  obtain ⟨t, id, hp⟩ := h r hr
  exact C10.c10_full ext reShortcut t id r rw hp hrw

/-- On parsed rules the naive reading differs from the code exactly on a CNAME exception against
    another CNAME rewrite or the bare `NOERROR` rewrite. -/
theorem c09_naive_differs_iff_parsed (ext : Ext) (reShortcut : Bytes → Bytes) (e r : NetRule)
    (te tr : Bytes) (ie ir : Int)
    (he : I2.parseNetRuleFull ext reShortcut te ie = .ok e)
    (hr : I2.parseNetRuleFull ext reShortcut tr ir = .ok r) :
    disablesTextNaive e r ≠ disables e r ↔
      ∃ ew rw, e.rewrite = some ew ∧ r.rewrite = some rw ∧
        (e.important = true ∨ r.important = false) ∧
        ew.newCNAME ≠ [] ∧ rw.newCNAME ≠ ew.newCNAME ∧ (rw.newCNAME ≠ [] ∨ rw = {}) :=
  c09_naive_differs_iff_shaped e r
    (fun ew h => C10.c10_full ext reShortcut te ie e ew he h)
    (fun rw h => C10.c10_full ext reShortcut tr ir r rw hr h)

/-! ### non-vacuity -/

/-- The hypotheses of the shaped theorems are satisfiable (all example rules but `xIllShaped`). -/
example : ∀ r ∈ [xNoerror, xExcX, xCnameX, xCnameY, xA, xNx, xExcNx, xExcA],
    ∀ rw, r.rewrite = some rw → H.shapeOK rw = true := by decide

/-- The three outcomes on shaped rules: the CNAME exception does NOT disable the bare NOERROR rewrite
    nor another CNAME; it disables the same CNAME; rcode exceptions disable equal rcodes only. -/
example : dnsRewrites [xNoerror, xExcX, xCnameY, xCnameX, xA] = some [xNoerror, xCnameY, xA] ∧
    specRewritesText (dnsRewritesAll [xNoerror, xExcX, xCnameY, xCnameX, xA]) = [xNoerror, xCnameY, xA] ∧
    specRewritesTextKind (dnsRewritesAll [xNoerror, xExcX, xCnameY, xCnameX, xA]) = [xNoerror, xCnameY, xA] ∧
    specRewritesTextNaive (dnsRewritesAll [xNoerror, xExcX, xCnameY, xCnameX, xA]) = [xA] := by decide

example : dnsRewrites [xNx, xExcNx, xNoerror, xA, xExcA] = some [xNoerror] ∧
    specRewritesText (dnsRewritesAll [xNx, xExcNx, xNoerror, xA, xExcA]) = [xNoerror] := by decide

/-- The right-hand side of `c09_naive_differs_iff_shaped` is inhabited (so the naive reading really
    differs on shaped values) … -/
example : disablesTextNaive xExcX xNoerror ≠ disables xExcX xNoerror := by decide

/-- … and the hypothesis of reading 2 cannot be dropped: on a value that violates C10 (new CNAME
    together with NXDOMAIN) `disablesTextKind` and the code disagree. -/
example : disablesTextKind xExcNx xIllShaped = false ∧ disables xExcNx xIllShaped = true ∧
    H.shapeOK { rcode := 3, newCNAME := lit "y.net" } = false := by decide

/-- `c09_text_parsed` is not vacuous: the two rule texts of the edge case parse, to the records used
    above (up to the fields the relation does not read). -/
example :
    let ext : Ext := { psl := fun _ => ([], false), parseAddr := fun _ => none,
                       parsePrefix := fun _ => none, pat := fun _ _ _ => false }
    (match I2.parseNetRuleFull ext (fun _ => []) (lit "||e^$dnsrewrite=NOERROR") 1,
           I2.parseNetRuleFull ext (fun _ => []) (lit "@@||e^$dnsrewrite=x.net") 1 with
     | .ok r, .ok e => r.rewrite == xNoerror.rewrite && e.rewrite == xExcX.rewrite && e.whitelist &&
         !r.whitelist && dnsRewrites [r, e] == some [r] && specRewritesTextNaive [r, e] == []
     | _, _ => false) = true := by decide

end UF.C09

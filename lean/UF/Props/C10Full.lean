import UF.Compose2.ParseFields
import UF.Props.C10
/-
  C10 on the COMPLETE parser (integration group I2): group H proved the shape of what `loadDNSRewrite`
  returns; group E's `NewNetworkRule` model took `loadDNSRewrite` as a parameter.  With the parameter
  instantiated, every rule the complete model of `NewNetworkRule` / `NewRule` produces carries a
  `$dnsrewrite` of the published shape — for every rule text and every `netip` oracle.
  Only property theorems and non-vacuity examples here.
-/
namespace UF.C10
open UF Bytes UF.I2

/-- The `DNSRewrite` of a parsed network rule is a value `loadDNSRewrite` accepted … -/
theorem c10_full_from (ext : Ext) (reShortcut : Bytes → Bytes) (t : Bytes) (id : Int) (r : NetRule)
    (rw : DnsRewrite) (h : parseNetRuleFull ext reShortcut t id = .ok r) (hrw : r.rewrite = some rw) :
    ∃ v, H.loadDNSRewrite ext v = .ok rw := by
  obtain ⟨v, hv⟩ := parseNetRule_rewriteFrom h rw hrw
  exact ⟨v, (rewriteParam_some_iff ext v rw).1 hv⟩

/-- … hence has the published shape (`c10`). -/
theorem c10_full (ext : Ext) (reShortcut : Bytes → Bytes) (t : Bytes) (id : Int) (r : NetRule)
    (rw : DnsRewrite) (h : parseNetRuleFull ext reShortcut t id = .ok r) (hrw : r.rewrite = some rw) :
    H.shapeOK rw = true := by
  obtain ⟨v, hv⟩ := c10_full_from ext reShortcut t id r rw h hrw
  exact H.c10 ext v rw hv

/-- The same for whatever `rules.NewRule` yields from a list line. -/
theorem c10_full_newRule (ext : Ext) (reShortcut : Bytes → Bytes) (line : Bytes) (id : Int) (r : NetRule)
    (rw : DnsRewrite) (h : newRuleFull ext reShortcut line id = .ok (some (.net r)))
    (hrw : r.rewrite = some rw) : H.shapeOK rw = true := by
  unfold newRuleFull E.newRule at h
  -- the only branch producing a network rule is the last one
  refine E.ite_ok_elim h ?_ ?_ <;> clear h <;> intro h
  · cases E.pure_ok_elim h
  · obtain ⟨isc, _, h⟩ := E.bind_ok_elim h
    refine E.ite_ok_elim h ?_ ?_ <;> clear h <;> intro h
    · cases E.pure_ok_elim h
    · obtain ⟨mk, _, h⟩ := E.bind_ok_elim h
      split at h
      · obtain ⟨c, _, h⟩ := E.bind_ok_elim h
        cases E.pure_ok_elim h
      · split at h
        · cases E.pure_ok_elim h
        · obtain ⟨r', hr', h⟩ := E.bind_ok_elim h
          cases E.pure_ok_elim h
          exact c10_full ext reShortcut _ id r rw hr' hrw

/-! ### Non-vacuity -/

private def exExt : Ext :=
  { psl := fun _ => ([], false),
    parseAddr := fun s => if s == lit "1.2.3.4" then some { is4 := true, val := 16909060 } else none,
    parsePrefix := fun _ => none, pat := fun _ _ _ => false }

example : (match parseNetRuleFull exExt (fun _ => []) (lit "||example.org^$dnsrewrite=NOERROR;A;1.2.3.4") 1 with
    | .ok r => r.rewrite.map (fun rw => (rw.rcode, rw.rrType, H.shapeOK rw))
    | .error _ => none) = some (0, 1, true) := by decide

example : (match parseNetRuleFull exExt (fun _ => []) (lit "||example.org^$dnsrewrite=NOERROR;MX;65536 mail.example.org") 1 with
    | .error .err => true | _ => false) = true := by decide

end UF.C10

import UF.Model.LockSections
import UF.Gen.Facts
/-
  C14 — the fact obligations that pin what the `c14_*` theorems ASSUME about the code (work group P4, item F6
  of notes/REVIEW2.md).  Props/C14.lean compares a de-duplicated set of (method, field, r/w, lock) rows taken
  through method receivers, and a writer scan of three packages.  Here the same assumptions are compared with
  facts that `harness facts` recomputes with go/types over EVERY package of the module on every run:

  * `Facts.p4Sections`  one row per critical section with the ORDERED accesses to guarded state inside it
                        (module functions called inside the section are inlined);
  * `Facts.p4Accesses`  every access to a guarded field through ANY expression of the struct's type
                        (receiver, local, parameter, free function, closure) with the locks held on that object;
  * `Facts.p4Writers`   every write of a field of the struct types the model treats as immutable, in every
                        package (`rules` included), with q = on a query path, c = constructor-only;
  * `Facts.p4GlobalWriters` the same for package-level variables.

  None of the obligations names a function except through `unlockedActions` (the five deliberate unlocked
  accesses), so extracting a critical section or a parse step into a helper does not disturb them.
  All of them are FACTS ABOUT THE SOURCE TEXT, not about executions: the Go memory model is outside.
-/
namespace UF.C14
open UF UF.Prog

/-- FACT pinning the atomic steps `.put` and `.prep` of `Prog.stepG` (assumed by `c14_sc`, `c14_sc_state`,
    `c14_regex_read_outside_lock`, `c14_engine*`, and by C13/C19 through the same machine): in EVERY critical
    section of the module, every access to guarded state is under the right side of the right mutex, and every
    section that WRITES `RuleStorage.cache` has looked the cache up earlier in the SAME section (check-then-act:
    the miss test and the insert of `RuleStorage.RetrieveRule` are one step -- splitting them is defect D15
    again), every section that writes `NetworkRule.regex`/`invalid` has read both earlier in the same section
    (`preparePattern`: "already compiled? already invalid?" and the store are one step -- `CellInv`). -/
theorem c14_fact_sections_check_then_act : Facts.p4Sections.all sectionOK = true := by decide

/-- FACT: every critical section the model's actions `get`, `put`, `read`, `prep` stand for still exists, with
    its lock, its check and its act (so the obligation above is not satisfied by deleting the sections). -/
theorem c14_fact_model_sections_exist :
    modelSections.all (fun m => hasSection Facts.p4Sections m) = true := by decide

/-- FACT pinning the atomic step `.read` (`Seek` and `readLine` on ONE shared file position are one action;
    `c14_granularity_matters` is what happens otherwise): exactly one critical section of the module uses the
    file or the buffer of a `FileRuleList`. -/
theorem c14_fact_file_read_one_section : (Facts.p4Sections.filter touchesFile).length = 1 := by decide

/-- FACT pinning the action table as a whole (every shared-state access of a query is one of the model's actions):
    every access to `RuleStorage.cache`, `FileRuleList.File/buffer`, `NetworkRule.regex/invalid` ANYWHERE in the
    module -- methods, free functions, closures, through receivers, locals or parameters -- is under the mutex
    that guards it (writes and file uses: exclusive side), or is one of the five `unlockedActions`. -/
theorem c14_fact_accesses_locked :
    Facts.p4Accesses.all (fun r =>
      unlockedActions.contains (r.1, r.2.1, r.2.2.1) || accessLocked r.2.1 r.2.2.1 r.2.2.2) = true := by decide

/-- FACT pinning the immutability of `Env` (`step` never changes `env`; `truth idx` is a value; `pre`, `compile`,
    `accepts`, `cands`, `hcands`, `basic`, `wants`, `resident` are functions of it): NO function of ANY package of
    the module that is reachable from a query entry point -- an exported function or method that is not a
    constructor of a frozen type and not the construction-time API `AddRule`/`TryAdd`; calls resolved with
    go/types, interface calls by method name, calls of function values by signature; constructors are not entered --
    assigns to, appends to, increments, deletes from, clears or takes the address of a field of an engine, a lookup
    table, the storage, a rule list or a RULE OBJECT (`NetworkRule`, `HostRule`, `CosmeticRule`, `DNSRewrite`, …),
    nor calls `AddRule`/`TryAdd`.  (Composite literals build fresh objects and are exempt.) -/
theorem c14_fact_no_query_writes_all :
    Facts.p4Writers.all (fun r =>
      r.2.2.1 == "lit" || r.2.2.2.1 == "-" || postConstructionWriters.contains (r.1, r.2.1)) = true := by decide

/-- FACT: every such writer is a constructor of a frozen type (`New*`/`new*` returning one, or `rules.Rule`) or a
    function all of whose call sites in the module lie in constructor-only functions (the option loaders of
    `NewNetworkRule`, `clients.add`, `addRule`/`AddRule`/`TryAdd`; `init`).  (Composite literals exempt as above.) -/
theorem c14_fact_writers_constructor_only_all :
    Facts.p4Writers.all (fun r =>
      r.2.2.1 == "lit" || r.2.2.2.2 == "c" || postConstructionWriters.contains (r.1, r.2.1)) = true := by decide

/-- FACT pinning `Prog.State` as ALL the shared mutable state (cache, cells, pool, closed lists): no function on
    a query path (same call graph) assigns to, or writes through, a PACKAGE-LEVEL variable of the module (a
    memo table beside the engines would be shared state the machine does not have -- seeded change C14-8). -/
theorem c14_fact_no_query_global_writes :
    Facts.p4GlobalWriters.all (fun r => r.2.2.1 == "-") = true := by decide

/-- FACT: the extraction is not vacuous: the scan covered the packages, found every guarded field and every
    frozen struct type, and each main type has a constructor-only writer. -/
theorem c14_fact_extraction_complete :
    (scannedPackages.all Facts.p4Packages.contains && guardedFields.all Facts.p4GuardedFound.contains &&
      frozenTypesAll.all Facts.p4FrozenTypes.contains &&
      ctorWrittenTypesAll.all Facts.p4CtorWrittenTypes.contains) = true := by decide

/-! ### The obligations are not vacuous: what the three mutations of the second review extract to -/

/-- (a) the cache-put section of `RetrieveRule` split into `Lock{check}Unlock; yield; Lock{write}Unlock`:
    the second section writes the cache without having checked it. -/
example :
    sectionOK ("filterlist.RuleStorage.RetrieveRule", "Lock(RuleStorage.cacheMu)", [("RuleStorage.cache", "r")]) = true ∧
    sectionOK ("filterlist.RuleStorage.RetrieveRule", "Lock(RuleStorage.cacheMu)", [("RuleStorage.cache", "w")]) = false := by
  decide

/-- the same for `preparePattern` (seeded change C14-6: test under the lock, compile outside, store under the lock) -/
example :
    sectionOK ("rules.NetworkRule.preparePattern", "Lock(NetworkRule.Mutex)",
      [("NetworkRule.invalid", "w"), ("NetworkRule.regex", "w")]) = false := by decide

/-- a read lock around `Seek`+`Read` (seeded change C14-1) is not a proper lock for the file -/
example :
    sectionOK ("filterlist.FileRuleList.RetrieveRule", "RLock(FileRuleList.RWMutex)",
      [("FileRuleList.File", "r"), ("FileRuleList.File", "r"), ("FileRuleList.buffer", "r")]) = false := by decide

/-- (b) a free function reading `st.cache` with no lock is not an action of the model. -/
example :
    (unlockedActions.contains ("filterlist.peekCache", "RuleStorage.cache", "r") ||
      accessLocked "RuleStorage.cache" "r" []) = false := by decide

/-- …while a helper that reads the cache under the read lock, or is only ever called with the lock held, is fine. -/
example :
    accessLocked "RuleStorage.cache" "r" ["RLock(RuleStorage.cacheMu)"] = true ∧
    accessLocked "RuleStorage.cache" "w" ["Lock(RuleStorage.cacheMu)/caller"] = true ∧
    accessLocked "RuleStorage.cache" "w" ["RLock(RuleStorage.cacheMu)"] = false := by decide

end UF.C14

import UF.Props.C04Text
import UF.Compose2.RegexShortcutSem
/-
  C04 / `/regex/` rules, group P3 (REVIEW2 F3).  `c04_regex_some` says that the pattern conjunct of
  `Match` is the search of "the parsed expression" `parseRE text`.  Since the repair of F3 `parseRE` of a
  case-sensitive text is GO's tree of it (`goTree`: `parser.factor` merges a case-sensitive one-rune literal
  with its case-folded twin at the head of adjacent alternation branches — `Regexp.Equal` ignores the fold
  flag — so `/A.|[aA]/$match-case` does not accept `…/a`).  Here the statement in terms of the WRITTEN
  expression (`parseCore` of the text between the slashes):

    * `$match-case` rules: the compiled expression is the written one up to the fold flags of its leaves
      (`FoldRel`), and IS the written one when it has no source of case-folded literals (`hazard = false`);
    * rules without `$match-case`: the compiled expression is the written one with every flag set.

  Domain restriction introduced by the repair (the model does not answer, `modelPat = none`): a
  `$match-case` expression WITH a source of folded literals AND a non-capturing group `(?:` or a non-greedy
  counted repetition `}?` in its text.  Only property theorems and non-vacuity examples here.
-/
namespace UF.C04
open UF Bytes UF.I2 UF.Re

/-- `$match-case` `/regex/` rules in terms of the written expression. -/
theorem c04_regex_matchcase_written (ext : Ext) (r : NetRule) (q : Request) (hwf : r.WellFormed) (hq : q.InDomain)
    (hre : UF.isRegexPattern r.pattern = true)
    (hmc : r.isEnabled Facts.OptionMatchCase = true)
    (hnoci : hasPrefix ((r.pattern.drop 1).dropLast) ciPrefix = false) (b : Bool)
    (hb : modelPat r.pattern (r.isEnabled Facts.OptionMatchCase) (specTarget r q) = some b) :
    ∃ w c, parseCore ((r.pattern.drop 1).dropLast) = some w ∧
      goTree ((r.pattern.drop 1).dropLast) w = some c ∧ FoldRel w c ∧ (w.hazard = false → c = w) ∧
      r.matches (withModelPat ext) q =
        (hasSub q.urlLower r.shortcut && specThirdParty r q && specReqType r q.reqType && specDenyallow ext r q &&
          specSourceDomain ext r q && specDnsType r q && specCTag r q && specClient r q &&
          Re.search c (specTarget r q)) := by
  obtain ⟨re, hparse, _, hm⟩ := c04_regex_some ext r q hwf hq hre b hb
  rw [hmc] at hparse
  simp only [regexRuleText, if_true, parseRE, hnoci, Bool.false_eq_true, if_false] at hparse
  cases hp : parseCore ((r.pattern.drop 1).dropLast) with
  | none => rw [hp] at hparse; cases hparse
  | some w =>
    rw [hp, Option.bind_some] at hparse
    refine ⟨w, re, rfl, hparse, FoldRel.goTree hparse, ?_, hm⟩
    intro hz
    rw [goTree_of_not_hazard _ w hz] at hparse
    exact (Option.some.inj hparse).symm

/-- `/regex/` rules without `$match-case`: the written expression with every fold flag set (the `(?i)`
    prefix); Go's flag-blind factoring cannot change its language. -/
theorem c04_regex_ci_written (ext : Ext) (r : NetRule) (q : Request) (hwf : r.WellFormed) (hq : q.InDomain)
    (hre : UF.isRegexPattern r.pattern = true)
    (hmc : r.isEnabled Facts.OptionMatchCase = false) (b : Bool)
    (hb : modelPat r.pattern (r.isEnabled Facts.OptionMatchCase) (specTarget r q) = some b) :
    ∃ w, parseCore ((r.pattern.drop 1).dropLast) = some w ∧
      r.matches (withModelPat ext) q =
        (hasSub q.urlLower r.shortcut && specThirdParty r q && specReqType r q.reqType && specDenyallow ext r q &&
          specSourceDomain ext r q && specDnsType r q && specCTag r q && specClient r q &&
          Re.search w.foldCase (specTarget r q)) := by
  obtain ⟨re, hparse, _, hm⟩ := c04_regex_some ext r q hwf hq hre b hb
  rw [hmc] at hparse
  simp only [regexRuleText, Bool.false_eq_true, if_false, parseRE_ci] at hparse
  cases hp : parseCore ((r.pattern.drop 1).dropLast) with
  | none => rw [hp] at hparse; cases hparse
  | some w =>
    rw [hp] at hparse
    simp only [Option.map_some, Option.some.injEq] at hparse
    subst hparse
    exact ⟨w, rfl, hm⟩

/-! ### Non-vacuity -/

/-- The pattern answers of the review's rule-level witnesses are Go's. -/
example : modelPat (lit "/[aA]b|A./") true (lit "http://h/ax") = some true ∧
    modelPat (lit "/A.|[aA]/") true (lit "http://x.com/a") = some false := by decide +kernel

/-- The hypotheses of `c04_regex_matchcase_written` on the witness: the written tree, Go's tree of it
    (≠ the written tree: the expression has a source of folded literals). -/
example : hasPrefix (lit "[aA]b|A.") ciPrefix = false ∧
    (parseCore (lit "[aA]b|A.")).map hazard = some true ∧
    (parseCore (lit "[aA]b|A.")).bind (goTree (lit "[aA]b|A.")) =
      some (.alt (.cat (.cls false [(97, 97), (65, 65)] false) (.lit [98] false)) (.cat (.lit [65] true) .any)) := by
  decide +kernel

/-- An ordinary `$match-case` expression has no source of folded literals: compiled = written. -/
example : (parseCore (lit "^https?:\\/\\/ads\\.(foo|bar)\\/[A-Z]+")).map hazard = some false := by decide +kernel

end UF.C04

import UF.Proofs.HostRuleDispatch
/-
  C18 — hosts-file lines yield exactly the listed names with the given address.

  Model: UF/Model/HostRule.lean (`splitNextByWhitespace`, `newHostRule`, `hostRuleMatches`,
  `isCommentLine`, `findCosmeticRuleMarker`, `newRuleKind`) mirrors rules/host.go, rules/rule.go
  and rules/cosmetic.go after the D11 and D16 repairs.  Reference: UF/Spec/HostLine.lean (the
  blank-separated tokens of the text before the comment sign; the line grammar as text builders).
  `netip.ParseAddr` is an arbitrary oracle, `filterutil.IsDomainName` an arbitrary predicate.
-/
namespace UF.H
open Bytes

/-- Iterating `splitNextByWhitespace` (the loop of `NewHostRule`) over a string that does not
    start with a blank yields exactly its blank-separated non-empty tokens. -/
theorem split_tokens (s : Bytes) (hs : ∀ c t, s = c :: t → isBlank c = false) :
    hostNamesLoop s.length s [] = .ok (blankTokens s) :=
  hostNamesLoop_fuel s hs

/-- One step: the first token and the rest, for a string with a non-blank byte at its start. -/
theorem split_first (s : Bytes) (hne : s ≠ []) (hs : ∀ c t, s = c :: t → isBlank c = false) :
    ∃ tok rest, splitNextByWhitespace s = .ok (tok, rest) ∧ blankTokens s = tok :: blankTokens rest ∧
      rest.length < s.length :=
  ⟨splitTok s, splitRest s, splitNextByWhitespace_eq s, blankTokens_split s hne hs, splitRest_length_lt hne⟩

/-- `NewHostRule` agrees with the token reference on EVERY line (inside or outside the grammar). -/
theorem c18_model_eq_spec (ext : Ext) (dn : Bytes → Bool) (text : Bytes) (listID : Int) :
    newHostRule ext dn text listID =
      match specHostLine ext dn text with
      | some (names, a) => .ok { text := text, listID := listID, hostnames := names, ip := a }
      | none => .error .reject :=
  newHostRule_eq_spec ext dn text listID

/-- `NewHostRule` never panics (all slices of `splitNextByWhitespace` and of the comment strip are
    in range; the names loop terminates within its fuel). -/
theorem c18_total (ext : Ext) (dn : Bytes → Bool) (text : Bytes) (listID : Int) :
    newHostRule ext dn text listID ≠ .error .panic := by
  rw [newHostRule_eq_spec]
  unfold specHostResult
  split <;> simp

/-- `IP (sp|tab)+ name ((sp|tab)+ name)* ws* ['#' any]` yields exactly the listed names with the
    parsed address. -/
theorem c18_ip (ext : Ext) (dn : Bytes → Bool) (ip : Bytes) (wn : List (Bytes × Bytes)) (trail cmt : Bytes)
    (a : Addr) (listID : Int)
    (hip : isHostToken ip = true) (hwn : goodPairs wn = true) (hne : wn ≠ [])
    (ht : allBlank trail = true) (hc : isCommentTail cmt = true)
    (ha : ext.parseAddr ip = some a) :
    newHostRule ext dn (hostLineIP ip wn trail cmt) listID =
      .ok { text := hostLineIP ip wn trail cmt, listID := listID, hostnames := wn.map (·.2), ip := a } := by
  rw [newHostRule_eq_spec]
  unfold specHostResult specHostLine
  simp only [isHostToken, Bool.and_eq_true, Bool.not_eq_eq_eq_not, Bool.not_true] at hip
  obtain ⟨⟨hipne, hipb⟩, hiph⟩ := hip
  have hipne' : ip ≠ [] := by intro h; subst h; simp at hipne
  have hbody : hostLineBody (hostLineIP ip wn trail cmt) = ip ++ namesText wn ++ trail := by
    unfold hostLineIP
    apply hostLineBody_tail _ _ _ _ hc
    · simp [hipne']
    · simp [hashFree_append, hiph, hashFree_namesText wn hwn, hashFree_of_allBlank ht]
  rw [hbody, List.append_assoc,
      blankTokens_tok_append ip _ hipne' hipb (startsBlankOrNil_namesText wn trail hwn ht),
      blankTokens_namesText wn trail hwn ht]
  cases wn with
  | nil => exact absurd rfl hne
  | cons p r => simp [ha]

/-- `name ws* ['#' any]` yields that name with the unspecified IPv4 address. -/
theorem c18_bare (ext : Ext) (dn : Bytes → Bool) (name trail cmt : Bytes) (listID : Int)
    (hn : isHostToken name = true) (hdn : dn name = true)
    (ht : allBlank trail = true) (hc : isCommentTail cmt = true) :
    newHostRule ext dn (hostLineBare name trail cmt) listID =
      .ok { text := hostLineBare name trail cmt, listID := listID, hostnames := [name],
            ip := { is4 := true, val := 0 } } := by
  rw [newHostRule_eq_spec]
  unfold specHostResult specHostLine
  simp only [isHostToken, Bool.and_eq_true, Bool.not_eq_eq_eq_not, Bool.not_true] at hn
  obtain ⟨⟨hnne, hnb⟩, hnh⟩ := hn
  have hnne' : name ≠ [] := by intro h; subst h; simp at hnne
  have hbody : hostLineBody (hostLineBare name trail cmt) = name ++ trail := by
    unfold hostLineBare
    apply hostLineBody_tail _ _ _ _ hc
    · simp [hnne']
    · simp [hashFree_append, hnh, hashFree_of_allBlank ht]
  have hstart : startsBlankOrNil trail = true := by
    cases trail with
    | nil => rfl
    | cons c r =>
      simp only [allBlank, List.all_cons, Bool.and_eq_true] at ht
      simp [startsBlankOrNil, ht.1]
  rw [hbody, blankTokens_tok_append name _ hnne' hnb hstart, blankTokens_allBlank trail ht]
  simp [hdn, addrV4Unspecified]

/-- Text after the comment sign never changes the result: a line with a comment parses exactly
    as the text before the '#' does (only the stored rule text differs). -/
theorem c18_comment_inert (ext : Ext) (dn : Bytes → Bool) (pre c : Bytes) (listID : Int)
    (hne : pre ≠ []) (hf : hashFree pre = true) :
    newHostRule ext dn (pre ++ ch '#' :: c) listID =
      (newHostRule ext dn pre listID).map (fun r => { r with text := pre ++ ch '#' :: c }) := by
  rw [newHostRule_eq_spec, newHostRule_eq_spec]
  unfold specHostResult specHostLine
  rw [hostLineBody_comment pre c hne hf, hostLineBody_plain pre hf]
  split <;> rfl

/-- Any two comments give the same names and address. -/
theorem c18_comment_inert' (ext : Ext) (dn : Bytes → Bool) (pre c₁ c₂ : Bytes) (listID : Int)
    (hne : pre ≠ []) (hf : hashFree pre = true) :
    (newHostRule ext dn (pre ++ ch '#' :: c₁) listID).map (fun r => (r.hostnames, r.ip)) =
    (newHostRule ext dn (pre ++ ch '#' :: c₂) listID).map (fun r => (r.hostnames, r.ip)) := by
  rw [c18_comment_inert ext dn pre c₁ listID hne hf, c18_comment_inert ext dn pre c₂ listID hne hf]
  cases newHostRule ext dn pre listID <;> rfl

/-- A host rule matches a queried name iff it is one of its names. -/
theorem host_match_iff (r : HostRule) (h : Bytes) : hostRuleMatches r h = true ↔ h ∈ r.hostnames := by
  unfold hostRuleMatches
  constructor
  · intro hm
    simp only [Bool.or_eq_true, Bool.and_eq_true, beq_iff_eq, List.any_eq_true] at hm
    rcases hm with ⟨_, hh⟩ | ⟨x, hx, hxe⟩
    · cases hl : r.hostnames with
      | nil => simp [hl] at hh
      | cons a t =>
        simp [hl] at hh
        simp [hh]
    · have : x = h := by simpa using hxe
      exact this ▸ hx
  · intro hm
    simp only [Bool.or_eq_true, List.any_eq_true]
    exact Or.inr ⟨h, hm, by simp⟩

/-- A syntactic sufficient condition for EVERY line (not only those of the grammar): a line that
    does not start with '!' or '#', has no '$' before its comment sign, and whose comment sign does not
    begin a cosmetic marker directly after a non-blank, is taken by `NewRule` neither for a comment nor
    for a cosmetic rule -- whatever the comment contains (`$$`, `$@$`, ` ##`, … included; this is the
    repair of D16). -/
theorem c18_not_comment_not_cosmetic (line : Bytes) (h : hostLineOutside line = false) :
    isCommentLine line = false ∧ isCosmeticLine line = false :=
  not_comment_not_cosmetic line h

/-- The carve-out is EXACTLY the one the property states.  For every line `IP names… trail cmt` of
    the grammar (names and address without '$', the address not starting with '!'): `NewRule` takes the
    line for a comment or for cosmetic syntax iff the comment sign directly follows a name and begins
    a cosmetic marker ("a double '#' only after a blank, otherwise the line is element-hiding
    syntax").  Nothing else in the comment matters. -/
theorem c18_carveOut_grammar (ip : Bytes) (wn : List (Bytes × Bytes)) (trail cmt : Bytes)
    (hip : isHostToken ip = true) (hwn : goodPairs wn = true) (hne : wn ≠ [])
    (ht : allBlank trail = true) (hc : isCommentTail cmt = true)
    (hipd : isPlainToken ip = true) (hwnd : dollarFreePairs wn = true) :
    hostLineCarveOut (hostLineIP ip wn trail cmt) = commentIsMarker trail cmt :=
  carveOut_hostLineIP ip wn trail cmt hip hwn hne ht hc hipd hwnd

/-- The same for `name trail cmt`. -/
theorem c18_carveOut_grammar_bare (name trail cmt : Bytes)
    (hn : isHostToken name = true) (ht : allBlank trail = true) (hc : isCommentTail cmt = true)
    (hnd : isPlainToken name = true) :
    hostLineCarveOut (hostLineBare name trail cmt) = commentIsMarker trail cmt :=
  carveOut_hostLineBare name trail cmt hn ht hc hnd

/-- A line of the `IP names…` grammar that `NewRule` (model of `isComment` / `isCosmetic`) does not
    take for a comment or a cosmetic rule is dispatched to the hosts syntax and yields the listed
    names with the parsed address.  (Tokens are arbitrary here; `c18_dispatch` below discharges the
    hypothesis `hout` from the grammar.) -/
theorem c18_dispatch_of_carveOut (ext : Ext) (dn : Bytes → Bool) (ip : Bytes) (wn : List (Bytes × Bytes))
    (trail cmt : Bytes) (a : Addr) (listID : Int)
    (hip : isHostToken ip = true) (hwn : goodPairs wn = true) (hne : wn ≠ [])
    (ht : allBlank trail = true) (hc : isCommentTail cmt = true)
    (ha : ext.parseAddr ip = some a)
    (hout : hostLineCarveOut (hostLineIP ip wn trail cmt) = false) :
    newRuleKind ext dn (hostLineIP ip wn trail cmt) listID =
      .host { text := hostLineIP ip wn trail cmt, listID := listID, hostnames := wn.map (·.2), ip := a } := by
  unfold hostLineCarveOut at hout
  simp only [Bool.or_eq_false_iff] at hout
  obtain ⟨h1, h2⟩ := hout
  have hnonempty : (hostLineIP ip wn trail cmt).isEmpty = false := by
    cases ip with
    | nil => simp [isHostToken] at hip
    | cons c t => simp [hostLineIP]
  unfold newRuleKind
  simp only [hnonempty, h1, h2, Bool.or_self, Bool.false_eq_true, if_false]
  rw [c18_ip ext dn ip wn trail cmt a listID hip hwn hne ht hc ha]

/-- The same for a bare domain name. -/
theorem c18_dispatch_bare_of_carveOut (ext : Ext) (dn : Bytes → Bool) (name trail cmt : Bytes) (listID : Int)
    (hn : isHostToken name = true) (hdn : dn name = true)
    (ht : allBlank trail = true) (hc : isCommentTail cmt = true)
    (hout : hostLineCarveOut (hostLineBare name trail cmt) = false) :
    newRuleKind ext dn (hostLineBare name trail cmt) listID =
      .host { text := hostLineBare name trail cmt, listID := listID, hostnames := [name],
              ip := { is4 := true, val := 0 } } := by
  unfold hostLineCarveOut at hout
  simp only [Bool.or_eq_false_iff] at hout
  obtain ⟨h1, h2⟩ := hout
  have hnonempty : (hostLineBare name trail cmt).isEmpty = false := by
    cases name with
    | nil => simp [isHostToken] at hn
    | cons c t => simp [hostLineBare]
  unfold newRuleKind
  simp only [hnonempty, h1, h2, Bool.or_self, Bool.false_eq_true, if_false]
  rw [c18_bare ext dn name trail cmt listID hn hdn ht hc]

/-- **C18, dispatch.**  EVERY line `IP (sp|tab)+ name ((sp|tab)+ name)* ws* ['#' any]` of the
    property's grammar (address and names without '$', the address not starting with '!') whose
    comment does not begin with a cosmetic marker directly after a name is dispatched by `NewRule`
    to the hosts syntax and yields exactly the listed names with the parsed address -- whatever the
    comment contains (`x$$y`, `x$@$y`, ` ##`, `#@#` after a blank, …). -/
theorem c18_dispatch (ext : Ext) (dn : Bytes → Bool) (ip : Bytes) (wn : List (Bytes × Bytes)) (trail cmt : Bytes)
    (a : Addr) (listID : Int)
    (hip : isHostToken ip = true) (hwn : goodPairs wn = true) (hne : wn ≠ [])
    (ht : allBlank trail = true) (hc : isCommentTail cmt = true)
    (ha : ext.parseAddr ip = some a)
    (hipd : isPlainToken ip = true) (hwnd : dollarFreePairs wn = true)
    (hout : commentIsMarker trail cmt = false) :
    newRuleKind ext dn (hostLineIP ip wn trail cmt) listID =
      .host { text := hostLineIP ip wn trail cmt, listID := listID, hostnames := wn.map (·.2), ip := a } :=
  c18_dispatch_of_carveOut ext dn ip wn trail cmt a listID hip hwn hne ht hc ha
    (by rw [carveOut_hostLineIP ip wn trail cmt hip hwn hne ht hc hipd hwnd, hout])

/-- The same for a bare domain name `name ws* ['#' any]`. -/
theorem c18_dispatch_bare (ext : Ext) (dn : Bytes → Bool) (name trail cmt : Bytes) (listID : Int)
    (hn : isHostToken name = true) (hdn : dn name = true)
    (ht : allBlank trail = true) (hc : isCommentTail cmt = true)
    (hnd : isPlainToken name = true)
    (hout : commentIsMarker trail cmt = false) :
    newRuleKind ext dn (hostLineBare name trail cmt) listID =
      .host { text := hostLineBare name trail cmt, listID := listID, hostnames := [name],
              ip := { is4 := true, val := 0 } } :=
  c18_dispatch_bare_of_carveOut ext dn name trail cmt listID hn hdn ht hc
    (by rw [carveOut_hostLineBare name trail cmt hn ht hc hnd, hout])

/-- Conversely the carve-out is real: when the comment sign directly follows a name and begins a
    cosmetic marker, `NewRule` hands the line to `NewCosmeticRule`. -/
theorem c18_marker_is_cosmetic (ext : Ext) (dn : Bytes → Bool) (ip : Bytes) (wn : List (Bytes × Bytes))
    (trail cmt : Bytes) (listID : Int)
    (hip : isHostToken ip = true) (hwn : goodPairs wn = true) (hne : wn ≠ [])
    (ht : allBlank trail = true) (hc : isCommentTail cmt = true)
    (hipd : isPlainToken ip = true) (hwnd : dollarFreePairs wn = true)
    (hin : commentIsMarker trail cmt = true) :
    newRuleKind ext dn (hostLineIP ip wn trail cmt) listID = .cosmetic := by
  have hco := carveOut_hostLineIP ip wn trail cmt hip hwn hne ht hc hipd hwnd
  rw [hin] at hco
  have hipne : ip ≠ [] := by intro h; subst h; simp [isHostToken] at hip
  have hcm : isCommentLine (hostLineIP ip wn trail cmt) = false := by
    unfold hostLineIP
    apply isCommentLine_pre_cmt
    · simp [hipne]
    · simp only [isHostToken, Bool.and_eq_true] at hip
      simp [hashFree_append, hip.2, hashFree_namesText wn hwn, hashFree_of_allBlank ht]
    · simp only [isPlainToken, Bool.and_eq_true, Bool.not_eq_eq_eq_not, Bool.not_true] at hipd
      cases ip with
      | nil => exact absurd rfl hipne
      | cons c t => simpa using hipd.2
  have hnonempty : (hostLineIP ip wn trail cmt).isEmpty = false := by
    cases ip with
    | nil => exact absurd rfl hipne
    | cons c t => simp [hostLineIP]
  unfold hostLineCarveOut at hco
  rw [hcm, Bool.false_or] at hco
  unfold newRuleKind
  simp [hnonempty, hcm, hco]

/-- The DNS engine files a matching host rule under the IPv4 or the IPv6 group according to
    `IP.Is4()` (an IPv4-mapped IPv6 address is not `Is4`): the reference answer per query. -/
theorem c18_groups (names : List Bytes) (a : Addr) (q : Bytes) :
    specHostAnswer names a q =
      (if q ∈ names then (a.is4, !a.is4) else (false, false)) := by
  unfold specHostAnswer
  by_cases h : q ∈ names <;> simp [h]

/-- Generated-fact obligation: the run-time order of the cosmetic markers' first characters. -/
theorem c18_marker_first_chars : Facts.H.cosmeticMarkerFirstChars = [ch '#', ch '$'] := markerFirstChars_eq

/-! Non-vacuity -/


/-- The two D11 replays, on the model of the repaired code. -/
example : (newHostRule c18Ext (fun _ => true) (lit "0.0.0.0 example.org#note") 1).toOption.map (·.hostnames) =
    some [lit "example.org"] := by decide
example : newRuleKind c18Ext (fun _ => true) (lit "0.0.0.0 example.org\t## note") 1 =
    .host { text := lit "0.0.0.0 example.org\t## note", listID := 1, hostnames := [lit "example.org"],
            ip := { is4 := true, val := 0 } } := by decide
/-- The model distinguishes the repaired code from the pinned tree: the old comment strip yields
    the name `example.or` on the D11 replay. -/
example : (newHostRuleOld c18Ext (fun _ => true) (lit "0.0.0.0 example.org#note") 1).toOption.map (·.hostnames) =
    some [lit "example.or"] := by decide
/-- The hypotheses of `c18_dispatch` are satisfiable (two names, tab run, a `##` comment after a blank
    that contains `$$`). -/
example : isHostToken (lit "::ffff:1.2.3.4") = true ∧
    goodPairs [(lit " \t", lit "a.example"), (lit "\t", lit "b.example")] = true ∧
    allBlank (lit " ") = true ∧ isCommentTail (lit "## phishing $$ x") = true ∧
    isPlainToken (lit "::ffff:1.2.3.4") = true ∧
    dollarFreePairs [(lit " \t", lit "a.example"), (lit "\t", lit "b.example")] = true ∧
    commentIsMarker (lit " ") (lit "## phishing $$ x") = false ∧
    hostLineCarveOut (hostLineIP (lit "::ffff:1.2.3.4") [(lit " \t", lit "a.example"), (lit "\t", lit "b.example")]
      (lit " ") (lit "## phishing $$ x")) = false := by decide

/-- **The D16 replay** `0.0.0.0 example.org # costs$$5`: the hypotheses of `c18_dispatch` hold for it
    (ip `0.0.0.0`, one name, trail ` `, comment `# costs$$5`) … -/
example : isHostToken (lit "0.0.0.0") = true ∧ goodPairs [(lit " ", lit "example.org")] = true ∧
    allBlank (lit " ") = true ∧ isCommentTail (lit "# costs$$5") = true ∧
    isPlainToken (lit "0.0.0.0") = true ∧ dollarFreePairs [(lit " ", lit "example.org")] = true ∧
    commentIsMarker (lit " ") (lit "# costs$$5") = false ∧
    hostLineIP (lit "0.0.0.0") [(lit " ", lit "example.org")] (lit " ") (lit "# costs$$5") =
      lit "0.0.0.0 example.org # costs$$5" := by decide
/-- … the model of the repaired code yields the host rule … -/
example : newRuleKind c18Ext (fun _ => true) (lit "0.0.0.0 example.org # costs$$5") 1 =
    .host { text := lit "0.0.0.0 example.org # costs$$5", listID := 1, hostnames := [lit "example.org"],
            ip := { is4 := true, val := 0 } } := by decide
/-- … and the OLD marker search (before d2e67f2) took the line for a cosmetic rule: the model
    distinguishes the repaired code from the defective one. -/
example : (findCosmeticRuleMarkerOld (lit "0.0.0.0 example.org # costs$$5")).isSome = true ∧
    findCosmeticRuleMarker (lit "0.0.0.0 example.org # costs$$5") = none := by decide
/-- Further comments the old carve-out excluded and that are host rules: `$@$` inside a word, `$$`
    after a blank, a `#@#` / `#?#` after a blank, a comment without a preceding blank. -/
example : [lit "0.0.0.0 example.org # a$@$b", lit "0.0.0.0 example.org # costs $$5",
      lit "0.0.0.0 example.org #@#.x", lit "0.0.0.0 example.org\t#?#sel", lit "0.0.0.0 example.org# x$$y",
      lit "example.org #$$"].all
    (fun l => !hostLineCarveOut l && !hostLineOutside l) = true := by decide
/-- The carve-out is real: a `##` directly after a name is element-hiding syntax. -/
example : isCosmeticLine (lit "0.0.0.0 example.org##.banner") = true := by decide
example : hostLineCarveOut (lit "0.0.0.0 example.org##.banner") = true := by decide
example : commentIsMarker [] (lit "##.banner") = true ∧ commentIsMarker (lit " ") (lit "##.banner") = false ∧
    commentIsMarker [] (lit "#note") = false := by decide
/-- `hostLineOutside` is only a sufficient test: a name that begins with `$$` after a blank is a host
    name for the code (the blank exemption), though outside the grammar of the property. -/
example : hostLineOutside (lit "0.0.0.0 $$x") = true ∧ hostLineCarveOut (lit "0.0.0.0 $$x") = false := by decide

end UF.H

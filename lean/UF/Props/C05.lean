import UF.Proofs.Shortcut
import UF.Proofs.ShortcutRuns
import UF.Proofs.RegexFast
import UF.Model.RegexParse
import UF.Proofs.RegexCiPrefix
import UF.Proofs.RegexQuirkLits
/-
  C05 — the shortcut pre-check never rejects a request the rule accepts.
  Property theorems only (helper lemmas live in UF/Proofs/Regex.lean, Shortcut.lean, ShortcutBytes.lean).

  Regular-expression rules: `c05_re` / `c05_re_fold` (every required literal of the parse tree is a
  factor of the lower-cased subject of every successful match, for case-sensitive and `(?i)` matching
  alike), `c05_runs` (the same for literal pieces merged across concatenations), `c05_justified` /
  `c05_justified_runs` (a shortcut contained in such a literal is a factor of every accepted subject –
  the per-rule check of the `c05.shortcut` op), `c05_regex_shortcut` (so is the shortcut that
  `findRegexpShortcut` keeps, for an ARBITRARY candidate list), `c05_regex_rule` / `c05_regex_model`
  (hence `Match` is unchanged without the shortcut test).
  Mask rules: `c05_mask_total`, `c05_mask_run` (the `IndexAny` loop does not panic and returns `""` or a
  maximal separator-free run of the pattern) and `c05_mask_atoms` (a run of literal atoms in the compiled
  concatenation is a factor of every accepted subject); the composition with the mask compiler
  (`maskAst`, group G / C03) is `c05_mask_rule`, stated against the shape of the compiled expression.
  `c05` is the rule-level corollary shared by both.
-/
namespace UF.C05
open UF Bytes Re

/-- Every literal that `appendRequiredLiterals` collects from an expression is a factor of the
    lower-cased subject of every successful (unanchored) match – whatever mix of case-sensitive and
    case-insensitive literals the expression contains. -/
theorem c05_re (r : Re) (u : Bytes) (h : search r u = true) :
    ∀ l ∈ requiredLits r, hasSub (toLower u) l = true :=
  search_lits r u h

/-- The same when the rule compiles the expression under `(?i)` (no `$match-case`) while the
    literals are collected from the expression as written. -/
theorem c05_re_fold (r : Re) (u : Bytes) (h : search r.foldCase u = true) :
    ∀ l ∈ requiredLits r, hasSub (toLower u) l = true := by
  have := search_lits r.foldCase u h
  rwa [requiredLits_foldCase] at this

/-- A shortcut that is empty or contained in a required literal of the compiled expression (what the
    `c05.shortcut` correspondence op checks on Go's own parse tree) is a factor of every accepted
    lower-cased subject. -/
theorem c05_justified (shortcut : Bytes) (c : Re) (u : Bytes)
    (hj : shortcutJustified shortcut c = true) (h : search c u = true) :
    hasSub (toLower u) shortcut = true := by
  simp only [shortcutJustified, Bool.or_eq_true, List.isEmpty_iff, List.any_eq_true] at hj
  rcases hj with rfl | ⟨l, hl, hsub⟩
  · exact hasSub_nil _
  · exact hasSub_trans (c05_re c u h l hl) hsub

/-- The sharper criterion: literal pieces merged across concatenations, assertions, captures and the
    first/last iteration of `+`/`{m,}` (`foojs+` requires `foojs`) are factors of every accepted
    lower-cased subject as well. -/
theorem c05_runs (r : Re) (u : Bytes) (h : search r u = true) :
    ∀ l ∈ requiredRuns r, hasSub (toLower u) l = true :=
  search_runs r u h

/-- … hence a shortcut that is empty or contained in a merged run of the compiled expression (the
    `spec` answer of the `c05.shortcut` op) is a factor of every accepted lower-cased subject. -/
theorem c05_justified_runs (shortcut : Bytes) (c : Re) (u : Bytes)
    (hj : shortcutJustifiedRuns shortcut c = true) (h : search c u = true) :
    hasSub (toLower u) shortcut = true := by
  simp only [shortcutJustifiedRuns, Bool.or_eq_true, List.isEmpty_iff, List.any_eq_true] at hj
  rcases hj with rfl | ⟨l, hl, hsub⟩
  · exact hasSub_nil _
  · exact hasSub_trans (c05_runs c u h l hl) hsub

/-- `findRegexpShortcut` + `loadShortcut` for ANY list of candidates produced by the textual heuristics:
    the resulting shortcut is a factor of every lower-cased subject accepted by the compiled expression
    `c`, provided `c` requires what the consulted tree requires (`litsCovered`; true for the tree itself
    and for the tree under `(?i)`: `litsCovered_refl`, `litsCovered_foldCase`).  If the text did not
    parse (`tree = none`) nothing is required, no candidate is accepted and the shortcut is empty. -/
theorem c05_regex_shortcut (parts : List Bytes) (tree : Option Re) (c : Re) (u : Bytes)
    (hcov : ∀ t, tree = some t → litsCovered t c = true) (h : search c u = true) :
    hasSub (toLower u) (loadShortcut (findRegexpShortcut parts tree)) = true := by
  rcases loadShortcut_cases (findRegexpShortcut parts tree) with h0 | h0 <;> rw [h0]
  · exact hasSub_nil _
  · simp only [findRegexpShortcut]
    cases tree with
    | none =>
      rcases pickLongest_sound parts [] with h0 | ⟨l, hl, _⟩
      · simp only [h0]; exact hasSub_nil _
      · simp at hl
    | some t =>
      rcases pickLongest_sound parts t.requiredLits with h0 | ⟨l, hl, hsub⟩
      · simp only [h0]; exact hasSub_nil _
      · exact hasSub_trans (search_covered t c u (hcov t rfl) h l hl) hsub

/-- The property at the level of `Match`: if the shortcut is a factor of the lower-cased URL whenever
    the pattern accepts, the result of `Match` is the same as with the shortcut test removed. -/
theorem c05 (ext : Ext) (r : NetRule) (q : Request)
    (h : matchPattern ext r q = true → hasSub q.urlLower r.shortcut = true) :
    r.matches ext q = ({ r with shortcut := [] } : NetRule).matches ext q := by
  have hp : matchPattern ext ({ r with shortcut := [] } : NetRule) q = matchPattern ext r q := rfl
  simp only [NetRule.matches, hp, matchShortcut, hasSub_nil]
  cases hm : matchPattern ext r q with
  | false => simp
  | true => simp only [h hm, Bool.true_and, Bool.and_true]; rfl

/-- Regex rules.  `tree` is the parse tree `findRegexpShortcut` consults, `parts` the (arbitrary)
    candidates; the pattern oracle accepts a target only if a compiled expression `c` that covers the
    tree's required literals accepts it.  Requests are well formed: `URLLowerCase = ToLower(URL)` and, for hostname requests, the
    hostname is a factor of the URL (`"http://" + hostname`). -/
theorem c05_regex_rule (ext : Ext) (r : NetRule) (q : Request) (parts : List Bytes) (tree : Option Re)
    (hshort : r.shortcut = loadShortcut (findRegexpShortcut parts tree))
    (hpat : ∀ target, ext.pat r.pattern (r.isEnabled Facts.OptionMatchCase) target = true →
      ∃ c, (∀ t, tree = some t → litsCovered t c = true) ∧ search c target = true)
    (hlower : q.urlLower = toLower q.url)
    (hhost : q.isHostnameRequest = true → hasSub q.url q.hostname = true) :
    r.matches ext q = ({ r with shortcut := [] } : NetRule).matches ext q := by
  apply c05
  intro hm
  simp only [matchPattern] at hm
  obtain ⟨c, hcov, hs⟩ := hpat _ hm
  have hsc := c05_regex_shortcut parts tree c _ hcov hs
  rw [hshort, hlower]
  refine hasSub_trans (hasSub_toLower ?_) hsc
  split
  · rename_i hs
    apply hhost
    simp only [shouldMatchHostname] at hs
    split at hs
    · simp at hs
    · rename_i hq; simpa using hq
  · exact hasSub_refl _

/-- The same inside the model: the pattern oracle is the regex model `regexPat` (`parseRE` + `search`)
    and the tree is the model's parse of the text between the slashes.  (`$match-case` rules whose text
    itself starts with `(?i)` need no special hypothesis: `parseCore` has no flag groups, so the tree is
    `none`, nothing is required and the shortcut is empty -- `parseCore_of_hasPrefix_ci`; in Go the text
    heuristics bail out on the `?`.) -/
theorem c05_regex_model (ext : Ext) (r : NetRule) (q : Request) (parts : List Bytes)
    (hext : ∀ p mc t, ext.pat p mc t = (regexPat p mc t).getD false)
    (hshort : r.shortcut = loadShortcut (findRegexpShortcut parts (parseCore ((r.pattern.drop 1).dropLast))))
    (hlower : q.urlLower = toLower q.url)
    (hhost : q.isHostnameRequest = true → hasSub q.url q.hostname = true) :
    r.matches ext q = ({ r with shortcut := [] } : NetRule).matches ext q := by
  apply c05_regex_rule ext r q parts _ hshort _ hlower hhost
  intro target ht
  rw [hext] at ht
  unfold regexPat regexRuleText at ht
  generalize (r.pattern.drop 1).dropLast = inner at ht ⊢
  split at ht
  · simp at ht
  · cases hmc : r.isEnabled Facts.OptionMatchCase with
    | false =>
      rw [hmc] at ht
      simp only [Bool.false_eq_true, if_false, parseRE_ci] at ht
      cases hp : parseCore inner with
      | none => rw [hp] at ht; simp at ht
      | some t =>
        rw [hp] at ht
        refine ⟨t.foldCase, ?_, by simpa [searchFast_eq] using ht⟩
        intro t' ht'; cases ht'; exact litsCovered_foldCase t
    | true =>
      rw [hmc] at ht
      simp only [if_true] at ht
      cases hci : hasPrefix inner ciPrefix with
      | true =>
        -- the text itself starts with `(?i)`: the tree is `none`, nothing has to be covered
        have hnone := parseCore_of_hasPrefix_ci hci
        cases hp : parseRE inner with
        | none => rw [hp] at ht; simp at ht
        | some c =>
          rw [hp] at ht
          refine ⟨c, ?_, by simpa [searchFast_eq] using ht⟩
          intro t' ht'; rw [hnone] at ht'; cases ht'
      | false =>
        simp only [parseRE, hci, Bool.false_eq_true, if_false] at ht
        cases hp : parseCore inner with
        | none => rw [hp] at ht; simp at ht
        | some t =>
          rw [hp] at ht
          -- the compiled expression is Go's tree of the text (`goTree`: the textbook tree up to the
          -- fold flags `parser.factor` mixes up); it requires what the textbook tree requires
          cases hg : goTree inner t with
          | none => rw [Option.bind_some, hg] at ht; simp at ht
          | some c =>
            rw [Option.bind_some, hg] at ht
            refine ⟨c, ?_, by simpa [searchFast_eq] using ht⟩
            intro t' ht'; cases ht'; exact litsCovered_goTree hg

/-- Mask rules, part 1: the `IndexAny` loop of `findShortcut` never panics (its slice expressions are
    checked in the model) … -/
theorem c05_mask_total (p : Bytes) : findShortcut p ≠ none := by
  obtain ⟨r, h, _⟩ := findShortcut_inv p
  simp [h]

/-- … and returns the empty string or a maximal run of the pattern free of `*`, `^`, `|`. -/
theorem c05_mask_run (p w : Bytes) (h : findShortcut p = some w) : w = [] ∨ IsMaskRun p w := by
  obtain ⟨r, h', hr⟩ := findShortcut_inv p
  rw [h] at h'
  cases h'
  exact hr

/-- Mask rules, part 2: whenever the compiled expression is a concatenation in which the run `w`
    appears as its literal atoms (with or without case folding), the stored shortcut
    (`loadShortcut w`, lower-cased, at least two bytes) is a factor of every accepted lower-cased subject. -/
theorem c05_mask_atoms (as bs : List Re) (fold : Bool) (w u : Bytes)
    (h : search (mkCat (as ++ litAtoms fold w ++ bs)) u = true) :
    hasSub (toLower u) (loadShortcut w) = true := by
  rcases loadShortcut_cases w with h0 | h0 <;> rw [h0]
  · exact hasSub_nil _
  · exact search_litAtoms as bs fold w u h

/-- Mask rules at the level of `Match`.  The hypothesis `hcompiled` is the interface to the mask
    compiler (C03, `maskAst`): the pattern oracle accepts a target only if a concatenation containing
    the literal atoms of the shortcut's run accepts it. -/
theorem c05_mask_rule (ext : Ext) (r : NetRule) (q : Request) (w : Bytes)
    (hfind : findShortcut r.pattern = some w)
    (hshort : r.shortcut = loadShortcut w)
    (hcompiled : ∀ target, ext.pat r.pattern (r.isEnabled Facts.OptionMatchCase) target = true →
      ∃ as bs fold, search (mkCat (as ++ litAtoms fold w ++ bs)) target = true)
    (hlower : q.urlLower = toLower q.url)
    (hhost : q.isHostnameRequest = true → hasSub q.url q.hostname = true) :
    (w = [] ∨ IsMaskRun r.pattern w) ∧
    r.matches ext q = ({ r with shortcut := [] } : NetRule).matches ext q := by
  refine ⟨c05_mask_run _ _ hfind, ?_⟩
  apply c05
  intro hm
  simp only [matchPattern] at hm
  obtain ⟨as, bs, fold, hs⟩ := hcompiled _ hm
  have hsc := c05_mask_atoms as bs fold w _ hs
  rw [hshort, hlower]
  refine hasSub_trans (hasSub_toLower ?_) hsc
  split
  · rename_i hs
    apply hhost
    simp only [shouldMatchHostname] at hs
    split at hs
    · simp at hs
    · rename_i hq; simpa using hq
  · exact hasSub_refl _

/-! ### Non-vacuity -/

/-- `/ab(c\d)+/` accepts `xABc7`, its required literals are `ab` and `c`; both occur in `xabc7`. -/
example :
    let r : Re := .cat (.lit (lit "ab") false) (.plus (.grp (.cat (.lit (lit "c") false) (.cls false [(48, 57)] false))))
    search r.foldCase (lit "xABc7") = true ∧ requiredLits r = [lit "ab", lit "c"] ∧
      hasSub (toLower (lit "xABc7")) (lit "ab") = true := by decide

/-- The D4 replay: for `/foo|barbaz/` the unrepaired heuristic kept `barbaz`; the tree requires
    nothing, `barbaz` is not justified, and the URL `http://x.com/foo` is accepted but lacks it. -/
example :
    let tree : Re := .alt (.lit (lit "foo") false) (.lit (lit "barbaz") false)
    requiredLits tree = [] ∧ shortcutJustified (lit "barbaz") tree = false ∧
      search tree.foldCase (lit "http://x.com/foo") = true ∧
      hasSub (lit "http://x.com/foo") (lit "barbaz") = false ∧
      findRegexpShortcut [lit "foo", lit "barbaz"] (some tree) = [] := by decide

/-- `foojs+`: the merged runs see `foojs`, the plain required literals only `fooj` and `s`. -/
example :
    let r : Re := .cat (.lit (lit "fooj") true) (.plus (.lit (lit "S") true))
    shortcutJustifiedRuns (lit "foojs") r = true ∧ shortcutJustified (lit "foojs") r = false := by decide

/-- `findShortcut "||example.org^*banner"` = `example.org`, a maximal run. -/
example : findShortcut (lit "||example.org^*banner") = some (lit "example.org") := by decide

end UF.C05

import UF.Spec.Priority
import UF.Proofs.Priority
import UF.Proofs.PriorityExamples
/-
  C07 — rule priority is a strict weak order; the winner is never outranked.
  Property theorems only (helper lemmas live in UF/Proofs/Priority.lean).  Every theorem is about
  ALL rule records (any masks, any lists), not about a pool.

  `$redirect` is read by `IsHigherPriority` but cannot be set from rule text on this tree
  (`loadOption` has no case for it); the model carries the bit and the theorems cover it.
-/
namespace UF.C07
open UF

/-- The model of `IsHigherPriority` is "greater" in the lexicographic order of
    `key r = (class, $redirect, domain-specific, number of modifiers)`. -/
theorem higher_iff (a b : NetRule) : isHigherPriority a b = true ↔ (pkey a).gt (pkey b) :=
  higher_iff_key a b

/-- No rule outranks itself. -/
theorem c07_irrefl (a : NetRule) : isHigherPriority a a = false := by
  rw [higher_false_iff]; exact PKey.gt_irrefl _

/-- Two rules never outrank each other. -/
theorem c07_asymm (a b : NetRule) (h : isHigherPriority a b = true) : isHigherPriority b a = false := by
  rw [higher_false_iff]; exact PKey.gt_asymm _ _ ((higher_iff a b).mp h)

/-- The relation is transitive. -/
theorem c07_trans (a b c : NetRule) (h1 : isHigherPriority a b = true) (h2 : isHigherPriority b c = true) :
    isHigherPriority a c = true := by
  rw [higher_iff] at *; exact PKey.gt_trans _ _ _ h1 h2

/-- Ties are transitive: if neither of `a, b` outranks the other and neither of `b, c`, then
    neither of `a, c`. -/
theorem c07_incomp_trans (a b c : NetRule)
    (hab : isHigherPriority a b = false) (hba : isHigherPriority b a = false)
    (hbc : isHigherPriority b c = false) (hcb : isHigherPriority c b = false) :
    isHigherPriority a c = false ∧ isHigherPriority c a = false := by
  simp only [higher_false_iff] at *
  exact PKey.incomp_trans _ _ _ hab hba hbc hcb

/-- Ties are exactly "same key": consistent with the documented criteria. -/
theorem c07_tie_iff (a b : NetRule) :
    (isHigherPriority a b = false ∧ isHigherPriority b a = false) ↔ pkey a = pkey b := by
  rw [higher_false_iff, higher_false_iff]
  constructor
  · intro ⟨h1, h2⟩; exact PKey.incomp_eq _ _ h1 h2
  · intro h; rw [h]; exact ⟨PKey.gt_irrefl _, PKey.gt_irrefl _⟩

/-- The verdict class decides first: a rule of a higher class outranks any rule of a lower one. -/
theorem c07_class_first (a b : NetRule) (h : classRank a > classRank b) : isHigherPriority a b = true := by
  rw [higher_iff]; exact Or.inl h

/-- Within a class (and equal `$redirect`), domain-specific beats generic. -/
theorem c07_specific_over_generic (a b : NetRule) (hc : classRank a = classRank b)
    (hr : a.redirect = b.redirect) (ha : a.isGeneric = false) (hb : b.isGeneric = true) :
    isHigherPriority a b = true := by
  rw [higher_iff]; unfold PKey.gt pkey; simp [hc, hr, ha, hb]

/-! #### adding a modifier makes the rule strictly higher than the original -/

/-- Enabling ANY option bit that is not yet set (`$important`, `$third-party`, `$popup`, …, also the
    unreachable `$redirect`) makes the rule strictly higher than the original. -/
theorem c07_add_option (r : NetRule) (k : Nat) (h : r.enabled.testBit k = false) :
    isHigherPriority { r with enabled := r.enabled ||| 2 ^ k } r = true := by
  have himp : ({ r with enabled := r.enabled ||| 2 ^ k } : NetRule).important =
      (r.important || decide (k = 2)) := by
    show (((r.enabled ||| 2 ^ k) &&& 2 ^ 2) == 2 ^ 2) = (((r.enabled &&& 2 ^ 2) == 2 ^ 2) || decide (k = 2))
    rw [isEnabled_or_two_pow, and_two_pow_beq]
  have hred : ({ r with enabled := r.enabled ||| 2 ^ k } : NetRule).redirect =
      (r.redirect || decide (k = 18)) := by
    show (((r.enabled ||| 2 ^ k) &&& 2 ^ 18) == 2 ^ 18) = (((r.enabled &&& 2 ^ 18) == 2 ^ 18) || decide (k = 18))
    rw [isEnabled_or_two_pow, and_two_pow_beq]
  have hcnt : modifierCount { r with enabled := r.enabled ||| 2 ^ k } = modifierCount r + 1 := by
    unfold modifierCount; simp only [popCount_or_two_pow k r.enabled h]; omega
  have hi2 : k = 2 → r.important = false := by
    intro hk; subst hk
    show ((r.enabled &&& 2 ^ 2) == 2 ^ 2) = false
    rw [and_two_pow_beq]; exact h
  have hr18 : k = 18 → r.redirect = false := by
    intro hk; subst hk
    show ((r.enabled &&& 2 ^ 18) == 2 ^ 18) = false
    rw [and_two_pow_beq]; exact h
  rw [higher_iff]
  unfold PKey.gt pkey classRank
  have hgen : ({ r with enabled := r.enabled ||| 2 ^ k } : NetRule).isGeneric = r.isGeneric := rfl
  simp only [himp, hred, hcnt, hgen]
  by_cases hk2 : k = 2
  · have := hi2 hk2
    simp only [hk2, this, decide_true, Bool.or_true]
    cases r.whitelist <;> simp
  · by_cases hk18 : k = 18
    · have := hr18 hk18
      simp only [hk18, this]
      cases r.whitelist <;> cases r.important <;> simp
    · simp only [hk2, hk18, decide_false, Bool.or_false]
      cases r.whitelist <;> cases r.important <;> cases r.redirect <;> cases r.isGeneric <;> simp

/-- Disabling an option (`$~third-party`, `$~match-case`, …) that was not yet disabled. -/
theorem c07_add_disabled_option (r : NetRule) (k : Nat) (h : r.disabled.testBit k = false) :
    isHigherPriority { r with disabled := r.disabled ||| 2 ^ k } r = true := by
  refine higher_of_count _ _ (by rfl) (by rfl) (by rfl) ?_
  unfold modifierCount; simp only [popCount_or_two_pow k r.disabled h]; omega

/-- Adding a permitted content type (`$script`, `$image`, …) not yet listed. -/
theorem c07_add_content_type (r : NetRule) (k : Nat) (h : r.permTypes.testBit k = false) :
    isHigherPriority { r with permTypes := r.permTypes ||| 2 ^ k } r = true := by
  refine higher_of_count _ _ (by rfl) (by rfl) (by rfl) ?_
  unfold modifierCount; simp only [popCount_or_two_pow k r.permTypes h]; omega

/-- Adding a restricted content type (`$~script`, …) not yet listed. -/
theorem c07_add_restricted_content_type (r : NetRule) (k : Nat) (h : r.restrTypes.testBit k = false) :
    isHigherPriority { r with restrTypes := r.restrTypes ||| 2 ^ k } r = true := by
  refine higher_of_count _ _ (by rfl) (by rfl) (by rfl) ?_
  unfold modifierCount; simp only [popCount_or_two_pow k r.restrTypes h]; omega

/-- Adding `$domain=` with a permitted domain to a rule without permitted domains (the rule becomes
    domain-specific). -/
theorem c07_add_domain (r : NetRule) (ds : List Bytes) (h : r.permDomains = []) (hds : ds ≠ []) :
    isHigherPriority { r with permDomains := ds } r = true := by
  refine c07_specific_over_generic _ _ (by rfl) (by rfl) ?_ ?_
  · cases ds with
    | nil => exact absurd rfl hds
    | cons d ds => rfl
  · simp [NetRule.isGeneric, h]

/-- Adding `$domain=~…` (restricted domains only) to a rule without `$domain`. -/
theorem c07_add_restricted_domain (r : NetRule) (ds : List Bytes) (h1 : r.permDomains = [])
    (h2 : r.restrDomains = []) (hds : ds ≠ []) :
    isHigherPriority { r with restrDomains := ds } r = true := by
  refine higher_of_count _ _ (by rfl) (by rfl) (by rfl) ?_
  cases ds with
  | nil => exact absurd rfl hds
  | cons d ds => unfold modifierCount; simp [h1, h2]

/-- Adding `$dnstype=` (permitted or restricted) to a rule without `$dnstype`. -/
theorem c07_add_dnstype (r : NetRule) (p q : List Nat) (h1 : r.permDns = []) (h2 : r.restrDns = [])
    (hpq : p ≠ [] ∨ q ≠ []) :
    isHigherPriority { r with permDns := p, restrDns := q } r = true := by
  refine higher_of_count _ _ (by rfl) (by rfl) (by rfl) ?_
  have : (p.length != 0 || q.length != 0) = true := by
    rcases hpq with h | h
    · cases p with
      | nil => exact absurd rfl h
      | cons => simp
    · cases q with
      | nil => exact absurd rfl h
      | cons => simp
  unfold modifierCount; simp [h1, h2, this]

/-- Adding `$ctag=` to a rule without `$ctag`. -/
theorem c07_add_ctag (r : NetRule) (p q : List Bytes) (h1 : r.permTags = []) (h2 : r.restrTags = [])
    (hpq : p ≠ [] ∨ q ≠ []) :
    isHigherPriority { r with permTags := p, restrTags := q } r = true := by
  refine higher_of_count _ _ (by rfl) (by rfl) (by rfl) ?_
  have : (p.length != 0 || q.length != 0) = true := by
    rcases hpq with h | h
    · cases p with
      | nil => exact absurd rfl h
      | cons => simp
    · cases q with
      | nil => exact absurd rfl h
      | cons => simp
  unfold modifierCount; simp [h1, h2, this]

/-- Adding `$client=` to a rule without clients. -/
theorem c07_add_client (r : NetRule) (p q : Option Clients) (h1 : Clients.len r.permClients = 0)
    (h2 : Clients.len r.restrClients = 0) (hpq : Clients.len p ≠ 0 ∨ Clients.len q ≠ 0) :
    isHigherPriority { r with permClients := p, restrClients := q } r = true := by
  refine higher_of_count _ _ (by rfl) (by rfl) (by rfl) ?_
  have : (Clients.len p != 0 || Clients.len q != 0) = true := by
    rcases hpq with h | h <;> simp [h]
  unfold modifierCount; simp [h1, h2, this]

/-- Adding `$denyallow=` to a rule without it. -/
theorem c07_add_denyallow (r : NetRule) (ds : List Bytes) (h : r.denyallow = []) (hds : ds ≠ []) :
    isHigherPriority { r with denyallow := ds } r = true := by
  refine higher_of_count _ _ (by rfl) (by rfl) (by rfl) ?_
  cases ds with
  | nil => exact absurd rfl hds
  | cons d ds => unfold modifierCount; simp [h]

/-- Adding a modifier — of any kind — makes the rule strictly higher than the original (and, by
    `c07_asymm`, the original not higher than the new rule). -/
theorem c07_add_modifier (r r' : NetRule) (h : AddsModifier r r') :
    isHigherPriority r' r = true ∧ isHigherPriority r r' = false := by
  have key : isHigherPriority r' r = true := by
    cases h with
    | option k h => exact c07_add_option r k h
    | disabledOption k h => exact c07_add_disabled_option r k h
    | contentType k h => exact c07_add_content_type r k h
    | restrictedContentType k h => exact c07_add_restricted_content_type r k h
    | domain ds h hds => exact c07_add_domain r ds h hds
    | restrictedDomain ds h1 h2 hds => exact c07_add_restricted_domain r ds h1 h2 hds
    | dnstype p q h1 h2 hpq => exact c07_add_dnstype r p q h1 h2 hpq
    | ctag p q h1 h2 hpq => exact c07_add_ctag r p q h1 h2 hpq
    | client p q h1 h2 hpq => exact c07_add_client r p q h1 h2 hpq
    | denyallow ds h hds => exact c07_add_denyallow r ds h hds
  exact ⟨key, c07_asymm _ _ key⟩

/-! #### the selected rule -/

/-- The rule selected by the replace-if-higher scan is a candidate that no candidate outranks. -/
theorem c07_selected_maximal (rs : List NetRule) (w : NetRule) (h : selectBest rs = some w) :
    w ∈ rs ∧ ∀ r ∈ rs, isHigherPriority r w = false := by
  have := fold_max rs w h
  exact ⟨this.1, fun r hr => (higher_false_iff r w).mpr (this.2 r hr)⟩

/-- A non-empty candidate list always has a selected rule. -/
theorem c07_selected_exists (rs : List NetRule) (h : rs ≠ []) : ∃ w, selectBest rs = some w :=
  selectBest_isSome rs h

/-- For every permutation of the candidates the selected rule has the same key, i.e. it is the same
    up to ties. -/
theorem c07_perm (rs rs' : List NetRule) (h : rs.Perm rs') :
    (selectBest rs).map pkey = (selectBest rs').map pkey :=
  selectBest_key_congr rs rs' (fun _ => h.mem_iff)

/-- … and the two selected rules tie. -/
theorem c07_perm_tie (rs rs' : List NetRule) (h : rs.Perm rs') (w w' : NetRule)
    (hw : selectBest rs = some w) (hw' : selectBest rs' = some w') :
    isHigherPriority w w' = false ∧ isHigherPriority w' w = false := by
  have := c07_perm rs rs' h
  rw [hw, hw'] at this
  exact (c07_tie_iff w w').mpr (by simpa using this)

/-! #### generated-fact obligation (go/ast over the current rules/network.go) -/

/-- `IsHigherPriority` reads the same fields and calls the same methods on both operands (the D6
    defect read `permittedClients`, `restrictedClients`, `denyAllowDomains` from the receiver only). -/
theorem c07_fact_symmetric_reads : Facts.higherPriorityReadsF = Facts.higherPriorityReadsR := by decide

/-! #### non-vacuity and the old shape (D6) -/


/-- The repaired relation orders the D6 pair one way only; a three-element chain exists. -/
example : isHigherPriority exB exA = true ∧ isHigherPriority exA exB = false ∧
    isHigherPriority exA exC = true ∧ isHigherPriority exB exC = true ∧
    isHigherPriority exC exD = false ∧ isHigherPriority exD exC = false := by decide

/-- The pinned tree's shape (D6) is NOT asymmetric on the replay input of DESIGN §5: the two rules
    outrank each other … -/
example : isHigherPriorityOld exA exB = true ∧ isHigherPriorityOld exB exA = true := by decide

/-- … and `$client` is counted for the left operand only: `$dnstype=A` outranks `$client=a` although
    both carry one modifier. -/
example : isHigherPriorityOld exD exC = true ∧ isHigherPriorityOld exC exD = false ∧
    modifierCount exC = modifierCount exD := by decide

/-- `c07_add_modifier` is not vacuous: `$important` added to the D6 rule. -/
example : AddsModifier exA { exA with enabled := exA.enabled ||| 2 ^ 2 } := .option 2 (by decide)

/-- `selectBest` on a non-trivial list: the winner is the domain-specific rule in both orders. -/
example : selectBest [exA, exB, exC] = some exB ∧ selectBest [exC, exB, exA] = some exB := by decide

end UF.C07

import UF.Compose.NetRules
import UF.Props.C15
/-
  C15 COMPOSED (integration group I1): the cosmetic engine from the BYTES of the lists.

  Group B proved C15 for an abstract list `L` of cosmetic rules under the parser guarantee `CosDomainsWF`
  (no permitted domain is empty).  Here `L` is what the storage scan (group D) yields with the real parser
  model (group E's `NewRule` / `NewCosmeticRule` / `loadDomains` with the "," separator), and the guarantee
  is PROVED from the model of `loadDomains` + `IsDomainName`.
  Property theorems only (helper lemmas live in UF/Compose).
-/
namespace UF.C15
open UF UF.B UF.Storage UF.Compose

/-- `NewCosmeticRule`: every permitted domain passed `IsDomainName` or ends in `.*`; hence it is not
    empty and does not end in a dot. -/
theorem c15_parser_domains (trim : Bytes → Bytes) (t : Bytes) (id : Int) (c : CosRule)
    (h : E.newCosmeticRule trim t id = .ok c) : ∀ d ∈ c.permDomains, d ≠ [] ∧ d.getLast? ≠ some (ch '.') :=
  newCosmeticRule_good h

/-- Hypothesis `CosDomainsWF` of `c15`, discharged for the cosmetic rules of a storage. -/
theorem c15_storage_domainsWF (px : E.ParseExt) (lists : List RList) :
    CosDomainsWF (storageCosRules px lists) := storageCosRules_wf px lists

/-- The list the cosmetic engine is built from is, in order, the list of cosmetic rules obtained by
    splitting the contents at newlines and parsing every piece (lists with `IgnoreCosmetic` contribute none). -/
theorem c15_storage_rules (px : E.ParseExt) (lists : List RList) :
    storageCosRules px lists = cosRulesOf (specRules px lists) := by
  unfold storageCosRules; rw [storageRules_eq_spec]

/-- C15 END TO END: for all list contents, ids, hostnames, flag combinations and public-suffix oracles, the
    generic and specific selector lists of the engine built from the scanned lists have exactly the
    members of the reference lists over the rules parsed line by line. -/
theorem c15_storage (px : E.ParseExt) (lists : List RList) (host : Bytes)
    (includeCSS includeJS includeGenericCSS : Bool) :
    (∀ c, c ∈ ((CosTable.build (storageCosRules px lists)).matchHost px.ext host includeCSS includeJS includeGenericCSS).1 ↔
          c ∈ (specCosmetic px.ext (cosRulesOf (specRules px lists)) host includeCSS includeJS includeGenericCSS).1) ∧
    (∀ c, c ∈ ((CosTable.build (storageCosRules px lists)).matchHost px.ext host includeCSS includeJS includeGenericCSS).2 ↔
          c ∈ (specCosmetic px.ext (cosRulesOf (specRules px lists)) host includeCSS includeJS includeGenericCSS).2) := by
  rw [← c15_storage_rules]
  exact c15 px.ext (storageCosRules px lists) host includeCSS includeJS includeGenericCSS
    (storageCosRules_wf px lists)

/-- A cosmetic rule of the reference, spelled out. -/
theorem c15_storage_lines (px : E.ParseExt) (lists : List RList) (c : CosRule) :
    c ∈ storageCosRules px lists ↔ ∃ l ∈ lists, l.ignoreCosmetic = false ∧ ∃ piece ∈ splitLines l.content,
      E.newRule (realRx px) piece l.id = .ok (some (.cos c)) := by
  rw [c15_storage_rules, mem_cosRulesOf, mem_specRules]
  constructor
  · rintro ⟨l, hl, piece, hp, hn, hc⟩
    exact ⟨l, hl, by simpa [isCos] using hc, piece, hp, hn⟩
  · rintro ⟨l, hl, hi, piece, hp, hn⟩
    exact ⟨l, hl, piece, hp, hn, by simp [isCos, hi]⟩

/-! ### Non-vacuity -/

private def exPx : E.ParseExt :=
  { ext := { psl := fun _ => (lit "org", true), parseAddr := fun _ => none,
             parsePrefix := fun _ => none, pat := fun _ _ _ => true },
    loadDNSRewrite := fun _ => none, regexpShortcut := fun _ => [] }

private def exLists : List RList :=
  [⟨1, false, lit "e.org,~x.e.org##.banner\r\n##.ad\n! c\n||a^\nexample.*#@#.ad\n.,##.bad", false⟩,
   ⟨2, true, lit "##.ignored\n", false⟩]

example : (storageCosRules exPx exLists).map (fun c => (c.text, c.permDomains, c.restrDomains, c.whitelist)) =
    [(lit "e.org,~x.e.org##.banner", [lit "e.org"], [lit "x.e.org"], false), (lit "##.ad", [], [], false),
     (lit "example.*#@#.ad", [lit "example.*"], [], true)] := by decide +kernel

end UF.C15

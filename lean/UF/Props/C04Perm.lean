import UF.Compose5.Perm
import UF.Props.C04Text
/-
  C04, "THE ORDER IN WHICH VALUES ARE WRITTEN INSIDE A MODIFIER NEVER MATTERS" at text level, PROVED (group P2,
  REVIEW2 F11).  `c04_text_ref_order` (Props/C04Text.lean) ASSUMES that the two references agree (`hsame`); here
  that is a theorem:

    * `c04_spec_perm`       the parser-independent reference `specMatchText` is invariant under `ModsPerm` —
                            permuting the modifier list and permuting the values inside `$domain`, `$denyallow`,
                            `$dnstype`, `$ctag`, `$client` — with NO side condition (the reference reads every family
                            as a set);
    * `c04_spec_sameMeaning` … more generally under `ModSpec.sameMeaning` (same flags, same value SETS: duplicates too);
    * `c04_text_ref_perm`   hence two rule texts that differ by such a permutation parse to rules that match the same
                            requests.  The grammar-domain hypothesis `modsOK` is needed for ONE of the texts only
                            (`c04_modsOK_perm`: it is invariant), and the pattern-domain hypothesis for one of the
                            rules only (both store the same pattern).
    * `c04_perm_once_needed`  `modsOK`'s "each value-carrying modifier at most once" cannot be dropped on the parser
                            side: with `$domain` written twice the parser keeps the LAST one, so swapping the two
                            modifiers changes what the rule matches, while the reference (union) does not change.
  Only property theorems and non-vacuity examples here; helper lemmas live in UF/Compose5/Perm.lean.
-/
namespace UF.C04
open UF Bytes UF.I2 UF.L

/-- The reference is invariant under permutation of modifiers and of values — no side condition. -/
theorem c04_spec_perm (ext : Ext) (pat : Bytes) (ms ms' : List Mod) (h : ModsPerm ms ms') (q : Request) :
    specMatchText ext pat (ModSpec.ofMods ms) q = specMatchText ext pat (ModSpec.ofMods ms') q :=
  specMatchText_perm ext pat h q

/-- … and, more generally, depends on the meaning only through its flags and its value SETS. -/
theorem c04_spec_sameMeaning (ext : Ext) (pat : Bytes) (s s' : ModSpec) (h : s.sameMeaning s' = true) (q : Request) :
    specMatchText ext pat s q = specMatchText ext pat s' q :=
  specMatchText_sameMeaning ext pat h q

/-- The executable check `modsPermB` is sound for the relation. -/
theorem c04_modsPermB_sound (ms ms' : List Mod) (h : modsPermB ms ms' = true) : ModsPerm ms ms' :=
  modsPermB_sound ms ms' h

/-- The grammar domain does not depend on the order of modifiers or values. -/
theorem c04_modsOK_perm (ms ms' : List Mod) (h : ModsPerm ms ms') : modsOK ms = modsOK ms' :=
  modsOK_perm h

/-- VALUE ORDER (AND MODIFIER ORDER) NEVER MATTERS, at text level, without assuming it: two modifier lists
    related by `ModsPerm`, rendered with the same pattern, give rules that match the same requests. -/
theorem c04_text_ref_perm (px : E.ParseExt) (wl : Bool) (pat : Bytes) (ms ms' : List Mod) (id id' : Int)
    (r r' : NetRule) (q : Request) (hp : patOK pat = true) (hm : modsOK ms = true) (hperm : ModsPerm ms ms')
    (h : E.parseNetRule px (render wl pat ms) id = .ok r)
    (h' : E.parseNetRule px (render wl pat ms') id' = .ok r') (hq : q.InDomain)
    (hd : MaskDomain r.pattern (specTarget r q))
    (hlower : q.urlLower = toLower q.url)
    (hhost : q.isHostnameRequest = true → hasSub q.url q.hostname = true) :
    r.matches (withModelPat px.ext) q = r'.matches (withModelPat px.ext) q := by
  have hm' : modsOK ms' = true := by rw [← modsOK_perm hperm]; exact hm
  have hpat := (c04_grammar_pattern px wl pat ms id r hp hm h).2
  have hpat' := (c04_grammar_pattern px wl pat ms' id' r' hp hm' h').2
  have hd' : MaskDomain r'.pattern (specTarget r' q) := by
    rw [specTarget_pattern r' q, hpat', ← hpat, ← specTarget_pattern r q]
    exact hd
  rw [c04_text_ref px wl pat ms id r q hp hm h hq hd hlower hhost,
    c04_text_ref px wl pat ms' id' r' q hp hm' h' hq hd' hlower hhost]
  exact specMatchText_perm px.ext pat hperm q

/-! ### Non-vacuity -/

private def exPx : E.ParseExt :=
  { ext := { psl := fun _ => (lit "com", true), parseAddr := fun _ => none,
             parsePrefix := fun _ => none, pat := fun _ _ _ => true },
    loadDNSRewrite := fun _ => none, regexpShortcut := fun _ => [] }

private def exMods : List Mod :=
  [.domain [(false, lit "a.com"), (true, lit "b.a.com"), (false, lit "c.com")], .ctype false .script, .thirdParty true,
   .ctag [(false, lit "pc"), (true, lit "kid")], .client [(false, lit "tv"), (false, lit "10.0.0.0/8")]]

/-- the same modifiers in another order, the values of `$domain`, `$ctag`, `$client` in another order -/
private def exMods' : List Mod :=
  [.client [(false, lit "10.0.0.0/8"), (false, lit "tv")], .thirdParty true,
   .domain [(false, lit "c.com"), (false, lit "a.com"), (true, lit "b.a.com")],
   .ctag [(true, lit "kid"), (false, lit "pc")], .ctype false .script]

example : render false (lit "||example.org^") exMods =
    lit "||example.org^$domain=a.com|~b.a.com|c.com,script,~first-party,ctag=pc|~kid,client=tv|10.0.0.0/8" ∧
  render false (lit "||example.org^") exMods' =
    lit "||example.org^$client=10.0.0.0/8|tv,~first-party,domain=c.com|a.com|~b.a.com,ctag=~kid|pc,script" := by decide

/-- The hypotheses of `c04_text_ref_perm` hold for them: related (checked by `modsPermB`), in the grammar domain,
    both texts accepted by the parser model. -/
example : ModsPerm exMods exMods' := modsPermB_sound _ _ (by decide)
example : patOK (lit "||example.org^") = true ∧ modsOK exMods = true := by decide
example : (E.parseNetRule exPx (render false (lit "||example.org^") exMods) 1).toOption.isSome = true ∧
    (E.parseNetRule exPx (render false (lit "||example.org^") exMods') 2).toOption.isSome = true := by
  decide +kernel

/-- `sameMeaning` also identifies a value written twice with the value written once. -/
example : (ModSpec.ofMods [.domain [(false, lit "a.com"), (false, lit "a.com")]]).sameMeaning
    (ModSpec.ofMods [.domain [(false, lit "a.com")]]) = true := by decide

private def exQ : Request :=
  { url := lit "http://example.org/", urlLower := lit "http://example.org/", hostname := lit "example.org",
    sourceHostname := lit "a.com", reqType := Facts.TypeScript, thirdParty := true }

/-- "AT MOST ONCE" IS NEEDED ON THE PARSER SIDE: `$domain=a.com,domain=b.com` and `$domain=b.com,domain=a.com` are
    permutations of one another; the parser keeps the LAST `$domain`, so for a request from `a.com` the first rule
    does not match and the second does — while the reference (which reads the union) says `true` for both. -/
theorem c04_perm_once_needed :
    let ms : List Mod := [.domain [(false, lit "a.com")], .domain [(false, lit "b.com")]]
    let ms' : List Mod := [.domain [(false, lit "b.com")], .domain [(false, lit "a.com")]]
    ms.Perm ms' ∧ modsOK ms = false ∧
    (E.parseNetRule exPx (render false (lit "||example.org^") ms) 1).toOption.map (fun r => r.matches exPx.ext exQ) = some false ∧
    (E.parseNetRule exPx (render false (lit "||example.org^") ms') 1).toOption.map (fun r => r.matches exPx.ext exQ) = some true ∧
    specMatchText exPx.ext (lit "||example.org^") (ModSpec.ofMods ms) exQ =
      specMatchText exPx.ext (lit "||example.org^") (ModSpec.ofMods ms') exQ := by
  refine ⟨List.Perm.swap _ _ _, by decide, by decide +kernel, by decide +kernel, ?_⟩
  exact specMatchText_perm _ _ (.perm (List.Perm.swap _ _ _)) _

end UF.C04

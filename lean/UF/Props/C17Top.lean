import UF.Compose3.Request
import UF.Compose3.DnsTop
import UF.Props.C17
/-
  C17 AT THE TOP LEVEL (integration group I3): the requests the two public entry points actually match —
  `Engine.MatchRequest(NewRequest(url, src, t))` (the request and the referrer document request it builds) and
  `DNSEngine.MatchRequest(dReq)` (the refilled pooled request) — agree with the reference of C17 (URL grammar
  host, public suffix plus one label, third-party) on the property's URL grammar.
  Property theorems only (helper lemmas live in UF/Compose3).
-/
namespace UF.H
open UF Bytes UF.Compose3

/-- The request and the referrer request of `Engine.MatchRequest` on the URL grammar: both are the reference
    requests (`refRequest`), the referrer one being "the source URL as a `document` request without source";
    so the top-level result is the engine's answer for the REFERENCE requests. -/
theorem c17_top_web (ext : Ext) (scheme host tail sscheme shost stail : Bytes) (t : Nat)
    (hu : goodURLParts scheme host tail = true) (hs : goodURLParts sscheme shost stail = true)
    (hlen : (scheme ++ lit "://" ++ host ++ tail).length ≤ Facts.maxURLLength)
    (hslen : (sscheme ++ lit "://" ++ shost ++ stail).length ≤ Facts.maxURLLength)
    (hn : noEmptyLabel host = true) (hp : pslIsDotSuffix ext host)
    (hsn : noEmptyLabel shost = true) (hsp : pslIsDotSuffix ext shost) :
    refRequest ext (scheme ++ lit "://" ++ host ++ tail) (sscheme ++ lit "://" ++ shost ++ stail) t =
      some (requestOf ext (scheme ++ lit "://" ++ host ++ tail) (sscheme ++ lit "://" ++ shost ++ stail) t) ∧
    refRequest ext (sscheme ++ lit "://" ++ shost ++ stail) [] Facts.TypeDocument =
      some (sourceRequestOf ext
        (requestOf ext (scheme ++ lit "://" ++ host ++ tail) (sscheme ++ lit "://" ++ shost ++ stail) t)) ∧
    (requestOf ext (scheme ++ lit "://" ++ host ++ tail) (sscheme ++ lit "://" ++ shost ++ stail) t).hostname = host ∧
    (requestOf ext (scheme ++ lit "://" ++ host ++ tail) (sscheme ++ lit "://" ++ shost ++ stail) t).sourceHostname = shost ∧
    (sourceRequestOf ext
      (requestOf ext (scheme ++ lit "://" ++ host ++ tail) (sscheme ++ lit "://" ++ shost ++ stail) t)).hostname = shost := by
  obtain ⟨q, hq, href, hh, hsh⟩ := c17_request_eq_ref ext scheme host tail sscheme shost stail t hu hs hlen hslen hn hp hsn hsp
  have e : requestOf ext (scheme ++ lit "://" ++ host ++ tail) (sscheme ++ lit "://" ++ shost ++ stail) t = q := by
    have := requestOf_eq ext (scheme ++ lit "://" ++ host ++ tail) (sscheme ++ lit "://" ++ shost ++ stail) t
    rw [hq] at this
    exact (Except.ok.inj this).symm
  obtain ⟨q', hq', href', hh', _⟩ := c17_request_eq_ref_nosrc ext sscheme shost stail Facts.TypeDocument hs hslen hsn hsp
  have hsrc : (requestOf ext (scheme ++ lit "://" ++ host ++ tail) (sscheme ++ lit "://" ++ shost ++ stail) t).sourceURL =
      sscheme ++ lit "://" ++ shost ++ stail := by
    rw [(requestOf_fields ext _ _ t).2.2.1, List.take_of_length_le hslen]
  have e' : sourceRequestOf ext
      (requestOf ext (scheme ++ lit "://" ++ host ++ tail) (sscheme ++ lit "://" ++ shost ++ stail) t) = q' := by
    unfold sourceRequestOf
    rw [hsrc]
    have := requestOf_eq ext (sscheme ++ lit "://" ++ shost ++ stail) [] Facts.TypeDocument
    rw [hq'] at this
    exact (Except.ok.inj this).symm
  rw [e']
  rw [e]
  exact ⟨href, href', hh, hsh, hh'⟩

/-- The referrer request for EVERY input (no grammar): its URL is the capped source URL, its hostname the
    request's source hostname (what `$domain` reads), it has no source and is never third-party. -/
theorem c17_top_source (ext : Ext) (url src : Bytes) (t : Nat) :
    (sourceRequestOf ext (requestOf ext url src t)).url = src.take Facts.maxURLLength ∧
    (sourceRequestOf ext (requestOf ext url src t)).hostname = (requestOf ext url src t).sourceHostname ∧
    (sourceRequestOf ext (requestOf ext url src t)).sourceURL = [] ∧
    (sourceRequestOf ext (requestOf ext url src t)).sourceHostname = [] ∧
    (sourceRequestOf ext (requestOf ext url src t)).reqType = Facts.TypeDocument ∧
    (sourceRequestOf ext (requestOf ext url src t)).thirdParty = false := by
  obtain ⟨g1, g2, g3, g4, g5, g6⟩ := sourceRequestOf_fields ext url src t
  exact ⟨by rw [g1, (requestOf_fields ext url src t).2.2.1], g2, g3, g4, g5, g6⟩

/-- The request of `DNSEngine.MatchRequest`: for a hostname without empty labels (PSL oracle answering a
    dot-suffix) its `Domain` is the reference registrable domain; its hostname is extracted back from its URL
    when it contains none of `/ : ?`. -/
theorem c17_top_dns (ext : Ext) (old : Request) (d : DReq) (hn : noEmptyLabel d.hostname = true)
    (hp : pslIsDotSuffix ext d.hostname) :
    (dnsRequestOf ext old d).hostname = d.hostname ∧
    (dnsRequestOf ext old d).domain = refDomain ext d.hostname ∧
    (dnsRequestOf ext old d).thirdParty = false ∧
    (d.hostname.all (fun c => !isStop c) = true →
      extractHostname (dnsRequestOf ext old d).url = .ok d.hostname) := by
  rw [dnsRequestOf_closed]
  refine ⟨rfl, ?_, rfl, ?_⟩
  · simp only
    have he : etld1Of ext d.hostname = (refETLD1 ext d.hostname).getD [] := by
      unfold etld1Of
      rw [etld1_spec ext d.hostname hn hp]
    rw [he]
    unfold refDomain
    cases hr : refETLD1 ext d.hostname with
    | none => simp
    | some x =>
      have := refETLD1_ne_nil ext d.hostname x hn hr
      cases x with
      | nil => exact absurd rfl this
      | cons c r => simp
  · intro hh
    have := extract_host_url (lit "http") d.hostname [] (by decide) hh (Or.inl rfl)
    simpa [lit] using this

end UF.H

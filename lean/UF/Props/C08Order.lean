import UF.Compose5.C08Order
import UF.Compose5.C08Clients
import UF.Compose2.Pat
/-
  C08, the VALUE-ORDER inconsistency of the twin relation (integration group L; review finding 8).

  The property text says a badfilter rule disables the rules "identical to it apart from the badfilter modifier
  (same exception flag, pattern and modifier values)".  The code compares the list-valued modifiers as SEQUENCES
  (`slices.Equal`, `clients.Equal`), and the parser sorts only some of them:

      $ctag, $client       sorted at parse time    ⇒  `$ctag=y|x,badfilter`  DISABLES  `$ctag=x|y`
      $domain, $denyallow,
      $dnstype             written order kept      ⇒  `$domain=b.com|a.com,badfilter` does NOT disable `$domain=a.com|b.com`

  (C04 says the order of the values never matters for MATCHING; for the twin relation it does, for three of the
  five list-valued modifiers.)  This file DOCUMENTS the behaviour of the code — model and Go agree (family
  `l.c08order`) — it does not decide which of the two is intended.

  The theorems speak about `loadOption` (the `switch` of `NetworkRule.loadOption`) applied to the modifier VALUE
  TEXT `v1|v2|…`, starting from two states `r0`, `r0$badfilter` of the rule under construction that are twins.
  Property theorems only (helper lemmas live in UF/Compose5/C08Order.lean).
-/
namespace UF.C08
open UF UF.E UF.L Bytes

/-- `$ctag`: the values written in ANY order give the same sorted lists, so the near-twin with permuted values
    is a twin: it is negated. -/
theorem c08_order_ctag_negated (px : ParseExt) (r0 r b : NetRule) (l l' : List Bytes) (hperm : l.Perm l')
    (hne : l ≠ []) (hs : sepFree (ch '|') l) (h0 : r0.badfilter = false)
    (hr : loadOption px r0 (lit "ctag") (joinSep l [ch '|']) = .ok r)
    (hb : loadOption px r0.withBadfilter (lit "ctag") (joinSep l' [ch '|']) = .ok b) :
    negatesBadfilter b r = true := by
  rw [c08_loadOption_ctag] at hr hb
  rw [← loadCTags_perm hperm hne hs] at hb
  obtain ⟨⟨p, rs⟩, e, hr⟩ := bind_ok_elim hr
  obtain ⟨⟨p', rs'⟩, e', hb⟩ := bind_ok_elim hb
  rw [e] at e'
  cases e'
  cases pure_ok_elim hr
  cases pure_ok_elim hb
  exact c08_twin_negates _ _ h0 rfl

/-- `$client`: host names AND addresses / subnets are sorted at parse time (`clients.finalize`), so the near-twin
    with permuted values is negated.  Values: non-empty, without `|` and backslash (quotes allowed).  `hz`: the
    subnets of the parsed rule carry no IPv6 zone — `comparePrefix` ties are then identical prefixes; true of
    everything the real `netip` returns here (`IsProbablyIP` admits no `%`, `ParsePrefix` rejects zones), and
    vacuous for host names. -/
theorem c08_order_client_negated (px : ParseExt) (r0 r b : NetRule) (l l' : List Bytes) (hperm : l.Perm l')
    (hne : l ≠ []) (hc : ∀ x ∈ l, x ≠ [] ∧ CleanItem (ch '|') (ch '\\') x) (h0 : r0.badfilter = false)
    (hr : loadOption px r0 (lit "client") (joinSep l [ch '|']) = .ok r)
    (hb : loadOption px r0.withBadfilter (lit "client") (joinSep l' [ch '|']) = .ok b)
    (hz : ∀ c, (r.permClients = some c ∨ r.restrClients = some c) → ∀ p ∈ c.nets, p.addr.zone = []) :
    negatesBadfilter b r = true := by
  rw [c08_loadOption_client] at hr hb
  obtain ⟨⟨p, rs⟩, e, hr⟩ := bind_ok_elim hr
  obtain ⟨⟨p', rs'⟩, e', hb⟩ := bind_ok_elim hb
  cases pure_ok_elim hr
  cases pure_ok_elim hb
  obtain ⟨q1, q2, ⟨a1, rfl⟩, ⟨a2, rfl⟩, ⟨b1, rfl⟩, ⟨b2, rfl⟩⟩ := loadClients_perm px.ext hperm hne hc e e'
  have e1 := finalize_eq_of_permEquiv q1 (fun c hc => hz c (.inl hc))
  have e2 := finalize_eq_of_permEquiv q2 (fun c hc => hz c (.inr hc))
  rw [← e1, ← e2]
  exact c08_twin_negates _ _ h0 rfl

/-- `$domain`: the written order is kept, so ANY two different value lists — two different arrangements of the
    same values included — give rules that are not twins: not negated.  (`PlainDomains`: non-empty list of
    non-empty plain values `loadDomains` accepts, without `|`.) -/
theorem c08_order_domain_not_negated (px : ParseExt) (r0 : NetRule) (l l' : List Bytes)
    (hl : PlainDomains l) (hl' : PlainDomains l') (hne : l ≠ l') :
    ∃ r b, loadOption px r0 (lit "domain") (joinSep l [ch '|']) = .ok r ∧
      loadOption px r0.withBadfilter (lit "domain") (joinSep l' [ch '|']) = .ok b ∧
      r.permDomains = l ∧ b.permDomains = l' ∧ negatesBadfilter b r = false := by
  refine ⟨{ r0 with permDomains := l, restrDomains := [] },
    { r0.withBadfilter with permDomains := l', restrDomains := [] },
    by rw [c08_loadOption_domain, loadDomains_plain l hl]; rfl,
    by rw [c08_loadOption_domain, loadDomains_plain l' hl']; rfl, rfl, rfl, ?_⟩
  apply Bool.eq_false_iff.2
  intro h
  exact hne ((negates_fields _ _).1 h).2.2.2.1.symm

/-- `$denyallow`: the same. -/
theorem c08_order_denyallow_not_negated (px : ParseExt) (r0 : NetRule) (l l' : List Bytes)
    (hl : PlainDomains l) (hl' : PlainDomains l') (hne : l ≠ l') :
    ∃ r b, loadOption px r0 (lit "denyallow") (joinSep l [ch '|']) = .ok r ∧
      loadOption px r0.withBadfilter (lit "denyallow") (joinSep l' [ch '|']) = .ok b ∧
      r.denyallow = l ∧ b.denyallow = l' ∧ negatesBadfilter b r = false := by
  have key : ∀ (r : NetRule) (m : List Bytes), PlainDomains m →
      loadOption px r (lit "denyallow") (joinSep m [ch '|']) = .ok { r with denyallow := m } := by
    intro r m hm
    rw [c08_loadOption_denyallow, loadDomains_plain m hm]
    have hlen : (m.length == 0) = false := by
      cases m with
      | nil => exact absurd rfl hm.1
      | cons => rfl
    simp only [bind, Except.bind, List.length_nil, Nat.lt_irrefl, decide_false, hlen, Bool.or_self,
      Bool.false_eq_true, if_false]
    rfl
  refine ⟨{ r0 with denyallow := l }, { r0.withBadfilter with denyallow := l' }, key r0 l hl,
    key _ l' hl', rfl, rfl, ?_⟩
  apply Bool.eq_false_iff.2
  intro h
  exact hne ((negates_fields _ _).1 h).2.2.2.2.2.1.symm

/-- `$dnstype`: the same, for the lists of record type NUMBERS (two spellings of one type are the same value).
    (`PlainTypes l f`: non-empty list of non-empty plain names, `strToRRType s = f s`.) -/
theorem c08_order_dnstype_not_negated (px : ParseExt) (r0 : NetRule) (l l' : List Bytes) (f : Bytes → Nat)
    (hl : PlainTypes l f) (hl' : PlainTypes l' f) (hne : l.map f ≠ l'.map f) :
    ∃ r b, loadOption px r0 (lit "dnstype") (joinSep l [ch '|']) = .ok r ∧
      loadOption px r0.withBadfilter (lit "dnstype") (joinSep l' [ch '|']) = .ok b ∧
      r.permDns = l.map f ∧ b.permDns = l'.map f ∧ negatesBadfilter b r = false := by
  refine ⟨{ r0 with permDns := l.map f, restrDns := [] },
    { r0.withBadfilter with permDns := l'.map f, restrDns := [] },
    by rw [c08_loadOption_dnstype, loadDNSTypes_plain l f hl]; rfl,
    by rw [c08_loadOption_dnstype, loadDNSTypes_plain l' f hl']; rfl, rfl, rfl, ?_⟩
  apply Bool.eq_false_iff.2
  intro h
  exact hne ((negates_fields _ _).1 h).2.2.2.2.2.2.1.symm

/-! ### the reviewer's four texts (and `$denyallow`, `$dnstype`, `$client`) through the model parser -/

private def exPx : ParseExt :=
  { ext := { psl := fun _ => (lit "com", true), parseAddr := fun _ => none,
             parsePrefix := fun _ => none, pat := I2.modelPatD },
    loadDNSRewrite := fun _ => none, regexpShortcut := fun _ => [] }

/-- `||e.com^$domain=a.com|b.com` is NOT negated by `||e.com^$domain=b.com|a.com,badfilter` (it is by the
    same order). -/
example :
    negatesText exPx (lit "||e.com^$domain=b.com|a.com,badfilter") (lit "||e.com^$domain=a.com|b.com") = some false ∧
    negatesText exPx (lit "||e.com^$domain=a.com|b.com,badfilter") (lit "||e.com^$domain=a.com|b.com") = some true := by
  decide +kernel

/-- `||e.com^$ctag=x|y` IS negated by `||e.com^$ctag=y|x,badfilter`. -/
example :
    negatesText exPx (lit "||e.com^$ctag=y|x,badfilter") (lit "||e.com^$ctag=x|y") = some true ∧
    negatesText exPx (lit "||e.com^$ctag=x|y,badfilter") (lit "||e.com^$ctag=x|y") = some true := by
  decide +kernel

example :
    negatesText exPx (lit "||e.com^$denyallow=b.com|a.com,badfilter") (lit "||e.com^$denyallow=a.com|b.com") = some false ∧
    negatesText exPx (lit "||e.com^$dnstype=AAAA|A,badfilter") (lit "||e.com^$dnstype=A|AAAA") = some false ∧
    negatesText exPx (lit "||e.com^$dnstype=a|AAAA,badfilter") (lit "||e.com^$dnstype=A|aaaa") = some true ∧
    negatesText exPx (lit "||e.com^$client=phone|'Kids-PC'|laptop,badfilter") (lit "||e.com^$client=laptop|phone|'Kids-PC'") =
      some true := by
  decide +kernel

/-- The hypotheses of the theorems are satisfiable. -/
example : PlainDomains [lit "a.com", lit "b.com"] ∧ PlainDomains [lit "b.com", lit "a.com"] ∧
    [lit "a.com", lit "b.com"] ≠ [lit "b.com", lit "a.com"] ∧
    [lit "a.com", lit "b.com"].Perm [lit "b.com", lit "a.com"] :=
  ⟨plainDomains_of_B _ (by decide +kernel), plainDomains_of_B _ (by decide +kernel), by decide, List.Perm.swap _ _ _⟩

end UF.C08

import UF.Compose2.MatchFull
import UF.Props.C04
import UF.Props.C03
import UF.Props.C05Full
/-
  C04 with the pattern PROVED (integration group I2): `NetworkRule.Match`, evaluated entirely in the
  model — the pattern oracle `Ext.pat` instantiated by `modelPat` (group A's regex model for `/regex/`
  rules, group G's model of `patternToRegexp` + `preparePattern` + `regexp` otherwise) — equals the
  reference whose pattern conjunct is the DOCUMENTED MASK LANGUAGE of the pattern (`maskAccepts`),
  for every mask rule.  Composition of `c04` (group E) with `c03` (group G).

  Domain hypotheses, explicit: the rule is well formed (what the parser produces), the request is in
  the domain of C04, the pattern is ASCII and not a `/regex/`, the target (the URL, or the hostname for
  hostname requests) is ASCII without a line feed.
  Only property theorems and non-vacuity examples here; helper lemmas are in UF/Compose2/*.lean.
-/
namespace UF.C04
open UF Bytes UF.I2

/-- C04, pattern included: for mask rules `Match` over the composed model is the full reference —
    no oracle for the pattern on either side. -/
theorem c04_full (ext : Ext) (r : NetRule) (q : Request) (hwf : r.WellFormed) (hq : q.InDomain)
    (hd : MaskDomain r.pattern (specTarget r q)) :
    r.matches { ext with pat := fun p mc u => (modelPat p mc u).getD false } q = specMatchFull ext r q := by
  have h := c04 (withModelPat ext) r q hwf hq
  rw [specMatch_withModelPat ext r q hd] at h
  exact h

/-- The pattern conjunct alone: on the mask domain the model's `matchPattern` is the documented mask
    language applied to the reference's target. -/
theorem c04_full_pattern (ext : Ext) (r : NetRule) (q : Request)
    (hd : MaskDomain r.pattern (specTarget r q)) :
    matchPattern (withModelPat ext) r q = specPatternMask r q := by
  rw [matchPattern_withModelPat, ← specTarget_eq, modelPatD_mask _ hd]
  rfl

/-- End to end from the rule TEXT: whatever `NewNetworkRule` accepts as a mask rule matches a request
    iff the full reference computed from the parsed values and the mask language of its pattern does. -/
theorem c04_full_text (px : E.ParseExt) (t : Bytes) (id : Int) (r : NetRule) (q : Request)
    (h : E.parseNetRule px t id = .ok r) (hq : q.InDomain)
    (hd : MaskDomain r.pattern (specTarget r q)) :
    r.matches (withModelPat px.ext) q = specMatchFull px.ext r q :=
  c04_full px.ext r q (E.parseNetRule_wellFormed h) hq hd

/-- For `/regex/` rules the pattern conjunct is the search of the parsed expression (group A's
    model); the modifiers are the reference's.  (`c04` instantiated; stated for completeness.) -/
theorem c04_full_regex (ext : Ext) (r : NetRule) (q : Request) (hwf : r.WellFormed) (hq : q.InDomain) :
    r.matches (withModelPat ext) q = specMatch (withModelPat ext) r q :=
  c04 (withModelPat ext) r q hwf hq

/-- The pattern of a parsed rule is the normalised pattern of the text, so the pattern conjunct of
    the reference is `ruleAccepts` of the pattern AS WRITTEN in the rule (`example.org/*` included). -/
theorem c04_full_written (px : E.ParseExt) (t : Bytes) (id : Int) (r : NetRule) (q : Request)
    (h : E.parseNetRule px t id = .ok r) :
    ∃ pat opts wl, E.parseRuleText t = .ok (pat, opts, wl) ∧ r.whitelist = wl ∧
      specPatternMask r q = MaskSpec.ruleAccepts pat (r.isEnabled Facts.OptionMatchCase) (specTarget r q) := by
  obtain ⟨pat, opts, wl, hp, hpat, hwl, _⟩ := parseNetRule_pattern h
  exact ⟨pat, opts, wl, hp, hwl, by unfold specPatternMask MaskSpec.ruleAccepts; rw [hpat]⟩

/-- C03 + C04 + C05 + C12 composed, from the rule TEXT, with no oracle but `netip`/`publicsuffix`: a
    mask rule that `NewNetworkRule` accepts matches a well-formed request of the domain iff every
    modifier holds (set-membership reference) and the documented mask language of its pattern accepts
    the target — the shortcut pre-check has disappeared from the statement. -/
theorem c04_full_end_to_end (px : E.ParseExt) (t : Bytes) (id : Int) (r : NetRule) (q : Request)
    (h : E.parseNetRule px t id = .ok r) (hq : q.InDomain)
    (hd : MaskDomain r.pattern (specTarget r q))
    (hlower : q.urlLower = toLower q.url)
    (hhost : q.isHostnameRequest = true → hasSub q.url q.hostname = true) :
    r.matches (withModelPat px.ext) q = specMatchNoShortcut px.ext r q := by
  rw [C05.c05_text_full px t id r q h hd.notRegex hlower hhost]
  have hwf := E.parseNetRule_wellFormed h
  have hwf' : ({ r with shortcut := [] } : NetRule).WellFormed :=
    ⟨hwf.permTags, hwf.restrTags, hwf.permHosts, hwf.restrHosts⟩
  have := c04_full px.ext ({ r with shortcut := [] } : NetRule) q hwf' hq hd
  rw [show (withModelPat px.ext) = { px.ext with pat := fun p mc u => (modelPat p mc u).getD false } from rfl, this]
  exact specMatchFull_noShortcut px.ext r q

/-- The full reference does not mention the pattern oracle at all. -/
theorem c04_full_no_oracle (ext : Ext) (f : Bytes → Bool → Bytes → Bool) (r : NetRule) (q : Request) :
    specMatchFull { ext with pat := f } r q = specMatchFull ext r q := rfl

/-! ### Non-vacuity -/

private def exExt : Ext :=
  { psl := fun _ => (lit "org", true), parseAddr := fun _ => none, parsePrefix := fun _ => none,
    pat := fun _ _ _ => false }

private def exRule : NetRule :=
  { pattern := lit "||example.org^", shortcut := lit "example.org", permDomains := [lit "site.org"] }

private def exReq : Request :=
  { url := lit "https://sub.example.org/x", urlLower := lit "https://sub.example.org/x",
    hostname := lit "sub.example.org", sourceHostname := lit "www.site.org", reqType := 4 }

/-- The domain hypotheses are satisfiable by an ordinary rule and request, and both sides say `true`
    (`false` for a source host outside `$domain`). -/
example : MaskDomain exRule.pattern (specTarget exRule exReq) :=
  { notRegex := by decide, patAscii := by decide, tgtAscii := by decide,
    noLF := by unfold Mask.NoNL; decide }
example : exRule.matches (withModelPat exExt) exReq = true := by decide
example : specMatchFull exExt exRule exReq = true := by decide
example : specMatchFull exExt exRule { exReq with sourceHostname := lit "other.org" } = false := by decide
example : specMatchFull exExt exRule { exReq with url := lit "https://notexample.org/x" } = false := by decide

end UF.C04

import UF.Compose3.CosRaw
import UF.Props.C16Top
import UF.Props.C06TopMore
/-
  C16 FROM RAW INPUTS, with content (group P1; second adversarial review, m2).

  `c16_top` of Props/C16Top.lean is true of any `Option NetRule` (its hypotheses are not used).  The statements
  here START from the raw inputs — the bytes of the lists, the URL string, the source-URL string, the type — and
  use every hypothesis:

  * `c16_top_raw`: the cosmetic option `Engine.MatchRequest(NewRequest(url, src, t)).GetCosmeticOption()` is
      - everything, when no line of the lists is a web candidate for the request, or the winner blocks;
      - otherwise the reference option `specCosmeticOption true` of the modifiers WRITTEN IN THE TEXT of the winner,
    where the winner is the basic rule the engine model computes and is characterised from the reference sets
    alone: a line of the lists that matches the request, is a web candidate (effective; not special-purpose; not
    suppressed by the referrer's `$urlblock` / `$genericblock`) and is outranked by no web candidate (C01 + C06 +
    C07 + C16 composed).  (When two exceptions TIE under the priority order the engine keeps the first in table
    order — the statement says "a maximal candidate", which is exact.)
  * and each of the three bits is OFF ONLY IF the winner's text carries the corresponding modifier — in fact iff:
    CSS ⇔ `$elemhide` or `$document`, generic CSS ⇔ `$elemhide`, `$document` or `$generichide`,
    JS ⇔ `$jsinject` or `$document` (`c16_text_bits` for any rule text, inside `c16_top_raw` for the winner).
  Property theorems only (helper lemmas live in UF/Compose3).
-/
namespace UF.C16
open UF UF.B UF.Storage UF.Compose UF.Compose3

/-- The three bits of the option of ANY exception rule text `NewNetworkRule` accepts, read off the named
    modifiers written in its options part: a bit is off iff one of the modifiers that disable it is written. -/
theorem c16_text_bits (px : E.ParseExt) (t : Bytes) (id : Int) (r : NetRule)
    (h : E.parseNetRule px t id = .ok r) (hw : r.whitelist = true) :
    ∃ pat opts, E.parseRuleText t = .ok (pat, opts, true) ∧
      getCosmeticOption (some r) = specCosmeticOption true (textCosMods opts) ∧
      ((getCosmeticOption (some r) &&& cosCSS ≠ cosCSS) ↔
        (CosMod.elemhide ∈ textCosMods opts ∨ CosMod.document ∈ textCosMods opts)) ∧
      ((getCosmeticOption (some r) &&& cosGenericCSS ≠ cosGenericCSS) ↔
        (CosMod.elemhide ∈ textCosMods opts ∨ CosMod.document ∈ textCosMods opts ∨
          CosMod.generichide ∈ textCosMods opts)) ∧
      ((getCosmeticOption (some r) &&& cosJS ≠ cosJS) ↔
        (CosMod.jsinject ∈ textCosMods opts ∨ CosMod.document ∈ textCosMods opts)) := by
  exact cosmeticOption_text_bits h hw

/-- C16 FROM RAW INPUTS.  For all list contents, ids, backings, cache histories, URL strings, source-URL strings
    and types, with `L` / `S` the lines of the lists that match the request / the referrer document request:
    EITHER no line is a web candidate and every cosmetic option is on,
    OR the basic rule `b` of the result is a maximal web candidate among `L` that BLOCKS, and every option is on,
    OR `b` is a maximal web candidate among `L` that is an EXCEPTION, and the option is the reference option of the
    named modifiers written in `b`'s text — CSS off iff `elemhide`/`document` is written, generic CSS off iff
    `elemhide`/`document`/`generichide` is, JS off iff `jsinject`/`document` is. -/
theorem c16_top_raw (io : IO) (px : E.ParseExt) (lists : List RList) (hok : StorageOK lists)
    (st : RuleStorage) (hnew : newRuleStorage lists = some st) (history history' : List (BitVec 64))
    (url sourceURL : Bytes) (reqType : Nat) :
    let q := requestOf px.ext url sourceURL reqType
    let L := matchingLines px lists q
    let S := sourceMatchingLines px lists q
    let m := engineMatchRequest io px lists st history history' url sourceURL reqType
    let opt := getCosmeticOption m.basicRule
    (m.basicRule = none ∧ (∀ c ∈ L, webCandidate L S c = false) ∧ opt = cosAll) ∨
    (∃ b, m.basicRule = some b ∧ b ∈ L ∧ webCandidate L S b = true ∧
      (∀ c ∈ L, webCandidate L S c = true → isHigherPriority c b = false) ∧
      ((b.whitelist = false ∧ opt = cosAll) ∨
       (b.whitelist = true ∧
        ∃ pat opts, E.parseRuleText b.text = .ok (pat, opts, true) ∧
          opt = specCosmeticOption true (textCosMods opts) ∧
          ((opt &&& cosCSS ≠ cosCSS) ↔
            (CosMod.elemhide ∈ textCosMods opts ∨ CosMod.document ∈ textCosMods opts)) ∧
          ((opt &&& cosGenericCSS ≠ cosGenericCSS) ↔
            (CosMod.elemhide ∈ textCosMods opts ∨ CosMod.document ∈ textCosMods opts ∨
              CosMod.generichide ∈ textCosMods opts)) ∧
          ((opt &&& cosJS ≠ cosJS) ↔
            (CosMod.jsinject ∈ textCosMods opts ∨ CosMod.document ∈ textCosMods opts))))) := by
  intro q L S m opt
  exact cosmeticOption_of_winner px L S m.basicRule
    (engineMatch_basic_winner io px lists hok st hnew history history' (requestOf px.ext url sourceURL reqType))
    (fun b hb => allNet_parse (List.mem_filter.1 hb).1)

/-- The same for `NetworkEngine.Match` (no referrer): the rule it returns decides the option the same way. -/
theorem c16_top_raw_netmatch (io : IO) (px : E.ParseExt) (lists : List RList) (hok : StorageOK lists)
    (st : RuleStorage) (hnew : newRuleStorage lists = some st) (history : List (BitVec 64)) (r : Request)
    (b : NetRule) (hb : networkEngineMatch io px lists st history r = some b) (hw : b.whitelist = true) :
    b ∈ matchingLines px lists r ∧
    ∃ pat opts, E.parseRuleText b.text = .ok (pat, opts, true) ∧
      getCosmeticOption (networkEngineMatch io px lists st history r) = specCosmeticOption true (textCosMods opts) := by
  obtain ⟨w1, _, _⟩ := C06.c06_top_netmatch_winner io px lists hok st hnew history r b hb
  refine ⟨w1, ?_⟩
  rw [hb]
  exact c16_text px b.text b.listID b (allNet_parse (List.mem_filter.1 w1).1) hw

/-! ### Non-vacuity: each of the three alternatives of `c16_top_raw` occurs -/

private def exPx : E.ParseExt :=
  { ext := { psl := fun _ => (lit "org", true), parseAddr := fun _ => none,
             parsePrefix := fun _ => none, pat := I2.modelPatD },
    loadDNSRewrite := fun _ => none, regexpShortcut := fun _ => [] }

private def exLists : List RList :=
  [⟨1, false, lit "||ads.org^\n@@||site.org^$generichide,jsinject\n@@||doc.org^$document,~extension\n##.ad", false⟩]

example : StorageOK exLists := ⟨by decide, by decide, by decide⟩

/-- No candidate: everything on.  A blocking winner: everything on.  The exception `$generichide,jsinject`:
    generic CSS and JS off, CSS on.  The exception `$document,~extension`: all three off (`~extension` and the
    other bits of `$document` switch nothing off). -/
example :
    let o := fun (u : String) =>
      let m := engineMatchRequest ⟨4096, fun _ => 1⟩ exPx exLists ⟨exLists, []⟩ [] [] (lit u) [] 1
      (m.basicRule.map (·.text), getCosmeticOption m.basicRule)
    o "http://other.org/" = (none, cosAll) ∧
    o "http://ads.org/" = (some (lit "||ads.org^"), cosAll) ∧
    o "http://site.org/" = (some (lit "@@||site.org^$generichide,jsinject"), cosCSS) ∧
    o "http://doc.org/" = (some (lit "@@||doc.org^$document,~extension"), 0) ∧
    textCosMods (lit "generichide,jsinject") = [.generichide, .jsinject] ∧
    textCosMods (lit "document,~extension") = [.document] := by
  decide +kernel

end UF.C16

import UF.Compose5.TextRefW
import UF.Compose5.Perm
import UF.Props.C04Text
/-
  C04 AT TEXT LEVEL, WIDER GRAMMAR (group P2, REVIEW2 F11).  `Props/C04Text.lean` states `Match` = the
  parser-independent reference `specMatchText` for the grammar of UF/Compose5/Grammar.lean, which excluded three
  shapes the property's grammar contains.  UF/Compose5/GrammarW.lean adds them as DATA (`ModW`, `CVal`, `renderW`,
  `ModSpec.ofModsW`), and here the same theorems are proved for them:

    * QUOTED CLIENT NAMES  `$client='Kids-PC'`, `$client="Frank's phone"|~'Mary\'s laptop'`: a value is a bare
      address / subnet / name or a quoted name; the MEANING of a quoted value is the name itself (quotes removed,
      `\'` → `'`), whatever it contains except `,` `|` `\` `$`;
    * PATTERNS BEGINNING WITH `/` that are not regex rules (`/banner.gif$image`): `patOKW` + `slashOK`
      ("the text after `@@` is not of the form `/…/`");
    * `~extension`: it TOGGLES the extension bit (rules/network.go: "Depends on options order, this is not good"), so
      its meaning is a left-to-right reading (`extensionOn`); `c04_wide_notExtension_order` shows that for it the
      order of the MODIFIERS matters (in the parser model, in Go and in the reference alike), and
      `c04_wide_notExtension_alone` that `$~extension` on its own SWITCHES THE OPTION ON.

  DOMAIN (hypotheses; executable as `patOKW`, `slashOK`, `modsOKW`):
    * pattern: non-empty, first byte not `@`, no `$`, no backslash; the text after `@@` not both starting and ending
      with `/`;
    * modifiers: as in C04Text (each value-carrying modifier at most once — `$client` counted over both spellings);
      quoted names non-empty and free of `,` `|` `\` `$` (a comma or pipe would have to be escaped too, which the
      grammar does not do; `~`, blanks, and both quote characters are allowed).
  Still outside: escaped commas / pipes in names, the empty pattern, `$dnsrewrite` (C09/C10), `/regex/` rules
  (`c04_regex_some`).
  Only property theorems and non-vacuity examples here; helper lemmas live in UF/Compose5/*W.lean.
-/
namespace UF.C04
open UF Bytes UF.I2 UF.L

/-- The wider grammar EXTENDS the one of C04Text: on modifiers of the old grammar rendering and meaning coincide. -/
theorem c04_wide_extends (wl : Bool) (pat : Bytes) (ms : List Mod) :
    renderW wl pat (ms.map .base) = render wl pat ms ∧ ModSpec.ofModsW (ms.map .base) = ModSpec.ofMods ms :=
  ⟨renderW_base wl pat ms, ofModsW_base ms⟩

/-- ALL FAMILIES, wider grammar: the parsed record in terms of the meaning of the modifiers. -/
theorem c04_wide_grammar (px : E.ParseExt) (wl : Bool) (pat : Bytes) (ms : List ModW) (id : Int) (r : NetRule)
    (hp : patOKW pat = true) (hs : slashOK pat ms = true) (hm : modsOKW ms = true)
    (h : E.parseNetRule px (renderW wl pat ms) id = .ok r) :
    ParsedAs px.ext wl (ModSpec.ofModsW ms) r :=
  parsedAs_of_parseW hp hs hm h

/-- `$client` with quoted names: the stored client sets are those of the NAMES (and addresses, subnets) the values
    denote — quotes and escapes are spelling. -/
theorem c04_wide_grammar_client (px : E.ParseExt) (wl : Bool) (pat : Bytes) (pre post : List ModW)
    (vs : List (Bool × CVal)) (id : Int) (r : NetRule)
    (hp : patOKW pat = true) (hs : slashOK pat (pre ++ .clientQ vs :: post) = true)
    (hm : modsOKW (pre ++ .clientQ vs :: post) = true)
    (h : E.parseNetRule px (renderW wl pat (pre ++ .clientQ vs :: post)) id = .ok r) :
    (∀ name ip, specClientIn r.permClients name ip =
      (ModSpec.ofModsW (pre ++ .clientQ vs :: post)).permClients.any (clientValMatches px.ext name ip)) ∧
    (∀ name ip, specClientIn r.restrClients name ip =
      (ModSpec.ofModsW (pre ++ .clientQ vs :: post)).restrClients.any (clientValMatches px.ext name ip)) ∧
    (∀ v ∈ vs, v.1 = false → v.2.value ∈ (ModSpec.ofModsW (pre ++ .clientQ vs :: post)).permClients) ∧
    (∀ v ∈ vs, v.1 = true → v.2.value ∈ (ModSpec.ofModsW (pre ++ .clientQ vs :: post)).restrClients) := by
  have hpa := parsedAs_of_parseW hp hs hm h
  refine ⟨fun name ip => ?_, fun name ip => ?_, fun v hv hneg => ?_, fun v hv hneg => ?_⟩
  · rw [hpa.permClients, specClientIn_clientsOf]
  · rw [hpa.restrClients, specClientIn_clientsOf]
  · show v.2.value ∈ (narrow (pre ++ .clientQ vs :: post)).flatMap (fun m => posVals m.clientVals)
    refine List.mem_flatMap.2 ⟨.client (vs.map (fun v => (v.1, v.2.value))), ?_, ?_⟩
    · exact List.mem_filterMap.2 ⟨.clientQ vs, by simp, rfl⟩
    · show v.2.value ∈ posVals (vs.map (fun v => (v.1, v.2.value)))
      rw [posVals_map]
      exact List.mem_map.2 ⟨v.2, List.mem_map.2 ⟨v, List.mem_filter.2 ⟨hv, by simp [hneg]⟩, rfl⟩, rfl⟩
  · show v.2.value ∈ (narrow (pre ++ .clientQ vs :: post)).flatMap (fun m => negVals m.clientVals)
    refine List.mem_flatMap.2 ⟨.client (vs.map (fun v => (v.1, v.2.value))), ?_, ?_⟩
    · exact List.mem_filterMap.2 ⟨.clientQ vs, by simp, rfl⟩
    · show v.2.value ∈ negVals (vs.map (fun v => (v.1, v.2.value)))
      rw [negVals_map]
      exact List.mem_map.2 ⟨v.2, List.mem_map.2 ⟨v, List.mem_filter.2 ⟨hv, by simp [hneg]⟩, rfl⟩, rfl⟩

/-- The pattern and the split of the text, wider grammar — in particular for patterns beginning with `/`. -/
theorem c04_wide_grammar_pattern (px : E.ParseExt) (wl : Bool) (pat : Bytes) (ms : List ModW) (id : Int) (r : NetRule)
    (hp : patOKW pat = true) (hs : slashOK pat ms = true) (hm : modsOKW ms = true)
    (h : E.parseNetRule px (renderW wl pat ms) id = .ok r) :
    E.parseRuleText (renderW wl pat ms) = .ok (pat, optsTextW ms, wl) ∧ r.pattern = MaskSpec.normalize pat := by
  have h1 := parseRuleText_renderW (wl := wl) hp hs (modsOKW_vals hm)
  obtain ⟨pat', opts, wl', hprt, hpat, _, _⟩ := parseNetRule_pattern h
  rw [h1] at hprt
  cases hprt
  exact ⟨h1, hpat⟩

/-- C04 FROM STRUCTURED MODIFIERS TO `Match`, WIDER GRAMMAR: for every pattern of the wider domain (patterns
    beginning with `/` included), every list of wide modifiers (quoted client names, `~extension` included) in any
    order, and every request of the domain, whatever `NewNetworkRule` accepts for the rendered text matches the
    request iff `specMatchText` says so on the meaning `ModSpec.ofModsW ms`. -/
theorem c04_wide_text_ref (px : E.ParseExt) (wl : Bool) (pat : Bytes) (ms : List ModW) (id : Int) (r : NetRule)
    (q : Request) (hp : patOKW pat = true) (hs : slashOK pat ms = true) (hm : modsOKW ms = true)
    (h : E.parseNetRule px (renderW wl pat ms) id = .ok r) (hq : q.InDomain)
    (hd : MaskDomain r.pattern (specTarget r q))
    (hlower : q.urlLower = toLower q.url)
    (hhost : q.isHostnameRequest = true → hasSub q.url q.hostname = true) :
    r.matches (withModelPat px.ext) q = specMatchText px.ext pat (ModSpec.ofModsW ms) q := by
  rw [c04_full_end_to_end px _ id r q h hq hd hlower hhost]
  exact noShortcut_eq_textW hp hs hm h q hq.oneType

/-- VALUE ORDER, SPELLING AND DUPLICATES never matter, wider grammar: two wide modifier lists whose meanings agree
    up to `ModSpec.sameMeaning` (decidable: same flags, same value SETS) — e.g. `$client='tv'|10.0.0.1` and
    `$client=10.0.0.1|"tv"` — rendered with the same pattern, give rules that match the same requests. -/
theorem c04_wide_text_ref_sameMeaning (px : E.ParseExt) (wl : Bool) (pat : Bytes) (ms ms' : List ModW) (id id' : Int)
    (r r' : NetRule) (q : Request) (hp : patOKW pat = true)
    (hs : slashOK pat ms = true) (hs' : slashOK pat ms' = true)
    (hm : modsOKW ms = true) (hm' : modsOKW ms' = true)
    (hsame : (ModSpec.ofModsW ms).sameMeaning (ModSpec.ofModsW ms') = true)
    (h : E.parseNetRule px (renderW wl pat ms) id = .ok r)
    (h' : E.parseNetRule px (renderW wl pat ms') id' = .ok r') (hq : q.InDomain)
    (hd : MaskDomain r.pattern (specTarget r q))
    (hlower : q.urlLower = toLower q.url)
    (hhost : q.isHostnameRequest = true → hasSub q.url q.hostname = true) :
    r.matches (withModelPat px.ext) q = r'.matches (withModelPat px.ext) q := by
  have hpat := (c04_wide_grammar_pattern px wl pat ms id r hp hs hm h).2
  have hpat' := (c04_wide_grammar_pattern px wl pat ms' id' r' hp hs' hm' h').2
  have hd' : MaskDomain r'.pattern (specTarget r' q) := by
    rw [specTarget_pattern r' q, hpat', ← hpat, ← specTarget_pattern r q]
    exact hd
  rw [c04_wide_text_ref px wl pat ms id r q hp hs hm h hq hd hlower hhost,
    c04_wide_text_ref px wl pat ms' id' r' q hp hs' hm' h' hq hd' hlower hhost]
  exact specMatchText_sameMeaning px.ext pat hsame q

/-! ### Non-vacuity -/

private def exPx : E.ParseExt :=
  { ext := { psl := fun _ => (lit "com", true), parseAddr := fun _ => none,
             parsePrefix := fun _ => none, pat := fun _ _ _ => true },
    loadDNSRewrite := fun _ => none, regexpShortcut := fun _ => [] }

/-- the property's own example `'Kids-PC'`, a double-quoted name with an apostrophe and a blank, a negated
    single-quoted name with an ESCAPED apostrophe, and a bare name -/
private def exClients : ModW :=
  .clientQ [(false, .quoted false (lit "Kids-PC")), (false, .quoted true (lit "Frank's phone")),
            (true, .quoted false (lit "Mary's laptop")), (false, .plain (lit "tv"))]

private def exMods : List ModW := [.base (.ctype false .image), exClients, .base (.thirdParty false)]

/-- The rendering is the text a filter author writes (a pattern beginning with `/`, quoted names); it is in the
    domain; the parser model accepts it. -/
example : renderW false (lit "/banner.gif") exMods =
    lit "/banner.gif$image,client='Kids-PC'|\"Frank's phone\"|~'Mary\\'s laptop'|tv,third-party" := by decide
example : patOKW (lit "/banner.gif") = true ∧ patOK (lit "/banner.gif") = false ∧
    slashOK (lit "/banner.gif") exMods = true ∧ modsOKW exMods = true := by decide
example : (E.parseNetRule exPx (renderW false (lit "/banner.gif") exMods) 1).toOption.isSome = true := by
  decide +kernel

/-- The meaning: image, third-party, three permitted client names and one excluded — the NAMES, without quotes
    and escapes. -/
example : ModSpec.ofModsW exMods =
    { thirdParty := true, permTypes := [.image],
      permClients := [lit "Kids-PC", lit "Frank's phone", lit "tv"], restrClients := [lit "Mary's laptop"] } := by
  decide

/-- The parser model stores exactly those names (sorted), and the reference decides requests by client name. -/
example :
    (E.parseNetRule exPx (renderW false (lit "/banner.gif") exMods) 1).toOption.map
        (fun r => (r.pattern, r.permClients.map (·.hosts), r.restrClients.map (·.hosts))) =
      some (lit "/banner.gif", some [lit "Frank's phone", lit "Kids-PC", lit "tv"], some [lit "Mary's laptop"]) ∧
    specModsText exPx.ext (ModSpec.ofModsW exMods)
      { reqType := Facts.TypeImage, thirdParty := true, clientName := lit "Frank's phone" } = true ∧
    specModsText exPx.ext (ModSpec.ofModsW exMods)
      { reqType := Facts.TypeImage, thirdParty := true, clientName := lit "Mary's laptop" } = false ∧
    specModsText exPx.ext (ModSpec.ofModsW exMods)
      { reqType := Facts.TypeImage, thirdParty := true, clientName := lit "'Kids-PC'" } = false := by
  decide +kernel

/-- `sameMeaning` across spellings and orders of `$client` values. -/
example : (ModSpec.ofModsW [.clientQ [(false, .quoted false (lit "tv")), (false, .plain (lit "10.0.0.1"))]]).sameMeaning
    (ModSpec.ofModsW [.clientQ [(false, .plain (lit "10.0.0.1")), (false, .quoted true (lit "tv"))]]) = true := by
  decide

/-- `slashOK` is needed: `/banner/$image` would be fine (it does not END with `/`), `/banner$client=x/` is read as a
    regex rule without options. -/
example : slashOK (lit "/banner") [.clientQ [(false, .plain (lit "x/"))]] = false ∧
    (E.parseRuleText (lit "/banner$client=x/")).toOption = some (lit "/banner$client=x/", [], false) := by
  decide +kernel

private def exQ (t : Nat) : Request :=
  { url := lit "http://example.org/", urlLower := lit "http://example.org/", hostname := lit "example.org",
    sourceHostname := lit "a.com", reqType := t, thirdParty := true }

/-- `~extension`: THE ORDER OF THE MODIFIERS MATTERS.  `@@||example.org^$extension,~extension` has the extension
    bit off and matches a script request; `@@||example.org^$~extension,extension` has it on, is therefore a
    document-only rule and does not — in the parser + matcher model and in the reference alike (and in Go). -/
theorem c04_wide_notExtension_order :
    let ms : List ModW := [.base (.opt .extension), .notExtension]
    let ms' : List ModW := [.notExtension, .base (.opt .extension)]
    ms.Perm ms' ∧ modsOKW ms = true ∧ modsOKW ms' = true ∧
    (E.parseNetRule exPx (renderW true (lit "||example.org^") ms) 1).toOption.map
        (fun r => r.matches exPx.ext (exQ Facts.TypeScript)) = some true ∧
    (E.parseNetRule exPx (renderW true (lit "||example.org^") ms') 1).toOption.map
        (fun r => r.matches exPx.ext (exQ Facts.TypeScript)) = some false ∧
    specModsText exPx.ext (ModSpec.ofModsW ms) (exQ Facts.TypeScript) = true ∧
    specModsText exPx.ext (ModSpec.ofModsW ms') (exQ Facts.TypeScript) = false := by
  refine ⟨List.Perm.swap _ _ _, by decide, by decide, by decide +kernel, by decide +kernel, by decide, by decide⟩

/-- `$~extension` on its own ENABLES the option (0 xor bit = bit): the blocking rule `||example.org^$~extension`
    is a document-only rule — it does not match a script request and does match a document request. -/
theorem c04_wide_notExtension_alone :
    (ModSpec.ofModsW [.notExtension]).docOnly = true ∧
    (E.parseNetRule exPx (renderW false (lit "||example.org^") [.notExtension]) 1).toOption.map
        (fun r => (r.matches exPx.ext (exQ Facts.TypeScript), r.matches exPx.ext (exQ Facts.TypeDocument))) =
      some (false, true) := by
  refine ⟨by decide, by decide +kernel⟩

end UF.C04

import UF.Proofs.MaskText
/-
  C03 — "Compiled basic patterns accept exactly the documented mask language."
  Only property theorems and non-vacuity examples here; helper lemmas are in UF/Proofs/Mask*.lean.
-/
namespace UF.C03
open UF UF.Mask UF.MaskSpec

/-- (C) `patternToRegexp` never panics (all byte strings; true since the D2 repair, commit 88e6866). -/
theorem c03_nopanic : ∀ p : Bytes, patternToRegexpText p ≠ none :=
  patternToRegexpText_isSome

/-- (C) for the whole path `NewNetworkRule` (`/*` rewrite) → `preparePattern`: no panic, and the
    rewrite is the normalisation the reference uses. -/
theorem c03_nopanic_rule : ∀ (p : Bytes) (mc : Bool),
    rewriteSlashStar p = some (normalize p) ∧ preparePatternText (normalize p) mc ≠ .panic :=
  fun p mc => ⟨rewriteSlashStar_eq p, preparePatternText_ne_panic _ mc⟩

/-- The pinned tree before the repair of D2 (unconditional `else` branch) panics on the one-byte
    pattern `a`: the model distinguishes the two shapes. -/
example : patternToRegexpTextOld [97] = none := by decide
example : patternToRegexpText [97] = some [97] := by decide

/-- Text level: for every pattern that is neither an any-URL pattern nor a `/regex/` (all bytes), the
    text handed to `regexp.Compile` is: start text ++ one fixed piece per body byte ++ end text. -/
theorem c03_text_closed_form : ∀ p : Bytes, isAnyPattern p = false → isRegexPattern p = false →
    patternToRegexpText p = some (maskText p) :=
  patternToRegexpText_eq

example : isAnyPattern (lit "||a.b^|") = false ∧ isRegexPattern (lit "||a.b^|") = false := by decide

end UF.C03

import UF.Proofs.MaskMain
/-
  C03 — "Compiled basic patterns accept exactly the documented mask language."

  Model: `UF/Model/Mask.lean` (text rewriting of `patternToRegexp`, `/*` rewrite, `preparePattern`),
  `UF/Model/Regex*.lean` (group A: regexp AST, parser as a left fold, matcher).
  Spec:  `UF/Spec/Mask.lean` (`tokenize`, `maskAccepts`, `ruleAccepts`).
  Only property theorems and non-vacuity examples here; helper lemmas are in UF/Proofs/Mask*.lean.

  Domain remarks (see DESIGN.md §3, §6): patterns are ASCII (`b < 128`, which includes the printable
  ASCII of the property); subjects contain no line feed (`.` of `.*` does not match `\n`; the property
  quantifies over printable ASCII subjects).

  Subjects are ASCII in every statement that is a CLAIM ABOUT THE CODE (`c03_stored`, `c03`): Go's
  `regexp` works on runes, the model (`Re.search`, `compiledAccepts`) on bytes, so for a subject with a
  byte ≥ 128 the model is not Go -- e.g. rule `||ex.org/a^b` and URL `http://ex.org/aéb`: Go's
  separator class consumes the two-byte `é` as ONE character and matches, the byte-level model does
  not (adversarial review, TOP 7).  The hypothesis `∀ b ∈ u, b < 128` is not used by the proofs: the
  model-level equalities hold for all bytes (see `c03_ast`); it delimits the domain on which the
  statement speaks about Go.  The driver answers `ood` for such subjects (`modelPat` = `none`).
-/
namespace UF.C03
open UF UF.Mask UF.MaskSpec

/-- (C) `patternToRegexp` never panics (all byte strings; true since the D2 repair, commit 88e6866). -/
theorem c03_nopanic : ∀ p : Bytes, patternToRegexpText p ≠ none :=
  patternToRegexpText_isSome

/-- (C) for the whole path `NewNetworkRule` (`/*` rewrite) → `preparePattern`: no panic, and the
    rewrite is the normalisation the reference uses. -/
theorem c03_nopanic_rule : ∀ (p : Bytes) (mc : Bool),
    rewriteSlashStar p = some (normalize p) ∧ preparePatternText (normalize p) mc ≠ .panic :=
  fun p mc => ⟨rewriteSlashStar_eq p, preparePatternText_ne_panic _ mc⟩

/-- The pinned tree before the repair of D2 (unconditional `else` branch) panics on the one-byte
    pattern `a`: the model distinguishes the two shapes. -/
example : patternToRegexpTextOld [97] = none := by decide
example : patternToRegexpText [97] = some [97] := by decide

/-- Text level: for every pattern that is neither an any-URL pattern nor a `/regex/` (ALL bytes), the
    text handed to `regexp.Compile` is: start text ++ one fixed piece per body byte ++ end text. -/
theorem c03_text_closed_form : ∀ p : Bytes, isAnyPattern p = false → isRegexPattern p = false →
    patternToRegexpText p = some (maskText p) :=
  patternToRegexpText_eq

/-- (A) The expression a mask pattern stands for accepts, under unanchored search, exactly the
    documented language (induction on the tokens).  A purely MODEL-LEVEL lemma (regexp AST semantics =
    positional mask matcher, both byte-level): it holds for every byte string `u`, but says something
    about Go's rune-based `regexp` only for ASCII `u` -- that restriction is made in `c03_stored`/`c03`. -/
theorem c03_ast : ∀ (p : MaskPat) (mc : Bool) (u : Bytes), p.isAny = false → NoNL u →
    Re.search (maskAst p mc) u = maskAccepts p mc u :=
  fun p mc u h hn => maskAst_sem p mc u h hn

/-- (B) "No character of a pattern is ever read as a regular-expression operator": for every ASCII
    pattern that is not an any-URL pattern and not a `/regex/`, with or without `$match-case`, the text
    `preparePattern` hands to `regexp.Compile` parses to exactly the expression of the pattern's tokens. -/
theorem c03_text : ∀ (p : Bytes) (mc : Bool), (∀ b ∈ p, b < 128) → isAnyPattern p = false →
    isRegexPattern p = false →
    ∃ t, preparePatternText p mc = .text t ∧ Re.parseRE t = some (maskAst (tokenize p) mc) :=
  fun p mc hp h1 h2 => prepare_parse p hp h1 h2 mc

/-- (A)+(B), for the pattern as stored in the rule: compiled matcher = documented language, for
    ASCII subjects (the domain on which the byte-level regexp model is Go's `regexp`). -/
theorem c03_stored : ∀ (p : Bytes) (mc : Bool) (u : Bytes), (∀ b ∈ p, b < 128) → (∀ b ∈ u, b < 128) →
    isRegexPattern p = false → NoNL u →
    compiledAccepts p mc u = maskAccepts (tokenize p) mc u :=
  fun p mc u hp _ h2 hn => compiledAccepts_eq p mc u hp h2 hn

/-- C03 for the pattern as written in the rule text (the trailing `/*` form included): the rule's
    compiled matcher accepts an ASCII subject `u` iff the documented mask language of the pattern does. -/
theorem c03 : ∀ (p : Bytes) (mc : Bool) (u : Bytes), (∀ b ∈ p, b < 128) → (∀ b ∈ u, b < 128) →
    isRegexPattern (normalize p) = false → NoNL u →
    ((rewriteSlashStar p).map fun s => compiledAccepts s mc u) = some (ruleAccepts p mc u) := by
  intro p mc u hp _ h2 hn
  rw [rewriteSlashStar_eq, Option.map_some, ruleAccepts,
    compiledAccepts_eq (normalize p) mc u (normalize_ascii p hp) h2 hn]

/-! Generated-fact obligations: they are re-checked against `UF/Gen/Facts.lean` (regenerated from
    /repo on every run) and break if a constant of rules/regex.go or the escape table is mutated. -/

theorem c03_fact_separator : Re.parseRE Facts.RegexSeparator = some sepAst := by decide
theorem c03_fact_startURL : Re.parseRE Facts.RegexStartURL = some (Re.mkCat startUrlAtoms) := by decide
theorem c03_fact_any : Re.parseRE Facts.RegexAnyCharacter = some (.star .any) := by decide
theorem c03_fact_startString : Re.parseRE Facts.RegexStartString = some .bol := by decide
theorem c03_fact_endString : Re.parseRE Facts.RegexEndString = some .eol := by decide
theorem c03_fact_masks : Facts.MaskStartURL = [124, 124] ∧ Facts.MaskPipe = [124] ∧
    Facts.MaskSeparator = [94] ∧ Facts.MaskAnyCharacter = [42] := by decide

/-- Every ASCII byte other than `*` and `^` is either passed through by the replacer and read by the
    parser as a one-character literal, or backslash-escaped and read as that literal. -/
theorem c03_fact_escapes : ∀ b : UInt8, b < 128 → b ≠ 42 → b ≠ 94 →
    (emitByte b = [b] ∧ litOK b = true) ∨ (emitByte b = [92, b] ∧ escOK b = true) :=
  emitByte_class

/-! Non-vacuity: the hypotheses are satisfiable by non-trivial instances, and the language is not trivial. -/

example : isAnyPattern (lit "||a.b^|") = false ∧ isRegexPattern (lit "||a.b^|") = false := by decide
example : (tokenize (lit "||ex.org^")).isAny = false := by decide
example : ruleAccepts (lit "||ex.org^") false (lit "https://Sub.ex.org/x") = true := by decide
example : ruleAccepts (lit "||ex.org^") true (lit "https://sub.eX.org/x") = false := by decide
example : ruleAccepts (lit "||ex.org^") false (lit "https://notex.org/") = false := by decide
example : NoNL (lit "https://Sub.ex.org/x") := by unfold NoNL; decide
example : ∀ b ∈ lit "https://Sub.ex.org/x", b < 128 := by decide
/-- Why the ASCII hypothesis on subjects: on `http://ex.org/aéb` (UTF-8 `c3 a9`) the byte-level model
    of `||ex.org/a^b` answers `false`; Go's rune-level `regexp` answers `true` (reproduced by the review). -/
example : compiledAccepts (lit "||ex.org/a^b") false (lit "http://ex.org/a" ++ [0xc3, 0xa9] ++ lit "b") = false := by
  decide
example : compiledAccepts (lit "||ex.org^") false (lit "https://Sub.ex.org/x") = true := by decide
example : compiledAccepts (lit "a.c") false (lit "abc") = false := by decide
example : ruleAccepts (lit "a|b/*") false (lit "xa|b?") = true := by decide
example : ruleAccepts (lit "|a.c|") false (lit "abc") = false := by decide

end UF.C03

import UF.Proofs.ProgRun
import UF.Proofs.ProgSound
import UF.Proofs.ProgCached
/-
  C19 — unreadable rule lists degrade results to a subset, never crash or lie.
  Theorems over the Prog model with the fault action `close listId` at any point of any history or
  schedule.  A closed list makes `listRead` fail (`RetrieveRule` returns an error, the helper returns
  nil).  The model has an explicit failure outcome `PC.crash`, reached when a nil pointer is
  dereferenced: the nil checks of lookup/shortcutstable.go, lookup/domainstable.go and
  dnsengine.go:matchLookupTable are BRANCHES of `step`; `stepNoNilCheck src` is the machine with the
  check of table `src` removed, and there a crash is reachable (`c19_nil_check_needed`).  That os.File
  really fails every Seek/Read after Close is an assumption (checked by the `c19fault` runs only).

  A DNS answer is the pair (network rules, host rules).  Under faults the host part is compared with
  `pureHosts` (what the hosts table holds for the name): when the network rule that would have decided
  the request is unreadable, `MatchRequest` falls through to the hosts table, so host rules can appear
  that the fault-free answer (which stops at the network rule) does not contain -- they are genuine
  matching rules, and `c19_subset` says exactly that.
-/
namespace UF.C19
open UF UF.Prog

/-- The queries of a history, in order. -/
def queriesOf : List HEv → List Query
  | [] => []
  | .query q :: rest => q :: queriesOf rest
  | .close _ :: rest => queriesOf rest

/-- No crash, concurrent form: NO schedule of actions of any number of concurrent queries and `close`
    events at arbitrary points reaches `crash`, from any state satisfying the shared invariant. -/
theorem c19_nopanic {R Re : Type} (env : Env R Re) (s : State R Re) (qs : List Query) (sched : List Ev)
    (hs : SInv env s) :
    ∀ t ∈ (Config.run env ⟨s, qs.map Thread.init⟩ sched).threads, t.pc ≠ .crash := by
  have h := run_cinv_sound sched _ (cinv_init (Sound env) env s qs hs (sound_init env))
  intro t ht
  exact (h.2 t ht).1.2.2

/-- No crash, no hang, sequential form: in ANY fault state a query run alone reaches `done` within its fuel
    bound. -/
theorem c19_nopanic_seq {R Re : Type} (env : Env R Re) (s : State R Re) (q : Query) (hs : SInv env s) :
    (runQuery env s q).2.pc = .done :=
  (runQuery_good q hs).2.2

/-- … and no history of queries and `close` events contains a query that does not finish. -/
theorem c19_nopanic_history {R Re : Type} (env : Env R Re) (h : List HEv) :
    ∀ (s : State R Re), SInv env s → ∀ t ∈ (runHistoryT env s h).2, t.pc = .done := by
  induction h with
  | nil => intro s _ t ht; cases ht
  | cons e rest ih =>
    intro s hs t ht
    cases e with
    | query q =>
      have hg := runQuery_good q hs
      simp only [runHistoryT, List.mem_cons] at ht
      rcases ht with rfl | ht
      · exact hg.2.2
      · exact ih _ hg.1 t ht
    | close l => exact ih { s with closed := l :: s.closed } hs t ht

/-- The theorem has content: in the machine with the nil check of ANY ONE of the three tables removed, a
    query after a `close` reaches `crash` (one candidate of that table in a closed list, cold cache). -/
theorem c19_nil_check_needed (src : Src) :
    let env : Env Nat Nat :=
      { truth := fun i => if i == 10 then some 7 else none, listOf := fun _ => 1, etld1 := id,
        cands := fun _ => match src with | .sc => [(true, 10)] | .dom => [(false, 10)] | .host => [],
        hcands := fun _ => [10], basic := fun _ => false,
        wants := fun _ _ => true, pre := fun _ _ => true, compile := fun _ => .any,
        accepts := fun _ _ _ => true, resident := [] }
    ∃ sched : List Ev,
      ((Config.runG (stepNoNilCheck src env) ⟨{}, [Thread.init (.dns { hostname := lit "a" })]⟩ sched).threads.map
        (·.pc.isCrash)) = [true] ∧
      ((Config.run env ⟨{}, [Thread.init (.dns { hostname := lit "a" })]⟩ sched).threads.map
        (·.pc.isCrash)) = [false] := by
  cases src
  · exact ⟨[.close 1, .run 0, .run 0, .run 0, .run 0], by decide⟩
  · exact ⟨[.close 1, .run 0, .run 0, .run 0, .run 0], by decide⟩
  · exact ⟨[.close 1, .run 0, .run 0, .run 0, .run 0, .run 0], by decide⟩

/-- Never lie, concurrent form: for EVERY schedule mixing actions of any number of concurrent queries
    with `close` events at arbitrary points, from any state satisfying the shared invariant: every network
    rule a finished query returns is in the fault-free stateless answer, every host rule is one the hosts
    table holds for the name (and matches, see `c19_truthful`). -/
theorem c19_subset {R Re : Type} (env : Env R Re) (s : State R Re) (qs : List Query) (sched : List Ev)
    (hs : SInv env s) :
    ∀ t ∈ (Config.run env ⟨s, qs.map Thread.init⟩ sched).threads, t.pc = .done →
      (∀ r ∈ t.answer.1, r ∈ (pureAnswer env t.q).1) ∧
      (∀ r ∈ t.answer.2, r ∈ pureHosts env (env.reqOf t.q)) := by
  have h := run_cinv_sound sched _ (cinv_init (Sound env) env s qs hs (sound_init env))
  intro t ht hd
  have := sound_answer (h.2 t ht).1.1 (h.2 t ht).2 hd
  exact ⟨this.1, this.2.1⟩

/-- Never lie, spelled out: every rule in the answer of a finished query -- under any schedule and any
    faults -- is a genuine rule that matches the request: the entry of the sequential table it came from, or
    what the unmodified lists hold at the storage index it was retrieved from, of the kind the table asks
    for (never a zero, stale or foreign rule), and `Match` -- evaluated on a FRESH rule object -- accepts. -/
theorem c19_truthful {R Re : Type} (env : Env R Re) (s : State R Re) (qs : List Query) (sched : List Ev)
    (hs : SInv env s) :
    ∀ t ∈ (Config.run env ⟨s, qs.map Thread.init⟩ sched).threads, t.pc = .done → ∀ e ∈ t.acc,
      match e.1 with
      | .st src idx => env.truth idx = some e.2 ∧ env.wants src e.2 = true ∧
          env.verdict src e.2 (env.reqOf t.q) = true
      | .seq k => env.resident[k]? = some e.2 ∧ env.mtch e.2 (env.reqOf t.q) = true := by
  have h := run_cinv_sound sched _ (cinv_init (Sound env) env s qs hs (sound_init env))
  intro t ht hd e he
  exact (sound_answer (h.2 t ht).1.1 (h.2 t ht).2 hd).2.2 e he

/-- Never lie, sequential form: for every history with `close` events at any points (fault before
    query k for any k, several faults, any lists), answer i is contained in `pureAnswer` of query i
    (host part: in `pureHosts`). -/
theorem c19_subset_history {R Re : Type} (env : Env R Re) (h : List HEv) :
    ∀ (s : State R Re), SInv env s →
      (runHistory env s h).2.length = (queriesOf h).length ∧
      ∀ p ∈ (runHistory env s h).2.zip (queriesOf h),
        (∀ r ∈ p.1.1, r ∈ (pureAnswer env p.2).1) ∧ (∀ r ∈ p.1.2, r ∈ pureHosts env (env.reqOf p.2)) := by
  induction h with
  | nil => intro s _; exact ⟨rfl, by simp [runHistory, runHistoryT, queriesOf]⟩
  | cons e rest ih =>
    intro s hs
    cases e with
    | query q =>
      have hg := runQuery_good q hs
      have hsd := runQuery_sound q hs
      have ha := sound_answer hg.2.1.1 hsd hg.2.2
      rw [runQuery_q] at ha
      obtain ⟨h1, h2⟩ := ih _ hg.1
      simp only [runHistory] at h1 h2 ⊢
      simp only [runHistoryT, queriesOf, List.map_cons, List.length_cons, List.zip_cons_cons, List.mem_cons]
      refine ⟨by rw [h1], ?_⟩
      intro p hp
      rcases hp with rfl | hp
      · exact ⟨ha.1, ha.2.1⟩
      · exact h2 p hp
    | close l =>
      simp only [runHistory, runHistoryT, queriesOf]
      exact ih { s with closed := l :: s.closed } hs

/-- Rules already materialised continue to be served: if `(idx, r)` is in the cache when a query
    starts, `idx` is one of its network-table candidates, `r` is of the wanted kind and matches the request
    (as a fresh object), then `r` is in the answer -- whatever lists are closed and whatever the lazy-compile
    cells hold. -/
theorem c19_cached {R Re : Type} (env : Env R Re) (s : State R Re) (q : Query) (b : Bool) (idx : Idx) (r : R)
    (hs : SInv env s) (hq : q.trivial = false) (hin : (idx, r) ∈ s.cache)
    (hcand : (b, idx) ∈ env.cands (env.reqOf q)) (hw : env.wants (if b then .sc else .dom) r = true)
    (hm : env.mtch r (env.reqOf q) = true) : r ∈ (runQuery env s q).2.answer.1 :=
  runQuery_cached q hs hq hin hcand hw hm

/-- …and the host rules: if `(idx, r)` is in the cache when a DNS query starts, `idx` is in the hosts-table bucket
    of the name, `r` is a host rule naming it, and the (possibly degraded) network rules of the answer leave the
    decision to the hosts table (`GetDNSBasicRule` finds nothing), then `r` is among the returned host rules --
    whatever lists are closed: an unreadable entry of the bucket is SKIPPED, the scan does not stop at it. -/
theorem c19_cached_host {R Re : Type} (env : Env R Re) (s : State R Re) (d : DReq) (idx : Idx) (r : R)
    (hs : SInv env s) (hq : d.hostname.isEmpty = false) (hin : (idx, r) ∈ s.cache)
    (hcand : idx ∈ env.hcands (env.reqOf (.dns d))) (hw : env.wants .host r = true)
    (hm : env.pre r (env.reqOf (.dns d)) = true)
    (hb : env.basic (runQuery env s (.dns d)).2.answer.1 = false) :
    r ∈ (runQuery env s (.dns d)).2.answer.2 :=
  runQuery_cached_host d hs hq hin hcand hw hm hb

/-- The cache survives faults and later queries: an entry present before any suffix of a history
    (queries and `close` events) is still found afterwards; together with `c19_cached` (applied at the
    state before query i) this is "rules retrieved before k are still returned". -/
theorem c19_cache_persists {R Re : Type} (env : Env R Re) (h : List HEv) :
    ∀ (s : State R Re) (idx : Idx), (cacheLookup s.cache idx).isSome →
      (cacheLookup (runHistory env s h).1.cache idx).isSome := by
  induction h with
  | nil => intro s idx hl; exact hl
  | cons e rest ih =>
    intro s idx hl
    cases e with
    | query q =>
      simp only [runHistory, runHistoryT]
      apply ih
      exact runQuery_inv env (fun s' _ => (cacheLookup s'.cache idx).isSome)
        (fun s' t h' => step_lookup_isSome env s' t idx h') s q hl
    | close l => simp only [runHistory, runHistoryT]; exact ih _ idx hl

/-- Non-vacuity: list 1 is closed after the first query; the rule of index 10 (list 1) was retrieved
    before and is still served, the rule of index 11 (same list, never retrieved) is lost, the rule of
    list 2 is still read: the degraded answer `[7, 9]` is a strict part of `[7, 8, 9]`; no crash. -/
example :
    let env : Env Nat Nat :=
      { truth := fun i => if i == 10 then some 7 else if i == 11 then some 8 else if i == 20 then some 9 else none,
        listOf := fun i => if i == 20 then 2 else 1, etld1 := id,
        cands := fun req => if req.hostname == lit "a" then [(true, 10)] else [(true, 10), (false, 11), (true, 20)],
        hcands := fun _ => [], basic := fun _ => false, wants := fun _ _ => true, pre := fun _ _ => true,
        compile := fun _ => .re 0, accepts := fun _ _ _ => true, resident := [] }
    (runHistory env {} [.query (.web { hostname := lit "a" }), .close 1, .query (.web { hostname := lit "b" })]).2 =
        [([7], []), ([7, 9], [])] ∧
    pureAnswer env (.web { hostname := lit "b" }) = ([7, 8, 9], []) := by decide

/-- Non-vacuity of the host part: the blocking network rule (index 10, list 1) is unreadable after the
    close, so `MatchRequest` falls through to the hosts table and returns the host rule 5 -- which the
    fault-free answer `([7], [])` does not contain, and `pureHosts` does. -/
example :
    let env : Env Nat Nat :=
      { truth := fun i => if i == 10 then some 7 else if i == 50 then some 5 else none,
        listOf := fun i => if i == 10 then 1 else 2, etld1 := id,
        cands := fun _ => [(true, 10)], hcands := fun _ => [50], basic := fun nrs => !nrs.isEmpty,
        wants := fun _ _ => true, pre := fun _ _ => true,
        compile := fun _ => .re 0, accepts := fun _ _ _ => true, resident := [] }
    let q : Query := .dns { hostname := lit "a" }
    (runHistory env {} [.close 1, .query q]).2 = [([], [5])] ∧ pureAnswer env q = ([7], []) ∧
      pureHosts env (env.reqOf q) = [5] := by decide

end UF.C19

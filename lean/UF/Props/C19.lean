import UF.Proofs.ProgRun
import UF.Proofs.ProgCached
/-
  C19 — unreadable rule lists degrade results to a subset, never crash or lie.
  Theorems over the Prog model with the fault action `close listId` at any point of any history or
  schedule.  A closed list makes `listRead` fail (`RetrieveRule` returns an error, the helper returns
  nil); the model's query skips the nil rule exactly where lookup/*.go and dnsengine.go test
  `rule != nil`.  That os.File really fails every Seek/Read after Close is an assumption (checked by the
  `c19fault` runs only).
-/
namespace UF.C19
open UF UF.Prog

/-- The queries of a history, in order. -/
def queriesOf : List HEv → List Query
  | [] => []
  | .query q :: rest => q :: queriesOf rest
  | .close _ :: rest => queriesOf rest

/-- No crash, no hang: from ANY state (any lists closed, any cache, no invariant assumed) a query run
    sequentially reaches `done` within its fuel bound.  In the model a rule is only ever used
    (`compile`, `Match`, appended to the result) at `PC.comp r`, which is entered only from a cache hit
    or a successful read; the failed retrieval goes straight to the next candidate. -/
theorem c19_nopanic {R : Type} (env : Env R) (s : State R) (q : Query) : (runQuery env s q).2.pc = .done :=
  runQuery_done env s q

/-- Never lie, concurrent form: for EVERY schedule mixing actions of any number of concurrent queries
    with `close` events at arbitrary points, from any state satisfying `CacheInv`: the answer of every
    finished query is a sub-sequence of the fault-free stateless answer -- every returned rule is a
    genuine rule of the lists that matches the request. -/
theorem c19_subset {R : Type} (env : Env R) (s : State R) (qs : List Query) (sched : List Ev)
    (hc : CacheInv env s) :
    ∀ t ∈ (Config.run env ⟨s, qs.map Thread.init⟩ sched).threads,
      t.pc = .done → (t.answer env).Sublist (pureAnswer env t.q) := by
  have hinit : CInv List.Sublist env ⟨s, qs.map Thread.init⟩ := by
    refine ⟨hc, ?_⟩
    intro t ht
    simp only [List.mem_map] at ht
    obtain ⟨q, _, rfl⟩ := ht
    exact good_init _ env q
  have h := run_cinv_sub sched _ hinit
  intro t ht hd
  exact answer_of_good_sub (h.2 t ht) hd

/-- Never lie, spelled out: every rule in the answer of a finished query -- under any schedule and any
    faults -- matches the request and is a genuine rule: held in memory by the engine, or what the
    unmodified lists hold at one of the query's candidate indices (never a zero or stale rule). -/
theorem c19_truthful {R : Type} (env : Env R) (s : State R) (qs : List Query) (sched : List Ev)
    (hc : CacheInv env s) :
    ∀ t ∈ (Config.run env ⟨s, qs.map Thread.init⟩ sched).threads, t.pc = .done → ∀ r ∈ t.answer env,
      env.mtch r (env.reqOf t.q) = true ∧
        (r ∈ env.resident ∨ ∃ idx ∈ env.cands (env.reqOf t.q), env.truth idx = some r) := by
  intro t ht hd r hr
  have hm := (c19_subset env s qs sched hc t ht hd).subset hr
  simp only [pureAnswer, pureStorage, List.mem_append, List.mem_filter, List.mem_filterMap] at hm
  rcases hm with ⟨⟨idx, hi, htr⟩, hm⟩ | ⟨hres, hm⟩
  · exact ⟨hm, Or.inr ⟨idx, hi, htr⟩⟩
  · exact ⟨hm, Or.inl hres⟩

/-- Never lie, sequential form: for every history with `close` events at any points (fault before
    query k for any k, several faults, any lists), answer i is a sub-sequence of `pureAnswer` of query i. -/
theorem c19_subset_history {R : Type} (env : Env R) (h : List HEv) :
    ∀ (s : State R), CacheInv env s →
      (runHistory env s h).2.length = (queriesOf h).length ∧
      ∀ p ∈ (runHistory env s h).2.zip (queriesOf h), p.1.Sublist (pureAnswer env p.2) := by
  induction h with
  | nil => intro s _; exact ⟨rfl, by simp [runHistory, queriesOf]⟩
  | cons e rest ih =>
    intro s hc
    cases e with
    | query q =>
      have hg := runQuery_good_sub q hc
      have hd := runQuery_done env s q
      have ha := answer_of_good_sub hg.2 hd
      rw [runQuery_q] at ha
      obtain ⟨h1, h2⟩ := ih _ hg.1
      simp only [runHistory, queriesOf, List.length_cons, List.zip_cons_cons, List.mem_cons]
      refine ⟨by rw [h1], ?_⟩
      intro p hp
      rcases hp with rfl | hp
      · exact ha
      · exact h2 p hp
    | close l =>
      simp only [runHistory, queriesOf]
      exact ih _ hc

/-- Rules already materialised continue to be served: if `(idx, r)` is in the cache when a query
    starts, `idx` is one of its candidates and `r` matches the request, then `r` is in the answer --
    whatever lists are closed. -/
theorem c19_cached {R : Type} (env : Env R) (s : State R) (q : Query) (idx : Idx) (r : R)
    (hc : CacheInv env s) (hin : (idx, r) ∈ s.cache) (hcand : idx ∈ env.cands (env.reqOf q))
    (hm : env.mtch r (env.reqOf q) = true) : r ∈ (runQuery env s q).2.answer env :=
  runQuery_cached q hc hin hcand hm

/-- The cache survives faults and later queries: an entry present before any suffix of a history
    (queries and `close` events) is still found afterwards; together with `c19_cached` (applied at the
    state before query i) this is "rules retrieved before k are still returned". -/
theorem c19_cache_persists {R : Type} (env : Env R) (h : List HEv) :
    ∀ (s : State R) (idx : Idx), (cacheLookup s.cache idx).isSome →
      (cacheLookup (runHistory env s h).1.cache idx).isSome := by
  induction h with
  | nil => intro s idx hl; exact hl
  | cons e rest ih =>
    intro s idx hl
    cases e with
    | query q =>
      simp only [runHistory]
      apply ih
      exact runQuery_inv env (fun s' _ => (cacheLookup s'.cache idx).isSome)
        (fun s' t h' => step_lookup_isSome env s' t idx h') s q hl
    | close l => simp only [runHistory]; exact ih _ idx hl

/-- Non-vacuity: list 1 is closed after the first query; the rule of index 10 (list 1) was retrieved
    before and is still served, the rule of index 11 (same list, never retrieved) is lost, the rule of
    list 2 is still read: the degraded answer `[7, 9]` is a strict sub-sequence of `[7, 8, 9]`. -/
example :
    let env : Env Nat := { truth := fun i => if i == 10 then some 7 else if i == 11 then some 8 else if i == 20 then some 9 else none,
                           listOf := fun i => if i == 20 then 2 else 1, ruleId := id, etld1 := id,
                           cands := fun req => if req.hostname == lit "a" then [10] else [10, 11, 20],
                           mtch := fun _ _ => true, resident := [] }
    (runHistory env {} [.query (.web { hostname := lit "a" }), .close 1, .query (.web { hostname := lit "b" })]).2 = [[7], [7, 9]] ∧
    pureAnswer env (.web { hostname := lit "b" }) = [7, 8, 9] := by decide

end UF.C19

import UF.Compose2.NewRuleFull
import UF.Props.C12
/-
  C12 for the COMPLETE model of `rules.NewRule` (integration group I2).

  Group E's C12 theorems were stated for arbitrary parameters `trim`, `newHostRule`, `loadDNSRewrite`
  with the assumptions "`TrimSpace` removes a trailing CR" and "`NewHostRule` keeps text and list id".
  Here the parameters are the other groups' models (`trimSpace` of group D, `H.newHostRule` over
  group E's `IsDomainName`, `H.loadDNSRewrite`) and the assumptions are PROVED
  (UF/Compose2/NewRuleFull.lean), so the statements below have no hypothesis about any modelled
  function.  What remains external: `netip` parsing (`ext`) and the shortcut of `/regex/` rules
  (`reShortcut`, see NewRuleFull.lean) — the theorems hold for every such oracle.
  Only property theorems and non-vacuity examples here.
-/
namespace UF.C12
open UF Bytes UF.I2

/-- The three outcomes of the property for EVERY line, list id and oracle: nothing (blank/comment),
    a rule whose text is `TrimSpace(line)` and whose list id is the one given, or an error — never a
    crash. -/
theorem c12_outcomes_full (ext : Ext) (reShortcut : Bytes → Bytes) (line : Bytes) (id : Int) :
    newRuleFull ext reShortcut line id = .ok none ∨
    (∃ r, newRuleFull ext reShortcut line id = .ok (some r) ∧ r.text = trimSpace line ∧ r.listID = id) ∨
    newRuleFull ext reShortcut line id = .error .err :=
  c12_outcomes (fullRuleExt ext reShortcut) line id (fun _ _ _ hh => hostParam_text hh)

/-- No crash, in isolation. -/
theorem c12_total_full (ext : Ext) (reShortcut : Bytes → Bytes) (line : Bytes) (id : Int) :
    newRuleFull ext reShortcut line id ≠ .error .panic :=
  c12_total_newRule (fullRuleExt ext reShortcut) line id

/-- … including the parts group E took as parameters: group H's `NewHostRule` and `loadDNSRewrite`
    and group E's `IsDomainName` never panic, so turning their results into `Option`s lost nothing. -/
theorem c12_total_full_params (ext : Ext) (t : Bytes) (id : Int) :
    H.newHostRule ext isDomainNameB t id ≠ .error .panic ∧ H.loadDNSRewrite ext t ≠ .error .panic ∧
    E.isDomainNameC t = .ok (isDomainNameB t) :=
  ⟨H.c18_total ext isDomainNameB t id, H.c10_total ext t, isDomainNameB_spec t⟩

/-- A line that yields a rule yields one whose text is the trimmed line and whose list id is the
    one given. -/
theorem c12_text_full (ext : Ext) (reShortcut : Bytes → Bytes) (line : Bytes) (id : Int) (r : Rule)
    (h : newRuleFull ext reShortcut line id = .ok (some r)) : r.text = trimSpace line ∧ r.listID = id :=
  c12_text (fullRuleExt ext reShortcut) line id r (fun _ _ _ hh => hostParam_text hh) h

/-- `NewRule` reads the line only through `TrimSpace`: two lines with the same trimmed text give the
    same outcome; in particular trailing CR, LF, CRLF and surrounding blanks do not matter. -/
theorem c12_trim_full (ext : Ext) (reShortcut : Bytes → Bytes) (a b : Bytes) (id : Int)
    (h : trimSpace a = trimSpace b) : newRuleFull ext reShortcut a id = newRuleFull ext reShortcut b id :=
  E.newRule_congr_trim (fullRuleExt ext reShortcut) trim_idem id h

theorem c12_cr_full (ext : Ext) (reShortcut : Bytes → Bytes) (l : Bytes) (id : Int) :
    newRuleFull ext reShortcut (l ++ [13]) id = newRuleFull ext reShortcut l id ∧
    newRuleFull ext reShortcut (l ++ [13, 10]) id = newRuleFull ext reShortcut l id :=
  ⟨c12_trim_full ext reShortcut _ _ id (trim_cr l), c12_trim_full ext reShortcut _ _ id (trim_crlf l)⟩

/-- Inert lines: any result computed from the accepted rules of a list (engine construction + query,
    abstractly a function `results`) is unchanged when lines that yield no rule — blank, comment,
    rejected — are deleted or inserted, and when the list switches to CRLF line endings.  No hypothesis
    about `TrimSpace` any more. -/
theorem c12_inert_full {α} (results : List Rule → α) (ext : Ext) (reShortcut : Bytes → Bytes) (id : Int)
    (lines : List Bytes) (keep : Bytes → Bool)
    (h : ∀ l ∈ lines, keep l = false → E.acceptedOf (fullRuleExt ext reShortcut) id l = none) :
    results (scanAcceptedFull ext reShortcut id (lines.filter keep)) = results (scanAcceptedFull ext reShortcut id lines) ∧
    results (scanAcceptedFull ext reShortcut id (lines.map (· ++ [13]))) = results (scanAcceptedFull ext reShortcut id lines) :=
  c12_inert results (fullRuleExt ext reShortcut) id lines keep h trim_cr

/-- Inserting one inert line at any position. -/
theorem c12_inert_insert_full (ext : Ext) (reShortcut : Bytes → Bytes) (id : Int) (a b : List Bytes) (n : Bytes)
    (h : E.acceptedOf (fullRuleExt ext reShortcut) id n = none) :
    scanAcceptedFull ext reShortcut id (a ++ n :: b) = scanAcceptedFull ext reShortcut id (a ++ b) :=
  c12_inert_insert (fullRuleExt ext reShortcut) id a b n h

/-- Blank lines (white space of any kind `TrimSpace` knows, Unicode spaces included) yield nothing. -/
theorem c12_blank_full (ext : Ext) (reShortcut : Bytes → Bytes) (line : Bytes) (id : Int)
    (h : trimSpace line = []) : newRuleFull ext reShortcut line id = .ok none :=
  c12_blank (fullRuleExt ext reShortcut) line id h

/-- The same for `newRuleM`, the model with the shortcut of `/regex/` rules computed from the text
    (`modelRegexpShortcut`): no parameter left but the `netip` oracle. -/
theorem c12_outcomes_model (ext : Ext) (line : Bytes) (id : Int) :
    newRuleM ext line id = .ok none ∨
    (∃ r, newRuleM ext line id = .ok (some r) ∧ r.text = trimSpace line ∧ r.listID = id) ∨
    newRuleM ext line id = .error .err :=
  c12_outcomes_full ext reShortcutM line id

/-! ### Non-vacuity: the complete model on concrete lines (no table for anything but `netip`) -/

private def exExt : Ext :=
  { psl := fun _ => ([], false),
    parseAddr := fun s => if s == lit "0.0.0.0" then some { is4 := true, val := 0 } else none,
    parsePrefix := fun _ => none, pat := fun _ _ _ => false }

private def kind : E.PE (Option Rule) → String
  | .ok none => "none"
  | .ok (some (.net _)) => "net"
  | .ok (some (.host _)) => "host"
  | .ok (some (.cos _)) => "cos"
  | .error .err => "err"
  | .error .panic => "PANIC"

example : kind (newRuleFull exExt (fun _ => []) (lit "  ! comment\r") 1) = "none" := by decide
example : kind (newRuleFull exExt (fun _ => []) (lit "0.0.0.0 example.org # note") 1) = "host" := by decide
example : kind (newRuleFull exExt (fun _ => []) (lit "example.org") 1) = "host" := by decide
example : kind (newRuleFull exExt (fun _ => []) (lit "example.org##.banner ") 1) = "cos" := by decide
example : kind (newRuleFull exExt (fun _ => []) (lit "||example.org^$dnsrewrite=NOERROR;TXT;hi") 1) = "net" := by decide
example : kind (newRuleFull exExt (fun _ => []) (lit "||example.org^$dnsrewrite=a;b") 1) = "err" := by decide
example : kind (newRuleFull exExt (fun _ => []) (lit "||example.org^$unknown") 1) = "err" := by decide
example : (match newRuleFull exExt (fun _ => []) (lit "\t||Example.org/ads/*$ctag=b|a \r\n") 7 with
    | .ok (some (.net r)) => (r.text, r.listID, r.pattern, r.shortcut, r.permTags)
    | _ => ([], 0, [], [], [])) =
    (lit "||Example.org/ads/*$ctag=b|a", 7, lit "||Example.org/ads^", lit "example.org/ads", [lit "a", lit "b"]) := by
  decide

end UF.C12

import UF.Proofs.ProgPersist
import UF.Proofs.ProgPersistConc
import UF.Proofs.ProgDegradedRun
import UF.Compose4.EnvOfStorage
import UF.Props.C19
/-
  C19 COMPOSED (REVIEW2 F12): "for i ≥ k no panic, result(qi) ⊆ oracle(qi), and rules retrieved before k are
  still returned" as ONE statement over the state machine `UF.Prog`, generically and on the engines built from
  the BYTES of the lists (`envDns`, `envNet`).

  Sequential form (`c19_composed`, `c19_composed_engine`, `c19_composed_net`): a history of queries and `close`
  events is split anywhere as `h1 ++ h2`;
    (i)   every query of the history finishes (no crash, no hang);
    (ii)  every answer is a SUB-SEQUENCE of the fault-free answer (network rules: of `pureAnswer` = `MatchAll`;
          host rules: of what the hosts table holds for the name, `pureHosts` = `matchLookupTable` -- the
          fault-free ANSWER may hold no host rule at all because it stops at a deciding network rule which the
          degraded run cannot read, DESIGN §8.5);
    (iii) every cache entry `(idx, r)` present after `h1` -- in particular before the `close` events of `h2` --
          is still there after `h2` (the entry itself: `cachePut` keeps an existing object, D15), and `r` is
          returned by EVERY query of `h2` of which `idx` is a candidate and which `r` matches (i.e. by every
          later query for which the fault-free run returns it through that index).
  `c19_degraded_exact` says more than (ii): the degraded answer is EXACTLY the fault-free answer of the engine
  with the unavailable indexes (not cached, list closed) struck out.

  ORDER.  Sequentially the degraded answer is a sub-sequence because closed lists and the cache are the same at
  every occurrence of an index in the work list of one query (`ruleIn` keeps the first occurrence; all
  occurrences of an unavailable index are skipped together).  CONCURRENTLY that is false:
  `c19_concurrent_order_witness` is a schedule in which another thread's `cachePut` lands between two
  occurrences of an index in a closed list, so the rule is collected at its SECOND occurrence and the answer
  `[8, 7]` is not a sub-sequence of the fault-free `[7, 8]`.  The concurrent statement (`c19_composed_concurrent`)
  therefore keeps membership for (ii); (i) and (iii) hold as in the sequential form.
-/
namespace UF.C19
open UF UF.B UF.Prog UF.Storage UF.Compose UF.Compose4

/-- The threads of a history are the runs of its queries, in order. -/
theorem c19_history_queries {R Re : Type} (env : Env R Re) (h : List HEv) :
    ∀ (s : State R Re), (runHistoryT env s h).2.map (·.q) = queriesOf h := by
  induction h with
  | nil => intro s; rfl
  | cons e rest ih =>
    intro s
    cases e with
    | query q => simp only [runHistoryT, queriesOf, List.map_cons, runQuery_q, ih]
    | close l => simp only [runHistoryT, queriesOf, ih]

/-- The cache ENTRY persists (strengthens `c19_cache_persists`, which only kept the key): across any history
    of queries and `close` events, and across any schedule of concurrent threads and `close` events. -/
theorem c19_cache_entry_persists {R Re : Type} (env : Env R Re) (s : State R Re) (idx : Int) (r : R)
    (hl : cacheLookup s.cache idx = some r) :
    (∀ h : List HEv, cacheLookup (runHistoryT env s h).1.cache idx = some r) ∧
    (∀ (ts : List (Thread R)) (sched : List Ev), cacheLookup (Config.run env ⟨s, ts⟩ sched).state.cache idx = some r) :=
  ⟨fun h => runHistoryT_lookup env h s hl, fun ts sched => run_lookup env sched ⟨s, ts⟩ hl⟩

/-- The degraded answer, EXACTLY: a query run alone in any fault state (any lists closed, any cache, any
    lazy-compile cells) answers what the fault-free engine answers when the indexes that are neither cached nor
    in an open list are struck out of it; for the network rules: the entries of the fault-free first stage whose
    index is available, in their order. -/
theorem c19_degraded_exact {R Re : Type} (env : Env R Re) (s : State R Re) (q : Query) (hs : SInv env s) :
    (runQuery env s q).2.answer = pureAnswer (env.restrict (avail env s)) q ∧
    (q.trivial = false →
      (runQuery env s q).2.answer.1 = nets ((pure1 env (env.reqOf q)).filter (keep (avail env s)))) :=
  ⟨runQuery_degraded q hs, runQuery_nets_exact q hs⟩

/-- C19 COMPOSED, sequential, any environment: see the header. -/
theorem c19_composed {R Re : Type} (env : Env R Re) (s : State R Re) (hs : SInv env s) (h1 h2 : List HEv) :
    -- the run of `h1 ++ h2` is the run of `h1` followed by the run of `h2` from the state `h1` left
    (runHistoryT env s (h1 ++ h2)).2 = (runHistoryT env s h1).2 ++ (runHistoryT env (runHistoryT env s h1).1 h2).2 ∧
    (runHistoryT env s (h1 ++ h2)).2.map (·.q) = queriesOf (h1 ++ h2) ∧
    -- (i), (ii)
    (∀ t ∈ (runHistoryT env s (h1 ++ h2)).2,
      t.pc = .done ∧ t.answer.1.Sublist (pureAnswer env t.q).1 ∧
        t.answer.2.Sublist (pureHosts env (env.reqOf t.q))) ∧
    -- (iii)
    (∀ idx r, cacheLookup (runHistoryT env s h1).1.cache idx = some r →
      cacheLookup (runHistoryT env s (h1 ++ h2)).1.cache idx = some r ∧
      ∀ t ∈ (runHistoryT env (runHistoryT env s h1).1 h2).2,
        (t.q.trivial = false → ∀ b : Bool, (b, idx) ∈ env.cands (env.reqOf t.q) →
          env.wants (if b then .sc else .dom) r = true → env.mtch r (env.reqOf t.q) = true → r ∈ t.answer.1) ∧
        (∀ d : DReq, t.q = .dns d → d.hostname.isEmpty = false → idx ∈ env.hcands (env.reqOf t.q) →
          env.wants .host r = true → env.pre r (env.reqOf t.q) = true → env.basic t.answer.1 = false →
          r ∈ t.answer.2)) := by
  have hs1 := runHistoryT_sinv env h1 s hs
  refine ⟨by rw [runHistoryT_append], c19_history_queries env _ s, ?_, ?_⟩
  · intro t ht
    exact ⟨c19_nopanic_history env _ s hs t ht, history_sublist _ s hs t ht⟩
  · intro idx r hl
    refine ⟨by rw [runHistoryT_append]; exact runHistoryT_lookup env h2 _ hl, ?_⟩
    intro t ht
    exact ⟨history_cached h2 hs1 hl t ht, history_cached_host h2 hs1 hl t ht⟩

/-- C19 COMPOSED, concurrent, any environment: any number of threads, EVERY schedule `sched1 ++ sched2` of their
    atomic actions and `close` events:
    (i) no thread is ever crashed; (ii) every rule a finished thread returns is in the fault-free answer (network
    rules) / in what the hosts table holds for the name (host rules) -- membership, see
    `c19_concurrent_order_witness`; (iii) a cache entry `(idx, r)` present after `sched1` is still there after
    `sched2`, and every thread that had not started after `sched1` returns `r` when it finishes, if `idx` is a
    network-table candidate of its query and `r` matches. -/
theorem c19_composed_concurrent {R Re : Type} (env : Env R Re) (s : State R Re) (hs : SInv env s)
    (qs : List Query) (sched1 sched2 : List Ev) :
    (∀ t ∈ (Config.run env ⟨s, qs.map Thread.init⟩ (sched1 ++ sched2)).threads,
      t.pc ≠ .crash ∧
      (t.pc = .done → (∀ r ∈ t.answer.1, r ∈ (pureAnswer env t.q).1) ∧
        (∀ r ∈ t.answer.2, r ∈ pureHosts env (env.reqOf t.q)))) ∧
    (∀ idx r, cacheLookup (Config.run env ⟨s, qs.map Thread.init⟩ sched1).state.cache idx = some r →
      cacheLookup (Config.run env ⟨s, qs.map Thread.init⟩ (sched1 ++ sched2)).state.cache idx = some r ∧
      ∀ (i : Nat) (t1 t2 : Thread R),
        (Config.run env ⟨s, qs.map Thread.init⟩ sched1).threads[i]? = some t1 → t1.pc = .start →
        (Config.run env ⟨s, qs.map Thread.init⟩ (sched1 ++ sched2)).threads[i]? = some t2 → t2.pc = .done →
        t2.q = t1.q ∧
        (t1.q.trivial = false → ∀ b : Bool, (b, idx) ∈ env.cands (env.reqOf t1.q) →
          env.wants (if b then .sc else .dom) r = true → env.mtch r (env.reqOf t1.q) = true → r ∈ t2.answer.1)) := by
  refine ⟨?_, ?_⟩
  · intro t ht
    exact ⟨c19_nopanic env s qs _ hs t ht, c19_subset env s qs _ hs t ht⟩
  · intro idx r hl
    rw [run_append]
    refine ⟨run_lookup env sched2 _ hl, ?_⟩
    intro i t1 t2 h1 hst h2 hd
    have hq1 : ∀ t, (Config.run env ⟨s, qs.map Thread.init⟩ sched1).threads[i]? = some t → t.q = t1.q := by
      intro t ht; rw [h1] at ht; cases ht; rfl
    refine ⟨run_thread_q env sched2 i t1.q _ hq1 t2 h2, ?_⟩
    intro hq b hc hw hm
    refine run_cached sched2 i t1.q (run_cinv_sound' s qs sched1 hs) hl ?_ hq hc hw hm t2 h2 hd
    intro t ht
    rw [h1] at ht; cases ht
    exact ⟨rfl, fun hne => absurd hst hne⟩

/-- ORDER FAILS UNDER CONCURRENCY.  Index 10 (list 1) sits in two shortcut buckets of the request, index 20
    (list 2) between them.  Thread 0 reads index 10, then list 1 is closed, thread 1 misses the cache and fails to
    read index 10 at its first occurrence, thread 0 stores the rule, thread 1 reads index 20 and then finds
    index 10 in the cache at its SECOND occurrence: it answers `[8, 7]`, the fault-free answer is `[7, 8]` --
    same rules, not a sub-sequence. -/
theorem c19_concurrent_order_witness :
    let env : Env Nat Nat :=
      { truth := fun i => if i == 10 then some 7 else if i == 20 then some 8 else none,
        listOf := fun i => if i == 10 then 1 else 2, etld1 := id,
        cands := fun _ => [(true, 10), (true, 20), (true, 10)], hcands := fun _ => [], basic := fun _ => false,
        wants := fun _ _ => true, pre := fun _ _ => true, compile := fun _ => .any,
        accepts := fun _ _ _ => true, resident := [] }
    let q : Query := .web { hostname := lit "a" }
    let sched : List Ev := [.run 0, .run 0, .run 0, .close 1, .run 1, .run 1, .run 1, .run 1, .run 0] ++
      List.replicate 11 (.run 1)
    ((Config.run env ⟨{}, [Thread.init q, Thread.init q]⟩ sched).threads.map
        (fun t => (t.pc.isDone, t.answer.1))) = [(false, []), (true, [8, 7])] ∧
      (pureAnswer env q).1 = [7, 8] ∧ ¬ [8, 7].Sublist [7, 8] := by decide

/-! ### on the engines built from the bytes of the lists -/

/-- C19 COMPOSED FOR THE DNS ENGINE BUILT FROM THE BYTES OF THE LISTS (DNS queries through the request pool and the
    two stages of `MatchRequest`; `web` queries = `MatchAll` of its network engine): for every history
    `h1 ++ h2` of queries and `close` events on the cold engine,
    (i) every query finishes; (ii) the network rules of every answer are a sub-sequence of what group B's engine
    model answers fault-free (retrieving through group D's storage in any reachable cache state), the host rules
    a sub-sequence of `matchLookupTable` of the name; (iii) a rule cached after `h1` is still cached after `h2` and
    is returned by every non-trivial query of `h2`: a network rule `n` whenever its index is in a shortcuts-table
    bucket of a window of the URL or a domains-table bucket of a suffix of the source hostname and
    `NetworkRule.Match` accepts; a host rule whenever its index is in the bucket of the name, it names the host and
    the (degraded) network rules contain no basic rule. -/
theorem c19_composed_engine {Re : Type} (io : IO) (px : E.ParseExt) (lists : List RList) (pm : PatModel Re)
    (hpat : px.ext.pat = pm.pat) (st : RuleStorage) (hnew : newRuleStorage lists = some st)
    (history : List (BitVec 64)) (h1 h2 : List HEv) :
    let env := envDns io px lists pm
    let d := DnsEngine.build djb2 Facts.shortcutLength (storageRulesI px lists)
    (runHistoryT env {} (h1 ++ h2)).2 = (runHistoryT env {} h1).2 ++ (runHistoryT env (runHistoryT env {} h1).1 h2).2 ∧
    (runHistoryT env {} (h1 ++ h2)).2.map (·.q) = queriesOf (h1 ++ h2) ∧
    (∀ t ∈ (runHistoryT env {} (h1 ++ h2)).2,
      t.pc = .done ∧ t.answer.1.Sublist (dnsAnswer io px lists st history t.q).1 ∧
        t.answer.2.Sublist ((d.matchLookupTable djb2 (retrieveAt io px (reach io px st history))
          (env.reqOf t.q).hostname).map Rule.host)) ∧
    (∀ idx r, cacheLookup (runHistoryT env {} h1).1.cache idx = some r →
      cacheLookup (runHistoryT env {} (h1 ++ h2)).1.cache idx = some r ∧
      ∀ t ∈ (runHistoryT env (runHistoryT env {} h1).1 h2).2, t.q.trivial = false →
        (∀ n : NetRule, r = .net n →
          (idx ∈ scCands djb2 Facts.shortcutLength d.net.sc (env.reqOf t.q).urlLower ∨
            idx ∈ domCands djb2 d.net.dom (env.reqOf t.q).sourceHostname) →
          n.matches px.ext (env.reqOf t.q) = true → r ∈ t.answer.1) ∧
        (∀ hr : HostRule, r = .host hr → (∃ dq, t.q = .dns dq) →
          idx ∈ hget [] d.hosts (djb2.h (env.reqOf t.q).hostname) →
          hostRuleMatches hr (env.reqOf t.q).hostname = true →
          getDNSBasicRule (netRulesOf t.answer.1) = none → r ∈ t.answer.2)) := by
  intro env d
  obtain ⟨c1, c2, c3, c4⟩ := c19_composed env {} (sinv_init _) h1 h2
  refine ⟨c1, c2, ?_, ?_⟩
  · intro t ht
    obtain ⟨e1, e2, e3⟩ := c3 t ht
    refine ⟨e1, ?_, ?_⟩
    · rw [← pureAnswer_envDns io px lists pm hpat st hnew history]; exact e2
    · have : pureHosts env (env.reqOf t.q) =
          (d.matchLookupTable djb2 (truthOf io px lists) (env.reqOf t.q).hostname).map Rule.host := pureHosts_eq ..
      rw [retrieveAt_reach io px lists st hnew history, ← this]; exact e3
  · intro idx r hl
    refine ⟨(c4 idx r hl).1, ?_⟩
    intro t ht hq
    obtain ⟨f1, f2⟩ := (c4 idx r hl).2 t ht
    refine ⟨?_, ?_⟩
    · intro n hn hc hm
      subst hn
      have hm' : env.mtch (.net n) (env.reqOf t.q) = true := by
        show (envOf _ _ _ _ _ _ _ _ _).mtch _ _ = true
        rw [envOf_mtch_net _ _ _ _ _ _ _ _ _ hpat]; exact hm
      rcases hc with hc | hc
      · exact f1 hq true (List.mem_append_left _ (List.mem_map.2 ⟨idx, hc, rfl⟩)) rfl hm'
      · exact f1 hq false (List.mem_append_right _ (List.mem_map.2 ⟨idx, hc, rfl⟩)) rfl hm'
    · intro hr hh hdq hc hm hb
      subst hh
      obtain ⟨dq, hdq⟩ := hdq
      have hne : dq.hostname.isEmpty = false := by rw [hdq] at hq; simpa [Query.trivial] using hq
      exact f2 dq hdq hne hc rfl hm (by show (getDNSBasicRule (netRulesOf _)).isSome = false; rw [hb]; rfl)

/-- The same for the network engine of the lists (`NewNetworkEngine`, `MatchAll` queries): sub-sequence of the
    fault-free `Engine.matchAll` answer; cached network rules are still served. -/
theorem c19_composed_net {Re : Type} (io : IO) (px : E.ParseExt) (lists : List RList) (pm : PatModel Re)
    (hpat : px.ext.pat = pm.pat) (st : RuleStorage) (hnew : newRuleStorage lists = some st)
    (history : List (BitVec 64)) (h1 h2 : List HEv) :
    let env := envNet io px lists pm
    let e := Engine.build djb2 Facts.shortcutLength (storageNetRules px lists)
    (runHistoryT env {} (h1 ++ h2)).2 = (runHistoryT env {} h1).2 ++ (runHistoryT env (runHistoryT env {} h1).1 h2).2 ∧
    (runHistoryT env {} (h1 ++ h2)).2.map (·.q) = queriesOf (h1 ++ h2) ∧
    (∀ t ∈ (runHistoryT env {} (h1 ++ h2)).2,
      t.pc = .done ∧ t.answer.1.Sublist (netAnswer io px lists st history t.q).1) ∧
    (∀ idx (n : NetRule), cacheLookup (runHistoryT env {} h1).1.cache idx = some (.net n) →
      cacheLookup (runHistoryT env {} (h1 ++ h2)).1.cache idx = some (.net n) ∧
      ∀ t ∈ (runHistoryT env (runHistoryT env {} h1).1 h2).2, ∀ w : Request, t.q = .web w →
        (idx ∈ scCands djb2 Facts.shortcutLength e.sc w.urlLower ∨ idx ∈ domCands djb2 e.dom w.sourceHostname) →
        n.matches px.ext w = true → Rule.net n ∈ t.answer.1) := by
  intro env e
  obtain ⟨c1, c2, c3, c4⟩ := c19_composed env {} (sinv_init _) h1 h2
  refine ⟨c1, c2, ?_, ?_⟩
  · intro t ht
    obtain ⟨e1, e2, _⟩ := c3 t ht
    exact ⟨e1, by rw [← pureAnswer_envNet io px lists pm hpat st hnew history]; exact e2⟩
  · intro idx n hl
    refine ⟨(c4 idx _ hl).1, ?_⟩
    intro t ht w hw hc hm
    obtain ⟨f1, _⟩ := (c4 idx _ hl).2 t ht
    rw [hw] at f1
    have hm' : env.mtch (.net n) (env.reqOf (.web w)) = true := by
      show (envOf _ _ _ _ _ _ _ _ _).mtch _ _ = true
      rw [envOf_mtch_net _ _ _ _ _ _ _ _ _ hpat]; exact hm
    rcases hc with hc | hc
    · exact f1 rfl true (List.mem_append_left _ (List.mem_map.2 ⟨idx, hc, rfl⟩)) rfl hm'
    · exact f1 rfl false (List.mem_append_right _ (List.mem_map.2 ⟨idx, hc, rfl⟩)) rfl hm'

/-! ### Non-vacuity, from list BYTES: two file-backed lists; the first query retrieves `/banner` (list 1)
    (and, as a non-matching candidate of the domains table, `/ad$domain=c.org` of list -2); list 1 is
    closed; the second query would fault-free return four rules.  `-ads-` of list 1 was never retrieved and is
    lost, `/banner` of list 1 is served from the cache, the rules of list -2 are still read: the degraded answer
    is a strict sub-sequence of the fault-free one, and the entry cached before the fault is still in the cache. -/

private def exPx : E.ParseExt :=
  { ext := { psl := fun _ => (lit "org", true), parseAddr := fun s => if s == lit "0.0.0.0" then some ⟨true, 0, []⟩ else none,
             parsePrefix := fun _ => none, pat := fun p _ t => Bytes.hasSub t p },
    loadDNSRewrite := fun _ => none, regexpShortcut := fun _ => [] }

private def exLists : List RList :=
  [⟨1, false, lit "/banner\r\n! c\n0.0.0.0 b.org\n-ads-\n", true⟩,
   ⟨-2, true, lit "##x\n/ad$domain=c.org\n-ads-", true⟩]

private def exQ1 : Request :=
  { url := lit "http://x.org/banner", urlLower := lit "http://x.org/banner", hostname := lit "x.org",
    sourceURL := lit "http://c.org/", sourceHostname := lit "c.org", reqType := 4, thirdParty := true }

private def exQ : Request :=
  { url := lit "http://x.org/ad/-ads-/banner", urlLower := lit "http://x.org/ad/-ads-/banner", hostname := lit "x.org",
    sourceURL := lit "http://c.org/", sourceHostname := lit "c.org", reqType := 4, thirdParty := true }

example :
    let env := envNet ⟨4096, fun _ => 3⟩ exPx exLists (PatModel.ofOracle exPx.ext.pat)
    let texts := fun (rs : List Rule) => (netRulesOf rs).map (fun r => (r.text, r.listID))
    let h := runHistory env {} [.query (.web exQ1), .close 1, .query (.web exQ)]
    h.2.map (fun a => texts a.1) =
        [[(lit "/banner", 1)],
         [(lit "-ads-", -2), (lit "/banner", 1), (lit "/ad$domain=c.org", -2)]] ∧
      texts (pureAnswer env (.web exQ)).1 =
        [(lit "-ads-", 1), (lit "-ads-", -2), (lit "/banner", 1), (lit "/ad$domain=c.org", -2)] ∧
      texts ((runHistory env {} [.query (.web exQ1)]).1.cache.map (·.2)) =
        [(lit "/ad$domain=c.org", -2), (lit "/banner", 1)] ∧
      texts (h.1.cache.map (·.2)) = [(lit "-ads-", -2), (lit "/ad$domain=c.org", -2), (lit "/banner", 1)] ∧
      h.1.closed = [1] := by decide +kernel

/-- `c19_composed_net` instantiated on these lists (its hypotheses are satisfiable: the storage is built, every
    pattern oracle is a pattern model), for the split `[query] ++ [close 1, query]`. -/
example :
    ∀ t ∈ (runHistoryT (envNet ⟨4096, fun _ => 3⟩ exPx exLists (PatModel.ofOracle exPx.ext.pat)) {}
        ([.query (.web exQ1)] ++ [.close 1, .query (.web exQ)])).2,
      t.pc = .done ∧ t.answer.1.Sublist (netAnswer ⟨4096, fun _ => 3⟩ exPx exLists ⟨exLists, []⟩ [] t.q).1 :=
  (c19_composed_net ⟨4096, fun _ => 3⟩ exPx exLists (PatModel.ofOracle exPx.ext.pat) rfl ⟨exLists, []⟩ rfl []
    [.query (.web exQ1)] [.close 1, .query (.web exQ)]).2.2.1

end UF.C19

import UF.Compose5.C08Text
import UF.Props.C08Engine
import UF.Compose5.C08Order
/-
  C08 at TEXT level (integration group L): two rule texts that differ only by the `badfilter` modifier — at ANY
  position of the `,`-separated modifier list — are parsed to twins (`xb.matchFields = x.withBadfilter.matchFields`),
  both accepted or both rejected with the same error; hence they match the same requests, and adding the two
  LINES anywhere in the lists changes no verdict.

  Shape of the texts: `[@@] body $ m1,…,mk` with
    * modifiers `mi` non-empty, without `,`, `\` and `$` (no escaped commas — `$client='a\,b'`, `$replace=` —
      and no `$` inside a value; such lists are split differently by `splitWithEscapeCharacter` / `parseRuleText`);
    * `body` (the pattern) not ending in a backslash (`\$` is an escaped delimiter);
    * the text not of the `/regex/` shape (`hreg`; e.g. the pattern does not start with `/`, or the last modifier
      does not end with `/`).
  `c08_text_twin` is the general form with these three conditions replaced by what `parseRuleText` returns.
  Property theorems only (helper lemmas live in UF/Compose5/C08Text.lean, C08Split.lean).
-/
namespace UF.C08
open UF UF.B UF.Storage UF.Compose UF.Compose3 UF.L UF.E Bytes

/-- GENERAL FORM.  If `parseRuleText` splits `t1` and `t2` into the same exception flag and pattern, and the
    modifier texts are `m1,…,mk` resp. the same list with `badfilter` inserted at any position, then
    `NewNetworkRule(t2)` is `NewNetworkRule(t1)` with the `$badfilter` bit set, the text `t2` and its own list id. -/
theorem c08_text_twin (px : ParseExt) (t1 t2 : Bytes) (i j : Int) (pat : Bytes) (wl : Bool) (os1 os2 : List Bytes)
    (hc : ∀ o ∈ os1 ++ os2, CleanOption o)
    (h1 : parseRuleText t1 = .ok (pat, joinSep (os1 ++ os2) [ch ','], wl))
    (h2 : parseRuleText t2 = .ok (pat, joinSep (os1 ++ lit "badfilter" :: os2) [ch ','], wl)) :
    (∀ x, parseNetRule px t1 i = .ok x →
      ∃ xb, parseNetRule px t2 j = .ok xb ∧ xb.matchFields = x.withBadfilter.matchFields ∧
        xb.text = t2 ∧ xb.listID = j ∧ xb.shortcut = x.shortcut ∧
        ∀ q, xb.matches px.ext q = x.matches px.ext q) ∧
    (∀ e, parseNetRule px t1 i = .error e → parseNetRule px t2 j = .error e) := by
  have h := parseNetRule_insert_badfilter px t1 t2 i j pat wl os1 os2 hc h1 h2
  constructor
  · intro x hx
    rw [hx] at h
    refine ⟨tw 8 t2 j x, h, rfl, rfl, rfl, rfl, fun q => ?_⟩
    exact L.twin_matches px.ext x _ q rfl rfl
  · intro e he
    rw [he] at h
    exact h

/-- TEXT FORM: `[@@] body $ m1,…,mk` (k ≥ 1) and the same text with `badfilter` at any position of the list. -/
theorem c08_text_twin_texts (px : ParseExt) (wl : Bool) (body : Bytes) (os1 os2 : List Bytes) (i j : Int)
    (hne : os1 ++ os2 ≠ [])
    (hc : ∀ o ∈ os1 ++ os2, CleanOption o ∧ ch '$' ∉ o)
    (hwl : wl = false → hasPrefix body (lit "@@") = false)
    (hb : body.getLast? ≠ some (ch '\\'))
    (hreg : ∀ opts, (hasPrefix (body ++ ch '$' :: opts) (lit "/") && hasSuffix (body ++ ch '$' :: opts) (lit "/") &&
      !hasSub (body ++ ch '$' :: opts) (lit "replace=")) = false)
    (t1 t2 : Bytes)
    (ht1 : t1 = (if wl then lit "@@" else []) ++ (body ++ ch '$' :: joinSep (os1 ++ os2) [ch ',']))
    (ht2 : t2 = (if wl then lit "@@" else []) ++ (body ++ ch '$' :: joinSep (os1 ++ lit "badfilter" :: os2) [ch ','])) :
    (∀ x, parseNetRule px t1 i = .ok x →
      ∃ xb, parseNetRule px t2 j = .ok xb ∧ xb.matchFields = x.withBadfilter.matchFields ∧
        xb.text = t2 ∧ xb.listID = j ∧ xb.shortcut = x.shortcut ∧
        ∀ q, xb.matches px.ext q = x.matches px.ext q) ∧
    (∀ e, parseNetRule px t1 i = .error e → parseNetRule px t2 j = .error e) := by
  subst ht1 ht2
  have h := parseNetRule_texts_insert_badfilter px wl body os1 os2 i j hne hc hwl hb hreg
  constructor
  · intro x hx
    rw [hx] at h
    refine ⟨_, h, rfl, rfl, rfl, rfl, fun q => ?_⟩
    exact L.twin_matches px.ext x _ q rfl rfl
  · intro e he
    rw [he] at h
    exact h

/-- C08 FROM RAW INPUTS with the pair given as two LINES whose (trimmed) texts differ only by `badfilter` at any
    position of the modifier list: no twin hypothesis left — `NewRule` accepts both lines as network rules, the
    first one is not itself a badfilter rule and is structurally distinct from every rule of the lists. -/
theorem c08_storage_texts (io io' : IO) (px : ParseExt) (lists lists1 lists' : List RList)
    (hok : StorageOK lists) (hok' : StorageOK lists')
    (st st' : RuleStorage) (hnew : newRuleStorage lists = some st) (hnew' : newRuleStorage lists' = some st')
    (h1 h2 h1' h2' : List (BitVec 64)) (tx tb : Bytes) (i j : Int) (x xb : NetRule)
    (hl1 : LineInserted tx i lists lists1) (hl2 : LineInserted tb j lists1 lists')
    (hpx : newRule (realRx px) tx i = .ok (some (.net x)))
    (hpb : newRule (realRx px) tb j = .ok (some (.net xb)))
    (pat : Bytes) (wl : Bool) (os1 os2 : List Bytes) (hc : ∀ o ∈ os1 ++ os2, CleanOption o)
    (ht1 : parseRuleText (trimSpace tx) = .ok (pat, joinSep (os1 ++ os2) [ch ','], wl))
    (ht2 : parseRuleText (trimSpace tb) = .ok (pat, joinSep (os1 ++ lit "badfilter" :: os2) [ch ','], wl))
    (hx : x.badfilter = false)
    (hdist : ∀ r ∈ netRulesOf (specRules px lists), r.matchFields ≠ x.matchFields) :
    (∀ url sourceURL reqType,
      classOf (getBasicResult (engineMatchRequest io' px lists' st' h1' h2' url sourceURL reqType)) =
        classOf (getBasicResult (engineMatchRequest io px lists st h1 h2 url sourceURL reqType))) ∧
    (∀ q, classOf (getBasicResult (engineMatch io' px lists' st' h1' h2' q)) =
        classOf (getBasicResult (engineMatch io px lists st h1 h2 q))) ∧
    (∀ old old' d, d.hostname ≠ [] →
      classOf (dnsEngineMatchRequest io' px lists' st' h1' old' d).networkRule =
        classOf (dnsEngineMatchRequest io px lists st h1 old d).networkRule) := by
  have hp1 : parseNetRule px (trimSpace tx) i = .ok x := newRule_net hpx
  have hp2 : parseNetRule px (trimSpace tb) j = .ok xb := newRule_net hpb
  obtain ⟨xb', hxb', hmf, _⟩ := (c08_text_twin px _ _ i j pat wl os1 os2 hc ht1 ht2).1 x hp1
  rw [hp2] at hxb'
  cases hxb'
  exact c08_storage_lines io io' px lists lists1 lists' hok hok' st st' hnew hnew' h1 h2 h1' h2' tx tb i j x xb
    hl1 hl2 hpx hpb hx hmf hdist

/-! ### Non-vacuity: `badfilter` at the front, in the middle and at the back -/

private def exPx : ParseExt :=
  { ext := { psl := fun _ => (lit "com", true), parseAddr := fun _ => none,
             parsePrefix := fun _ => none, pat := I2.modelPatD },
    loadDNSRewrite := fun _ => none, regexpShortcut := fun _ => [] }

/-- The hypotheses of `c08_text_twin_texts` for `@@||e.com^$important,domain=a.com|b.com,image`. -/
example :
    (∀ o ∈ [lit "important", lit "domain=a.com|b.com"] ++ [lit "image"], CleanOption o ∧ ch '$' ∉ o) ∧
    (lit "||e.com^").getLast? ≠ some (ch '\\') ∧
    (∀ opts, (hasPrefix (lit "||e.com^" ++ ch '$' :: opts) (lit "/") &&
      hasSuffix (lit "||e.com^" ++ ch '$' :: opts) (lit "/") &&
      !hasSub (lit "||e.com^" ++ ch '$' :: opts) (lit "replace=")) = false) := by
  refine ⟨?_, by decide, fun opts => ?_⟩
  · intro o ho
    simp only [List.cons_append, List.nil_append, List.mem_cons, List.not_mem_nil, or_false] at ho
    unfold CleanOption CleanItem
    rcases ho with rfl | rfl | rfl <;> decide
  · have : hasPrefix (lit "||e.com^" ++ ch '$' :: opts) (lit "/") = false := by
      have h : lit "||e.com^" = 124 :: lit "|e.com^" := by decide
      have h' : lit "/" = [47] := by decide
      rw [h, h']
      simp [hasPrefix]
    rw [this]; rfl

/-- The three positions through the model parser: every `badfilter` variant negates the base rule, and the
    parsed rules agree on every matching field. -/
example :
    negatesText exPx (lit "@@||e.com^$badfilter,important,domain=a.com|b.com,image")
      (lit "@@||e.com^$important,domain=a.com|b.com,image") = some true ∧
    negatesText exPx (lit "@@||e.com^$important,domain=a.com|b.com,badfilter,image")
      (lit "@@||e.com^$important,domain=a.com|b.com,image") = some true ∧
    negatesText exPx (lit "@@||e.com^$important,domain=a.com|b.com,image,badfilter")
      (lit "@@||e.com^$important,domain=a.com|b.com,image") = some true := by
  decide +kernel

end UF.C08

import UF.Compose.Inert
import UF.Props.C01Compose
import UF.Props.C02Compose
import UF.Props.C15Compose
/-
  C12, inertness AT ENGINE LEVEL (maintenance group K; adversarial review TOP 11).

  `c12_inert*` of Props/C12.lean / C12Full.lean are congruences of `filterMap` over an ARBITRARY function
  `results` of the accepted rules: true, but they do not mention any engine.  The engine-level content of
  "inserting blank, comment or rejected lines anywhere in a list, or switching line endings, does not
  change any match result" is stated here, FROM THE BYTES of the lists, by composing

    * `c01_storage`  (`NetworkEngine.MatchAll` over the storage = reference over `specRules`),
    * `c02_storage`  (`DNSEngine.MatchRequest`                 = reference over `specRules`),
    * `c15_storage`  (`CosmeticEngine.Match` selector lists    = reference over `specRules`)

  with byte-level lemmas of UF/Compose/Inert.lean: a block of lines none of which yields a rule
  (`NoiseBlock`: every piece is blank, a comment, or rejected -- `acceptedOf = none`) inserted at ANY line
  boundary of ANY list (between two lines, before the first, after the last), and LF → CR LF in any subset
  of the lists, leave `specRules` -- the parsed rules, with list ids, in order -- unchanged.  Hence the
  engines built from the original and from the perturbed bytes give: the same `MatchAll` texts, equivalent
  DNS results (`DnsResult.Equiv`: network rules as a set of texts, class of the winner, host rules,
  `matched`), the same cosmetic selector lists (as sets).

  The engines are those of the end-to-end theorems: djb2, the generated `shortcutLength`, any backing
  (`file` flag), any chunking `io`, any cache histories -- independently on the two sides.  `StorageOK` of
  the perturbed lists is a hypothesis (the ids are unchanged; it only asks that the total size still fits
  an int32, which noise could break).
  Only property theorems and non-vacuity examples here.
-/
namespace UF.C12
open UF UF.B UF.Storage UF.Compose

/-! ### Noise in the bytes does not change the parsed rules -/

/-- Inserting a noise block between two lines of one list: `x LF y` ↦ `x LF n LF y`. -/
theorem c12_bytes_insert (px : E.ParseExt) (pre post : List RList) (l : RList) (x n y : Bytes)
    (hn : NoiseBlock (realRx px) l.id n) :
    specRules px (pre ++ { l with content := x ++ 10 :: (n ++ 10 :: y) } :: post) =
      specRules px (pre ++ { l with content := x ++ 10 :: y } :: post) := by
  apply specRules_replace
  have h1 := specRulesOf_append_nl (realRx px) l x (n ++ 10 :: y)
  have h2 := specRulesOf_append_nl (realRx px) l n y
  have h3 := specRulesOf_append_nl (realRx px) l x y
  have h4 := specRulesOf_noise (realRx px) l n hn
  rw [h1, h2, h3, h4, List.nil_append]

/-- … before the first line: `y` ↦ `n LF y`. -/
theorem c12_bytes_insert_front (px : E.ParseExt) (pre post : List RList) (l : RList) (n : Bytes)
    (hn : NoiseBlock (realRx px) l.id n) :
    specRules px (pre ++ { l with content := n ++ 10 :: l.content } :: post) =
      specRules px (pre ++ l :: post) := by
  apply specRules_replace
  have h2 := specRulesOf_append_nl (realRx px) l n l.content
  have h4 := specRulesOf_noise (realRx px) l n hn
  rw [h2, h4, List.nil_append]

/-- … after the last line: `x` ↦ `x LF n`. -/
theorem c12_bytes_insert_back (px : E.ParseExt) (pre post : List RList) (l : RList) (n : Bytes)
    (hn : NoiseBlock (realRx px) l.id n) :
    specRules px (pre ++ { l with content := l.content ++ 10 :: n } :: post) =
      specRules px (pre ++ l :: post) := by
  apply specRules_replace
  have h2 := specRulesOf_append_nl (realRx px) l l.content n
  have h4 := specRulesOf_noise (realRx px) l n hn
  rw [h2, h4, List.append_nil]

/-- Switching any subset of the lists from LF to CR LF line endings (`crlf`: every LF byte becomes
    CR LF): no hypothesis -- `strings.TrimSpace` (group D's model) removes the CR. -/
theorem c12_bytes_crlf (px : E.ParseExt) (lists : List RList) (sel : RList → Bool) :
    specRules px (lists.map fun l => if sel l then { l with content := crlf l.content } else l) =
      specRules px lists :=
  specRules_map_crlf px lists sel

/-- What counts as noise, spelled out with the outcomes of `NewRule`: a piece is inert iff `NewRule`
    returns nothing (blank line or comment) or an error (rejected line). -/
theorem c12_noise_iff (rx : E.RuleExt) (id : Int) (piece : Bytes) :
    E.acceptedOf rx id piece = none ↔
      (E.newRule rx piece id = .ok none ∨ ∃ e, E.newRule rx piece id = .error e) := by
  unfold E.acceptedOf
  cases h : E.newRule rx piece id with
  | ok o => cases o <;> simp
  | error e => simp

/-! ### Same parsed rules ⇒ same answers of the three engines (from bytes) -/

/-- `NetworkEngine.MatchAll`: two storages whose lists parse to the same rules report the same texts
    for every request (C01 twice). -/
theorem c12_engine_net (io io' : IO) (px : E.ParseExt) (lists lists' : List RList)
    (hok : StorageOK lists) (hok' : StorageOK lists')
    (st st' : RuleStorage) (hnew : newRuleStorage lists = some st) (hnew' : newRuleStorage lists' = some st')
    (history history' : List (BitVec 64))
    (hrules : specRules px lists' = specRules px lists) (q : Request) (t : Bytes) :
    t ∈ ((Engine.build djb2 Facts.shortcutLength (storageNetRules px lists')).matchAll djb2 Facts.shortcutLength
          (retrieveNet (retrieveAt io' px (reach io' px st' history'))) px.ext q).map (·.text) ↔
    t ∈ ((Engine.build djb2 Facts.shortcutLength (storageNetRules px lists)).matchAll djb2 Facts.shortcutLength
          (retrieveNet (retrieveAt io px (reach io px st history))) px.ext q).map (·.text) := by
  rw [C01.c01_storage io' px lists' hok' st' hnew' history' q t, C01.c01_storage io px lists hok st hnew history q t,
    hrules]

/-- `DNSEngine.MatchRequest`: … equivalent DNS results (C02 twice; `DnsResult.Equiv` is the comparison
    the property itself makes). -/
theorem c12_engine_dns (io io' : IO) (px : E.ParseExt) (lists lists' : List RList)
    (hok : StorageOK lists) (hok' : StorageOK lists')
    (st st' : RuleStorage) (hnew : newRuleStorage lists = some st) (hnew' : newRuleStorage lists' = some st')
    (history history' : List (BitVec 64))
    (hrules : specRules px lists' = specRules px lists) (q : Request) :
    DnsResult.Equiv
      ((DnsEngine.build djb2 Facts.shortcutLength (storageRulesI px lists')).matchRequest djb2 Facts.shortcutLength
        (retrieveAt io' px (reach io' px st' history')) px.ext getDNSBasicRule q)
      ((DnsEngine.build djb2 Facts.shortcutLength (storageRulesI px lists)).matchRequest djb2 Facts.shortcutLength
        (retrieveAt io px (reach io px st history)) px.ext getDNSBasicRule q) := by
  have h' := C02.c02_storage io' px lists' hok' st' hnew' history' q
  have h := C02.c02_storage io px lists hok st hnew history q
  rw [hrules] at h'
  obtain ⟨a1, a2, a3, a4, a5⟩ := h'
  obtain ⟨b1, b2, b3, b4, b5⟩ := h
  exact ⟨fun t => (a1 t).trans (b1 t).symm, a2.trans b2.symm, fun x => (a3 x).trans (b3 x).symm,
    fun x => (a4 x).trans (b4 x).symm, a5.trans b5.symm⟩

/-- `CosmeticEngine.Match`: … the same generic and specific selector lists, as sets (C15 twice). -/
theorem c12_engine_cos (px : E.ParseExt) (lists lists' : List RList)
    (hrules : specRules px lists' = specRules px lists) (host : Bytes)
    (includeCSS includeJS includeGenericCSS : Bool) :
    (∀ c, c ∈ ((CosTable.build (storageCosRules px lists')).matchHost px.ext host includeCSS includeJS includeGenericCSS).1 ↔
          c ∈ ((CosTable.build (storageCosRules px lists)).matchHost px.ext host includeCSS includeJS includeGenericCSS).1) ∧
    (∀ c, c ∈ ((CosTable.build (storageCosRules px lists')).matchHost px.ext host includeCSS includeJS includeGenericCSS).2 ↔
          c ∈ ((CosTable.build (storageCosRules px lists)).matchHost px.ext host includeCSS includeJS includeGenericCSS).2) := by
  have h' := C15.c15_storage px lists' host includeCSS includeJS includeGenericCSS
  have h := C15.c15_storage px lists host includeCSS includeJS includeGenericCSS
  rw [hrules] at h'
  exact ⟨fun c => (h'.1 c).trans (h.1 c).symm, fun c => (h'.2 c).trans (h.2 c).symm⟩

/-! ### The property's sentence, from bytes -/

/-- **Inserting blank, comment or rejected lines anywhere in a list does not change any match
    result.**  `lists = pre ++ l :: post` with `l.content = x LF y`; the perturbed storage has the
    block `n` (every line of which is blank, a comment or rejected) inserted at that line boundary.  All
    three engines answer the same on both storages, for every request / hostname. -/
theorem c12_engine_insert (io io' : IO) (px : E.ParseExt) (pre post : List RList) (l : RList) (x n y : Bytes)
    (hn : NoiseBlock (realRx px) l.id n)
    (hok : StorageOK (pre ++ { l with content := x ++ 10 :: y } :: post))
    (hok' : StorageOK (pre ++ { l with content := x ++ 10 :: (n ++ 10 :: y) } :: post))
    (st st' : RuleStorage)
    (hnew : newRuleStorage (pre ++ { l with content := x ++ 10 :: y } :: post) = some st)
    (hnew' : newRuleStorage (pre ++ { l with content := x ++ 10 :: (n ++ 10 :: y) } :: post) = some st')
    (history history' : List (BitVec 64)) :
    let lists := pre ++ { l with content := x ++ 10 :: y } :: post
    let lists' := pre ++ { l with content := x ++ 10 :: (n ++ 10 :: y) } :: post
    (∀ q t,
      t ∈ ((Engine.build djb2 Facts.shortcutLength (storageNetRules px lists')).matchAll djb2 Facts.shortcutLength
            (retrieveNet (retrieveAt io' px (reach io' px st' history'))) px.ext q).map (·.text) ↔
      t ∈ ((Engine.build djb2 Facts.shortcutLength (storageNetRules px lists)).matchAll djb2 Facts.shortcutLength
            (retrieveNet (retrieveAt io px (reach io px st history))) px.ext q).map (·.text)) ∧
    (∀ q, DnsResult.Equiv
      ((DnsEngine.build djb2 Facts.shortcutLength (storageRulesI px lists')).matchRequest djb2 Facts.shortcutLength
        (retrieveAt io' px (reach io' px st' history')) px.ext getDNSBasicRule q)
      ((DnsEngine.build djb2 Facts.shortcutLength (storageRulesI px lists)).matchRequest djb2 Facts.shortcutLength
        (retrieveAt io px (reach io px st history)) px.ext getDNSBasicRule q)) ∧
    (∀ host css js gen,
      (∀ c, c ∈ ((CosTable.build (storageCosRules px lists')).matchHost px.ext host css js gen).1 ↔
            c ∈ ((CosTable.build (storageCosRules px lists)).matchHost px.ext host css js gen).1) ∧
      (∀ c, c ∈ ((CosTable.build (storageCosRules px lists')).matchHost px.ext host css js gen).2 ↔
            c ∈ ((CosTable.build (storageCosRules px lists)).matchHost px.ext host css js gen).2)) := by
  intro lists lists'
  have hrules : specRules px lists' = specRules px lists := c12_bytes_insert px pre post l x n y hn
  exact ⟨fun q t => c12_engine_net io io' px lists lists' hok hok' st st' hnew hnew' history history' hrules q t,
    fun q => c12_engine_dns io io' px lists lists' hok hok' st st' hnew hnew' history history' hrules q,
    fun host css js gen => c12_engine_cos px lists lists' hrules host css js gen⟩

/-- **Switching line endings does not change any match result.**  Any subset `sel` of the lists is
    rewritten from LF to CR LF; all three engines answer the same on both storages. -/
theorem c12_engine_crlf (io io' : IO) (px : E.ParseExt) (lists : List RList) (sel : RList → Bool)
    (hok : StorageOK lists)
    (hok' : StorageOK (lists.map fun l => if sel l then { l with content := crlf l.content } else l))
    (st st' : RuleStorage) (hnew : newRuleStorage lists = some st)
    (hnew' : newRuleStorage (lists.map fun l => if sel l then { l with content := crlf l.content } else l) = some st')
    (history history' : List (BitVec 64)) :
    let lists' := lists.map fun l => if sel l then { l with content := crlf l.content } else l
    (∀ q t,
      t ∈ ((Engine.build djb2 Facts.shortcutLength (storageNetRules px lists')).matchAll djb2 Facts.shortcutLength
            (retrieveNet (retrieveAt io' px (reach io' px st' history'))) px.ext q).map (·.text) ↔
      t ∈ ((Engine.build djb2 Facts.shortcutLength (storageNetRules px lists)).matchAll djb2 Facts.shortcutLength
            (retrieveNet (retrieveAt io px (reach io px st history))) px.ext q).map (·.text)) ∧
    (∀ q, DnsResult.Equiv
      ((DnsEngine.build djb2 Facts.shortcutLength (storageRulesI px lists')).matchRequest djb2 Facts.shortcutLength
        (retrieveAt io' px (reach io' px st' history')) px.ext getDNSBasicRule q)
      ((DnsEngine.build djb2 Facts.shortcutLength (storageRulesI px lists)).matchRequest djb2 Facts.shortcutLength
        (retrieveAt io px (reach io px st history)) px.ext getDNSBasicRule q)) ∧
    (∀ host css js gen,
      (∀ c, c ∈ ((CosTable.build (storageCosRules px lists')).matchHost px.ext host css js gen).1 ↔
            c ∈ ((CosTable.build (storageCosRules px lists)).matchHost px.ext host css js gen).1) ∧
      (∀ c, c ∈ ((CosTable.build (storageCosRules px lists')).matchHost px.ext host css js gen).2 ↔
            c ∈ ((CosTable.build (storageCosRules px lists)).matchHost px.ext host css js gen).2)) := by
  intro lists'
  have hrules : specRules px lists' = specRules px lists := c12_bytes_crlf px lists sel
  exact ⟨fun q t => c12_engine_net io io' px lists lists' hok hok' st st' hnew hnew' history history' hrules q t,
    fun q => c12_engine_dns io io' px lists lists' hok hok' st st' hnew hnew' history history' hrules q,
    fun host css js gen => c12_engine_cos px lists lists' hrules host css js gen⟩

/-! ### Non-vacuity -/

private def exPx : E.ParseExt :=
  { ext := { psl := fun _ => (lit "org", true), parseAddr := fun s => if s == lit "0.0.0.0" then some ⟨true, 0, []⟩ else none,
             parsePrefix := fun _ => none, pat := fun _ _ _ => true },
    loadDNSRewrite := fun _ => none, regexpShortcut := fun _ => [] }

private def exL : RList := ⟨1, false, [], false⟩

/-- A noise block of four lines: blank, a `!` comment, a `#` comment, a rejected rule. -/
example : (Storage.splitLines (lit "\n! comment\n# c\n||a.org^$unknown")).map (E.acceptedOf (realRx exPx) 1) =
    [none, none, none, none] := by decide +kernel

/-- Both sides of `c12_bytes_insert` computed: `/banner LF 0.0.0.0 b.org` with the block inserted
    parses to the same two rules. -/
example :
    (specRules exPx [{ exL with content := lit "/banner" ++ 10 :: (lit "\n! comment\n# c\n||a.org^$unknown" ++ 10 :: lit "0.0.0.0 b.org") }]).map
        (fun r => (r.text, r.listID)) = [(lit "/banner", 1), (lit "0.0.0.0 b.org", 1)] ∧
    (specRules exPx [{ exL with content := lit "/banner" ++ 10 :: lit "0.0.0.0 b.org" }]).map
        (fun r => (r.text, r.listID)) = [(lit "/banner", 1), (lit "0.0.0.0 b.org", 1)] := by decide +kernel

/-- `crlf` on concrete bytes, and both sides of `c12_bytes_crlf`. -/
example : crlf (lit "/banner\n##x\n") = lit "/banner\r\n##x\r\n" := by decide
example :
    (specRules exPx [{ exL with content := crlf (lit "/banner\n##x\n") }]).map (fun r => r.text) =
      [lit "/banner", lit "##x"] := by decide +kernel

/-- `StorageOK` of a perturbed storage is satisfiable. -/
example : StorageOK [{ exL with content := crlf (lit "/banner\n##x\n") }] := ⟨by decide, by decide, by decide⟩

end UF.C12

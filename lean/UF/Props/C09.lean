import UF.Spec.DnsRewrite
import UF.Proofs.DnsRewrite
import UF.Proofs.DnsRewriteExamples
/-
  C09 — effective DNS rewrites apply every matching exception, in any order.
  Property theorems only (helper lemmas live in UF/Proofs/DnsRewrite.lean).
  `dnsRewrites` returns `Option`: `none` would be a nil-pointer panic of the Go code, so every
  statement `dnsRewrites … = some …` also says "does not crash".
-/
namespace UF.C09
open UF

/-- `DNSRewrites()` = the reference filter of `DNSRewritesAll()`, as SEQUENCES, for every list of
    matched network rules (any length, any mixture of rules with and without `$dnsrewrite`). -/
theorem c09 (res : List NetRule) : dnsRewrites res = some (specRewrites (dnsRewritesAll res)) :=
  dnsRewrites_eq_spec res

/-- `DNSRewritesAll()` = the rules with a `$dnsrewrite`, in order. -/
theorem c09_all (res : List NetRule) : dnsRewritesAll res = res.filter (·.rewrite.isSome) :=
  dnsRewritesAll_eq res

/-- Without `$badfilter` rules (the domain of the property; `$badfilter` belongs to C08) the
    reference is the plain filter of the property text. -/
theorem c09_nobadfilter (res : List NetRule) (h : ∀ r ∈ res, r.badfilter = false) :
    dnsRewrites res = some ((dnsRewritesAll res).filter (fun r =>
      !r.whitelist && !(dnsRewritesAll res).any (fun e => e.whitelist && disables e r))) := by
  rw [c09, specRewrites, specRemoveBad_of_no_badfilter]
  · rfl
  · intro r hr
    rw [c09_all] at hr
    exact h r (List.mem_filter.mp hr).1

/-- Membership form: a rule is an effective rewrite iff it is an effective (not badfilter-disabled)
    non-exception rewrite rule and no effective exception disables it. -/
theorem c09_mem_iff (res : List NetRule) (out : List NetRule) (h : dnsRewrites res = some out) (r : NetRule) :
    r ∈ out ↔ (r ∈ specRemoveBad (dnsRewritesAll res) ∧ r.whitelist = false ∧
      ∀ e ∈ specRemoveBad (dnsRewritesAll res), e.whitelist = true → disables e r = false) := by
  rw [c09] at h
  have := Option.some.inj h
  rw [← this, specRewrites, specRewritesCore, List.mem_filter]
  simp only [Bool.and_eq_true, Bool.not_eq_true', List.any_eq_false]
  constructor
  · intro ⟨h1, h2, h3⟩
    refine ⟨h1, h2, fun e he hw => ?_⟩
    cases hd : disables e r with
    | false => rfl
    | true => exact absurd ⟨hw, hd⟩ (h3 e he)
  · intro ⟨h1, h2, h3⟩
    refine ⟨h1, h2, fun e he => ?_⟩
    intro ⟨hw, hd⟩
    rw [h3 e he hw] at hd; cases hd

/-- Exception rules (and badfilter rules) are never returned; everything returned is a rewrite rule. -/
theorem c09_noexc (res out : List NetRule) (h : dnsRewrites res = some out) (r : NetRule) (hr : r ∈ out) :
    r.whitelist = false ∧ r.badfilter = false ∧ r.rewrite.isSome = true ∧ r ∈ res := by
  have hm := (c09_mem_iff res out h r).mp hr
  have h1 := List.mem_filter.mp hm.1
  have h2 : r ∈ res.filter (·.rewrite.isSome) := by rw [← c09_all]; exact h1.1
  have h3 := List.mem_filter.mp h2
  refine ⟨hm.2.1, ?_, h3.2, h3.1⟩
  have := h1.2
  simp only [Bool.and_eq_true, Bool.not_eq_true'] at this
  exact this.1

/-- Surviving rules keep their relative order (and multiplicity). -/
theorem c09_order (res out : List NetRule) (h : dnsRewrites res = some out) : out.Sublist res := by
  rw [c09] at h
  rw [← Option.some.inj h, specRewrites, specRewritesCore, specRemoveBad, c09_all]
  exact (List.filter_sublist.trans List.filter_sublist).trans List.filter_sublist

/-- Non-important exceptions never disable important rewrites. -/
theorem c09_important_rel (e r : NetRule) (he : e.important = false) (hr : r.important = true) :
    disables e r = false := by
  unfold disables
  split
  · simp [he, hr]
  · rfl

/-- An important effective rewrite rule is returned when every effective exception is non-important. -/
theorem c09_important (res out : List NetRule) (h : dnsRewrites res = some out) (r : NetRule)
    (hr : r ∈ specRemoveBad (dnsRewritesAll res)) (hw : r.whitelist = false) (hi : r.important = true)
    (hexc : ∀ e ∈ res, e.whitelist = true → e.important = false) : r ∈ out := by
  rw [c09_mem_iff res out h r]
  refine ⟨hr, hw, fun e he hew => c09_important_rel e r (hexc e ?_ hew) hi⟩
  have h1 := (List.mem_filter.mp he).1
  rw [c09_all] at h1
  exact (List.mem_filter.mp h1).1

/-- An important exception with an empty value disables ALL rewrites; a plain one with an empty
    value disables all non-important ones. -/
theorem c09_empty_exception (e r : NetRule) (he : e.rewrite = some emptyRewrite) (rw : DnsRewrite)
    (hr : r.rewrite = some rw) : disables e r = (e.important || !r.important) := by
  unfold disables; simp [he, hr]

/-- Moving the exceptions anywhere among the rules does not change the result: two result lists
    with the same subsequence of non-exception rules and the same exceptions up to order give the
    same effective rewrites. -/
theorem c09_perm (res res' : List NetRule)
    (h1 : res.filter (fun r => !r.whitelist) = res'.filter (fun r => !r.whitelist))
    (h2 : (res.filter (·.whitelist)).Perm (res'.filter (·.whitelist))) :
    dnsRewrites res = dnsRewrites res' := by
  rw [c09, c09, c09_all, c09_all]
  congr 1
  apply specRewrites_perm
  · rw [List.filter_filter, List.filter_filter]
    have : ∀ l : List NetRule, l.filter (fun a => (!a.whitelist) && a.rewrite.isSome) =
        (l.filter (fun r => !r.whitelist)).filter (·.rewrite.isSome) := by
      intro l; rw [List.filter_filter]; apply List.filter_congr; intro r _; exact Bool.and_comm _ _
    rw [this, this, h1]
  · have : ∀ l : List NetRule, (l.filter (·.rewrite.isSome)).filter (·.whitelist) =
        (l.filter (·.whitelist)).filter (·.rewrite.isSome) := by
      intro l; rw [List.filter_filter, List.filter_filter]; apply List.filter_congr; intro r _; exact Bool.and_comm _ _
    rw [this, this]
    exact h2.filter _

/-! #### non-vacuity and the old shape (D8) -/


/-- Repaired code on the D8 replay `[r1, @@r1, @@r2, r2]`: nothing is left; the MX exception
    disables the identical MX rewrite; an unrelated rule survives in place. -/
example : dnsRewrites [r1, e1, e2, r2] = some [] ∧ dnsRewrites [rMX, eMX] = some [] ∧
    dnsRewrites [e2, r1, rMX, e1] = some [rMX] := by decide

/-- The pinned tree's in-place index loop (D8) on the same input skips the exception that follows a
    deleted one and returns it together with the rule it should have disabled; and the MX value is
    compared by pointer. -/
example : dnsRewritesOld [r1, e1, e2, r2] = some [e2, r2] ∧ dnsRewritesOld [rMX, eMX] = some [rMX] := by decide

/-- `c09_perm` applies to the replay input: the exceptions moved to the front. -/
example : dnsRewrites [e1, e2, r1, r2] = dnsRewrites [r1, e1, e2, r2] := by decide

end UF.C09

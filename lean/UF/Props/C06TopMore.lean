import UF.Compose3.NetMatch
import UF.Compose3.Lines
import UF.Props.C06Top
/-
  C06 AT THE TOP LEVEL, additions of group P1 (second adversarial review, m1).

  * `c06_top_netmatch*`: `NetworkEngine.Match` — the single-rule entry point named in the property — from raw
    inputs: class, and the returned rule is the WINNER among the web candidates of the matching lines.
  * `c06_top_winner_maximal`, `c06_top_no_winner`: the basic rule of `Engine.MatchRequest` is a web candidate of
    the reference sets that no web candidate outranks (`c06_top_winner` gave membership only); there is none iff
    there is no candidate.
  * `c06_top_document`: the DOCUMENT rule of the result is one of the source-matching lines — an effective
    referrer-level exception (`$urlblock` or `$genericblock`) that no other one outranks (claimed in a docstring
    of UF/Compose3/WebTop.lean before, now proved).
  * ORDER FROM BYTES.  `c06_top_lines_set`: two storages whose lists have the same SET of lines give the same
    verdict class — whatever the order of the lines inside a list, however the lines are distributed over
    however many lists, whatever the list ids, `ignoreCosmetic` flags and backings.  DO LIST IDS MATTER?  No: the
    id is stored in the parsed rule and read by nothing that decides acceptance, matching, effectiveness or
    priority (`newRule_net_id`, `classWeb_agree`); `StorageOK` only asks the ids of one storage to be distinct and
    to fit int32.  `c06_top_perm_lines` (the lines of ONE list permuted), `c06_top_resplit` (the same multiset of
    lines in another number of lists), `c06_top_regroup` (the contents given as LF-joined groups of lines: any
    regrouping of any permutation of the lines) are the corollaries asked for.
  Property theorems only (helper lemmas live in UF/Compose3).
-/
namespace UF.C06
open UF UF.B UF.Storage UF.Compose UF.Compose3 Bytes

/-- C06 FOR `NetworkEngine.Match`, from raw inputs: the class of the returned rule is the documented precedence
    over the lines of the lists that individually match the request (no referrer: nothing is suppressed). -/
theorem c06_top_netmatch (io : IO) (px : E.ParseExt) (lists : List RList) (hok : StorageOK lists)
    (st : RuleStorage) (hnew : newRuleStorage lists = some st) (history : List (BitVec 64)) (r : Request) :
    classOf (networkEngineMatch io px lists st history r) = classWeb (matchingLines px lists r) [] :=
  networkEngineMatch_class io px lists hok st hnew history r

/-- … the early `return nil, false` for no matching rule is not a special case … -/
theorem c06_top_netmatch_eq (io : IO) (px : E.ParseExt) (lists : List RList) (st : RuleStorage)
    (history : List (BitVec 64)) (r : Request) :
    networkEngineMatch io px lists st history r =
      getBasicResult (newMatchingResult (netMatchAll io px lists st history r) []) :=
  networkEngineMatch_eq io px lists st history r

/-- … and the returned rule is a line of the lists that matches, is effective and not special-purpose, and is
    outranked by no such line. -/
theorem c06_top_netmatch_winner (io : IO) (px : E.ParseExt) (lists : List RList) (hok : StorageOK lists)
    (st : RuleStorage) (hnew : newRuleStorage lists = some st) (history : List (BitVec 64)) (r : Request)
    (b : NetRule) (h : networkEngineMatch io px lists st history r = some b) :
    b ∈ matchingLines px lists r ∧ webCandidate (matchingLines px lists r) [] b = true ∧
      ∀ c ∈ matchingLines px lists r, webCandidate (matchingLines px lists r) [] c = true →
        isHigherPriority c b = false := by
  have := networkEngineMatch_winner io px lists hok st hnew history r
  rw [h] at this
  exact this

/-- `NetworkEngine.Match` returns nothing iff no line is a candidate. -/
theorem c06_top_netmatch_none (io : IO) (px : E.ParseExt) (lists : List RList) (hok : StorageOK lists)
    (st : RuleStorage) (hnew : newRuleStorage lists = some st) (history : List (BitVec 64)) (r : Request)
    (h : networkEngineMatch io px lists st history r = none) :
    ∀ c ∈ matchingLines px lists r, webCandidate (matchingLines px lists r) [] c = false := by
  have := networkEngineMatch_winner io px lists hok st hnew history r
  rw [h] at this
  exact this

/-- The basic rule of `Engine.MatchRequest` is THE WINNER: a web candidate (effective, not special-purpose, not
    suppressed by the referrer's `$urlblock` / `$genericblock`) among the matching lines that no web candidate
    outranks (C01 + C06 + C07 composed). -/
theorem c06_top_winner_maximal (io : IO) (px : E.ParseExt) (lists : List RList) (hok : StorageOK lists)
    (st : RuleStorage) (hnew : newRuleStorage lists = some st) (history history' : List (BitVec 64))
    (url sourceURL : Bytes) (reqType : Nat) (b : NetRule)
    (h : (engineMatchRequest io px lists st history history' url sourceURL reqType).basicRule = some b) :
    b ∈ matchingLines px lists (requestOf px.ext url sourceURL reqType) ∧
    webCandidate (matchingLines px lists (requestOf px.ext url sourceURL reqType))
      (sourceMatchingLines px lists (requestOf px.ext url sourceURL reqType)) b = true ∧
    ∀ c ∈ matchingLines px lists (requestOf px.ext url sourceURL reqType),
      webCandidate (matchingLines px lists (requestOf px.ext url sourceURL reqType))
        (sourceMatchingLines px lists (requestOf px.ext url sourceURL reqType)) c = true →
      isHigherPriority c b = false := by
  have := engineMatch_basic_winner io px lists hok st hnew history history' (requestOf px.ext url sourceURL reqType)
  unfold engineMatchRequest at h
  rw [h] at this
  exact this

/-- There is no basic rule iff no matching line is a web candidate. -/
theorem c06_top_no_winner (io : IO) (px : E.ParseExt) (lists : List RList) (hok : StorageOK lists)
    (st : RuleStorage) (hnew : newRuleStorage lists = some st) (history history' : List (BitVec 64))
    (url sourceURL : Bytes) (reqType : Nat)
    (h : (engineMatchRequest io px lists st history history' url sourceURL reqType).basicRule = none) :
    ∀ c ∈ matchingLines px lists (requestOf px.ext url sourceURL reqType),
      webCandidate (matchingLines px lists (requestOf px.ext url sourceURL reqType))
        (sourceMatchingLines px lists (requestOf px.ext url sourceURL reqType)) c = false := by
  have := engineMatch_basic_winner io px lists hok st hnew history history' (requestOf px.ext url sourceURL reqType)
  unfold engineMatchRequest at h
  rw [h] at this
  exact this

/-- The DOCUMENT RULE of the result (what `GetBasicResult` falls back to) is one of the SOURCE-MATCHING LINES:
    a line of the lists that matches the referrer document request, an exception carrying `$urlblock` or
    `$genericblock`, effective among the source-matching lines (no `$badfilter`, not negated, no `$dnsrewrite`),
    and outranked by no other such line.  In particular there is none without a source URL. -/
theorem c06_top_document (io : IO) (px : E.ParseExt) (lists : List RList) (hok : StorageOK lists)
    (st : RuleStorage) (hnew : newRuleStorage lists = some st) (history history' : List (BitVec 64))
    (url sourceURL : Bytes) (reqType : Nat) (d : NetRule)
    (h : (engineMatchRequest io px lists st history history' url sourceURL reqType).documentRule = some d) :
    d ∈ sourceMatchingLines px lists (requestOf px.ext url sourceURL reqType) ∧
    d.whitelist = true ∧
    (d.isEnabled Facts.OptionUrlblock = true ∨ d.isEnabled Facts.OptionGenericblock = true) ∧
    effectiveIn (sourceMatchingLines px lists (requestOf px.ext url sourceURL reqType)) d = true ∧
    ∀ c ∈ sourceMatchingLines px lists (requestOf px.ext url sourceURL reqType),
      effectiveIn (sourceMatchingLines px lists (requestOf px.ext url sourceURL reqType)) c = true →
      isDocumentWhitelistRule c = true → isHigherPriority c d = false := by
  have := engineMatch_document_winner io px lists hok st hnew history history' (requestOf px.ext url sourceURL reqType)
  unfold engineMatchRequest at h
  rw [h] at this
  obtain ⟨h1, h2, h3⟩ := this
  unfold docCandidate at h2
  simp only [Bool.and_eq_true] at h2
  have hd := h2.2
  unfold isDocumentWhitelistRule at hd
  simp only [Bool.and_eq_true, Bool.or_eq_true] at hd
  refine ⟨h1, hd.1, hd.2, h2.1, fun c hc he hdc => h3 c hc ?_⟩
  unfold docCandidate
  rw [he, hdc]; rfl

/-- … and without a source URL there is no document rule. -/
theorem c06_top_document_nosrc (io : IO) (px : E.ParseExt) (lists : List RList) (hok : StorageOK lists)
    (st : RuleStorage) (hnew : newRuleStorage lists = some st) (history history' : List (BitVec 64))
    (url : Bytes) (reqType : Nat) :
    (engineMatchRequest io px lists st history history' url [] reqType).documentRule = none := by
  cases h : (engineMatchRequest io px lists st history history' url [] reqType).documentRule with
  | none => rfl
  | some d =>
    have := (c06_top_document io px lists hok st hnew history history' url [] reqType d h).1
    unfold sourceMatchingLines at this
    have hs : (requestOf px.ext url [] reqType).sourceURL = [] := by
      rw [(requestOf_fields px.ext url [] reqType).2.2.1]; rfl
    rw [hs] at this
    simp at this

/-! ### order of the lines, and how they are split over lists, from the bytes -/

/-- ORDER FROM BYTES, general form: two storages whose lists have the same SET of lines (pieces between
    newlines) give the same verdict class for every URL, source URL and type — any order of the lines inside the
    lists, any distribution over any number of lists, any list ids / flags / backings / chunkings / cache
    histories, duplicates included. -/
theorem c06_top_lines_set (io io' : IO) (px : E.ParseExt) (lists lists' : List RList)
    (hok : StorageOK lists) (hok' : StorageOK lists')
    (st st' : RuleStorage) (hnew : newRuleStorage lists = some st) (hnew' : newRuleStorage lists' = some st')
    (h1 h2 h1' h2' : List (BitVec 64)) (url sourceURL : Bytes) (reqType : Nat)
    (h : ∀ p, p ∈ allLines lists ↔ p ∈ allLines lists') :
    classOf (getBasicResult (engineMatchRequest io px lists st h1 h2 url sourceURL reqType)) =
      classOf (getBasicResult (engineMatchRequest io' px lists' st' h1' h2' url sourceURL reqType)) := by
  apply c06_top_texts io io' px lists lists' hok hok' st st' hnew hnew'
  intro t
  exact ⟨netTexts_of_lines px lists lists' (fun p => (h p).1) t, netTexts_of_lines px lists' lists (fun p => (h p).2) t⟩

/-- (a) PERMUTING THE LINES WITHIN ONE LIST: the content of one list is replaced by any content whose lines are a
    permutation of its lines. -/
theorem c06_top_perm_lines (io : IO) (px : E.ParseExt) (pre post : List RList) (l : RList) (content' : Bytes)
    (hperm : (splitLines content').Perm (splitLines l.content))
    (hok : StorageOK (pre ++ l :: post)) (hok' : StorageOK (pre ++ { l with content := content' } :: post))
    (st st' : RuleStorage) (hnew : newRuleStorage (pre ++ l :: post) = some st)
    (hnew' : newRuleStorage (pre ++ { l with content := content' } :: post) = some st')
    (h1 h2 h1' h2' : List (BitVec 64)) (url sourceURL : Bytes) (reqType : Nat) :
    classOf (getBasicResult (engineMatchRequest io px (pre ++ l :: post) st h1 h2 url sourceURL reqType)) =
      classOf (getBasicResult (engineMatchRequest io px (pre ++ { l with content := content' } :: post) st' h1' h2'
        url sourceURL reqType)) := by
  apply c06_top_lines_set io io px _ _ hok hok' st st' hnew hnew'
  intro p
  unfold allLines
  simp only [List.flatMap_append, List.flatMap_cons, List.mem_append]
  rw [hperm.mem_iff]

/-- (b) RE-SPLITTING: the same multiset of lines distributed over a different number of lists (with whatever ids). -/
theorem c06_top_resplit (io io' : IO) (px : E.ParseExt) (lists lists' : List RList)
    (hperm : (allLines lists).Perm (allLines lists'))
    (hok : StorageOK lists) (hok' : StorageOK lists')
    (st st' : RuleStorage) (hnew : newRuleStorage lists = some st) (hnew' : newRuleStorage lists' = some st')
    (h1 h2 h1' h2' : List (BitVec 64)) (url sourceURL : Bytes) (reqType : Nat) :
    classOf (getBasicResult (engineMatchRequest io px lists st h1 h2 url sourceURL reqType)) =
      classOf (getBasicResult (engineMatchRequest io' px lists' st' h1' h2' url sourceURL reqType)) :=
  c06_top_lines_set io io' px lists lists' hok hok' st st' hnew hnew' h1 h2 h1' h2' url sourceURL reqType
    (fun _ => hperm.mem_iff)

/-- (a) + (b) FROM THE BYTES: the contents are given as groups of LF-free lines joined with LF (`joinLines`), one
    group per list; any regrouping of any permutation of all the lines — into any number of lists with any ids —
    gives the same verdict class. -/
theorem c06_top_regroup (io io' : IO) (px : E.ParseExt) (lists lists' : List RList) (gs gs' : List (List Bytes))
    (hc : lists.map (·.content) = gs.map joinLines) (hc' : lists'.map (·.content) = gs'.map joinLines)
    (hg : ∀ g ∈ gs, g ≠ [] ∧ ∀ l ∈ g, (10 : UInt8) ∉ l) (hg' : ∀ g ∈ gs', g ≠ [] ∧ ∀ l ∈ g, (10 : UInt8) ∉ l)
    (hperm : gs.flatten.Perm gs'.flatten)
    (hok : StorageOK lists) (hok' : StorageOK lists')
    (st st' : RuleStorage) (hnew : newRuleStorage lists = some st) (hnew' : newRuleStorage lists' = some st')
    (h1 h2 h1' h2' : List (BitVec 64)) (url sourceURL : Bytes) (reqType : Nat) :
    classOf (getBasicResult (engineMatchRequest io px lists st h1 h2 url sourceURL reqType)) =
      classOf (getBasicResult (engineMatchRequest io' px lists' st' h1' h2' url sourceURL reqType)) := by
  have key : ∀ (L : List RList) (G : List (List Bytes)), L.map (·.content) = G.map joinLines →
      (∀ g ∈ G, g ≠ [] ∧ ∀ l ∈ g, (10 : UInt8) ∉ l) → allLines L = G.flatten := by
    intro L G hLG hG
    have e1 : allLines L = (L.map (·.content)).flatMap splitLines := by
      unfold allLines; rw [List.flatMap_map]
    rw [e1, hLG, List.flatMap_map]
    clear e1 hLG
    induction G with
    | nil => rfl
    | cons g G ih =>
      rw [List.flatMap_cons, List.flatten_cons, ih (fun x hx => hG x (List.mem_cons_of_mem _ hx)),
        splitLines_joinLines g (hG g List.mem_cons_self).1 (hG g List.mem_cons_self).2]
  apply c06_top_resplit io io' px lists lists' _ hok hok' st st' hnew hnew'
  rw [key lists gs hc hg, key lists' gs' hc' hg']
  exact hperm

/-! ### Non-vacuity -/

private def exPx : E.ParseExt :=
  { ext := { psl := fun _ => (lit "org", true), parseAddr := fun _ => none,
             parsePrefix := fun _ => none, pat := I2.modelPatD },
    loadDNSRewrite := fun _ => none, regexpShortcut := fun _ => [] }

/-- Two lists … -/
private def exLists : List RList :=
  [⟨1, false, lit "||ads.org^\n! c\n/banner$domain=site.org", false⟩,
   ⟨7, false, lit "@@||site.org^$genericblock\n@@||ads.org/ok^", false⟩]

/-- … and the same lines, permuted, in ONE list with another id (`c06_top_regroup` with
    `gs = [[l1, l2, l3], [l4, l5]]`, `gs' = [[l5, l3, l1, l4, l2]]`). -/
private def exLists' : List RList :=
  [⟨3, false, lit "@@||ads.org/ok^\n/banner$domain=site.org\n||ads.org^\n@@||site.org^$genericblock\n! c", true⟩]

example : StorageOK exLists ∧ StorageOK exLists' := ⟨⟨by decide, by decide, by decide⟩, ⟨by decide, by decide, by decide⟩⟩

example :
    exLists.map (·.content) = [[lit "||ads.org^", lit "! c", lit "/banner$domain=site.org"],
      [lit "@@||site.org^$genericblock", lit "@@||ads.org/ok^"]].map joinLines ∧
    exLists'.map (·.content) = [[lit "@@||ads.org/ok^", lit "/banner$domain=site.org", lit "||ads.org^",
      lit "@@||site.org^$genericblock", lit "! c"]].map joinLines := by decide

/-- The verdicts computed on both storages agree (block / allow by the exception / allow by the referrer's
    `$genericblock` exception, whose document rule is the source-matching line `@@||site.org^$genericblock`), and
    `NetworkEngine.Match` returns the blocking rule for the first and the exception for the second request. -/
example :
    let e := fun (ls : List RList) (u s : String) =>
      engineMatchRequest ⟨4096, fun _ => 1⟩ exPx ls ⟨ls, []⟩ [] [] (lit u) (lit s) 4
    classOf (getBasicResult (e exLists "http://ads.org/x" "")) = .block ∧
    classOf (getBasicResult (e exLists' "http://ads.org/x" "")) = .block ∧
    classOf (getBasicResult (e exLists "http://ads.org/ok/" "")) = .allow ∧
    classOf (getBasicResult (e exLists' "http://ads.org/ok/" "")) = .allow ∧
    classOf (getBasicResult (e exLists "http://ads.org/x" "http://site.org/")) = .allow ∧
    classOf (getBasicResult (e exLists' "http://ads.org/x" "http://site.org/")) = .allow ∧
    (e exLists "http://ads.org/x" "http://site.org/").documentRule.map (·.text) =
      some (lit "@@||site.org^$genericblock") ∧
    (e exLists "http://ads.org/x" "").documentRule = none := by
  decide +kernel

example :
    let m := fun (u : String) =>
      networkEngineMatch ⟨4096, fun _ => 1⟩ exPx exLists ⟨exLists, []⟩ []
        (requestOf exPx.ext (lit u) [] 4)
    (m "http://ads.org/x").map (·.text) = some (lit "||ads.org^") ∧
    (m "http://ads.org/ok/").map (·.text) = some (lit "@@||ads.org/ok^") ∧
    m "http://other.org/" = none := by
  decide +kernel

end UF.C06

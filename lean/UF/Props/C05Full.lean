import UF.Compose2.ShortcutMask
import UF.Compose2.ParsePattern
import UF.Compose2.RegexShortcutSound
import UF.Proofs.RegexQuirkLits
import UF.Props.C05
import UF.Props.C03
import UF.Model.RequestNew
/-
  C05 for mask rules, HYPOTHESIS-FREE (integration group I2).

  Group A's `c05_mask_rule` had the hypothesis `hcompiled` ("whatever the pattern oracle accepts is
  accepted by a concatenation containing the literal atoms of the shortcut's run"); here it is
  discharged from group G's mask compiler: by `c03_text` the text `preparePattern` compiles parses to
  `maskAst (tokenize p) mc`, and the maximal run chosen by `findShortcut` appears in it as consecutive
  literal atoms (UF/Compose2/ShortcutMask.lean).  With the pattern oracle instantiated by `modelPat`
  the rule-level statements need no assumption about `regexp` at all.
  Only property theorems and non-vacuity examples here.
-/
namespace UF.C05
open UF Bytes Re UF.I2

/-- Masks, at the level of the compiled matcher: for EVERY ASCII mask pattern `p` (as stored in the
    rule), with or without `$match-case`, and EVERY ASCII subject `u`, if the compiled pattern
    accepts `u` then the lower-cased subject contains the rule's shortcut
    (`loadShortcut (findShortcut p)`: the longest separator-free run, lower-cased, if longer than 1).
    The hypothesis `hu` is not needed by the proof (the byte-level model satisfies the statement for
    all bytes); it delimits the domain on which `compiledAccepts`/`toLower` ARE Go's rune-based
    `regexp`/`strings.ToLower` (review TOP 7: `||ex.org/a^b` vs `http://ex.org/aéb`; `ſ`/`K` folding). -/
theorem c05_mask_full (p : Bytes) (mc : Bool) (u w : Bytes) (hp : ∀ b ∈ p, b < 128)
    (_hu : ∀ b ∈ u, b < 128)
    (hre : UF.isRegexPattern p = false) (hf : findShortcut p = some w)
    (h : Mask.compiledAccepts p mc u = true) :
    hasSub (toLower u) (loadShortcut w) = true := by
  obtain ⟨as, bs, fold, hs⟩ := compiled_has_run mc u hp hre hf h
  exact c05_mask_atoms as bs fold w u hs

/-- The same with `findShortcut`'s totality folded in: the shortcut exists and is implied. -/
theorem c05_mask_full_total (p : Bytes) (mc : Bool) (hp : ∀ b ∈ p, b < 128)
    (hre : UF.isRegexPattern p = false) :
    ∃ w, findShortcut p = some w ∧
      ∀ u, (∀ b ∈ u, b < 128) → Mask.compiledAccepts p mc u = true →
        hasSub (toLower u) (loadShortcut w) = true := by
  obtain ⟨w, hw, _⟩ := findShortcut_inv p
  exact ⟨w, hw, fun u hu h => c05_mask_full p mc u w hp hu hre hw h⟩

/-- Against the DOCUMENTED mask language (through `c03`): every ASCII subject without a line feed that
    the mask language of `p` accepts contains the shortcut. -/
theorem c05_mask_spec (p : Bytes) (mc : Bool) (u w : Bytes) (hp : ∀ b ∈ p, b < 128)
    (hu : ∀ b ∈ u, b < 128)
    (hre : UF.isRegexPattern p = false) (hn : Mask.NoNL u) (hf : findShortcut p = some w)
    (h : MaskSpec.maskAccepts (MaskSpec.tokenize p) mc u = true) :
    hasSub (toLower u) (loadShortcut w) = true := by
  apply c05_mask_full p mc u w hp hu hre hf
  rw [C03.c03_stored p mc u hp hu hre hn]
  exact h

/-- Through `modelPat`: whenever the composed pattern model answers `true` on a mask pattern, the
    shortcut is in the lower-cased target. -/
theorem c05_mask_modelPat (p : Bytes) (mc : Bool) (u w : Bytes) (hre : UF.isRegexPattern p = false)
    (hf : findShortcut p = some w) (h : modelPat p mc u = some true) :
    hasSub (toLower u) (loadShortcut w) = true := by
  have hc := modelPat_some_compiled h
  unfold modelPat at h
  rw [hre] at h
  simp only [Bool.false_eq_true, if_false] at h
  split at h
  · rename_i hd
    simp only [Bool.and_eq_true] at hd
    exact c05_mask_full p mc u w ((isAscii_iff p).1 hd.1.1) ((isAscii_iff u).1 hd.1.2) hre hf hc
  · cases h

/-- C05 at the level of `Match` for mask rules, with the pattern oracle instantiated by the models and
    NO hypothesis about the compiled expression: for every rule whose shortcut is what `loadShortcut`
    computes from its (non-regex) pattern, and every well-formed request, `Match` is unchanged when the
    shortcut test is removed. -/
theorem c05_full (ext : Ext) (r : NetRule) (q : Request) (w : Bytes)
    (hre : UF.isRegexPattern r.pattern = false)
    (hfind : findShortcut r.pattern = some w)
    (hshort : r.shortcut = loadShortcut w)
    (hlower : q.urlLower = toLower q.url)
    (hhost : q.isHostnameRequest = true → hasSub q.url q.hostname = true) :
    (w = [] ∨ IsMaskRun r.pattern w) ∧
    r.matches (withModelPat ext) q = ({ r with shortcut := [] } : NetRule).matches (withModelPat ext) q := by
  apply c05_mask_rule (withModelPat ext) r q w hfind hshort _ hlower hhost
  intro target ht
  simp only [withModelPat_pat, modelPatD] at ht
  cases hm : modelPat r.pattern (r.isEnabled Facts.OptionMatchCase) target with
  | none => rw [hm] at ht; cases ht
  | some b =>
    rw [hm] at ht
    simp only [Option.getD_some] at ht
    subst ht
    have hc := modelPat_some_compiled hm
    unfold modelPat at hm
    rw [hre] at hm
    simp only [Bool.false_eq_true, if_false] at hm
    split at hm
    · rename_i hd
      simp only [Bool.and_eq_true] at hd
      exact compiled_has_run _ target ((isAscii_iff _).1 hd.1.1) hre hfind hc
    · cases hm

/-- The same for `/regex/` rules over `modelPat` (group A's `c05_regex_rule` with its pattern
    hypothesis discharged for the composed oracle): the candidates `parts` of the textual heuristics
    are arbitrary, the tree is the model's parse of the text between the slashes.  No hypothesis about
    a `(?i)` at the start of a `$match-case` rule's own text is needed (review TOP 14): then `parseCore`
    yields no tree, nothing is required and no candidate is accepted (`parseCore_of_hasPrefix_ci`). -/
theorem c05_full_regex (ext : Ext) (r : NetRule) (q : Request) (parts : List Bytes)
    (hre : UF.isRegexPattern r.pattern = true)
    (hshort : r.shortcut = loadShortcut (findRegexpShortcut parts (parseCore ((r.pattern.drop 1).dropLast))))
    (hlower : q.urlLower = toLower q.url)
    (hhost : q.isHostnameRequest = true → hasSub q.url q.hostname = true) :
    r.matches (withModelPat ext) q = ({ r with shortcut := [] } : NetRule).matches (withModelPat ext) q := by
  apply c05_regex_rule (withModelPat ext) r q parts _ hshort _ hlower hhost
  intro target ht
  simp only [withModelPat_pat, modelPatD] at ht
  cases hm : modelPat r.pattern (r.isEnabled Facts.OptionMatchCase) target with
  | none => rw [hm] at ht; cases ht
  | some b =>
    rw [hm] at ht
    simp only [Option.getD_some] at ht
    subst ht
    obtain ⟨r0, hparse, hs, _⟩ := modelPat_regex_some hre hm
    unfold regexRuleText at hparse
    generalize (r.pattern.drop 1).dropLast = inner at hparse ⊢
    cases hmc : r.isEnabled Facts.OptionMatchCase with
    | false =>
      rw [hmc] at hparse
      simp only [Bool.false_eq_true, if_false, parseRE_ci] at hparse
      cases hp : parseCore inner with
      | none => rw [hp] at hparse; cases hparse
      | some t =>
        rw [hp] at hparse
        simp only [Option.map_some, Option.some.injEq] at hparse
        subst hparse
        refine ⟨t.foldCase, ?_, hs.symm⟩
        intro t' ht'; cases ht'; exact litsCovered_foldCase t
    | true =>
      rw [hmc] at hparse
      simp only [if_true] at hparse
      cases hci : hasPrefix inner ciPrefix with
      | true =>
        -- the text itself starts with `(?i)`: `parseCore` has no flag groups, the tree is `none`
        refine ⟨r0, ?_, hs.symm⟩
        intro t' ht'
        rw [parseCore_of_hasPrefix_ci hci] at ht'
        cases ht'
      | false =>
        simp only [parseRE, hci, Bool.false_eq_true, if_false] at hparse
        refine ⟨r0, ?_, hs.symm⟩
        intro t' ht'
        -- `r0` is Go's tree (`goTree`) of the textbook tree `t'`: it requires what `t'` requires
        rw [ht', Option.bind_some] at hparse
        exact litsCovered_goTree hparse

/-- C05 from the rule TEXT for mask rules — no oracle and no hypothesis about the rule record: whatever
    `NewNetworkRule` accepts with a pattern that is not a `/regex/` matches the same requests with and
    without its shortcut test (`loadShortcut` stored what `findShortcut` finds in the stored pattern:
    `parseNetRule_pattern`). -/
theorem c05_text_full (px : E.ParseExt) (t : Bytes) (id : Int) (r : NetRule) (q : Request)
    (h : E.parseNetRule px t id = .ok r)
    (hre : UF.isRegexPattern r.pattern = false)
    (hlower : q.urlLower = toLower q.url)
    (hhost : q.isHostnameRequest = true → hasSub q.url q.hostname = true) :
    r.matches (withModelPat px.ext) q = ({ r with shortcut := [] } : NetRule).matches (withModelPat px.ext) q := by
  obtain ⟨_, _, _, _, _, _, hsc⟩ := parseNetRule_pattern h
  rcases hsc with ⟨hre', _⟩ | ⟨_, w, hw, hs⟩
  · rw [hre] at hre'; cases hre'
  · exact (c05_full px.ext r q w hre hw hs hlower hhost).2

/-- The same for `/regex/` rules, for every shortcut oracle of the repaired shape (any candidates,
    filtered against the required literals of the parse). -/
theorem c05_text_full_regex (px : E.ParseExt) (t : Bytes) (id : Int) (r : NetRule) (q : Request)
    (h : E.parseNetRule px t id = .ok r)
    (hre : UF.isRegexPattern r.pattern = true)
    (horacle : ∃ parts, px.regexpShortcut r.pattern =
      findRegexpShortcut parts (parseCore ((r.pattern.drop 1).dropLast)))
    (hlower : q.urlLower = toLower q.url)
    (hhost : q.isHostnameRequest = true → hasSub q.url q.hostname = true) :
    r.matches (withModelPat px.ext) q = ({ r with shortcut := [] } : NetRule).matches (withModelPat px.ext) q := by
  obtain ⟨_, _, _, _, _, _, hsc⟩ := parseNetRule_pattern h
  obtain ⟨parts, hparts⟩ := horacle
  rcases hsc with ⟨_, hs⟩ | ⟨hre', _⟩
  · exact c05_full_regex px.ext r q parts hre (by rw [hs, hparts]) hlower hhost
  · rw [hre] at hre'; cases hre'

/-- `/regex/` rules, from the TEXT: the shortcut computed by the text-level model of
    `findRegexpShortcut` (the heuristics' candidates filtered against the literals Go's parse tree
    requires — adjacent literals merged, common prefixes of alternations factored) is a factor of
    every lower-cased target the pattern model accepts, with or without `$match-case`.
    (Group P3: for `$match-case` rules `modelPat` searches GO's tree of the text — `goTree`, the written
    tree up to the fold flags `parser.factor` mixes up — and `goReq` factors with Go's flag-blind
    `Equal`; the statement covers every assignment of fold flags, `FoldRel`.  `modelPat` and
    `modelRegexpShortcut` answer `none`, and nothing is claimed, for the expressions listed in
    UF/Compose2/Pat.lean and UF/Compose2/RegexShortcut.lean.) -/
theorem c05_regex_text (p : Bytes) (mc : Bool) (u sc : Bytes) (hre : UF.isRegexPattern p = true)
    (hsc : modelRegexpShortcut p = some sc) (h : modelPat p mc u = some true) :
    hasSub (toLower u) (loadShortcut sc) = true := by
  rcases loadShortcut_cases sc with h0 | h0 <;> rw [h0]
  · exact hasSub_nil _
  · rcases modelRegexpShortcut_some hsc with rfl | ⟨hq, tree, hp, hsc⟩
    · exact hasSub_nil _
    · rcases pickLongest_sound (regexParts ((p.drop 1).dropLast)) (goReq tree) with he | ⟨l, hl, hsub⟩
      · rw [hsc, he]; exact hasSub_nil _
      · rw [← hsc] at hsub
        obtain ⟨r0, hparse, hs, _⟩ := modelPat_regex_some hre h
        have hnoci : hasPrefix ((p.drop 1).dropLast) ciPrefix = false := by
          cases hc : hasPrefix ((p.drop 1).dropLast) ciPrefix with
          | false => rfl
          | true =>
            exfalso
            obtain ⟨z, hz⟩ := (hasPrefix_iff _ _).1 hc
            rw [hz] at hq
            simp [ciPrefix] at hq
        have hrel : FoldRel tree r0 := by
          unfold regexRuleText at hparse
          cases mc with
          | false =>
            simp only [Bool.false_eq_true, if_false, parseRE_ci, hp, Option.map_some,
              Option.some.injEq] at hparse
            rw [← hparse]; exact FoldRel.foldCase tree
          | true =>
            -- `$match-case`: the compiled expression is Go's tree of the text, the textbook
            -- tree up to the fold flags `parser.factor` mixes up (group P3)
            simp only [if_true, parseRE, hnoci, Bool.false_eq_true, if_false, hp,
              Option.bind_some] at hparse
            exact FoldRel.goTree hparse
        exact hasSub_trans (goReq_search hrel hs.symm l hl) hsub

/-- C05 from the rule TEXT for `/regex/` rules over the complete model (`parseNetRuleM`: no oracle but
    `netip`): whenever the shortcut model answers for the rule's pattern, `Match` is unchanged when the
    shortcut test is removed. -/
theorem c05_text_model_regex (ext : Ext) (t : Bytes) (id : Int) (r : NetRule) (q : Request)
    (h : parseNetRuleM ext t id = .ok r)
    (hre : UF.isRegexPattern r.pattern = true)
    (hdom : regexShortcutInDomain r.pattern = true)
    (hlower : q.urlLower = toLower q.url)
    (hhost : q.isHostnameRequest = true → hasSub q.url q.hostname = true) :
    r.matches (withModelPat ext) q = ({ r with shortcut := [] } : NetRule).matches (withModelPat ext) q := by
  obtain ⟨_, _, _, _, _, _, hsc⟩ := parseNetRule_pattern h
  rcases hsc with ⟨_, hs⟩ | ⟨hre', _⟩
  · apply c05
    intro hm
    rw [matchPattern_withModelPat] at hm
    cases hsm : modelRegexpShortcut r.pattern with
    | none => simp [regexShortcutInDomain, hsm] at hdom
    | some sc =>
      have hsc' : r.shortcut = loadShortcut sc := by
        rw [hs]; simp [fullParseExt, reShortcutM, hsm]
      cases hmp : modelPat r.pattern (r.isEnabled Facts.OptionMatchCase) (matchTarget r q) with
      | none => simp [modelPatD, hmp] at hm
      | some b =>
        have : b = true := by simpa [modelPatD, hmp] using hm
        subst this
        have hsub := c05_regex_text r.pattern _ _ sc hre hsm hmp
        rw [hsc', hlower]
        refine hasSub_trans (hasSub_toLower ?_) hsub
        unfold matchTarget
        split
        · rename_i hsh
          apply hhost
          simp only [shouldMatchHostname] at hsh
          split at hsh
          · simp at hsh
          · rename_i hq; simpa using hq
        · exact hasSub_refl _
  · rw [hre] at hre'; cases hre'

/-- C05 over the complete model for EVERY rule text: mask rules unconditionally, `/regex/` rules
    whenever the expression is inside the modelled subset. -/
theorem c05_text_model (ext : Ext) (t : Bytes) (id : Int) (r : NetRule) (q : Request)
    (h : parseNetRuleM ext t id = .ok r)
    (hdom : UF.isRegexPattern r.pattern = true → regexShortcutInDomain r.pattern = true)
    (hlower : q.urlLower = toLower q.url)
    (hhost : q.isHostnameRequest = true → hasSub q.url q.hostname = true) :
    r.matches (withModelPat ext) q = ({ r with shortcut := [] } : NetRule).matches (withModelPat ext) q := by
  cases hre : UF.isRegexPattern r.pattern with
  | true => exact c05_text_model_regex ext t id r q h hre (hdom hre) hlower hhost
  | false => exact c05_text_full (fullParseExt ext reShortcutM) t id r q h hre hlower hhost

/-! ### Non-vacuity -/

/-- `||example.org^*banner`: the shortcut is `example.org`, the compiled pattern accepts the URL, and
    the URL contains the shortcut. -/
example :
    findShortcut (lit "||example.org^*banner") = some (lit "example.org") ∧
    Mask.compiledAccepts (lit "||example.org^*banner") false (lit "https://Sub.Example.org/x/BANNER") = true ∧
    hasSub (toLower (lit "https://Sub.Example.org/x/BANNER")) (loadShortcut (lit "example.org")) = true := by
  decide

/-- The hypotheses of `c05_full` hold for an ordinary rule and request. -/
example : UF.isRegexPattern (lit "||example.org^") = false ∧
    findShortcut (lit "||example.org^") = some (lit "example.org") ∧
    loadShortcut (lit "example.org") = lit "example.org" := by decide

/-- Without the D4-style repair the statement would be false for regex rules: the witness of
    Props/C05.lean (`/foo|barbaz/`) accepts a URL that lacks `barbaz`. -/
example : modelPat (lit "/foo|barbaz/") false (lit "http://x.com/foo") = some true ∧
    hasSub (lit "http://x.com/foo") (lit "barbaz") = false := by decide

/-- The pieces of the text-level shortcut model on concrete inputs: the candidates of the heuristics
    (`ab(c)d` ↦ `...ab...d`, split at the dots), literal merging (`a`,`[b]`,`c` ↦ `abc`), an
    alternation that requires nothing, and one whose branches share a prefix (`foo|foobar` ↦ `foo`). -/
example : regexParts (lit "ab(c)d") = [[], [], [], lit "ab", [], [], lit "d"] := by decide
example : itemsReq (mergeItems [.lit (lit "a") false, .lit (lit "b") false, .other none [], .lit (lit "c") false]) =
    [lit "ab", lit "c"] := by decide
example : altTopReq [[.lit (lit "foo") false], [.lit (lit "barbaz") false]] = [] := by decide
example : altTopReq [[.lit (lit "foo") false], [.lit (lit "foobar") false]] = [lit "foo"] := by decide
example : altTopReq [[.lit (lit "A") false], [.lit (lit "a") false]] = [lit "a"] := by decide

/-! ### The hypothesis `hlower` cannot be dropped for hostname requests (review TOP 3)

  `NewRequest` lower-cases the URL itself (C17 `lower_capped`), so `hlower : q.urlLower = toLower q.url`
  is a theorem for URL requests.  `FillRequestForHostname` does NOT: it stores
  `URLLowerCase = "http://" + hostname` unchanged (rules/request.go), and `DNSEngine.MatchRequest`
  probes its tables with the raw name.  For the hostname `EXAMPLE.org` and the rule `||example.org^`
  the compiled pattern (`(?i)`) accepts the target, but the shortcut test `strings.Contains(URLLowerCase,
  "example.org")` rejects -- so "the result is the same with the shortcut test removed" FAILS on that
  request, and the statements above hold for hostname requests only under the contract of DESIGN.md §6:
  hostnames given to `NewRequestForHostname` / `DNSRequest` are lower-case (the function documents that
  validation is the caller's job; DNS names are case-insensitive).  Mixed-case hostnames are therefore
  outside the domain of C02/C05/C17; no generator produces them as inputs of compared ops and the
  driver answers `ood` where an op can receive one. -/

private def lcExt : Ext :=
  { psl := fun _ => (lit "org", true), parseAddr := fun _ => none, parsePrefix := fun _ => none,
    pat := fun _ _ _ => false }

/-- The explicit dependency on lower-case hostnames: on the request `FillRequestForHostname` builds
    for `EXAMPLE.org`, the rule `||example.org^` (complete parser model, shortcut `example.org`) has
    `urlLower ≠ toLower url`, its pattern ACCEPTS, its shortcut test REJECTS, and `Match` differs from
    `Match` without the shortcut. -/
theorem c05_hostname_lowercase_needed :
    (match parseNetRuleM lcExt (lit "||example.org^") 1,
           H.newRequestForHostname lcExt (lit "EXAMPLE.org") with
     | .ok r, .ok q =>
       r.shortcut == lit "example.org" && q.isHostnameRequest && q.url == lit "http://EXAMPLE.org" &&
       q.urlLower != toLower q.url &&
       matchPattern (withModelPat lcExt) r q && !matchShortcut r q &&
       !r.matches (withModelPat lcExt) q &&
       ({ r with shortcut := [] } : NetRule).matches (withModelPat lcExt) q
     | _, _ => false) = true := by decide +kernel

/-- With the lower-case name the hypothesis holds and the two agree. -/
example :
    (match parseNetRuleM lcExt (lit "||example.org^") 1,
           H.newRequestForHostname lcExt (lit "example.org") with
     | .ok r, .ok q =>
       q.urlLower == toLower q.url && r.matches (withModelPat lcExt) q &&
       ({ r with shortcut := [] } : NetRule).matches (withModelPat lcExt) q
     | _, _ => false) = true := by decide +kernel

end UF.C05

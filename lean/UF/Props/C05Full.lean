import UF.Compose2.ShortcutMask
import UF.Compose2.ParsePattern
import UF.Props.C05
import UF.Props.C03
/-
  C05 for mask rules, HYPOTHESIS-FREE (integration group I2).

  Group A's `c05_mask_rule` had the hypothesis `hcompiled` ("whatever the pattern oracle accepts is
  accepted by a concatenation containing the literal atoms of the shortcut's run"); here it is
  discharged from group G's mask compiler: by `c03_text` the text `preparePattern` compiles parses to
  `maskAst (tokenize p) mc`, and the maximal run chosen by `findShortcut` appears in it as consecutive
  literal atoms (UF/Compose2/ShortcutMask.lean).  With the pattern oracle instantiated by `modelPat`
  the rule-level statements need no assumption about `regexp` at all.
  Only property theorems and non-vacuity examples here.
-/
namespace UF.C05
open UF Bytes Re UF.I2

/-- Masks, at the level of the compiled matcher: for EVERY ASCII mask pattern `p` (as stored in the
    rule), with or without `$match-case`, and EVERY subject `u` (any bytes), if the compiled pattern
    accepts `u` then the lower-cased subject contains the rule's shortcut
    (`loadShortcut (findShortcut p)`: the longest separator-free run, lower-cased, if longer than 1). -/
theorem c05_mask_full (p : Bytes) (mc : Bool) (u w : Bytes) (hp : ∀ b ∈ p, b < 128)
    (hre : UF.isRegexPattern p = false) (hf : findShortcut p = some w)
    (h : Mask.compiledAccepts p mc u = true) :
    hasSub (toLower u) (loadShortcut w) = true := by
  obtain ⟨as, bs, fold, hs⟩ := compiled_has_run mc u hp hre hf h
  exact c05_mask_atoms as bs fold w u hs

/-- The same with `findShortcut`'s totality folded in: the shortcut exists and is implied. -/
theorem c05_mask_full_total (p : Bytes) (mc : Bool) (hp : ∀ b ∈ p, b < 128)
    (hre : UF.isRegexPattern p = false) :
    ∃ w, findShortcut p = some w ∧
      ∀ u, Mask.compiledAccepts p mc u = true → hasSub (toLower u) (loadShortcut w) = true := by
  obtain ⟨w, hw, _⟩ := findShortcut_inv p
  exact ⟨w, hw, fun u h => c05_mask_full p mc u w hp hre hw h⟩

/-- Against the DOCUMENTED mask language (through `c03`): every subject without a line feed that the
    mask language of `p` accepts contains the shortcut. -/
theorem c05_mask_spec (p : Bytes) (mc : Bool) (u w : Bytes) (hp : ∀ b ∈ p, b < 128)
    (hre : UF.isRegexPattern p = false) (hn : Mask.NoNL u) (hf : findShortcut p = some w)
    (h : MaskSpec.maskAccepts (MaskSpec.tokenize p) mc u = true) :
    hasSub (toLower u) (loadShortcut w) = true := by
  apply c05_mask_full p mc u w hp hre hf
  rw [C03.c03_stored p mc u hp hre hn]
  exact h

/-- Through `modelPat`: whenever the composed pattern model answers `true` on a mask pattern, the
    shortcut is in the lower-cased target. -/
theorem c05_mask_modelPat (p : Bytes) (mc : Bool) (u w : Bytes) (hre : UF.isRegexPattern p = false)
    (hf : findShortcut p = some w) (h : modelPat p mc u = some true) :
    hasSub (toLower u) (loadShortcut w) = true := by
  have hc := modelPat_some_compiled h
  unfold modelPat at h
  rw [hre] at h
  simp only [Bool.false_eq_true, if_false] at h
  split at h
  · rename_i hd
    simp only [Bool.and_eq_true] at hd
    exact c05_mask_full p mc u w ((isAscii_iff p).1 hd.1.1) hre hf hc
  · cases h

/-- C05 at the level of `Match` for mask rules, with the pattern oracle instantiated by the models and
    NO hypothesis about the compiled expression: for every rule whose shortcut is what `loadShortcut`
    computes from its (non-regex) pattern, and every well-formed request, `Match` is unchanged when the
    shortcut test is removed. -/
theorem c05_full (ext : Ext) (r : NetRule) (q : Request) (w : Bytes)
    (hre : UF.isRegexPattern r.pattern = false)
    (hfind : findShortcut r.pattern = some w)
    (hshort : r.shortcut = loadShortcut w)
    (hlower : q.urlLower = toLower q.url)
    (hhost : q.isHostnameRequest = true → hasSub q.url q.hostname = true) :
    (w = [] ∨ IsMaskRun r.pattern w) ∧
    r.matches (withModelPat ext) q = ({ r with shortcut := [] } : NetRule).matches (withModelPat ext) q := by
  apply c05_mask_rule (withModelPat ext) r q w hfind hshort _ hlower hhost
  intro target ht
  simp only [withModelPat_pat, modelPatD] at ht
  cases hm : modelPat r.pattern (r.isEnabled Facts.OptionMatchCase) target with
  | none => rw [hm] at ht; cases ht
  | some b =>
    rw [hm] at ht
    simp only [Option.getD_some] at ht
    subst ht
    have hc := modelPat_some_compiled hm
    unfold modelPat at hm
    rw [hre] at hm
    simp only [Bool.false_eq_true, if_false] at hm
    split at hm
    · rename_i hd
      simp only [Bool.and_eq_true] at hd
      exact compiled_has_run _ target ((isAscii_iff _).1 hd.1.1) hre hfind hc
    · cases hm

/-- The same for `/regex/` rules over `modelPat` (group A's `c05_regex_rule` with its pattern
    hypothesis discharged for the composed oracle): the candidates `parts` of the textual heuristics
    are arbitrary, the tree is the model's parse of the text between the slashes. -/
theorem c05_full_regex (ext : Ext) (r : NetRule) (q : Request) (parts : List Bytes)
    (hre : UF.isRegexPattern r.pattern = true)
    (hshort : r.shortcut = loadShortcut (findRegexpShortcut parts (parseCore ((r.pattern.drop 1).dropLast))))
    (hci : r.isEnabled Facts.OptionMatchCase = true →
      hasPrefix ((r.pattern.drop 1).dropLast) ciPrefix = false)
    (hlower : q.urlLower = toLower q.url)
    (hhost : q.isHostnameRequest = true → hasSub q.url q.hostname = true) :
    r.matches (withModelPat ext) q = ({ r with shortcut := [] } : NetRule).matches (withModelPat ext) q := by
  apply c05_regex_rule (withModelPat ext) r q parts _ hshort _ hlower hhost
  intro target ht
  simp only [withModelPat_pat, modelPatD] at ht
  cases hm : modelPat r.pattern (r.isEnabled Facts.OptionMatchCase) target with
  | none => rw [hm] at ht; cases ht
  | some b =>
    rw [hm] at ht
    simp only [Option.getD_some] at ht
    subst ht
    obtain ⟨r0, hparse, hs, _⟩ := modelPat_regex_some hre hm
    unfold regexRuleText at hparse
    generalize (r.pattern.drop 1).dropLast = inner at hparse hci ⊢
    cases hmc : r.isEnabled Facts.OptionMatchCase with
    | false =>
      rw [hmc] at hparse
      simp only [Bool.false_eq_true, if_false, parseRE_ci] at hparse
      cases hp : parseCore inner with
      | none => rw [hp] at hparse; cases hparse
      | some t =>
        rw [hp] at hparse
        simp only [Option.map_some, Option.some.injEq] at hparse
        subst hparse
        refine ⟨t.foldCase, ?_, hs.symm⟩
        intro t' ht'; cases ht'; exact litsCovered_foldCase t
    | true =>
      rw [hmc] at hparse
      simp only [if_true, parseRE, hci hmc, Bool.false_eq_true, if_false] at hparse
      refine ⟨r0, ?_, hs.symm⟩
      intro t' ht'
      rw [hparse] at ht'
      cases ht'
      exact litsCovered_refl r0

/-- C05 from the rule TEXT for mask rules — no oracle and no hypothesis about the rule record: whatever
    `NewNetworkRule` accepts with a pattern that is not a `/regex/` matches the same requests with and
    without its shortcut test (`loadShortcut` stored what `findShortcut` finds in the stored pattern:
    `parseNetRule_pattern`). -/
theorem c05_text_full (px : E.ParseExt) (t : Bytes) (id : Int) (r : NetRule) (q : Request)
    (h : E.parseNetRule px t id = .ok r)
    (hre : UF.isRegexPattern r.pattern = false)
    (hlower : q.urlLower = toLower q.url)
    (hhost : q.isHostnameRequest = true → hasSub q.url q.hostname = true) :
    r.matches (withModelPat px.ext) q = ({ r with shortcut := [] } : NetRule).matches (withModelPat px.ext) q := by
  obtain ⟨_, _, _, _, _, _, hsc⟩ := parseNetRule_pattern h
  rcases hsc with ⟨hre', _⟩ | ⟨_, w, hw, hs⟩
  · rw [hre] at hre'; cases hre'
  · exact (c05_full px.ext r q w hre hw hs hlower hhost).2

/-- The same for `/regex/` rules, for every shortcut oracle of the repaired shape (any candidates,
    filtered against the required literals of the parse). -/
theorem c05_text_full_regex (px : E.ParseExt) (t : Bytes) (id : Int) (r : NetRule) (q : Request)
    (h : E.parseNetRule px t id = .ok r)
    (hre : UF.isRegexPattern r.pattern = true)
    (horacle : ∃ parts, px.regexpShortcut r.pattern =
      findRegexpShortcut parts (parseCore ((r.pattern.drop 1).dropLast)))
    (hci : r.isEnabled Facts.OptionMatchCase = true →
      hasPrefix ((r.pattern.drop 1).dropLast) ciPrefix = false)
    (hlower : q.urlLower = toLower q.url)
    (hhost : q.isHostnameRequest = true → hasSub q.url q.hostname = true) :
    r.matches (withModelPat px.ext) q = ({ r with shortcut := [] } : NetRule).matches (withModelPat px.ext) q := by
  obtain ⟨_, _, _, _, _, _, hsc⟩ := parseNetRule_pattern h
  obtain ⟨parts, hparts⟩ := horacle
  rcases hsc with ⟨_, hs⟩ | ⟨hre', _⟩
  · exact c05_full_regex px.ext r q parts hre (by rw [hs, hparts]) hci hlower hhost
  · rw [hre] at hre'; cases hre'

/-! ### Non-vacuity -/

/-- `||example.org^*banner`: the shortcut is `example.org`, the compiled pattern accepts the URL, and
    the URL contains the shortcut. -/
example :
    findShortcut (lit "||example.org^*banner") = some (lit "example.org") ∧
    Mask.compiledAccepts (lit "||example.org^*banner") false (lit "https://Sub.Example.org/x/BANNER") = true ∧
    hasSub (toLower (lit "https://Sub.Example.org/x/BANNER")) (loadShortcut (lit "example.org")) = true := by
  decide

/-- The hypotheses of `c05_full` hold for an ordinary rule and request. -/
example : UF.isRegexPattern (lit "||example.org^") = false ∧
    findShortcut (lit "||example.org^") = some (lit "example.org") ∧
    loadShortcut (lit "example.org") = lit "example.org" := by decide

/-- Without the D4-style repair the statement would be false for regex rules: the witness of
    Props/C05.lean (`/foo|barbaz/`) accepts a URL that lacks `barbaz`. -/
example : modelPat (lit "/foo|barbaz/") false (lit "http://x.com/foo") = some true ∧
    hasSub (lit "http://x.com/foo") (lit "barbaz") = false := by decide

end UF.C05

import UF.Proofs.Cosmetic
/-
  C15 — the cosmetic engine returns exactly the applicable, non-excepted selectors.

  `L` is the list of element-hiding rules (`##` / `#@#`) of the storage in storage order (ANY list:
  generic rules, one or many domains, negated domains, wildcard-TLD domains, duplicate selectors,
  duplicate rules).  The theorem holds for every hostname (listed, subdomain, sibling, unrelated,
  empty, with empty labels), all 8 flag combinations and every oracle `ext` (public-suffix list).
  Hypothesis `CosDomainsWF`: parser guarantee that no permitted domain is the empty string.
  Results are compared as sets (membership), as the property states.
  Property theorems only (helper lemmas live in UF/Proofs).
-/
namespace UF.C15
open UF UF.B

/-- What `findByHostname` needs from `CosmeticRule.Match`: a matching rule with permitted domains has
    a wildcard-TLD domain, or one of its permitted domains is the hostname or a dot-suffix of it
    (and is therefore probed). -/
theorem c15_match_probe (ext : Ext) (r : CosRule) (host : Bytes)
    (hwf : ∀ d ∈ r.permDomains, d ≠ []) (hg : r.permDomains ≠ [])
    (hm : cosMatches ext r host = true) :
    (∃ d ∈ r.permDomains, Bytes.hasSuffix d (lit ".*") = true) ∨ ∃ d ∈ r.permDomains, d ∈ probes host := by
  by_cases hw : hasWild r = true
  · exact Or.inl (List.any_eq_true.1 hw)
  · have hw' : hasWild r = false := by cases h : hasWild r <;> simp_all
    have hg' : cosIsGeneric r = false := by
      unfold cosIsGeneric; cases hc : r.permDomains with
      | nil => exact absurd hc hg
      | cons => rfl
    exact Or.inr (cos_matches_probe ext r host hwf hg' hw' hm)

/-- C15: for every list, hostname, flag combination and oracle, the generic and the specific
    selector lists of the engine have exactly the members of the reference lists. -/
theorem c15 (ext : Ext) (L : List CosRule) (host : Bytes) (includeCSS includeJS includeGenericCSS : Bool)
    (hwf : CosDomainsWF L) :
    (∀ c, c ∈ ((CosTable.build L).matchHost ext host includeCSS includeJS includeGenericCSS).1 ↔
          c ∈ (specCosmetic ext L host includeCSS includeJS includeGenericCSS).1) ∧
    (∀ c, c ∈ ((CosTable.build L).matchHost ext host includeCSS includeJS includeGenericCSS).2 ↔
          c ∈ (specCosmetic ext L host includeCSS includeJS includeGenericCSS).2) := by
  cases includeCSS with
  | false => exact ⟨fun _ => Iff.rfl, fun _ => Iff.rfl⟩
  | true =>
    rw [matchHost_eq]
    unfold specCosmetic
    simp only [Bool.true_and, if_true]
    constructor
    · intro c
      rw [List.mem_map]
      constructor
      · rintro ⟨r, hr, rfl⟩
        obtain ⟨hg, hL, hgen, happ⟩ := (mem_all_generic ext L host hwf _ r).1 hr
        rw [hg, if_pos rfl]
        exact List.mem_map.2 ⟨r, List.mem_filter.2 ⟨List.mem_filter.2 ⟨hL, happ⟩, hgen⟩, rfl⟩
      · intro h
        cases includeGenericCSS with
        | false => cases h
        | true =>
          rw [if_pos rfl] at h
          obtain ⟨r, hr, rfl⟩ := List.mem_map.1 h
          obtain ⟨hr1, hgen⟩ := List.mem_filter.1 hr
          obtain ⟨hL, happ⟩ := List.mem_filter.1 hr1
          exact ⟨r, (mem_all_generic ext L host hwf _ r).2 ⟨rfl, hL, hgen, happ⟩, rfl⟩
    · intro c
      rw [List.mem_map, List.mem_map]
      constructor
      · rintro ⟨r, hr, rfl⟩
        obtain ⟨hL, hgen, happ⟩ := (mem_all_specific ext L host hwf _ r).1 hr
        exact ⟨r, List.mem_filter.2 ⟨List.mem_filter.2 ⟨hL, happ⟩, by
          show (!r.permDomains.isEmpty) = true
          have : r.permDomains.isEmpty = false := hgen
          rw [this]; rfl⟩, rfl⟩
      · rintro ⟨r, hr, rfl⟩
        obtain ⟨hr1, hgen⟩ := List.mem_filter.1 hr
        obtain ⟨hL, happ⟩ := List.mem_filter.1 hr1
        have hgen' : cosIsGeneric r = false := by
          have : (!r.permDomains.isEmpty) = true := hgen
          show r.permDomains.isEmpty = false
          cases hc : r.permDomains.isEmpty with
          | false => rfl
          | true => rw [hc] at this; cases this
        exact ⟨r, (mem_all_specific ext L host hwf _ r).2 ⟨hL, hgen', happ⟩, rfl⟩

/-- With CSS disabled everything is omitted; with generic CSS disabled the generic list is empty. -/
theorem c15_flags (ext : Ext) (t : CosTable) (host : Bytes) (js gen : Bool) :
    t.matchHost ext host false js gen = ([], []) ∧
    ∀ css, (∀ r ∈ (t.findByHostname ext host), cosIsGeneric r.2 = false) →
      (t.matchHost ext host css js false).1 = [] := by
  refine ⟨rfl, ?_⟩
  intro css h
  unfold CosTable.matchHost
  cases css with
  | false => rfl
  | true =>
    simp only [if_true, Bool.false_eq_true, if_false, List.nil_append, List.map_eq_nil_iff,
      List.filter_eq_nil_iff, List.mem_map]
    rintro r ⟨x, hx, rfl⟩
    simp [h x hx]

/-- The D9 defect is gone in the model: `example.org##.banner` applies to `sub.example.org`, although
    the exact key `sub.example.org` is absent from `byHostname` (the pre-repair lookup probed only it). -/
example :
    let ext : Ext := ⟨fun _ => ([], false), fun _ => none, fun _ => none, fun _ _ _ => false⟩
    let r : CosRule := { text := lit "example.org##.banner", content := lit ".banner", permDomains := [lit "example.org"] }
    (CosTable.build [r]).matchHost ext (lit "sub.example.org") true true true = ([], [lit ".banner"]) ∧
    sget [] (CosTable.build [r]).byHostname (lit "sub.example.org") = [] := by
  decide

/-! Non-vacuity of the hypothesis. -/
example : CosDomainsWF [{ content := lit ".x", permDomains := [lit "example.*", lit "e.org"] },
                        { content := lit ".x", permDomains := [lit "e.org"], whitelist := true },
                        { content := lit ".y" }] := by
  intro r hr d hd
  simp only [List.mem_cons, List.not_mem_nil, or_false] at hr
  rcases hr with rfl | rfl | rfl <;> simp at hd
  · rcases hd with rfl | rfl <;> decide
  · subst hd; decide

end UF.C15

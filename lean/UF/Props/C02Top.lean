import UF.Compose3.DnsTop
import UF.Compose2.Pat
import UF.Props.C06
import UF.Props.C09
import UF.Props.C13
/-
  C02 AT THE TOP LEVEL (integration group I3): the full answer of `DNSEngine.MatchRequest(dReq)` and of
  `DNSResult.DNSRewrites()` from RAW inputs — the BYTES of the lists and the fields of `urlfilter.DNSRequest`
  (hostname, record type, client name / address, client tags).

  `dnsEngineMatchRequest` (UF/Compose3/DnsTop.lean) composes: the refill of the pooled request (group F's
  `fillFromPool`, C13) through `FillRequestForHostname` (group H, C17 — the two groups' models of that
  function are bridged by `fill_bridge`), the DNS engine built by scanning the lists (groups B, D, E: I1's
  `c02_storage`), `GetDNSBasicRule` (group C, C06/C07/C08) and `DNSRewrites` (group C, C09).

  Parameters left: the oracles in `px`; `io`, the cache history and the pooled request value are universally
  quantified.  Domain: `StorageOK lists`.  Property theorems only (helper lemmas live in UF/Compose3).
-/
namespace UF.C02
open UF UF.B UF.Storage UF.Compose UF.Compose3

/-- C02 FROM RAW INPUTS: for all list contents, ids, backings, cache histories, pooled request values and
    DNS request fields, the answer of `DNSEngine.MatchRequest` agrees componentwise (network rules as a set
    of texts, `NetworkRule` nil-ness and class, IPv4 / IPv6 host rules as sets, `matched`) with the reference
    computed by parsing the lists line by line and scanning all rules for the request that the DNS request
    fields ALONE describe. -/
theorem c02_top (io : IO) (px : E.ParseExt) (lists : List RList) (hok : StorageOK lists)
    (st : RuleStorage) (hnew : newRuleStorage lists = some st) (history : List (BitVec 64))
    (old : Request) (d : DReq) :
    DnsResult.Equiv (dnsEngineMatchRequest io px lists st history old d) (specDnsTop px lists d) := by
  unfold dnsEngineMatchRequest specDnsTop dnsRequestOf
  rw [C13.fill_overwrites (etld1Of px.ext) old d]
  exact c02_storage io px lists hok st hnew history _

/-- No per-request data survives in the pool (C13 at the top level): the answer does not depend on the
    pooled request value at all — EQUAL results, not only equivalent ones. -/
theorem c02_top_pool (io : IO) (px : E.ParseExt) (lists : List RList) (st : RuleStorage)
    (history : List (BitVec 64)) (old old' : Request) (d : DReq) :
    dnsEngineMatchRequest io px lists st history old d = dnsEngineMatchRequest io px lists st history old' d := by
  unfold dnsEngineMatchRequest dnsRequestOf
  rw [C13.fill_overwrites (etld1Of px.ext) old d, C13.fill_overwrites (etld1Of px.ext) old' d]

/-- The request the engine matches (C17 at the top level): the URL is `http://` + hostname, the type is
    `document`, it is a hostname request, never third-party, the client data are the DNS request's, no source;
    and it is what group H's model of `FillRequestForHostname` returns for the cleared pooled request. -/
theorem c02_top_request (ext : Ext) (old : Request) (d : DReq) :
    dnsRequestOf ext old d =
      { url := lit "http://" ++ d.hostname, urlLower := lit "http://" ++ d.hostname, hostname := d.hostname,
        domain := if etld1Of ext d.hostname != [] then etld1Of ext d.hostname else d.hostname,
        sourceURL := [], sourceHostname := [], sourceDomain := [],
        sortedTags := d.sortedTags, reqType := Facts.TypeDocument, dnsType := d.dnsType,
        thirdParty := false, isHostnameRequest := true, clientName := d.clientName, clientIP := d.clientIP } ∧
    H.fillRequestForHostname ext
        { old with sourceDomain := [], sourceHostname := [], sourceURL := [], sortedTags := d.sortedTags,
                   clientIP := d.clientIP, clientName := d.clientName, dnsType := d.dnsType } d.hostname =
      .ok (dnsRequestOf ext old d) ∧
    H.effectiveTLDPlusOne ext d.hostname = .ok (etld1Of ext d.hostname) := by
  refine ⟨dnsRequestOf_closed ext old d, ?_, ?_⟩
  · rw [fill_bridge]; rfl
  · obtain ⟨e, he⟩ := H.effectiveTLDPlusOne_ok ext d.hostname
    unfold etld1Of; rw [he]

/-- The verdict class of the answer is the documented precedence (C06) over the DNS-applicable network
    rules of the lines that match the hostname request. -/
theorem c02_top_class (io : IO) (px : E.ParseExt) (lists : List RList) (hok : StorageOK lists)
    (st : RuleStorage) (hnew : newRuleStorage lists = some st) (history : List (BitVec 64))
    (old : Request) (d : DReq) (hd : d.hostname ≠ []) :
    classOf (dnsEngineMatchRequest io px lists st history old d).networkRule =
      classDns (dnsMatchingLines px lists d) := by
  have hq : (dnsRequestOf px.ext default d).hostname.isEmpty = false := by
    rw [dnsRequestOf_closed]
    cases h : d.hostname with
    | nil => exact absurd h hd
    | cons => rfl
  have h := c02_storage_class io px lists hok st hnew history (dnsRequestOf px.ext default d) hq
  have hcls : ∀ x y : Option NetRule, x.map netCls = y.map netCls → classOf x = classOf y := by
    intro x y hxy
    cases x <;> cases y <;> simp [netCls] at hxy <;> simp [classOf, hxy]
  rw [c02_top_pool io px lists st history old default d]
  unfold dnsEngineMatchRequest
  rw [hcls _ _ h]
  apply C06.c06_dns
  intro r hr
  exact allNet_noReplace (List.mem_filter.1 hr).1

/-- The network rules of the answer and of the reference agree up to order, multiplicities and list ids. -/
theorem c02_top_networkRules (io : IO) (px : E.ParseExt) (lists : List RList) (hok : StorageOK lists)
    (st : RuleStorage) (hnew : newRuleStorage lists = some st) (history : List (BitVec 64))
    (old : Request) (d : DReq) :
    (∀ r ∈ (dnsEngineMatchRequest io px lists st history old d).networkRules,
      ∃ r' ∈ (specDnsTop px lists d).networkRules, ({ r with listID := 0 } : NetRule) = { r' with listID := 0 }) ∧
    (∀ r' ∈ (specDnsTop px lists d).networkRules,
      ∃ r ∈ (dnsEngineMatchRequest io px lists st history old d).networkRules,
        ({ r with listID := 0 } : NetRule) = { r' with listID := 0 }) := by
  apply listsAgree_of_texts (allNet_textDet px lists)
  · exact dnsEngine_networkRules_sub io px lists hok st hnew history _
  · intro r hr
    unfold specDnsTop specDns at hr
    split at hr
    · cases hr
    · simp only at hr
      split at hr <;> exact (List.mem_filter.1 hr).1
  · exact (c02_top io px lists hok st hnew history old d).1

/-- `DNSRewrites()` FROM RAW INPUTS (C09 composed): it does not crash, and the effective rewrites are — up to
    order, multiplicities and list ids — the reference of C09 (non-exception `$dnsrewrite` rules that are not
    `$badfilter`-disabled and that no effective exception disables) over the network rules of the reference
    answer, i.e. over the DNS-applicable lines that match the hostname request. -/
theorem c02_top_rewrites (io : IO) (px : E.ParseExt) (lists : List RList) (hok : StorageOK lists)
    (st : RuleStorage) (hnew : newRuleStorage lists = some st) (history : List (BitVec 64))
    (old : Request) (d : DReq) :
    ∃ out, dnsEffectiveRewrites (dnsEngineMatchRequest io px lists st history old d) = some out ∧
      out = specRewrites (dnsRewritesAll (dnsEngineMatchRequest io px lists st history old d).networkRules) ∧
      (∀ t, t ∈ out.map (·.text) ↔
        t ∈ (specRewrites (dnsRewritesAll (specDnsTop px lists d).networkRules)).map (·.text)) := by
  refine ⟨_, C09.c09 _, rfl, ?_⟩
  have h := c02_top_networkRules io px lists hok st hnew history old d
  exact texts_of_agree (specRewrites_agree ⟨h.1, h.2⟩)

/-- … with the reference's network rules spelled out for a non-empty hostname. -/
theorem c02_top_rewrites_lines (io : IO) (px : E.ParseExt) (lists : List RList) (hok : StorageOK lists)
    (st : RuleStorage) (hnew : newRuleStorage lists = some st) (history : List (BitVec 64))
    (old : Request) (d : DReq) (hd : d.hostname ≠ []) :
    ∃ out, dnsEffectiveRewrites (dnsEngineMatchRequest io px lists st history old d) = some out ∧
      (∀ t, t ∈ out.map (·.text) ↔
        t ∈ (specRewrites (dnsRewritesAll (dnsMatchingLines px lists d))).map (·.text)) := by
  obtain ⟨out, h1, _, h3⟩ := c02_top_rewrites io px lists hok st hnew history old d
  rw [specDnsTop_networkRules px lists d hd] at h3
  exact ⟨out, h1, h3⟩

/-- Host rules are reported only when no network rule decided (and then `matched` says whether there are any). -/
theorem c02_top_hosts_only_without_basic (io : IO) (px : E.ParseExt) (lists : List RList) (st : RuleStorage)
    (history : List (BitVec 64)) (old : Request) (d : DReq)
    (h : (dnsEngineMatchRequest io px lists st history old d).networkRule ≠ none) :
    (dnsEngineMatchRequest io px lists st history old d).v4 = [] ∧
    (dnsEngineMatchRequest io px lists st history old d).v6 = [] ∧
    (dnsEngineMatchRequest io px lists st history old d).matched = true := by
  exact matchRequest_hosts_only _ _ _ _ _ _ _ h

/-! ### Non-vacuity: a storage with a `$dnsrewrite` rule, an exception for another value, a `$client` rule and
    a hosts line; the composed model is computed from the raw DNS request fields. -/

private def exRw (v : Nat) : DnsRewrite := { rcode := 0, rrType := 1, value := .addr ⟨true, v, []⟩ }

private def exPx : E.ParseExt :=
  { ext := { psl := fun _ => (lit "org", true),
             parseAddr := fun s => if s == lit "0.0.0.0" then some ⟨true, 0, []⟩ else none,
             parsePrefix := fun _ => none, pat := I2.modelPatD },
    loadDNSRewrite := fun v => if v == lit "1.2.3.4" then some (exRw 16909060)
      else if v == lit "1.2.3.5" then some (exRw 16909061) else none,
    regexpShortcut := fun _ => [] }

private def exLists : List RList :=
  [⟨1, false, lit "||b.org^$dnsrewrite=1.2.3.4\r\n||b.org^$dnsrewrite=1.2.3.5\n0.0.0.0 b.org\n", false⟩,
   ⟨7, false, lit "@@||b.org^$dnsrewrite=1.2.3.5\n||c.org^$client=laptop\n", false⟩]

example : StorageOK exLists := ⟨by decide, by decide, by decide⟩

example :
    let res := dnsEngineMatchRequest ⟨4096, fun _ => 1⟩ exPx exLists ⟨exLists, []⟩ []
      { url := lit "stale", clientName := lit "someone-else" } { hostname := lit "b.org", dnsType := 1 }
    res.networkRule = none ∧ res.v4.map (·.text) = [lit "0.0.0.0 b.org"] ∧ res.matched = true ∧
    (dnsEffectiveRewrites res).map (fun l => l.map (·.text)) = some [lit "||b.org^$dnsrewrite=1.2.3.4"] := by
  decide +kernel

example :
    let res (name : Bytes) := dnsEngineMatchRequest ⟨4096, fun _ => 1⟩ exPx exLists ⟨exLists, []⟩ []
      { clientName := lit "laptop" } { hostname := lit "c.org", dnsType := 1, clientName := name }
    (res (lit "laptop")).networkRule.map (·.text) = some (lit "||c.org^$client=laptop") ∧
    (res (lit "phone")).networkRule = none ∧ (res (lit "phone")).matched = false := by
  decide +kernel

end UF.C02

import UF.Compose5.Append
import UF.Props.C07
import UF.Compose2.NewRuleFull
/-
  C07 AT TEXT LEVEL (integration group L): "adding a modifier to a rule makes it strictly higher than the
  original", for rule TEXTS.

  The record-level theorems `c07_add_*` (UF/Props/C07.lean) speak of a record with one more counted feature.
  At text level the statement is: for `t = render exception pattern ms` and `t' = t` with one more modifier `m`
  appended (`render exception pattern (ms ++ [m])`, i.e. `t,m` — or `t$m` when `t` has no modifier yet), whatever
  `NewNetworkRule` accepts for the two texts satisfies `t'.IsHigherPriority(t)`.

  It HOLDS (theorems below) for: `important`, `badfilter`, `match-case`, `stealth`/`empty`/`mp4` and every other
  option on a rule that does not yet carry it, provided the option is not document-only or the rule already is
  document-only; `third-party` / `first-party` / `~match-case`; every permitted content type not yet listed on a
  rule WITHOUT document-only options; every restricted content type not yet listed; `domain=`, `dnstype=`,
  `ctag=`, `client=`, `denyallow=` on a rule without that modifier.

  It FAILS (machine-checked examples at the end, through the parser model on the texts the review used), which
  is the scope decision of DESIGN.md §8.5:
    * a document-only option (`popup`, `elemhide`, …) appended to a rule without one OVERWRITES the permitted
      content types with `document`: `||e.com^$script,image,media,popup` is LOWER than `||e.com^$script,image,media`;
      with two listed types it ties, with fewer it is higher (`c07_text_doconly_iff` states exactly when);
    * a permitted content type appended to a rule that is already document-only changes nothing: tie
      (`c07_text_content_type_doc_tie`);
    * `,dnsrewrite=…` is not counted by `IsHigherPriority`: tie.
  Only property theorems and examples here; helper lemmas live in UF/Compose5.
-/
namespace UF.C07
open UF Bytes UF.L

/-- ANY bare option (`important`, `badfilter`, `match-case`, `stealth`, `empty`, `mp4`, and the
    document-only ones) appended to a rule that does not carry it yet — provided the option is not
    document-only, or the rule already carries a document-only option. -/
theorem c07_text_option (px : E.ParseExt) (wl : Bool) (pat : Bytes) (ms : List Mod) (o : Opt) (id id' : Int)
    (r r' : NetRule) (hp : patOK pat = true) (hm : ∀ x ∈ ms ++ [.opt o], x.valsOK = true)
    (h : E.parseNetRule px (render wl pat ms) id = .ok r)
    (h' : E.parseNetRule px (render wl pat (ms ++ [.opt o])) id' = .ok r')
    (hno : r.isEnabled o.bit = false)
    (hdoc : o.docOnly = false ∨ E.documentOnlyOptions.any (fun x => r.isEnabled x) = true) :
    isHigherPriority r' r = true := by
  obtain ⟨R, _, e, e'⟩ := append_mod' hp hm h h'
  rw [higher_modFields, e, e']
  obtain ⟨k, hk, _⟩ := opt_bit_pow o
  have hen : r.enabled = (overrideDoc R).enabled := by
    have := congrArg NetRule.enabled e; exact this
  have hbit : (overrideDoc R).enabled.testBit k = false := by
    rw [← hen, ← and_two_pow_beq, ← hk]; exact hno
  show isHigherPriority (overrideDoc { R with enabled := R.enabled ||| o.bit }) (overrideDoc R) = true
  rw [hk]
  rcases hdoc with hd | hd
  · rw [overrideDoc_enable R k (by
      cases o <;> first | (exact absurd hd (by decide)) | skip
      all_goals (
        have hk' := hk
        simp only [Opt.bit] at hk'
        have : k < 15 := by assumption
        refine ⟨?_, ?_, ?_, ?_, ?_, ?_, ?_, ?_⟩ <;> (intro e; subst e; exact absurd hk' (by decide))))]
    exact c07_add_option (overrideDoc R) k hbit
  · have hd' : docOnlyB R.enabled = true := by
      have : docOnlyB r.enabled = true := hd
      rw [hen, overrideDoc_enabled] at this; exact this
    rw [overrideDoc_enable_doc R k hd']
    exact c07_add_option (overrideDoc R) k hbit

/-- A DOCUMENT-ONLY option (`popup`, `elemhide`, …) appended to a rule without document-only options: the
    permitted content types are overwritten by `document`, so the new rule is strictly higher iff the original
    lists fewer than two permitted content types, strictly LOWER iff it lists more than two, and ties at two.
    This is the exact extent of the text-level exception to "adding a modifier makes the rule higher". -/
theorem c07_text_doconly_iff (px : E.ParseExt) (wl : Bool) (pat : Bytes) (ms : List Mod) (o : Opt) (id id' : Int)
    (r r' : NetRule) (hp : patOK pat = true) (hm : ∀ x ∈ ms ++ [.opt o], x.valsOK = true)
    (h : E.parseNetRule px (render wl pat ms) id = .ok r)
    (h' : E.parseNetRule px (render wl pat (ms ++ [.opt o])) id' = .ok r')
    (ho : o.docOnly = true)
    (hdoc : E.documentOnlyOptions.any (fun x => r.isEnabled x) = false) :
    isHigherPriority r' r = decide (popCount r.permTypes < 2) ∧
    isHigherPriority r r' = decide (popCount r.permTypes > 2) := by
  obtain ⟨R, _, e, e'⟩ := append_mod' hp hm h h'
  have hen : r.enabled = (overrideDoc R).enabled := by
    have := congrArg NetRule.enabled e; exact this
  have hd' : docOnlyB R.enabled = false := by
    have : docOnlyB r.enabled = false := hdoc
    rw [hen, overrideDoc_enabled] at this; exact this
  have hRR : overrideDoc R = R := by unfold overrideDoc; rw [hd']; rfl
  obtain ⟨k, hk, hkd⟩ := docOnly_bit o ho
  have hbit := docOnlyB_false_bits hd' k hkd
  have hpt : r.permTypes = R.permTypes := by
    have := congrArg NetRule.permTypes e; rw [hRR] at this; exact this
  have e2 : modFields r' = { R with enabled := R.enabled ||| 2 ^ k, permTypes := Facts.TypeDocument } := by
    rw [e']
    show overrideDoc { R with enabled := R.enabled ||| o.bit } = _
    rw [hk]
    unfold overrideDoc
    have : docOnlyB (R.enabled ||| 2 ^ k) = true := by
      rw [docOnlyB_or, docOnlyB_bits (2 ^ k)]
      simp only [Nat.testBit_two_pow]
      rcases hkd with rfl | rfl | rfl | rfl | rfl | rfl | rfl | rfl <;> simp
    show (if docOnlyB (R.enabled ||| 2 ^ k) = true then _ else _) = _
    rw [this]; rfl
  obtain ⟨c1, c2, c3, c4⟩ := doconly_counts R k (by rcases hkd with rfl | rfl | rfl | rfl | rfl | rfl | rfl | rfl <;> decide)
    (by rcases hkd with rfl | rfl | rfl | rfl | rfl | rfl | rfl | rfl <;> decide) hbit
  rw [higher_modFields r' r, higher_modFields r r', e, e2, hRR, hpt]
  constructor
  · rw [higher_eq_count _ _ c1 c2 c3]
    apply decide_eq_decide.2
    constructor <;> intro hh <;> omega
  · rw [higher_eq_count _ _ c1.symm c2.symm c3.symm]
    apply decide_eq_decide.2
    constructor <;> intro hh <;> omega

/-- `,important` (a class change): strictly higher. -/
theorem c07_text_important (px : E.ParseExt) (wl : Bool) (pat : Bytes) (ms : List Mod) (id id' : Int)
    (r r' : NetRule) (hp : patOK pat = true) (hm : ∀ x ∈ ms ++ [.opt .important], x.valsOK = true)
    (h : E.parseNetRule px (render wl pat ms) id = .ok r)
    (h' : E.parseNetRule px (render wl pat (ms ++ [.opt .important])) id' = .ok r')
    (hno : r.important = false) : isHigherPriority r' r = true :=
  c07_text_option px wl pat ms .important id id' r r' hp hm h h' hno (.inl rfl)

/-- `,match-case`. -/
theorem c07_text_match_case (px : E.ParseExt) (wl : Bool) (pat : Bytes) (ms : List Mod) (id id' : Int)
    (r r' : NetRule) (hp : patOK pat = true) (hm : ∀ x ∈ ms ++ [.opt .matchCase], x.valsOK = true)
    (h : E.parseNetRule px (render wl pat ms) id = .ok r)
    (h' : E.parseNetRule px (render wl pat (ms ++ [.opt .matchCase])) id' = .ok r')
    (hno : r.isEnabled Facts.OptionMatchCase = false) : isHigherPriority r' r = true :=
  c07_text_option px wl pat ms .matchCase id id' r r' hp hm h h' hno (.inl rfl)

/-- `,third-party` or `,~first-party` on a rule without it. -/
theorem c07_text_third_party (px : E.ParseExt) (wl : Bool) (pat : Bytes) (ms : List Mod) (alt : Bool)
    (id id' : Int) (r r' : NetRule) (hp : patOK pat = true) (hm : ∀ x ∈ ms ++ [.thirdParty alt], x.valsOK = true)
    (h : E.parseNetRule px (render wl pat ms) id = .ok r)
    (h' : E.parseNetRule px (render wl pat (ms ++ [.thirdParty alt])) id' = .ok r')
    (hno : r.isEnabled Facts.OptionThirdParty = false) : isHigherPriority r' r = true := by
  obtain ⟨R, _, e, e'⟩ := append_mod' hp hm h h'
  rw [higher_modFields, e, e']
  have hen : r.enabled = (overrideDoc R).enabled := by
    have := congrArg NetRule.enabled e; exact this
  have hbit : (overrideDoc R).enabled.testBit 0 = false := by
    rw [← hen, ← and_two_pow_beq]; exact hno
  show isHigherPriority (overrideDoc { R with enabled := R.enabled ||| 2 ^ 0 }) (overrideDoc R) = true
  rw [overrideDoc_enable R 0 (by decide)]
  exact c07_add_option (overrideDoc R) 0 hbit

/-- `,~third-party` or `,first-party` on a rule without it. -/
theorem c07_text_first_party (px : E.ParseExt) (wl : Bool) (pat : Bytes) (ms : List Mod) (alt : Bool)
    (id id' : Int) (r r' : NetRule) (hp : patOK pat = true) (hm : ∀ x ∈ ms ++ [.firstParty alt], x.valsOK = true)
    (h : E.parseNetRule px (render wl pat ms) id = .ok r)
    (h' : E.parseNetRule px (render wl pat (ms ++ [.firstParty alt])) id' = .ok r')
    (hno : r.isDisabled Facts.OptionThirdParty = false) : isHigherPriority r' r = true := by
  obtain ⟨R, _, e, e'⟩ := append_mod' hp hm h h'
  rw [higher_modFields, e, e']
  have hdis : r.disabled = (overrideDoc R).disabled := by
    have := congrArg NetRule.disabled e; exact this
  have hbit : (overrideDoc R).disabled.testBit 0 = false := by
    rw [← hdis, ← and_two_pow_beq]; exact hno
  have hR : (overrideDoc R).disabled = R.disabled := by unfold overrideDoc; split <;> rfl
  show isHigherPriority (overrideDoc { R with disabled := R.disabled ||| 2 ^ 0 }) (overrideDoc R) = true
  rw [overrideDoc_disable, ← hR]
  exact c07_add_disabled_option (overrideDoc R) 0 hbit

/-- `,~match-case` on a rule without it. -/
theorem c07_text_not_match_case (px : E.ParseExt) (wl : Bool) (pat : Bytes) (ms : List Mod)
    (id id' : Int) (r r' : NetRule) (hp : patOK pat = true) (hm : ∀ x ∈ ms ++ [.notMatchCase], x.valsOK = true)
    (h : E.parseNetRule px (render wl pat ms) id = .ok r)
    (h' : E.parseNetRule px (render wl pat (ms ++ [.notMatchCase])) id' = .ok r')
    (hno : r.isDisabled Facts.OptionMatchCase = false) : isHigherPriority r' r = true := by
  obtain ⟨R, _, e, e'⟩ := append_mod' hp hm h h'
  rw [higher_modFields, e, e']
  have hdis : r.disabled = (overrideDoc R).disabled := by
    have := congrArg NetRule.disabled e; exact this
  have hbit : (overrideDoc R).disabled.testBit 1 = false := by
    rw [← hdis, ← and_two_pow_beq]; exact hno
  have hR : (overrideDoc R).disabled = R.disabled := by unfold overrideDoc; split <;> rfl
  show isHigherPriority (overrideDoc { R with disabled := R.disabled ||| 2 ^ 1 }) (overrideDoc R) = true
  rw [overrideDoc_disable, ← hR]
  exact c07_add_disabled_option (overrideDoc R) 1 hbit

/-- `,script` / `,image` / … (a permitted content type not yet listed) on a rule WITHOUT document-only
    options. -/
theorem c07_text_content_type (px : E.ParseExt) (wl : Bool) (pat : Bytes) (ms : List Mod) (c : CType)
    (id id' : Int) (r r' : NetRule) (hp : patOK pat = true) (hm : ∀ x ∈ ms ++ [.ctype false c], x.valsOK = true)
    (h : E.parseNetRule px (render wl pat ms) id = .ok r)
    (h' : E.parseNetRule px (render wl pat (ms ++ [.ctype false c])) id' = .ok r')
    (hdoc : E.documentOnlyOptions.any (fun x => r.isEnabled x) = false)
    (hno : r.permTypes &&& c.bit = 0) : isHigherPriority r' r = true := by
  obtain ⟨R, _, e, e'⟩ := append_mod' hp hm h h'
  rw [higher_modFields, e, e']
  have hen : r.enabled = (overrideDoc R).enabled := by
    have := congrArg NetRule.enabled e; exact this
  have hd' : docOnlyB R.enabled = false := by
    have : docOnlyB r.enabled = false := hdoc
    rw [hen, overrideDoc_enabled] at this; exact this
  have hpt : r.permTypes = (overrideDoc R).permTypes := by
    have := congrArg NetRule.permTypes e; exact this
  have hR : (overrideDoc R).permTypes = R.permTypes := by unfold overrideDoc; rw [hd']; rfl
  obtain ⟨k, hk⟩ := ctype_bit_pow c
  have hbit : (overrideDoc R).permTypes.testBit k = false := by
    rw [← hpt]
    rw [hk] at hno
    have := and_pow_beq_zero r.permTypes k
    rw [hno] at this
    simpa using this.symm
  show isHigherPriority (overrideDoc { R with permTypes := R.permTypes ||| c.bit }) (overrideDoc R) = true
  rw [overrideDoc_permTypes_plain R _ hd', ← hR, hk]
  exact c07_add_content_type (overrideDoc R) k hbit

/-- A permitted content type appended to a rule that already carries a document-only option changes nothing
    the order reads (the override puts `document` back): the two rules TIE. -/
theorem c07_text_content_type_doc_tie (px : E.ParseExt) (wl : Bool) (pat : Bytes) (ms : List Mod) (c : CType)
    (id id' : Int) (r r' : NetRule) (hp : patOK pat = true) (hm : ∀ x ∈ ms ++ [.ctype false c], x.valsOK = true)
    (h : E.parseNetRule px (render wl pat ms) id = .ok r)
    (h' : E.parseNetRule px (render wl pat (ms ++ [.ctype false c])) id' = .ok r')
    (hdoc : E.documentOnlyOptions.any (fun x => r.isEnabled x) = true) :
    isHigherPriority r' r = false ∧ isHigherPriority r r' = false := by
  obtain ⟨R, _, e, e'⟩ := append_mod' hp hm h h'
  have hen : r.enabled = (overrideDoc R).enabled := by
    have := congrArg NetRule.enabled e; exact this
  have hd' : docOnlyB R.enabled = true := by
    have : docOnlyB r.enabled = true := hdoc
    rw [hen, overrideDoc_enabled] at this; exact this
  have e2 : modFields r' = overrideDoc R := by
    rw [e']
    exact overrideDoc_permTypes_doc R _ hd'
  rw [higher_modFields r' r, higher_modFields r r', e, e2]
  exact ⟨c07_irrefl _, c07_irrefl _⟩

/-- `,~script` / … (a restricted content type not yet listed): strictly higher, document-only or not. -/
theorem c07_text_restricted_content_type (px : E.ParseExt) (wl : Bool) (pat : Bytes) (ms : List Mod) (c : CType)
    (id id' : Int) (r r' : NetRule) (hp : patOK pat = true) (hm : ∀ x ∈ ms ++ [.ctype true c], x.valsOK = true)
    (h : E.parseNetRule px (render wl pat ms) id = .ok r)
    (h' : E.parseNetRule px (render wl pat (ms ++ [.ctype true c])) id' = .ok r')
    (hno : r.restrTypes &&& c.bit = 0) : isHigherPriority r' r = true := by
  obtain ⟨R, _, e, e'⟩ := append_mod' hp hm h h'
  rw [higher_modFields, e, e']
  have hrt : r.restrTypes = (overrideDoc R).restrTypes := by
    have := congrArg NetRule.restrTypes e; exact this
  have hR : (overrideDoc R).restrTypes = R.restrTypes := by unfold overrideDoc; split <;> rfl
  obtain ⟨k, hk⟩ := ctype_bit_pow c
  have hbit : (overrideDoc R).restrTypes.testBit k = false := by
    rw [← hrt]
    rw [hk] at hno
    have := and_pow_beq_zero r.restrTypes k
    rw [hno] at this
    simpa using this.symm
  show isHigherPriority (overrideDoc { R with restrTypes := R.restrTypes ||| c.bit }) (overrideDoc R) = true
  rw [overrideDoc_restrTypes, ← hR, hk]
  exact c07_add_restricted_content_type (overrideDoc R) k hbit

/-- `,domain=…` on a rule without `$domain`. -/
theorem c07_text_domain (px : E.ParseExt) (wl : Bool) (pat : Bytes) (ms : List Mod) (vs : List (Bool × Bytes))
    (id id' : Int) (r r' : NetRule) (hp : patOK pat = true) (hm : ∀ x ∈ ms ++ [.domain vs], x.valsOK = true)
    (h : E.parseNetRule px (render wl pat ms) id = .ok r)
    (h' : E.parseNetRule px (render wl pat (ms ++ [.domain vs])) id' = .ok r')
    (hno : r.permDomains = [] ∧ r.restrDomains = []) : isHigherPriority r' r = true := by
  obtain ⟨R, _, e, e'⟩ := append_mod' hp hm h h'
  rw [higher_modFields, e, e']
  have h1 : (overrideDoc R).permDomains = [] := by
    have := congrArg NetRule.permDomains e; rw [← hno.1]; exact this.symm
  have h2 : (overrideDoc R).restrDomains = [] := by
    have := congrArg NetRule.restrDomains e; rw [← hno.2]; exact this.symm
  have hne : vs ≠ [] := by
    have := hm (.domain vs) (List.mem_append_right _ List.mem_cons_self)
    simp only [Mod.valsOK, Bool.and_eq_true, Bool.not_eq_true', List.isEmpty_eq_false_iff] at this
    exact this.1
  show isHigherPriority (overrideDoc { R with permDomains := posVals vs, restrDomains := negVals vs })
    (overrideDoc R) = true
  rw [overrideDoc_domains]
  cases hpos : posVals vs with
  | nil =>
    have hneg : negVals vs ≠ [] := by
      intro hn
      have := pos_neg_length vs
      rw [hpos, hn] at this
      exact hne (List.eq_nil_of_length_eq_zero this.symm)
    have : ({ overrideDoc R with permDomains := [], restrDomains := negVals vs } : NetRule) =
        { overrideDoc R with restrDomains := negVals vs } := by
      rw [← h1]
    rw [this]
    exact c07_add_restricted_domain (overrideDoc R) _ h1 h2 hneg
  | cons d ds =>
    refine c07_specific_over_generic _ _ (by rfl) (by rfl) (by rfl) ?_
    simp [NetRule.isGeneric, h1]

/-- `,dnstype=…` (names of known record types) on a rule without `$dnstype`. -/
theorem c07_text_dnstype (px : E.ParseExt) (wl : Bool) (pat : Bytes) (ms : List Mod) (vs : List (Bool × Bytes))
    (id id' : Int) (r r' : NetRule) (hp : patOK pat = true) (hm : ∀ x ∈ ms ++ [.dnstype vs], x.valsOK = true)
    (h : E.parseNetRule px (render wl pat ms) id = .ok r)
    (h' : E.parseNetRule px (render wl pat (ms ++ [.dnstype vs])) id' = .ok r')
    (hno : r.permDns = [] ∧ r.restrDns = [])
    (hknown : r'.permDns ≠ [] ∨ r'.restrDns ≠ []) : isHigherPriority r' r = true := by
  obtain ⟨R, _, e, e'⟩ := append_mod' hp hm h h'
  have h1 : (overrideDoc R).permDns = [] := by
    have := congrArg NetRule.permDns e; rw [← hno.1]; exact this.symm
  have h2 : (overrideDoc R).restrDns = [] := by
    have := congrArg NetRule.restrDns e; rw [← hno.2]; exact this.symm
  have e2 := e'.trans (overrideDoc_dns R ((posVals vs).filterMap dnsTypeNumber) ((negVals vs).filterMap dnsTypeNumber))
  have hk : (posVals vs).filterMap dnsTypeNumber ≠ [] ∨ (negVals vs).filterMap dnsTypeNumber ≠ [] := by
    have a : r'.permDns = (posVals vs).filterMap dnsTypeNumber := by
      have := congrArg NetRule.permDns e2; exact this
    have b : r'.restrDns = (negVals vs).filterMap dnsTypeNumber := by
      have := congrArg NetRule.restrDns e2; exact this
    rw [← a, ← b]; exact hknown
  rw [higher_modFields, e, e2]
  exact c07_add_dnstype (overrideDoc R) _ _ h1 h2 hk

/-- `,ctag=…` on a rule without `$ctag`. -/
theorem c07_text_ctag (px : E.ParseExt) (wl : Bool) (pat : Bytes) (ms : List Mod) (vs : List (Bool × Bytes))
    (id id' : Int) (r r' : NetRule) (hp : patOK pat = true) (hm : ∀ x ∈ ms ++ [.ctag vs], x.valsOK = true)
    (h : E.parseNetRule px (render wl pat ms) id = .ok r)
    (h' : E.parseNetRule px (render wl pat (ms ++ [.ctag vs])) id' = .ok r')
    (hno : r.permTags = [] ∧ r.restrTags = []) : isHigherPriority r' r = true := by
  obtain ⟨R, _, e, e'⟩ := append_mod' hp hm h h'
  have h1 : (overrideDoc R).permTags = [] := by
    have := congrArg NetRule.permTags e; rw [← hno.1]; exact this.symm
  have h2 : (overrideDoc R).restrTags = [] := by
    have := congrArg NetRule.restrTags e; rw [← hno.2]; exact this.symm
  have hne : vs ≠ [] := by
    have := hm (.ctag vs) (List.mem_append_right _ List.mem_cons_self)
    simp only [Mod.valsOK, Bool.and_eq_true, Bool.not_eq_true', List.isEmpty_eq_false_iff] at this
    exact this.1
  have e2 : modFields r' = { overrideDoc R with permTags := sortB (posVals vs), restrTags := sortB (negVals vs) } := by
    rw [e']; exact overrideDoc_tags R _ _
  have hk : sortB (posVals vs) ≠ [] ∨ sortB (negVals vs) ≠ [] := by
    have hl := pos_neg_length vs
    have l1 := (E.sortB_perm (posVals vs)).length_eq
    have l2 := (E.sortB_perm (negVals vs)).length_eq
    have : vs.length ≠ 0 := fun h0 => hne (List.eq_nil_of_length_eq_zero h0)
    by_cases hp0 : sortB (posVals vs) = []
    · right
      intro hn
      rw [hp0] at l1; rw [hn] at l2
      simp at l1 l2; omega
    · exact .inl hp0
  rw [higher_modFields, e, e2]
  exact c07_add_ctag (overrideDoc R) _ _ h1 h2 hk

/-- `,client=…` on a rule without `$client`. -/
theorem c07_text_client (px : E.ParseExt) (wl : Bool) (pat : Bytes) (ms : List Mod) (vs : List (Bool × Bytes))
    (id id' : Int) (r r' : NetRule) (hp : patOK pat = true) (hm : ∀ x ∈ ms ++ [.client vs], x.valsOK = true)
    (h : E.parseNetRule px (render wl pat ms) id = .ok r)
    (h' : E.parseNetRule px (render wl pat (ms ++ [.client vs])) id' = .ok r')
    (hno : Clients.len r.permClients = 0 ∧ Clients.len r.restrClients = 0) : isHigherPriority r' r = true := by
  obtain ⟨R, _, e, e'⟩ := append_mod' hp hm h h'
  have h1 : Clients.len (overrideDoc R).permClients = 0 := by
    have := congrArg NetRule.permClients e; rw [← hno.1]; exact congrArg Clients.len this.symm
  have h2 : Clients.len (overrideDoc R).restrClients = 0 := by
    have := congrArg NetRule.restrClients e; rw [← hno.2]; exact congrArg Clients.len this.symm
  have hne : vs ≠ [] := by
    have := hm (.client vs) (List.mem_append_right _ List.mem_cons_self)
    simp only [Mod.valsOK, Bool.and_eq_true, Bool.not_eq_true', List.isEmpty_eq_false_iff] at this
    exact this.1
  have e2 := e'.trans (overrideDoc_clients R (clientsOf px.ext (posVals vs)) (clientsOf px.ext (negVals vs)))
  have hk : Clients.len (clientsOf px.ext (posVals vs)) ≠ 0 ∨ Clients.len (clientsOf px.ext (negVals vs)) ≠ 0 := by
    rw [clientsOf_len, clientsOf_len]
    have hl := pos_neg_length vs
    have : vs.length ≠ 0 := fun h0 => hne (List.eq_nil_of_length_eq_zero h0)
    omega
  rw [higher_modFields, e, e2]
  exact c07_add_client (overrideDoc R) _ _ h1 h2 hk

/-- `,denyallow=…` on a rule without `$denyallow`. -/
theorem c07_text_denyallow (px : E.ParseExt) (wl : Bool) (pat : Bytes) (ms : List Mod) (vs : List Bytes)
    (id id' : Int) (r r' : NetRule) (hp : patOK pat = true) (hm : ∀ x ∈ ms ++ [.denyallow vs], x.valsOK = true)
    (h : E.parseNetRule px (render wl pat ms) id = .ok r)
    (h' : E.parseNetRule px (render wl pat (ms ++ [.denyallow vs])) id' = .ok r')
    (hno : r.denyallow = []) : isHigherPriority r' r = true := by
  obtain ⟨R, _, e, e'⟩ := append_mod' hp hm h h'
  have h1 : (overrideDoc R).denyallow = [] := by
    have := congrArg NetRule.denyallow e; rw [← hno]; exact this.symm
  have hne : vs ≠ [] := by
    have := hm (.denyallow vs) (List.mem_append_right _ List.mem_cons_self)
    simp only [Mod.valsOK, Bool.and_eq_true, Bool.not_eq_true', List.isEmpty_eq_false_iff] at this
    exact this.1
  have e2 : modFields r' = { overrideDoc R with denyallow := vs } := by
    rw [e']; exact overrideDoc_denyallow R _
  rw [higher_modFields, e, e2]
  exact c07_add_denyallow (overrideDoc R) _ h1 hne

/-! ### the exceptions, machine-checked through the parser model (scope decision of DESIGN.md §8.5) -/

private def exExt : Ext :=
  { psl := fun _ => (lit "com", true), parsePrefix := fun _ => none, pat := fun _ _ _ => true,
    parseAddr := fun s => if s == lit "1.2.3.4" then some { is4 := true, val := 16909060 } else none }

/-- `(t'.IsHigherPriority(t), t.IsHigherPriority(t'))` for two rule texts, through the complete parser model
    (`$dnsrewrite` values included, group H). -/
private def prio (t' t : String) : Option (Bool × Bool) :=
  match I2.parseNetRuleFull exExt (fun _ => []) (lit t') 1, I2.parseNetRuleFull exExt (fun _ => []) (lit t) 1 with
  | .ok a, .ok b => some (isHigherPriority a b, isHigherPriority b a)
  | _, _ => none

/-- `,popup` on `$script,image,media` is LOWER (three content types are replaced by `document`); on two types
    it ties; on one type or none it is higher. -/
example : prio "||e.com^$script,image,media,popup" "||e.com^$script,image,media" = some (false, true) := by
  decide +kernel
example : prio "||e.com^$script,image,popup" "||e.com^$script,image" = some (false, false) := by decide +kernel
example : prio "||e.com^$script,popup" "||e.com^$script" = some (true, false) := by decide +kernel
example : prio "||e.com^$popup" "||e.com^" = some (true, false) := by decide +kernel

/-- The same for an exception-only document-only option. -/
example : prio "@@||e.com^$script,image,media,elemhide" "@@||e.com^$script,image,media" = some (false, true) := by
  decide +kernel

/-- `,dnsrewrite=…` is not counted: tie. -/
example : prio "||e.com^$script,dnsrewrite=1.2.3.4" "||e.com^$script" = some (false, false) := by decide +kernel

/-- A content type appended to a document-only rule: tie (`c07_text_content_type_doc_tie`). -/
example : prio "@@||e.com^$elemhide,script" "@@||e.com^$elemhide" = some (false, false) := by decide +kernel

/-- … while the theorems' cases behave as proved: `,important`, `,third-party`, `,image`, `,domain=`, `,~script`
    on a document-only rule. -/
example : prio "||e.com^$script,important" "||e.com^$script" = some (true, false) := by decide +kernel
example : prio "||e.com^$script,third-party" "||e.com^$script" = some (true, false) := by decide +kernel
example : prio "||e.com^$script,image" "||e.com^$script" = some (true, false) := by decide +kernel
example : prio "||e.com^$script,domain=a.com" "||e.com^$script" = some (true, false) := by decide +kernel
example : prio "@@||e.com^$elemhide,~script" "@@||e.com^$elemhide" = some (true, false) := by decide +kernel

/-- The hypotheses of the theorems are satisfiable: the texts are renderings of structured modifiers. -/
example : render false (lit "||e.com^") [.ctype false .script] = lit "||e.com^$script" ∧
    render false (lit "||e.com^") ([.ctype false .script] ++ [.opt .important]) = lit "||e.com^$script,important" ∧
    patOK (lit "||e.com^") = true := by decide

end UF.C07

import UF.Spec.Result
import UF.Proofs.Badfilter
import UF.Proofs.DnsRewrite
import UF.Proofs.BadfilterExamples
/-
  C08 — `$badfilter` disables exactly its twin rules, however many are present.
  Property theorems only (helper lemmas live in UF/Proofs/Badfilter.lean).
  The verdict-level corollaries (`c08_rewrites_*`, `c08_verdict_*`) use the models of DNSRewrites,
  NewMatchingResult and GetDNSBasicRule, all of which start with `removeBadfilterRules`.
-/
namespace UF.C08
open UF

/-- `removeBadfilterRules` (any number of badfilter rules) keeps exactly the rules that are not
    badfilter rules and are negated by no badfilter rule of the list — in order, with multiplicity. -/
theorem removeBad_eq (rs : List NetRule) :
    removeBadfilterRules rs =
      rs.filter (fun r => !r.badfilter && !rs.any (fun b => b.badfilter && negatesBadfilter b r)) :=
  removeBadfilterRules_eq_spec rs

/-- The survivors are a subsequence of the input (order and multiplicity preserved). -/
theorem c08_sublist (rs : List NetRule) : (removeBadfilterRules rs).Sublist rs := by
  rw [removeBad_eq]; exact List.filter_sublist

/-- Badfilter rules themselves never survive. -/
theorem c08_no_badfilter (rs : List NetRule) (r : NetRule) (h : r ∈ removeBadfilterRules rs) :
    r.badfilter = false := by
  rw [removeBad_eq, List.mem_filter] at h
  have := h.2
  simp only [Bool.and_eq_true, Bool.not_eq_true'] at this
  exact this.1

/-- `negatesBadfilter b r` holds iff `b` carries `$badfilter` and `b` with that bit flipped equals
    `r` on every matching-relevant field (everything except text, list id, shortcut). -/
theorem negates_iff (b r : NetRule) :
    negatesBadfilter b r = true ↔ b.badfilter = true ∧ b.flipBadfilter.matchFields = r.matchFields := by
  rw [negatesBadfilter_eq_isTwin]; simp [isTwin]

/-- … field by field: exception flag, pattern, domains (both lists), denyallow, DNS types (both),
    ctags (both), clients (both), enabled options (modulo the badfilter bit), disabled options,
    both content-type masks, and the `$dnsrewrite` value. -/
theorem negates_fields (b r : NetRule) :
    negatesBadfilter b r = true ↔ b.badfilter = true ∧
      b.whitelist = r.whitelist ∧ b.pattern = r.pattern ∧ b.permDomains = r.permDomains ∧
      b.restrDomains = r.restrDomains ∧ b.denyallow = r.denyallow ∧ b.permDns = r.permDns ∧
      b.restrDns = r.restrDns ∧ b.permTags = r.permTags ∧ b.restrTags = r.restrTags ∧
      b.permClients = r.permClients ∧ b.restrClients = r.restrClients ∧
      (b.enabled ^^^ Facts.OptionBadfilter) = r.enabled ∧
      b.disabled = r.disabled ∧ b.permTypes = r.permTypes ∧ b.restrTypes = r.restrTypes ∧
      b.rewrite = r.rewrite := by
  rw [negates_iff, matchFields_eq_iff]; rfl

/-- A rule and its twin: `x$badfilter` (whatever its text) negates `x`. -/
theorem c08_twin_negates (x xb : NetRule) (hx : x.badfilter = false)
    (hxb : xb.matchFields = x.withBadfilter.matchFields) : negatesBadfilter xb x = true := by
  rw [negates_iff]
  constructor
  · rw [badfilter_congr xb _ hxb]; exact withBadfilter_badfilter x
  · rw [flip_matchFields_congr xb _ hxb, flip_withBadfilter x hx]

/-- A rule `y` differing from `x` in at least one matching-relevant field is not negated by
    `x$badfilter`. -/
theorem c08_other (x xb y : NetRule) (hx : x.badfilter = false)
    (hxb : xb.matchFields = x.withBadfilter.matchFields) (hy : y.matchFields ≠ x.matchFields) :
    negatesBadfilter xb y = false := by
  apply Bool.eq_false_iff.mpr
  intro h
  rw [negates_iff] at h
  rw [flip_matchFields_congr xb _ hxb, flip_withBadfilter x hx] at h
  exact hy h.2.symm

/-- … hence `y` stays effective in any list in which no badfilter rule is its twin. -/
theorem c08_other_effective (L : List NetRule) (y : NetRule) (hy : y ∈ L) (hyb : y.badfilter = false)
    (hno : ∀ b ∈ L, b.badfilter = true → b.flipBadfilter.matchFields ≠ y.matchFields) :
    y ∈ removeBadfilterRules L := by
  rw [removeBad_eq, List.mem_filter]
  refine ⟨hy, ?_⟩
  have : L.any (fun b => b.badfilter && negatesBadfilter b y) = false := by
    apply List.any_eq_false.mpr
    intro b hb
    cases hbb : b.badfilter with
    | false => simp
    | true =>
      have : negatesBadfilter b y = false := by
        apply Bool.eq_false_iff.mpr
        intro h
        exact hno b hb hbb ((negates_iff b y).mp h).2
      simp [this]
  simp [hyb, this]

/-- Conversely a rule with a twin in the list never survives. -/
theorem c08_twin_removed (L : List NetRule) (x xb : NetRule) (hb : xb ∈ L)
    (htw : negatesBadfilter xb x = true) : x ∉ removeBadfilterRules L := by
  rw [removeBad_eq, List.mem_filter]
  intro ⟨_, h⟩
  have hbb := negatesBadfilter_badfilter xb x htw
  have : L.any (fun b => b.badfilter && negatesBadfilter b x) = true :=
    List.any_eq_true.mpr ⟨xb, hb, by simp [hbb, htw]⟩
  simp [this] at h

/-- Adding a rule `x` (not a badfilter rule, structurally distinct from every rule of
    `L = l1 ++ l2 ++ l3`) together with its twin `x$badfilter` at ARBITRARY positions — in either
    order — leaves the filtered list unchanged. -/
theorem c08_twin (l1 l2 l3 : List NetRule) (x xb : NetRule) (hx : x.badfilter = false)
    (hxb : xb.matchFields = x.withBadfilter.matchFields)
    (hdist : ∀ r ∈ l1 ++ l2 ++ l3, r.matchFields ≠ x.matchFields) :
    removeBadfilterRules (l1 ++ x :: l2 ++ xb :: l3) = removeBadfilterRules (l1 ++ l2 ++ l3) ∧
    removeBadfilterRules (l1 ++ xb :: l2 ++ x :: l3) = removeBadfilterRules (l1 ++ l2 ++ l3) := by
  have htw := c08_twin_negates x xb hx hxb
  have hd : ∀ r ∈ l1 ++ l2 ++ l3, negatesBadfilter xb r = false :=
    fun r hr => c08_other x xb r hx hxb (hdist r hr)
  simp only [removeBadfilterRules_eq_spec]
  exact ⟨specRemoveBad_twin_xb l1 l2 l3 x xb hx htw hd, specRemoveBad_twin_bx l1 l2 l3 x xb hx htw hd⟩

/-- Any number of extra rules with their twins, any interleaving: `E` marks the extra elements of
    `L'`; if every extra element is a badfilter rule or has a badfilter twin in `L'`, and no extra
    badfilter rule is the twin of a base rule, then filtering `L'` gives the same as filtering the
    base list `L'.filter (¬E)`. -/
theorem c08_twins (L' : List NetRule) (E : NetRule → Bool)
    (H1 : ∀ e ∈ L', E e = true → e.badfilter = true ∨ ∃ b ∈ L', negatesBadfilter b e = true)
    (H2 : ∀ e ∈ L', E e = true → e.badfilter = true → ∀ r ∈ L', E r = false → negatesBadfilter e r = false) :
    removeBadfilterRules L' = removeBadfilterRules (L'.filter (fun r => !E r)) := by
  simp only [removeBadfilterRules_eq_spec]
  apply specRemoveBad_extras L' E _ H2
  intro e he hE
  rcases H1 e he hE with h | ⟨b, hb, hn⟩
  · exact Or.inl h
  · exact Or.inr ⟨b, hb, negatesBadfilter_badfilter b e hn, hn⟩

/-! #### effective DNS rewrites (D14: `DNSRewrites` applies `$badfilter` first) -/

/-- A badfilter rule can only negate rules with the same `$dnsrewrite`, so filtering the rewrite
    subset (what `DNSRewrites` does) equals filtering the whole list and keeping the rewrites. -/
theorem c08_rewrites_comm (all : List NetRule) :
    removeBadfilterRules (dnsRewritesAll all) = (removeBadfilterRules all).filter (·.rewrite.isSome) := by
  rw [dnsRewritesAll_eq, removeBadfilterRules_eq_spec, removeBadfilterRules_eq_spec, specRemoveBad_rewrites_comm]

/-- The effective rewrites are computed from the badfilter-filtered list only. -/
theorem c08_rewrites_filtered (res : List NetRule) :
    dnsRewrites res = some (specRewritesCore ((removeBadfilterRules res).filter (·.rewrite.isSome))) := by
  rw [dnsRewrites_eq_spec, specRewrites, ← removeBadfilterRules_eq_spec, c08_rewrites_comm]

/-- No badfilter rule is ever returned as an effective rewrite. -/
theorem c08_rewrites_no_badfilter (res out : List NetRule) (h : dnsRewrites res = some out) (r : NetRule)
    (hr : r ∈ out) : r.badfilter = false := by
  rw [c08_rewrites_filtered] at h
  rw [← Option.some.inj h, specRewritesCore] at hr
  have := (List.mem_filter.mp (List.mem_filter.mp hr).1).1
  exact c08_no_badfilter res r this

/-- `DNSRewrites(L + {x, x$badfilter}) = DNSRewrites(L)` for a twin pair at arbitrary positions, in
    either order (`x` any rule, with or without `$dnsrewrite`, distinct from every rule of `L`). -/
theorem c08_rewrites_twin (l1 l2 l3 : List NetRule) (x xb : NetRule) (hx : x.badfilter = false)
    (hxb : xb.matchFields = x.withBadfilter.matchFields)
    (hdist : ∀ r ∈ l1 ++ l2 ++ l3, r.matchFields ≠ x.matchFields) :
    dnsRewrites (l1 ++ x :: l2 ++ xb :: l3) = dnsRewrites (l1 ++ l2 ++ l3) ∧
    dnsRewrites (l1 ++ xb :: l2 ++ x :: l3) = dnsRewrites (l1 ++ l2 ++ l3) := by
  have := c08_twin l1 l2 l3 x xb hx hxb hdist
  simp only [c08_rewrites_filtered, this.1, this.2, and_self]

/-! #### verdicts (the models of NewMatchingResult and GetDNSBasicRule start with the filter) -/

/-- Lists with the same filtered rules give the same web result (all fields, hence the verdict). -/
theorem c08_verdict_web (rules rules' src src' : List NetRule)
    (h : removeBadfilterRules rules' = removeBadfilterRules rules)
    (hs : removeBadfilterRules src' = removeBadfilterRules src) :
    newMatchingResult rules' src' = newMatchingResult rules src := by
  unfold newMatchingResult; rw [h, hs]

theorem c08_verdict_dns (rules rules' : List NetRule)
    (h : removeBadfilterRules rules' = removeBadfilterRules rules) :
    getDNSBasicRule rules' = getDNSBasicRule rules := by
  unfold getDNSBasicRule; rw [h]

/-- verdict(L + {x, x$badfilter}) = verdict(L): a twin pair added at arbitrary positions (either
    order) to the rules matching the request changes neither the web result nor the DNS basic
    rule; the same for a pair added to the rules matching the referrer. -/
theorem c08_verdict_twin (l1 l2 l3 other : List NetRule) (x xb : NetRule) (hx : x.badfilter = false)
    (hxb : xb.matchFields = x.withBadfilter.matchFields)
    (hdist : ∀ r ∈ l1 ++ l2 ++ l3, r.matchFields ≠ x.matchFields) :
    newMatchingResult (l1 ++ x :: l2 ++ xb :: l3) other = newMatchingResult (l1 ++ l2 ++ l3) other ∧
    newMatchingResult (l1 ++ xb :: l2 ++ x :: l3) other = newMatchingResult (l1 ++ l2 ++ l3) other ∧
    newMatchingResult other (l1 ++ x :: l2 ++ xb :: l3) = newMatchingResult other (l1 ++ l2 ++ l3) ∧
    newMatchingResult other (l1 ++ xb :: l2 ++ x :: l3) = newMatchingResult other (l1 ++ l2 ++ l3) ∧
    getDNSBasicRule (l1 ++ x :: l2 ++ xb :: l3) = getDNSBasicRule (l1 ++ l2 ++ l3) ∧
    getDNSBasicRule (l1 ++ xb :: l2 ++ x :: l3) = getDNSBasicRule (l1 ++ l2 ++ l3) := by
  have := c08_twin l1 l2 l3 x xb hx hxb hdist
  exact ⟨c08_verdict_web _ _ _ _ this.1 rfl, c08_verdict_web _ _ _ _ this.2 rfl,
    c08_verdict_web _ _ _ _ rfl this.1, c08_verdict_web _ _ _ _ rfl this.2,
    c08_verdict_dns _ _ this.1, c08_verdict_dns _ _ this.2⟩

/-! #### generated-fact obligation (go/ast over the current rules/network.go) -/


/-- As long as `negatesBadfilter` compares struct fields directly, it reads EVERY matching-relevant
    field of `NetworkRule` from BOTH operands (a field added to the struct and forgotten here — the
    history of `$denyallow`, `$dnstype`, `$dnsrewrite` — breaks this obligation). -/
theorem c08_fact_all_fields_compared :
    Facts.negatesBadfilterReadsR.any (fun x => Facts.networkRuleFields.contains x) = true →
    (Facts.networkRuleFields.filter (fun x => !nonMatchingFields.contains x)).all
      (fun x => Facts.negatesBadfilterReadsF.contains x && Facts.negatesBadfilterReadsR.contains x) = true := by
  decide

/-! #### non-vacuity and the old shape (D7) -/


/-- The hypotheses of `c08_twin` are satisfiable: `exRImg` is distinct from the base rule `exR`. -/
example : exRImg.badfilter = false ∧ exRImgBad.matchFields = exRImg.withBadfilter.matchFields ∧
    (∀ r ∈ [exR] ++ [] ++ [], r.matchFields ≠ exRImg.matchFields) ∧
    removeBadfilterRules ([exR] ++ exRImg :: [] ++ exRImgBad :: []) = [exR] := by decide

/-- Repaired code on the D7 replay input `[r, r$badfilter, r$image, r$image,badfilter]`: nothing
    survives; and `$denyallow=b.com,badfilter` does not negate `$denyallow=a.com`. -/
example : removeBadfilterRules [exR, exRBad, exRImg, exRImgBad] = [] ∧
    negatesBadfilter exDenyBBad exDenyA = false := by decide

/-- The pinned tree's shape (D7) on the same input: each badfilter rule re-adds the rule disabled by
    the other, and the unrelated `$denyallow` rule is negated. -/
example : removeBadfilterRulesOld [exR, exRBad, exRImg, exRImgBad] = [exRImg, exR] ∧
    negatesBadfilterOld exDenyBBad exDenyA = true := by decide

end UF.C08

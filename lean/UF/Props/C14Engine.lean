import UF.Compose4.EnvOfStorage
import UF.Props.C14
/-
  C14 ON THE ENGINE MODELS (integration group J): `c14_sc` with the environment instantiated by the engine
  built from the bytes of the lists (see Props/C13Engine.lean for what the instance is).  PARTIAL BY NATURE
  exactly as Props/C14.lean: the granularity of the atomic actions is an assumption compared with the lock
  facts extracted from the source; the Go memory model is outside.
-/
namespace UF.C14
open UF UF.B UF.Prog UF.Storage UF.Compose UF.Compose4

/-- For ANY engine model and EVERY schedule: no thread crashes and every finished thread returned what the
    engine model answers statelessly. -/
theorem c14_engine_generic {Re : Type} (hf : HashFns) (k : Nat) (truth : Int → Option Rule) (listOf : Int → Int)
    (etld1 : Bytes → Bytes) (ext : Ext) (pm : PatModel Re) (basic : List NetRule → Option NetRule) (d : DnsEngine)
    (hpat : ext.pat = pm.pat) (s : State Rule Re) (hs : SInv (envOf hf k truth listOf etld1 ext pm basic d) s)
    (h0 : s.closed = []) (qs : List Query) (sched : List Nat) :
    ∀ t ∈ (Config.run (envOf hf k truth listOf etld1 ext pm basic d) ⟨s, qs.map Thread.init⟩ (sched.map Ev.run)).threads,
      t.pc ≠ .crash ∧ (t.pc = .done → t.answer = engineAnswer hf k truth etld1 ext basic d t.q) := by
  intro t ht
  obtain ⟨h1, h2⟩ := c14_sc _ s qs sched hs h0 t ht
  exact ⟨h1, fun hd => by rw [h2 hd, pureAnswer_eq hf k truth listOf etld1 ext pm basic d hpat]⟩

/-- C14 FOR THE DNS ENGINE BUILT FROM THE BYTES OF THE LISTS: any number of concurrent queries, EVERY schedule
    of their atomic actions (cache get / list read / cache put / `preparePattern` / unlocked `regex` read / pool
    get and put) on a cold engine: no crash, and every finished query returned what group B's engine model
    returns sequentially, retrieving through group D's storage in any reachable cache state. -/
theorem c14_engine {Re : Type} (io : IO) (px : E.ParseExt) (lists : List RList) (pm : PatModel Re)
    (hpat : px.ext.pat = pm.pat) (st : RuleStorage) (hnew : newRuleStorage lists = some st)
    (history : List (BitVec 64)) (qs : List Query) (sched : List Nat) :
    ∀ t ∈ (Config.run (envDns io px lists pm) ⟨{}, qs.map Thread.init⟩ (sched.map Ev.run)).threads,
      t.pc ≠ .crash ∧ (t.pc = .done → t.answer = dnsAnswer io px lists st history t.q) := by
  intro t ht
  obtain ⟨h1, h2⟩ := c14_sc _ {} qs sched (sinv_init _) rfl t ht
  exact ⟨h1, fun hd => by rw [h2 hd, pureAnswer_envDns io px lists pm hpat st hnew history]⟩

/-- The same for the network engine of the lists, and on a WARM engine: a second batch of concurrent queries
    `qs2` under any schedule, after a first batch `qs1` ran under any schedule. -/
theorem c14_engine_net_warm {Re : Type} (io : IO) (px : E.ParseExt) (lists : List RList) (pm : PatModel Re)
    (hpat : px.ext.pat = pm.pat) (st : RuleStorage) (hnew : newRuleStorage lists = some st)
    (history : List (BitVec 64)) (qs1 qs2 : List Query) (sched1 sched2 : List Nat) :
    ∀ t ∈ (Config.run (envNet io px lists pm)
        ⟨(Config.run (envNet io px lists pm) ⟨{}, qs1.map Thread.init⟩ (sched1.map Ev.run)).state, qs2.map Thread.init⟩
        (sched2.map Ev.run)).threads,
      t.pc ≠ .crash ∧ (t.pc = .done → t.answer = netAnswer io px lists st history t.q) := by
  intro t ht
  have hs := c14_sc_state (envNet io px lists pm) {} qs1 sched1 (sinv_init _) rfl
  have h0 : (Config.run (envNet io px lists pm) ⟨{}, qs1.map Thread.init⟩ (sched1.map Ev.run)).state.closed = [] :=
    (run_cinv_eq sched1 _ ⟨cinv_init _ _ {} qs1 (sinv_init _) (goodEq_init _), rfl⟩).2
  obtain ⟨h1, h2⟩ := c14_sc _ _ qs2 sched2 hs h0 t ht
  exact ⟨h1, fun hd => by rw [h2 hd, pureAnswer_envNet io px lists pm hpat st hnew history]⟩

end UF.C14

import UF.Props.C05Full
/-
  C05 / regexp model, group P3 (REVIEW2 F3): Go's `regexp/syntax` does not compile the textbook reading of
  a case-sensitive expression in which an alternation has adjacent branches whose leading one-rune
  literals are equal up to case, one of them case-folded (`[aA]` is pushed as `(?i:A)`): round 2 of
  `parser.factor` merges them with `Regexp.Equal`, which ignores the fold flag, and keeps the node of the
  first.  `parseRE` now answers with GO's tree (`goTree`, UF/Model/RegexQuirk.lean: a replay of the
  parser's factoring that rewrites the fold flags of the leaves of the written tree).

  Here: the compiled expression is the WRITTEN expression up to the fold flags of its leaves
  (`c05_compiled_written`), it is exactly the written one when the expression has no source of folded
  literals (`c05_compiled_textbook`), the literals `requiredRegexpLiterals` collects are required by the
  written expression under ANY assignment of fold flags (`c05_required_any_flags` — the reason why the
  quirk cannot make the shortcut test reject an accepted URL, in the model and in Go alike), and the
  witnesses of the review with Go's answers (`c05_quirk_witnesses`).
  `c05_regex_text` / `c05_text_model_regex` (Props/C05Full.lean) are stated about `modelPat` and remain
  proved for the repaired model.  Only property theorems and non-vacuity examples here.
-/
namespace UF.C05
open UF Bytes Re UF.I2

/-- The text a case-sensitive compile parses: `parseRE` strips a leading `(?i)`. -/
def writtenText (t : Bytes) : Bytes := if hasPrefix t ciPrefix then t.drop 4 else t

/-- Whatever `parseRE` answers is the written expression (the textbook tree `parseCore` of the text)
    up to the fold flags of its leaves (`FoldRel`: same shape; a literal keeps its bytes, a class keeps
    its ranges or is the literal `parser.push` makes of it). -/
theorem c05_compiled_written (t : Bytes) (c : Re) (h : parseRE t = some c) :
    ∃ w, parseCore (writtenText t) = some w ∧ FoldRel w c := by
  unfold parseRE at h
  unfold writtenText
  split at h
  · rename_i hci
    rw [if_pos hci]
    cases hp : parseCore (t.drop 4) with
    | none => rw [hp] at h; cases h
    | some w =>
      rw [hp] at h
      cases h
      exact ⟨w, rfl, FoldRel.foldCase w⟩
  · rename_i hci
    rw [if_neg hci]
    cases hp : parseCore t with
    | none => rw [hp] at h; cases h
    | some w =>
      rw [hp, Option.bind_some] at h
      exact ⟨w, rfl, FoldRel.goTree h⟩

/-- Without a source of case-folded literals (no class of the two cases of a letter, no alternation of
    single characters that is one) the compiled case-sensitive expression IS the written one. -/
theorem c05_compiled_textbook (t : Bytes) (w : Re) (hci : hasPrefix t ciPrefix = false)
    (hp : parseCore t = some w) (hz : w.hazard = false) : parseRE t = some w := by
  unfold parseRE
  rw [if_neg (by rw [hci]; exact Bool.false_ne_true), hp, Option.bind_some]
  exact goTree_of_not_hazard t w hz

/-- With the `(?i)` prefix (every rule without `$match-case`) the compiled expression is the written
    one with every fold flag set: the quirk cannot arise. -/
theorem c05_compiled_ci (t : Bytes) : parseRE (ciPrefix ++ t) = (parseCore t).map foldCase :=
  parseRE_ci t

/-- The formal reason why Go's quirk is harmless for C05: the literals Go's `requiredRegexpLiterals`
    collects from the text (`goReq`, with Go's own flag-blind factoring) are factors of the lower-cased
    subject of every match of the written expression under ANY assignment of fold flags to its leaves —
    in particular under the one `parser.factor` leaves behind. -/
theorem c05_required_any_flags (w c : Re) (u : Bytes) (hrel : FoldRel w c) (h : search c u = true) :
    ∀ l ∈ goReq w, hasSub (toLower u) l = true :=
  goReq_search hrel h

/-- The witnesses of REVIEW2 F3, now with Go's answers (`$match-case`), and unchanged without
    `$match-case`. -/
theorem c05_quirk_witnesses :
    modelPat (lit "/A.|[aA]/") true (lit "http://x.com/a") = some false ∧
    modelPat (lit "/[aA]b|A./") true (lit "http://h/ax") = some true ∧
    modelPat (lit "/A[^a]|[Aa]a/") true (lit "aa") = some false ∧
    modelPat (lit "/A.|[aA]/") false (lit "http://x.com/a") = some true ∧
    modelPat (lit "/[aA]b|A./") false (lit "http://h/ax") = some true := by
  decide +kernel

/-- … the required literals of the text-level shortcut model follow Go's tree: for the written tree of
    `A.|[aA]` (compiled as `A(?:.|(?:))`) the literal `a` is required, the heuristics' candidate `A` is
    selected, and `loadShortcut` drops the one-character shortcut (so the rule has no shortcut). -/
theorem c05_quirk_required :
    goReq (.alt (.cat (.lit [65] false) .any) (.cls false [(97, 97), (65, 65)] false)) = [lit "a"] ∧
    pickLongest (regexParts (lit "A.|[aA]")) [lit "a"] = lit "A" ∧ loadShortcut (lit "A") = [] := by
  refine ⟨?_, by decide +kernel, by decide⟩
  rw [goReq_alt, goItems_cat, goItems_lit, goItems_any,
    goBranches_nonalt _ (by intro a b h; cases h), goItems_cls]
  decide +kernel

/-! ### Non-vacuity -/

/-- `c05_compiled_written` on a witness: the written tree is `A.|[aA]`, the compiled one has the class
    replaced by the case-sensitive literal `A`. -/
example : parseCore (lit "A.|[aA]") = some (.alt (.cat (.lit [65] false) .any) (.cls false [(97, 97), (65, 65)] false)) ∧
    parseRE (lit "A.|[aA]") = some (.alt (.cat (.lit [65] false) .any) (.lit [65] false)) := by
  decide +kernel

/-- … and on `[aA]b|A.`: the case-sensitive `A` of the second branch is compiled case-folded. -/
example : parseRE (lit "[aA]b|A.") =
    some (.alt (.cat (.cls false [(97, 97), (65, 65)] false) (.lit [98] false)) (.cat (.lit [65] true) .any)) := by
  decide +kernel

/-- `c05_compiled_textbook` applies to an ordinary `$match-case` expression. -/
example : (parseCore (lit "ads(foo|bar)[0-9]+")).map hazard = some false := by decide +kernel

/-- `c05_regex_text` on a quirk input: the accepted URL contains the shortcut `banner`, and the URL the
    textbook reading would accept (`…bannera`) is NOT accepted (as in Go). -/
example :
    modelPat (lit "/bannerA.|banner[aA]/") true (lit "http://x.com/bannerAx") = some true ∧
    hasSub (toLower (lit "http://x.com/bannerAx")) (loadShortcut (lit "banner")) = true ∧
    modelPat (lit "/bannerA.|banner[aA]/") true (lit "http://x.com/bannera") = some false := by
  decide +kernel

/-- Outside the modelled domain: a non-capturing group next to a source of folded literals. -/
example : parseRE (lit "X(?:A.)|[xX]y") = none ∧ parseRE (lit "X(?:A.)|xy") ≠ none := by decide +kernel

end UF.C05

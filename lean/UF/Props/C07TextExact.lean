import UF.Compose5.DnsKnown
import UF.Props.C07Text
/-
  C07 AT TEXT LEVEL, THE REMAINING CASES (group P1; second adversarial review, finding F7).

  `Props/C07Text.lean` proves "adding a modifier makes the rule strictly higher" for rule texts, with the
  exception of the document-only options (`c07_text_doconly_iff`).  The review found cases with no theorem
  and no listed exception: `$document`, `~extension`, a repeated modifier, one more VALUE in a list-valued
  modifier.  This file closes them, for ALL rule texts of the grammar EXTENDED by `~extension`
  (`XMod`, `renderX`: UF/Compose5/GrammarX.lean; on group L's grammar `renderX` is `render`: `c07_text_renderX_base`).

  * `c07_text_key` — the master statement: for ANY two rule texts of the grammar, `IsHigherPriority` of the two
    parsed rules is the lexicographic comparison of two keys computed from the modifiers AS WRITTEN
    (`textKey`: no parser, no oracle).  Every text-level question (any position, any edit) is decided by it.
  * `c07_text_document_iff` — `,document` appended: strictly higher / tie / strictly LOWER iff
    (number of permitted content types the rule counts) + (number of the five `$document` bits it already has)
    is < 6 / = 6 / > 6.  On a rule without document-only options that is "fewer than / exactly / more than SIX
    content types" (`c07_text_document_plain`); on a document-only rule it is never lower and ties exactly when
    all five bits are there (`c07_text_document_on_doc`).
  * `c07_text_not_extension_iff` — `,~extension` appended TOGGLES the bit: on a rule without `extension` it acts as
    `,extension` (higher / tie / lower for < 2 / 2 / > 2 counted content types); on a rule with it the bit is
    REMOVED: the new rule is lower, unless `extension` was the only document-only option, in which case the
    written content types come back (lower / tie / higher for < 2 / 2 / > 2 of them).
    `c07_text_not_extension_lower`: `$document,~extension` is strictly LOWER than `$document`.
  * `c07_text_repeat_tie` — a bare modifier the rule already carries (any option, `third-party`, `first-party`,
    `~match-case`, `document`, a content type, a restricted content type): tie.
  * `c07_text_domain_again_iff`, `c07_text_list_again_tie` — a list-valued modifier written AGAIN (same or other
    values; the later one replaces the earlier one): tie, except that `$domain` decides generic/specific anew.
  * `c07_text_add_value_iff` — ONE MORE VALUE in a list-valued modifier, at any position in the value list, the
    modifier at any position in the text: tie — except a first permitted `$domain` value added to an effective
    `$domain` that had only excluded values (generic → specific: strictly higher).  Never lower.
  * `c07_text_dnstype_any` — `c07_text_dnstype` of Props/C07Text.lean without its hypothesis `hknown` (a text that
    parses has only known `$dnstype` names).
  Together with `c07_text_*` of Props/C07Text.lean ("not yet carried ⇒ strictly higher") every appended modifier
  of the grammar is characterised.  Decided examples for each boundary, through the complete parser model, at
  the end.  Only property theorems and examples here; helper lemmas live in UF/Compose5.
-/
namespace UF.C07
open UF Bytes UF.L

/-- The extended rendering is group L's `render` on group L's grammar. -/
theorem c07_text_renderX_base (wl : Bool) (pat : Bytes) (ms : List Mod) :
    renderX wl pat (ms.map .base) = render wl pat ms :=
  renderX_base wl pat ms

/-- THE MASTER STATEMENT.  For any two rule texts of the (extended) grammar — any patterns, any exception flags,
    any modifier lists — whatever `NewNetworkRule` accepts for them compares under `IsHigherPriority` as the
    keys of the two TEXTS compare: `textKey` folds the modifiers as written into (class, `$redirect`,
    domain-specific, number of counted modifiers). -/
theorem c07_text_key (px : E.ParseExt) (wl wl' : Bool) (pat pat' : Bytes) (xs xs' : List XMod) (id id' : Int)
    (r r' : NetRule) (hp : patOK pat = true) (hp' : patOK pat' = true)
    (hm : ∀ x ∈ xs, x.valsOK = true) (hm' : ∀ x ∈ xs', x.valsOK = true)
    (h : E.parseNetRule px (renderX wl pat xs) id = .ok r)
    (h' : E.parseNetRule px (renderX wl' pat' xs') id' = .ok r') :
    isHigherPriority r' r = decide ((textKey wl' xs').gt (textKey wl xs)) := by
  apply Bool.eq_iff_iff.2
  rw [higher_iff_key, pkey_parseX hp hm h, pkey_parseX hp' hm' h', decide_eq_true_eq]

/-- `,document` APPENDED.  With `n` = the number of permitted content types the rule counts (`document` alone
    on a document-only rule) and `d` = how many of the five bits of `$document` (elemhide, jsinject, urlblock,
    content, extension) it already has, the new rule is strictly higher iff `n + d < 6`, strictly LOWER iff
    `n + d > 6`, and the two tie iff `n + d = 6`. -/
theorem c07_text_document_iff (px : E.ParseExt) (wl : Bool) (pat : Bytes) (xs : List XMod) (id id' : Int)
    (r r' : NetRule) (hp : patOK pat = true) (hm : ∀ x ∈ xs ++ [.base .document], x.valsOK = true)
    (h : E.parseNetRule px (renderX wl pat xs) id = .ok r)
    (h' : E.parseNetRule px (renderX wl pat (xs ++ [.base .document])) id' = .ok r') :
    isHigherPriority r' r = decide (popCount r.permTypes + popCount (r.enabled &&& docBits) < 6) ∧
    isHigherPriority r r' = decide (popCount r.permTypes + popCount (r.enabled &&& docBits) > 6) := by
  obtain ⟨R, _, e, e'⟩ := append_x hp hm h h'
  obtain ⟨c1, c2, c3, c4⟩ := document_counts R
  have hpt : r.permTypes = (overrideDoc R).permTypes := by
    have := congrArg NetRule.permTypes e; exact this
  have hen : r.enabled = (overrideDoc R).enabled := by
    have := congrArg NetRule.enabled e; exact this
  have e2 : modFields r' = overrideDoc { R with enabled := R.enabled ||| docBits } := e'
  rw [higher_modFields r' r, higher_modFields r r', e, e2, hpt, hen]
  exact higher_of_counts _ _ c1 c2 c3 _ _ c4

/-- … on a rule WITHOUT document-only options: higher / tie / lower for fewer than / exactly / more than SIX
    permitted content types (`$script,image,media,font,other,ping,websocket,document` is LOWER than the same
    text without `,document`). -/
theorem c07_text_document_plain (px : E.ParseExt) (wl : Bool) (pat : Bytes) (xs : List XMod) (id id' : Int)
    (r r' : NetRule) (hp : patOK pat = true) (hm : ∀ x ∈ xs ++ [.base .document], x.valsOK = true)
    (h : E.parseNetRule px (renderX wl pat xs) id = .ok r)
    (h' : E.parseNetRule px (renderX wl pat (xs ++ [.base .document])) id' = .ok r')
    (hdoc : E.documentOnlyOptions.any (fun x => r.isEnabled x) = false) :
    isHigherPriority r' r = decide (popCount r.permTypes < 6) ∧
    isHigherPriority r r' = decide (popCount r.permTypes > 6) := by
  have key := c07_text_document_iff px wl pat xs id id' r r' hp hm h h'
  have hd : docOnlyB r.enabled = false := hdoc
  have hz : r.enabled &&& docBits = 0 := by
    apply Nat.eq_of_testBit_eq
    intro i
    rw [Nat.testBit_and, Nat.zero_testBit]
    by_cases hi : docBits.testBit i = true
    · have hk : i = 7 ∨ i = 4 ∨ i = 9 ∨ i = 8 ∨ i = 6 ∨ i = 5 ∨ i = 10 ∨ i = 14 := by
        by_cases h4 : i = 4; · exact .inr (.inl h4)
        by_cases h7 : i = 7; · exact .inl h7
        by_cases h8 : i = 8; · exact .inr (.inr (.inr (.inl h8)))
        by_cases h9 : i = 9; · exact .inr (.inr (.inl h9))
        by_cases h10 : i = 10; · exact .inr (.inr (.inr (.inr (.inr (.inr (.inl h10))))))
        exfalso
        have : docBits.testBit i = false := by
          show (1936 : Nat).testBit i = false
          have h2 : (1936 : Nat) = 2 ^ 4 ||| 2 ^ 7 ||| 2 ^ 8 ||| 2 ^ 9 ||| 2 ^ 10 := by decide
          rw [h2]
          simp only [Nat.testBit_or, Nat.testBit_two_pow]
          simp [Ne.symm h4, Ne.symm h7, Ne.symm h8, Ne.symm h9, Ne.symm h10]
        rw [this] at hi; cases hi
      rw [docOnlyB_false_bits hd i hk, Bool.false_and]
    · have : docBits.testBit i = false := by simpa using hi
      rw [this, Bool.and_false]
  rw [hz, popCount_zero, Nat.add_zero] at key
  exact key

/-- … on a DOCUMENT-ONLY rule (`$elemhide`, `$popup`, `$document`, …): never lower; a tie exactly when all five
    bits of `$document` are already there (e.g. `$document,document`), strictly higher otherwise. -/
theorem c07_text_document_on_doc (px : E.ParseExt) (wl : Bool) (pat : Bytes) (xs : List XMod) (id id' : Int)
    (r r' : NetRule) (hp : patOK pat = true) (hm : ∀ x ∈ xs ++ [.base .document], x.valsOK = true)
    (h : E.parseNetRule px (renderX wl pat xs) id = .ok r)
    (h' : E.parseNetRule px (renderX wl pat (xs ++ [.base .document])) id' = .ok r')
    (hdoc : E.documentOnlyOptions.any (fun x => r.isEnabled x) = true) :
    isHigherPriority r' r = decide (popCount (r.enabled &&& docBits) < 5) ∧
    isHigherPriority r r' = false := by
  have key := c07_text_document_iff px wl pat xs id id' r r' hp hm h h'
  obtain ⟨R, _, e, _⟩ := append_x hp hm h h'
  have hen : r.enabled = (overrideDoc R).enabled := by
    have := congrArg NetRule.enabled e; exact this
  have hd : docOnlyB R.enabled = true := by
    have : docOnlyB r.enabled = true := hdoc
    rw [hen, overrideDoc_enabled] at this; exact this
  have hpt : r.permTypes = Facts.TypeDocument := by
    have := congrArg NetRule.permTypes e
    have h2 : (overrideDoc R).permTypes = Facts.TypeDocument := by unfold overrideDoc; rw [hd]; rfl
    rw [h2] at this; exact this
  rw [hpt, show popCount Facts.TypeDocument = 1 by decide] at key
  have hle : popCount (r.enabled &&& docBits) ≤ 5 := by
    have h1 := popCount_and_le r.enabled docBits
    have h3 : popCount docBits = 5 := by decide
    omega
  constructor
  · rw [key.1]
    apply decide_eq_decide.2
    constructor <;> intro hh <;> omega
  · rw [key.2]
    apply decide_eq_false
    omega

/-- `,~extension` APPENDED toggles the `extension` bit.
    On a rule WITHOUT `extension` it sets the bit (a document-only option): higher / tie / lower for fewer than /
    exactly / more than two counted permitted content types of the ORIGINAL rule.
    On a rule WITH `extension` it removes the bit: the comparison is the mirror image, read off the NEW rule —
    lower / tie / higher for fewer than / exactly / more than two counted permitted content types of the new
    rule (which counts `document` alone, i.e. is lower, whenever another document-only option remains). -/
theorem c07_text_not_extension_iff (px : E.ParseExt) (wl : Bool) (pat : Bytes) (xs : List XMod) (id id' : Int)
    (r r' : NetRule) (hp : patOK pat = true) (hm : ∀ x ∈ xs ++ [.notExtension], x.valsOK = true)
    (h : E.parseNetRule px (renderX wl pat xs) id = .ok r)
    (h' : E.parseNetRule px (renderX wl pat (xs ++ [.notExtension])) id' = .ok r') :
    (r.isEnabled Facts.OptionExtension = false →
      isHigherPriority r' r = decide (popCount r.permTypes < 2) ∧
      isHigherPriority r r' = decide (popCount r.permTypes > 2)) ∧
    (r.isEnabled Facts.OptionExtension = true →
      isHigherPriority r' r = decide (popCount r'.permTypes > 2) ∧
      isHigherPriority r r' = decide (popCount r'.permTypes < 2)) := by
  obtain ⟨R, _, e, e'⟩ := append_x hp hm h h'
  have hen : r.enabled = R.enabled := by
    have := congrArg NetRule.enabled e; rw [overrideDoc_enabled] at this; exact this
  have hbit : r.isEnabled Facts.OptionExtension = R.enabled.testBit 10 := by
    show ((r.enabled &&& 2 ^ 10) == 2 ^ 10) = _
    rw [and_two_pow_beq, hen]
  have e2 : modFields r' = overrideDoc { R with enabled := R.enabled ^^^ 2 ^ 10 } := e'
  constructor
  · intro hno
    rw [hbit] at hno
    rw [xor_pow_of_clear hno] at e2
    obtain ⟨c1, c2, c3, c4⟩ := doconly_bit_counts R 10 (by decide) (by decide) (by decide) hno
    have hpt : r.permTypes = (overrideDoc R).permTypes := by
      have := congrArg NetRule.permTypes e; exact this
    rw [higher_modFields r' r, higher_modFields r r', e, e2, hpt]
    exact higher_of_counts _ _ c1 c2 c3 _ _ c4
  · intro hyes
    rw [hbit] at hyes
    obtain ⟨hclr, hback⟩ := xor_pow_of_set hyes
    -- the original rule is the new one with the bit set
    obtain ⟨c1, c2, c3, c4⟩ := doconly_bit_counts { R with enabled := R.enabled ^^^ 2 ^ 10 } 10
      (by decide) (by decide) (by decide) hclr
    have hR : ({ R with enabled := (R.enabled ^^^ 2 ^ 10) ||| 2 ^ 10 } : NetRule) = R := by rw [hback]
    have hpt : r'.permTypes = (overrideDoc { R with enabled := R.enabled ^^^ 2 ^ 10 }).permTypes := by
      have := congrArg NetRule.permTypes e2; exact this
    simp only [hR] at c1 c2 c3 c4
    rw [higher_modFields r' r, higher_modFields r r', e, e2, hpt]
    have := higher_of_counts _ _ c1 c2 c3 _ _ c4
    exact ⟨this.2, this.1⟩

/-- In particular `$document,~extension` (or `$extension,elemhide,~extension`, …): on a rule that carries
    `extension` AND another document-only option, `,~extension` makes the rule strictly LOWER. -/
theorem c07_text_not_extension_lower (px : E.ParseExt) (wl : Bool) (pat : Bytes) (xs : List XMod) (id id' : Int)
    (r r' : NetRule) (hp : patOK pat = true) (hm : ∀ x ∈ xs ++ [.notExtension], x.valsOK = true)
    (h : E.parseNetRule px (renderX wl pat xs) id = .ok r)
    (h' : E.parseNetRule px (renderX wl pat (xs ++ [.notExtension])) id' = .ok r')
    (hext : r.isEnabled Facts.OptionExtension = true)
    (hother : (E.documentOnlyOptions.filter (· != Facts.OptionExtension)).any (fun x => r.isEnabled x) = true) :
    isHigherPriority r' r = false ∧ isHigherPriority r r' = true := by
  have key := (c07_text_not_extension_iff px wl pat xs id id' r r' hp hm h h').2 hext
  obtain ⟨R, _, e, e'⟩ := append_x hp hm h h'
  have hen : r.enabled = R.enabled := by
    have := congrArg NetRule.enabled e; rw [overrideDoc_enabled] at this; exact this
  have e2 : modFields r' = overrideDoc { R with enabled := R.enabled ^^^ 2 ^ 10 } := e'
  -- another document-only bit stays set, so the new rule is document-only
  have hd : docOnlyB (R.enabled ^^^ 2 ^ 10) = true := by
    obtain ⟨o, ho, hen'⟩ := List.any_eq_true.1 hother
    obtain ⟨ho1, ho2⟩ := List.mem_filter.1 ho
    have hne : o ≠ Facts.OptionExtension := by simpa using ho2
    have hbit : ∀ k, o = 2 ^ k → k ≠ 10 → (R.enabled ^^^ 2 ^ 10).testBit k = true := by
      intro k hk hk10
      have : ((r.enabled &&& 2 ^ k) == 2 ^ k) = true := by rw [← hk]; exact hen'
      rw [and_two_pow_beq, hen] at this
      rw [Nat.testBit_xor, this, Nat.testBit_two_pow]
      simp [Ne.symm hk10]
    rw [docOnlyB_bits]
    have hmem : o = 2 ^ 7 ∨ o = 2 ^ 4 ∨ o = 2 ^ 9 ∨ o = 2 ^ 8 ∨ o = 2 ^ 6 ∨ o = 2 ^ 5 ∨ o = 2 ^ 10 ∨ o = 2 ^ 14 := by
      have : o ∈ [2 ^ 7, 2 ^ 4, 2 ^ 9, 2 ^ 8, 2 ^ 6, 2 ^ 5, 2 ^ 10, 2 ^ 14] := ho1
      simpa using this
    rcases hmem with rfl | rfl | rfl | rfl | rfl | rfl | rfl | rfl
    · simp [hbit 7 rfl (by decide)]
    · simp [hbit 4 rfl (by decide)]
    · simp [hbit 9 rfl (by decide)]
    · simp [hbit 8 rfl (by decide)]
    · simp [hbit 6 rfl (by decide)]
    · simp [hbit 5 rfl (by decide)]
    · exact absurd rfl hne
    · simp [hbit 14 rfl (by decide)]
  have hpt : r'.permTypes = Facts.TypeDocument := by
    have := congrArg NetRule.permTypes e2
    have h2 : (overrideDoc { R with enabled := R.enabled ^^^ 2 ^ 10 }).permTypes = Facts.TypeDocument := by
      unfold overrideDoc
      show (if docOnlyB (R.enabled ^^^ 2 ^ 10) = true then _ else _ : NetRule).permTypes = _
      rw [hd]; rfl
    rw [h2] at this; exact this
  rw [hpt] at key
  exact ⟨key.1.trans (by decide), key.2.trans (by decide)⟩

/-- A REPEATED bare modifier: appending a modifier the rule already carries (`Mod.carriedBy`: the option bit /
    the disabled bit / all five `$document` bits / the restricted content type is already set; a permitted
    content type is already listed or the rule is document-only) changes nothing the order reads — TIE. -/
theorem c07_text_repeat_tie (px : E.ParseExt) (wl : Bool) (pat : Bytes) (xs : List XMod) (m : Mod) (id id' : Int)
    (r r' : NetRule) (hp : patOK pat = true) (hm : ∀ x ∈ xs ++ [.base m], x.valsOK = true)
    (h : E.parseNetRule px (renderX wl pat xs) id = .ok r)
    (h' : E.parseNetRule px (renderX wl pat (xs ++ [.base m])) id' = .ok r')
    (hc : Mod.carriedBy r m = true) :
    isHigherPriority r' r = false ∧ isHigherPriority r r' = false := by
  obtain ⟨R, _, e, e'⟩ := append_x hp hm h h'
  have hc' : Mod.carriedBy (overrideDoc R) m = true := by
    rw [← e]
    -- `carriedBy` reads modifier fields only
    cases m with
    | ctype neg c => cases neg <;> exact hc
    | _ => exact hc
  have e2 : modFields r' = overrideDoc R := by
    rw [e']
    exact applyMod_carried px.ext R m hc'
  rw [higher_modFields r' r, higher_modFields r r', e, e2]
  exact ⟨c07_irrefl _, c07_irrefl _⟩

/-- `,domain=…` written AGAIN on a rule that already has `$domain` (the later modifier replaces the earlier one):
    the count is unchanged, generic/specific is decided anew — strictly higher iff the rule was generic (only
    excluded domains) and the new list has a permitted domain, strictly lower iff it was specific and the new
    list has none, a tie otherwise (in particular for the same values). -/
theorem c07_text_domain_again_iff (px : E.ParseExt) (wl : Bool) (pat : Bytes) (xs : List XMod)
    (vs : List (Bool × Bytes)) (id id' : Int)
    (r r' : NetRule) (hp : patOK pat = true) (hm : ∀ x ∈ xs ++ [.base (.domain vs)], x.valsOK = true)
    (h : E.parseNetRule px (renderX wl pat xs) id = .ok r)
    (h' : E.parseNetRule px (renderX wl pat (xs ++ [.base (.domain vs)])) id' = .ok r')
    (hhas : r.permDomains ≠ [] ∨ r.restrDomains ≠ []) :
    isHigherPriority r' r = (r.isGeneric && !(posVals vs).isEmpty) ∧
    isHigherPriority r r' = (!r.isGeneric && (posVals vs).isEmpty) := by
  obtain ⟨R, _, e, e'⟩ := append_x hp hm h h'
  have hne : vs ≠ [] := by
    have := hm (.base (.domain vs)) (List.mem_append_right _ List.mem_cons_self)
    simp only [XMod.valsOK, Mod.valsOK, Bool.and_eq_true, Bool.not_eq_true', List.isEmpty_eq_false_iff] at this
    exact this.1
  have e2 : modFields r' = { overrideDoc R with permDomains := posVals vs, restrDomains := negVals vs } := by
    rw [e']
    exact overrideDoc_domains R _ _
  have hpd : r.permDomains = (overrideDoc R).permDomains := by
    have := congrArg NetRule.permDomains e; exact this
  have hrd : r.restrDomains = (overrideDoc R).restrDomains := by
    have := congrArg NetRule.restrDomains e; exact this
  have hgen : r.isGeneric = (overrideDoc R).isGeneric := by unfold NetRule.isGeneric; rw [hpd]
  rw [hpd, hrd] at hhas
  have hcount : modifierCount ({ overrideDoc R with permDomains := posVals vs, restrDomains := negVals vs } : NetRule) =
      modifierCount (overrideDoc R) := by
    unfold modifierCount
    simp only
    have h1 := posNeg_ne_zero vs hne
    have h2 : ((overrideDoc R).permDomains.length != 0 || (overrideDoc R).restrDomains.length != 0) = true := by
      rcases hhas with hh | hh
      · have : (overrideDoc R).permDomains.length ≠ 0 := fun h0 => hh (List.eq_nil_of_length_eq_zero h0)
        simp [this]
      · have : (overrideDoc R).restrDomains.length ≠ 0 := fun h0 => hh (List.eq_nil_of_length_eq_zero h0)
        simp [this]
    rw [h1, h2]
  rw [higher_modFields r' r, higher_modFields r r', e, e2, hgen]
  constructor
  · exact higher_of_generic _ _ rfl rfl hcount
  · rw [higher_of_generic (overrideDoc R)
      { overrideDoc R with permDomains := posVals vs, restrDomains := negVals vs } rfl rfl hcount.symm]
    show ((posVals vs).isEmpty && !(overrideDoc R).isGeneric) = _
    rw [Bool.and_comm]

/-- `$dnstype=` / `$ctag=` / `$client=` / `$denyallow=` written AGAIN on a rule that already counts that
    modifier: the later list replaces the earlier one and the count is unchanged — TIE.  (No hypothesis about
    the `$dnstype` names: a text that parses has only known ones, `parseX_dnstype_known`.) -/
theorem c07_text_list_again_tie (px : E.ParseExt) (wl : Bool) (pat : Bytes) (xs : List XMod) (k : ListKind)
    (vs : List (Bool × Bytes)) (id id' : Int)
    (r r' : NetRule) (hp : patOK pat = true) (hm : ∀ x ∈ xs ++ [.base (k.mod vs)], x.valsOK = true)
    (h : E.parseNetRule px (renderX wl pat xs) id = .ok r)
    (h' : E.parseNetRule px (renderX wl pat (xs ++ [.base (k.mod vs)])) id' = .ok r')
    (hk : k ≠ .domain)
    (hhas : match k with
      | .domain => True
      | .denyallow => r.denyallow ≠ []
      | .dnstype => r.permDns ≠ [] ∨ r.restrDns ≠ []
      | .ctag => r.permTags ≠ [] ∨ r.restrTags ≠ []
      | .client => Clients.len r.permClients ≠ 0 ∨ Clients.len r.restrClients ≠ 0) :
    isHigherPriority r' r = false ∧ isHigherPriority r r' = false := by
  obtain ⟨R, _, e, e'⟩ := append_x hp hm h h'
  have hvals := hm (.base (k.mod vs)) (List.mem_append_right _ List.mem_cons_self)
  have hne : vs ≠ [] := ListKind.mod_ne hvals
  rw [higher_modFields r' r, higher_modFields r r', e]
  cases k with
  | domain => exact absurd rfl hk
  | denyallow =>
    have e2 : modFields r' = { overrideDoc R with denyallow := vs.map (·.2) } := by
      rw [e']; exact overrideDoc_denyallow R _
    have h1 : (overrideDoc R).denyallow ≠ [] := by
      have := congrArg NetRule.denyallow e
      rw [← this]; exact hhas
    rw [e2]
    exact tie_of_pkey (pkey_denyallow _ _ h1 (map_ne_nil _ hne))
  | dnstype =>
    have e2 := e'.trans (overrideDoc_dns R ((posVals vs).filterMap dnsTypeNumber) ((negVals vs).filterMap dnsTypeNumber))
    have h1 : (overrideDoc R).permDns ≠ [] ∨ (overrideDoc R).restrDns ≠ [] := by
      have a := congrArg NetRule.permDns e
      have b := congrArg NetRule.restrDns e
      rw [← a, ← b]; exact hhas
    have h2 : (posVals vs).filterMap dnsTypeNumber ≠ [] ∨ (negVals vs).filterMap dnsTypeNumber ≠ [] :=
      ne_of_flag2 (dns_flag_of_known vs hne (parseX_dnstype_known (post := []) hp hm h'))
    rw [e2]
    exact tie_of_pkey (pkey_dns _ _ _ h1 h2)
  | ctag =>
    have e2 : modFields r' = { overrideDoc R with permTags := sortB (posVals vs), restrTags := sortB (negVals vs) } := by
      rw [e']; exact overrideDoc_tags R _ _
    have h1 : (overrideDoc R).permTags ≠ [] ∨ (overrideDoc R).restrTags ≠ [] := by
      have a := congrArg NetRule.permTags e
      have b := congrArg NetRule.restrTags e
      rw [← a, ← b]; exact hhas
    have h2 : sortB (posVals vs) ≠ [] ∨ sortB (negVals vs) ≠ [] := by
      have hl := pos_neg_length vs
      have l1 := sortB_length (posVals vs)
      have l2 := sortB_length (negVals vs)
      have : vs.length ≠ 0 := fun h0 => hne (List.eq_nil_of_length_eq_zero h0)
      by_cases hp0 : sortB (posVals vs) = []
      · right
        intro hn
        rw [hp0] at l1; rw [hn] at l2
        simp at l1 l2; omega
      · exact .inl hp0
    rw [e2]
    exact tie_of_pkey (pkey_tags _ _ _ h1 h2)
  | client =>
    have e2 := e'.trans (overrideDoc_clients R (clientsOf px.ext (posVals vs)) (clientsOf px.ext (negVals vs)))
    have h1 : (Clients.len (overrideDoc R).permClients != 0 || Clients.len (overrideDoc R).restrClients != 0) = true := by
      have a : r.permClients = (overrideDoc R).permClients := by
        have := congrArg NetRule.permClients e; exact this
      have b : r.restrClients = (overrideDoc R).restrClients := by
        have := congrArg NetRule.restrClients e; exact this
      rw [← a, ← b]
      rcases hhas with hh | hh
      · simp [hh]
      · simp [hh]
    have h2 : (Clients.len (clientsOf px.ext (posVals vs)) != 0 || Clients.len (clientsOf px.ext (negVals vs)) != 0) = true := by
      rw [clientsOf_len, clientsOf_len]
      exact posNeg_ne_zero vs hne
    rw [e2]
    exact tie_of_pkey (pkey_clients _ _ _ h1 h2)

/-- `c07_text_dnstype` (Props/C07Text.lean) WITHOUT its hypothesis `hknown`: `,dnstype=…` on a rule without
    `$dnstype` is strictly higher — a text that parses has only known record-type names, so the modifier is
    always counted. -/
theorem c07_text_dnstype_any (px : E.ParseExt) (wl : Bool) (pat : Bytes) (ms : List Mod) (vs : List (Bool × Bytes))
    (id id' : Int) (r r' : NetRule) (hp : patOK pat = true) (hm : ∀ x ∈ ms ++ [.dnstype vs], x.valsOK = true)
    (h : E.parseNetRule px (render wl pat ms) id = .ok r)
    (h' : E.parseNetRule px (render wl pat (ms ++ [.dnstype vs])) id' = .ok r')
    (hno : r.permDns = [] ∧ r.restrDns = []) : isHigherPriority r' r = true := by
  refine c07_text_dnstype px wl pat ms vs id id' r r' hp hm h h' hno ?_
  have hx : renderX wl pat (ms.map .base ++ .base (.dnstype vs) :: []) = render wl pat (ms ++ [.dnstype vs]) := by
    rw [← renderX_base]; simp
  have h'' : E.parseNetRule px (renderX wl pat (ms.map .base ++ .base (.dnstype vs) :: [])) id' = .ok r' := by
    rw [hx]; exact h'
  have hmX : ∀ y ∈ ms.map XMod.base ++ .base (.dnstype vs) :: [], y.valsOK = true := by
    intro y hy
    rcases List.mem_append.1 hy with hy | hy
    · obtain ⟨m, hm', rfl⟩ := List.mem_map.1 hy
      exact hm m (List.mem_append_left _ hm')
    · rcases List.mem_cons.1 hy with rfl | hy
      · exact hm _ (List.mem_append_right _ List.mem_cons_self)
      · cases hy
  have hne : vs ≠ [] := by
    have := hm (.dnstype vs) (List.mem_append_right _ List.mem_cons_self)
    simp only [Mod.valsOK, Bool.and_eq_true, Bool.not_eq_true', List.isEmpty_eq_false_iff] at this
    exact this.1
  have flag := dns_flag_of_known vs hne (parseX_dnstype_known hp hmX h'')
  obtain ⟨R, _, _, e'⟩ := append_mod' hp hm h h'
  have e2 := e'.trans (overrideDoc_dns R ((posVals vs).filterMap dnsTypeNumber) ((negVals vs).filterMap dnsTypeNumber))
  have a : r'.permDns = (posVals vs).filterMap dnsTypeNumber := by
    have := congrArg NetRule.permDns e2; exact this
  have b : r'.restrDns = (negVals vs).filterMap dnsTypeNumber := by
    have := congrArg NetRule.restrDns e2; exact this
  rw [a, b]
  exact ne_of_flag2 flag

/-- ONE MORE VALUE in a list-valued modifier.  The modifier `k.mod (a ++ b)` stands anywhere in the text (between
    `pre` and `post`); the new text has the value `v` inserted anywhere in its list (`a ++ v :: b`).  The two
    rules TIE — with one exception: a first PERMITTED `$domain` value added to a `$domain` modifier that had only
    excluded values and is not overwritten by a later `$domain` turns a generic rule into a specific one, which
    is strictly higher.  Adding a value never lowers the priority. -/
theorem c07_text_add_value_iff (px : E.ParseExt) (wl : Bool) (pat : Bytes) (pre post : List XMod) (k : ListKind)
    (a b : List (Bool × Bytes)) (v : Bool × Bytes) (id id' : Int)
    (r r' : NetRule) (hp : patOK pat = true)
    (hm : ∀ x ∈ pre ++ .base (k.mod (a ++ b)) :: post, x.valsOK = true)
    (hm' : ∀ x ∈ pre ++ .base (k.mod (a ++ v :: b)) :: post, x.valsOK = true)
    (h : E.parseNetRule px (renderX wl pat (pre ++ .base (k.mod (a ++ b)) :: post)) id = .ok r)
    (h' : E.parseNetRule px (renderX wl pat (pre ++ .base (k.mod (a ++ v :: b)) :: post)) id' = .ok r') :
    isHigherPriority r' r =
      (decide (k = .domain) && (posVals (a ++ b)).isEmpty && !v.1 && !post.any XMod.isDomain) ∧
    isHigherPriority r r' = false := by
  have key := c07_text_key px wl wl pat pat _ _ id id' r r' hp hp hm hm' h h'
  have key' := c07_text_key px wl wl pat pat _ _ id' id r' r hp hp hm' hm h' h
  have hne : a ++ b ≠ [] :=
    ListKind.mod_ne (hm (.base (k.mod (a ++ b))) (List.mem_append_right _ List.mem_cons_self))
  have hdns : k = .dnstype → (((posVals (a ++ b)).filterMap dnsTypeNumber).length != 0 ||
      ((negVals (a ++ b)).filterMap dnsTypeNumber).length != 0) = true := by
    intro hk
    subst hk
    exact dns_flag_of_known _ hne (parseX_dnstype_known hp hm h)
  have hS := stepP_add_value (pre.foldl stepP {}) k a b v hne hdns
  have tk : ∀ x, textKey wl (pre ++ x :: post) = keyP wl (post.foldl stepP (stepP (pre.foldl stepP {}) x)) := by
    intro x; unfold textKey; rw [List.foldl_append, List.foldl_cons]
  rw [tk, tk] at key key'
  generalize hSdef : stepP (pre.foldl stepP {}) (.base (k.mod (a ++ b))) = S at hS key key'
  -- the cases in which the two states coincide
  have same : stepP (pre.foldl stepP {}) (.base (k.mod (a ++ v :: b))) = S →
      isHigherPriority r' r = false ∧ isHigherPriority r r' = false := by
    intro hs
    rw [hs] at key key'
    exact ⟨key.trans (decide_eq_false (PKey.gt_irrefl _)), key'.trans (decide_eq_false (PKey.gt_irrefl _))⟩
  by_cases hk : k = .domain
  · subst hk
    simp only [if_true] at hS
    have hspec : S.specific = !(posVals (a ++ b)).isEmpty := by rw [← hSdef]; rfl
    cases hpos : (posVals (a ++ b)).isEmpty with
    | false =>
      rw [hpos] at hS hspec
      have : stepP (pre.foldl stepP {}) (.base (ListKind.domain.mod (a ++ v :: b))) = S := by
        rw [hS]; simp only [Bool.false_and, Bool.not_false]
        rw [show true = S.specific from hspec.symm]
      obtain ⟨t1, t2⟩ := same this
      exact ⟨t1.trans (by simp), t2⟩
    | true =>
      rw [hpos] at hS hspec
      cases hv : v.1 with
      | true =>
        rw [hv] at hS
        have : stepP (pre.foldl stepP {}) (.base (ListKind.domain.mod (a ++ v :: b))) = S := by
          rw [hS]; simp only [Bool.and_self, Bool.not_true]
          rw [show false = S.specific from hspec.symm]
        obtain ⟨t1, t2⟩ := same this
        exact ⟨t1.trans (by simp), t2⟩
      | false =>
        rw [hv] at hS
        simp only [Bool.and_false, Bool.not_false, Bool.not_true] at hS hspec
        have hS0 : S = { S with specific := false } := by rw [← hspec]
        cases hpost : post.any XMod.isDomain with
        | true =>
          have : post.foldl stepP (stepP (pre.foldl stepP {}) (.base (ListKind.domain.mod (a ++ v :: b)))) =
              post.foldl stepP S := by
            rw [hS]; exact foldl_stepP_specific_dom post S true hpost
          rw [this] at key key'
          exact ⟨(key.trans (decide_eq_false (PKey.gt_irrefl _))).trans (by simp),
            key'.trans (decide_eq_false (PKey.gt_irrefl _))⟩
        | false =>
          have f1 : post.foldl stepP (stepP (pre.foldl stepP {}) (.base (ListKind.domain.mod (a ++ v :: b)))) =
              { post.foldl stepP S with specific := true } := by
            rw [hS]; exact foldl_stepP_specific_other post S true hpost
          have f0 : post.foldl stepP S = { post.foldl stepP S with specific := false } := by
            have := foldl_stepP_specific_other post S false hpost
            rw [← hS0] at this
            exact this
          rw [f1] at key key'
          rw [f0] at key key'
          obtain ⟨g1, g2⟩ := keyP_specific_gt wl (post.foldl stepP S)
          exact ⟨(key.trans (decide_eq_true g1)).trans (by simp), key'.trans (decide_eq_false g2)⟩
  · rw [if_neg hk] at hS
    obtain ⟨t1, t2⟩ := same hS
    refine ⟨t1.trans ?_, t2⟩
    have : decide (k = ListKind.domain) = false := decide_eq_false hk
    rw [this]; simp

/-! ### every boundary, machine-checked through the COMPLETE parser model on the texts themselves -/

private def exExt : Ext :=
  { psl := fun _ => (lit "com", true), parsePrefix := fun _ => none, pat := fun _ _ _ => true,
    parseAddr := fun s => if s == lit "1.2.3.4" then some { is4 := true, val := 16909060 } else none }

/-- `(t'.IsHigherPriority(t), t.IsHigherPriority(t'))` for two rule texts, through the complete parser model. -/
private def prio (t' t : String) : Option (Bool × Bool) :=
  match I2.parseNetRuleFull exExt (fun _ => []) (lit t') 1, I2.parseNetRuleFull exExt (fun _ => []) (lit t) 1 with
  | .ok a, .ok b => some (isHigherPriority a b, isHigherPriority b a)
  | _, _ => none

/-- `,document` on a rule without document-only options: 7 content types LOWER (the review's witness), 6 a tie,
    5 higher (`c07_text_document_plain`). -/
example : prio "@@||e.com^$script,image,media,font,other,ping,websocket,document"
    "@@||e.com^$script,image,media,font,other,ping,websocket" = some (false, true) := by decide +kernel
example : prio "@@||e.com^$script,image,media,font,other,ping,document"
    "@@||e.com^$script,image,media,font,other,ping" = some (false, false) := by decide +kernel
example : prio "@@||e.com^$script,image,media,font,other,document"
    "@@||e.com^$script,image,media,font,other" = some (true, false) := by decide +kernel
example : prio "@@||e.com^$document" "@@||e.com^" = some (true, false) := by decide +kernel

/-- `,document` on a document-only rule: higher unless all five bits are there (`c07_text_document_on_doc`). -/
example : prio "@@||e.com^$elemhide,document" "@@||e.com^$elemhide" = some (true, false) := by decide +kernel
example : prio "@@||e.com^$document,document" "@@||e.com^$document" = some (false, false) := by decide +kernel
example : prio "@@||e.com^$elemhide,jsinject,urlblock,content,extension,document"
    "@@||e.com^$elemhide,jsinject,urlblock,content,extension" = some (false, false) := by decide +kernel
/-- … and with four of the five bits plus three content types: n + d = 1 + 4 < 6, higher. -/
example : prio "@@||e.com^$script,image,media,elemhide,jsinject,urlblock,content,document"
    "@@||e.com^$script,image,media,elemhide,jsinject,urlblock,content" = some (true, false) := by decide +kernel

/-- `,~extension` (`c07_text_not_extension_iff`): REMOVES the bit of `$document` — lower (the review's witness);
    on a rule without `extension` it SETS the bit (0 / 2 / 3 content types: higher / tie / lower). -/
example : prio "@@||e.com^$document,~extension" "@@||e.com^$document" = some (false, true) := by decide +kernel
example : prio "@@||e.com^$elemhide,extension,~extension" "@@||e.com^$elemhide,extension" = some (false, true) := by
  decide +kernel
example : prio "@@||e.com^$~extension" "@@||e.com^" = some (true, false) := by decide +kernel
example : prio "@@||e.com^$script,image,~extension" "@@||e.com^$script,image" = some (false, false) := by
  decide +kernel
example : prio "@@||e.com^$script,image,media,~extension" "@@||e.com^$script,image,media" = some (false, true) := by
  decide +kernel
/-- `extension` was the only document-only option: the written content types come back (3 / 2 / 1 / 0 of them:
    higher / tie / lower / lower). -/
example : prio "@@||e.com^$script,image,media,extension,~extension" "@@||e.com^$script,image,media,extension" =
    some (true, false) := by decide +kernel
example : prio "@@||e.com^$script,image,extension,~extension" "@@||e.com^$script,image,extension" =
    some (false, false) := by decide +kernel
example : prio "@@||e.com^$script,extension,~extension" "@@||e.com^$script,extension" = some (false, true) := by
  decide +kernel
example : prio "@@||e.com^$extension,~extension" "@@||e.com^$extension" = some (false, true) := by decide +kernel

/-- A repeated bare modifier: tie (`c07_text_repeat_tie`). -/
example : prio "||e.com^$important,important" "||e.com^$important" = some (false, false) := by decide +kernel
example : prio "||e.com^$script,image,script" "||e.com^$script,image" = some (false, false) := by decide +kernel
example : prio "||e.com^$~script,~script" "||e.com^$~script" = some (false, false) := by decide +kernel
example : prio "||e.com^$third-party,~first-party" "||e.com^$third-party" = some (false, false) := by decide +kernel
example : prio "||e.com^$~third-party,first-party" "||e.com^$~third-party" = some (false, false) := by decide +kernel
example : prio "||e.com^$~match-case,~match-case" "||e.com^$~match-case" = some (false, false) := by decide +kernel

/-- A list-valued modifier written again (`c07_text_domain_again_iff`, `c07_text_list_again_tie`). -/
example : prio "||e.com^$domain=a.com,domain=a.com" "||e.com^$domain=a.com" = some (false, false) := by decide +kernel
example : prio "||e.com^$domain=~a.com,domain=b.com" "||e.com^$domain=~a.com" = some (true, false) := by decide +kernel
example : prio "||e.com^$domain=a.com,domain=~b.com" "||e.com^$domain=a.com" = some (false, true) := by decide +kernel
example : prio "||e.com^$ctag=x,ctag=y|z" "||e.com^$ctag=x" = some (false, false) := by decide +kernel
example : prio "||e.com^$denyallow=a.com,denyallow=b.com" "||e.com^$denyallow=a.com" = some (false, false) := by
  decide +kernel
example : prio "||e.com^$dnstype=A,dnstype=~AAAA" "||e.com^$dnstype=A" = some (false, false) := by decide +kernel
example : prio "||e.com^$client=pc,client=1.2.3.4" "||e.com^$client=pc" = some (false, false) := by decide +kernel

/-- One more value (`c07_text_add_value_iff`): tie (the review's witness), except generic → specific; a later
    `$domain` erases the difference; the modifier need not be the last one. -/
example : prio "||e.com^$domain=a.com|b.com" "||e.com^$domain=a.com" = some (false, false) := by decide +kernel
example : prio "||e.com^$domain=a.com|~b.com" "||e.com^$domain=a.com" = some (false, false) := by decide +kernel
example : prio "||e.com^$domain=~a.com|b.com" "||e.com^$domain=~a.com" = some (true, false) := by decide +kernel
example : prio "||e.com^$domain=b.com|~a.com,script" "||e.com^$domain=~a.com,script" = some (true, false) := by
  decide +kernel
example : prio "||e.com^$domain=~a.com|b.com,domain=c.com" "||e.com^$domain=~a.com,domain=c.com" =
    some (false, false) := by decide +kernel
example : prio "||e.com^$ctag=x|y,image" "||e.com^$ctag=x,image" = some (false, false) := by decide +kernel
example : prio "||e.com^$denyallow=a.com|b.com" "||e.com^$denyallow=a.com" = some (false, false) := by decide +kernel
example : prio "||e.com^$dnstype=A|AAAA" "||e.com^$dnstype=A" = some (false, false) := by decide +kernel
example : prio "||e.com^$client=pc|1.2.3.4" "||e.com^$client=pc" = some (false, false) := by decide +kernel

/-- The key of a text (`c07_text_key`), computed without any parser: `$script,…,websocket` (7 modifiers) against
    the same with `,document` (5 option bits + `document` = 6); a modifier inserted at a NON-FINAL position
    (`popup` in front of three content types: 2 against 3). -/
example :
    (textKey true ((CType.all.take 7).map (fun c => .base (.ctype false c)))).count = 7 ∧
    (textKey true ((CType.all.take 7).map (fun c => .base (.ctype false c)) ++ [.base .document])).count = 6 ∧
    (textKey false [.base (.opt .popup), .base (.ctype false .script), .base (.ctype false .image),
      .base (.ctype false .media)]).count = 2 ∧
    (textKey false [.base (.ctype false .script), .base (.ctype false .image), .base (.ctype false .media)]).count = 3 ∧
    (textKey true [.base .document, .notExtension]).count = 5 ∧
    (textKey false [.base (.domain [(true, lit "a.com")])]).specific = 0 ∧
    (textKey false [.base (.domain [(true, lit "a.com"), (false, lit "b.com")])]).specific = 1 := by decide

/-- The hypotheses are satisfiable: the review's texts are renderings of the extended grammar, the pattern and
    the values are in the domain of the theorems, and `carriedBy` / `ListKind.mod` say what they should. -/
example :
    renderX true (lit "||e.com^") [.base .document, .notExtension] = lit "@@||e.com^$document,~extension" ∧
    renderX true (lit "||e.com^") [.base .document] = lit "@@||e.com^$document" ∧
    renderX false (lit "||e.com^") ([] ++ .base (ListKind.domain.mod ([(false, lit "a.com")] ++ (false, lit "b.com") :: [])) :: []) =
      lit "||e.com^$domain=a.com|b.com" ∧
    renderX false (lit "||e.com^") ([] ++ .base (ListKind.domain.mod ([(false, lit "a.com")] ++ [])) :: []) =
      lit "||e.com^$domain=a.com" ∧
    patOK (lit "||e.com^") = true ∧
    (∀ x ∈ [XMod.base .document, .notExtension], x.valsOK = true) ∧
    (XMod.base (ListKind.domain.mod [(false, lit "a.com"), (false, lit "b.com")])).valsOK = true ∧
    (XMod.base (ListKind.denyallow.mod [(false, lit "a.com")])).valsOK = true := by decide

end UF.C07
